package main

import (
	"golang.org/x/tools/go/ssa"
)

// R35.7: the two directions of the account-index mapping classify tx.Access
// entries alike.
//
// Found by an independent audit of C35 on the pinned tree (a genuine defect,
// recorded as a KNOWN FINDING: the repair changes program evaluation outcomes
// under the current consensus version, see DESIGN §7). AddressByIndex accepts an
// Access entry as an account only if `!rr.Address.IsZero()`: every other kind
// of ResourceRef (asset, app, holding, locals, box, empty) has a zero Address.
// IndexByAddress, its inverse, searches tx.Access with `rr.Address == target`
// and nothing else, so the ZERO address "is found" at the first non-address
// entry of practically any Access list: availableAccount then lets a v9+ program
// read balance / min_balance / acct_params_get of, and send inner payments to,
// the zero address although no transaction of the group names it — with the
// foreign-array form of the same call it is refused ("unavailable Account").
func init() {
	extend("C35", Extension{
		Run:         ruleAccessEntriesClassifiedAlike,
		Explanation: "R35.7 (an Access entry counts as an account in both directions or in neither): ApplicationCallTxnFields.AddressByIndex accepts tx.Access[i] as an account only when its Address is non-zero (Address.IsZero() test on the entry, error edge); IndexByAddress, which availableAccount uses to decide whether a program may touch an address, applies the same test to the entries it matches (an IsZero() test of the entry's Address, or of the target, inside the function or its search predicate). KNOWN FINDING on the pinned tree: IndexByAddress only compares rr.Address == target, so the zero address matches the first asset/app/holding/locals/box entry and becomes available to the program.",
		Floor:       map[string]int{"R35.7": 2},
		Patterns:    []string{"./data/transactions"},
	})
}

func ruleAccessEntriesClassifiedAlike(c *Ctx) {
	const rule = "R35.7"
	isZero := c.Func("data/basics.Address.IsZero")
	fRRAddr := c.Field("data/transactions.ResourceRef.Address")
	hasClassifier := func(fn *ssa.Function) bool {
		for _, f := range withAnon(fn) {
			for _, call := range CallsTo(f, true, isZero) {
				a := callArgs(call.Common())
				if len(a) == 0 {
					continue
				}
				if Mentions(a[0], fRRAddr, 5) {
					return true
				}
				// or the searched address itself (a parameter of the outer function, possibly captured)
				found := false
				walkDef(a[0], 5, func(x ssa.Value) bool {
					switch y := x.(type) {
					case *ssa.Parameter:
						if y.Parent() == fn && y.Name() != "sender" {
							found = true
						}
					case *ssa.FreeVar:
						found = true
					}
					return !found
				})
				if found {
					return true
				}
			}
		}
		return false
	}
	byIdx := c.Fn("data/transactions.ApplicationCallTxnFields.AddressByIndex")
	byAddr := c.Fn("data/transactions.ApplicationCallTxnFields.IndexByAddress")
	if !c.Check(hasClassifier(byIdx), rule, "data/transactions.ApplicationCallTxnFields.AddressByIndex:Access entry is an account iff Address non-zero", c.Pos(byIdx.Pos()),
		"AddressByIndex tests Address.IsZero() of the Access entry it resolves") {
		return
	}
	c.Check(hasClassifier(byAddr), rule, "data/transactions.ApplicationCallTxnFields.IndexByAddress:Access entry is an account iff Address non-zero", c.Pos(byAddr.Pos()),
		"IndexByAddress applies the Address.IsZero() classification of AddressByIndex to the Access entries it matches (or to the address it searches)")
}
