package main

import (
	"go/token"
	"go/types"

	"golang.org/x/tools/go/ssa"
)

// R37.5 / R37.6 / R39.7 (after seeds C37-2 and C39-2).
func init() {
	extend("C37", Extension{
		Run: func(c *Ctx) {
			rulePositionsPreserved(c)
			ruleVerifyPathConsumesAllHints(c, "R37.6")
		},
		Explanation: "R37.5 (Prove does not damage the caller's list of positions): the idxs slice handed to Tree.Prove, and every slice sharing its array, is only read, re-sliced, sorted or passed on — no element store, and among library functions only the read-only and permuting ones of slices/sort (Sort, SortFunc, IsSorted, BinarySearch, Contains, Index, Clone, Equal, Reverse, …); callees inside the package are followed (createProof, convertLeavesIndexes). slices.Compact/Delete/Insert/Replace rewrite or zero elements in place, so a list with a repeated position would come back naming position 0, and the next proof or the verifier's element map built from it no longer matches. R37.6 (a proof with surplus path digests is rejected): in verifyPath the root comparison (inspectRoot) is reachable only through the edge on which len(s.hints)==0, i.e. after every supplied sibling digest has been consumed by the climb.",
		Floor:       map[string]int{"R37.5": 3, "R37.6": 1},
	})
	extend("C39", Extension{
		Run:         func(c *Ctx) { ruleVerifyPathConsumesAllHints(c, "R39.7") },
		Explanation: "R39.7 (a tampered reveal or signature path is not accepted because its tail is ignored): same obligation as R37.6 — merklearray.verifyPath, which stands behind every Verify/VerifyVectorCommitment call of the state-proof verifier and of merklesignature, reaches the root comparison only once all digests of proof.Path have been consumed; SingleLeafProof's fixed-length representation hashes only the first TreeDepth digests, so a verifier that stops climbing at TreeDepth would accept a signature slot whose proof carries extra data under an unchanged commitment.",
		Floor:       map[string]int{"R39.7": 1},
	})
}

func ruleVerifyPathConsumesAllHints(c *Ctx, rule string) {
	const spec = "crypto/merklearray.verifyPath"
	fn := c.Fn(spec)
	inspect := c.Func("crypto/merklearray.inspectRoot")
	fHints := c.Field("crypto/merklearray.siblings.hints")
	var eff []ssa.Instruction
	for _, call := range CallsTo(fn, false, inspect) {
		eff = append(eff, call)
	}
	lenHints := func(v ssa.Value) bool {
		x, ok := lenOf(strip(v))
		return ok && Mentions(x, fHints, 4)
	}
	g := Guard{Name: "len(s.hints) == 0", Match: func(cond ssa.Value) (bool, bool) {
		bo, ok := cond.(*ssa.BinOp)
		if !ok {
			return false, false
		}
		op := bo.Op
		switch {
		case lenHints(bo.X) && IsConstInt(0)(bo.Y):
		case lenHints(bo.Y) && IsConstInt(0)(bo.X):
			op = mirrorOp(op)
		default:
			return false, false
		}
		switch op {
		case token.GTR, token.NEQ:
			return true, false
		case token.EQL, token.LEQ:
			return true, true
		}
		return false, false
	}}
	c.fMustGuard(fGuardSpec{Rule: rule, Fn: fn, Effects: eff, EffName: "inspectRoot(root, pl)", Guard: g})
}

// ---------------------------------------------------------------------------

var sliceReadOnlyOrPermuting = map[string]map[string]bool{
	"slices": {"Sort": true, "SortFunc": true, "SortStableFunc": true, "IsSorted": true, "IsSortedFunc": true,
		"BinarySearch": true, "BinarySearchFunc": true, "Contains": true, "ContainsFunc": true, "Index": true, "IndexFunc": true,
		"Clone": true, "Equal": true, "EqualFunc": true, "Compare": true, "CompareFunc": true, "Max": true, "Min": true, "MaxFunc": true, "MinFunc": true,
		"Reverse": true, "Clip": true, "Grow": true, "All": true, "Values": true},
	"sort": {"Slice": true, "SliceStable": true, "SliceIsSorted": true, "Sort": true, "Stable": true, "IsSorted": true},
	"fmt":  {"Errorf": true, "Sprintf": true},
}

func rulePositionsPreserved(c *Ctx) {
	const rule = "R37.5"
	const spec = "crypto/merklearray.Tree.Prove"
	fn := c.Fn(spec)
	if len(fn.Params) < 2 {
		c.Unk(rule, spec, c.Pos(fn.Pos()), "unexpected signature")
		return
	}
	n := c.sliceParamPreserved(rule, fn, fn.Params[1], 3, map[*ssa.Function]bool{})
	if n == 0 {
		c.Unk(rule, spec+":uses of idxs", c.Pos(fn.Pos()), "no use of the positions slice found")
	}
}

// sliceParamPreserved records one obligation per function examined: the slice
// parameter p (and everything sharing its array) keeps its multiset of elements.
func (c *Ctx) sliceParamPreserved(rule string, fn *ssa.Function, p *ssa.Parameter, depth int, busy map[*ssa.Function]bool) int {
	if busy[fn] {
		return 0
	}
	busy[fn] = true
	name := fnName(fn)
	// aliases: p, phis of aliases, re-slices of aliases
	alias := map[ssa.Value]bool{p: true}
	for changed := true; changed; {
		changed = false
		for _, b := range fn.Blocks {
			for _, in := range b.Instrs {
				v, isV := in.(ssa.Value)
				if !isV || alias[v] {
					continue
				}
				switch x := in.(type) {
				case *ssa.Phi:
					for _, e := range x.Edges {
						if alias[e] {
							alias[v] = true
							changed = true
						}
					}
				case *ssa.Slice:
					if alias[x.X] {
						alias[v] = true
						changed = true
					}
				case *ssa.ChangeType:
					if alias[x.X] {
						alias[v] = true
						changed = true
					}
				}
			}
		}
	}
	ok := true
	why := ""
	total := 1
	for _, b := range fn.Blocks {
		for _, in := range b.Instrs {
			switch x := in.(type) {
			case *ssa.Store:
				if ia, isIA := x.Addr.(*ssa.IndexAddr); isIA && alias[ia.X] {
					ok = false
					why = "an element of the positions slice is overwritten at " + c.Pos(x.Pos())
				}
			case ssa.CallInstruction:
				cc := x.Common()
				for i, a := range cc.Args {
					if !alias[a] {
						continue
					}
					if bi, isB := cc.Value.(*ssa.Builtin); isB {
						switch bi.Name() {
						case "len", "cap", "append":
						case "copy":
							if i == 0 {
								ok = false
								why = "copy() into the positions slice at " + c.Pos(x.Pos())
							}
						default:
							ok = false
							why = "builtin " + bi.Name() + " applied to the positions slice"
						}
						continue
					}
					callee := calleeOf(cc)
					if callee == nil {
						ok = false
						why = "the positions slice is passed to a dynamically dispatched call at " + c.Pos(x.Pos())
						continue
					}
					if callee.Pkg() != nil && !inModule(callee.Pkg().Path()) {
						if !sliceReadOnlyOrPermuting[callee.Pkg().Path()][callee.Name()] {
							ok = false
							why = callee.Pkg().Path() + "." + callee.Name() + " may rewrite or zero elements of the caller's slice in place"
						}
						continue
					}
					sf := cc.StaticCallee()
					if sf == nil || len(sf.Blocks) == 0 {
						ok = false
						why = "the positions slice is passed to " + callee.Name() + ", which has no body to inspect"
						continue
					}
					idx := i
					if depth > 0 && idx < len(sf.Params) {
						total += c.sliceParamPreserved(rule, sf, sf.Params[idx], depth-1, busy)
					}
				}
			}
		}
	}
	_ = types.Typ
	c.Check(ok, rule, name+":positions slice ("+p.Name()+") only read, re-sliced, sorted or passed on", c.Pos(fn.Pos()), "no element of the slice is overwritten and no library function that rewrites elements in place receives it"+sfx(why))
	return total
}
