package main

import (
	"go/token"

	"golang.org/x/tools/go/ssa"
)

// R35.6 (after seed C35-2): the version that decides which sharing regime an
// inner app call is checked under (and whether it may be called at all) is the
// version of the program that will RUN. For an existing app that is the
// program in the ledger; the programs carried by the inner transaction are
// replacements (UpdateApplication) and only run when the call creates the app
// (ApplicationID == 0).
func init() {
	extend("C35", Extension{
		Run:         ruleCalledVersionFromRunningProgram,
		Explanation: "R35.6 (an inner call is checked under the callee's running version): in opItxnSubmit every program handed to transactions.ProgramVersion is either a program of the AppParams returned by cx.Ledger.AppParams, or a program field of the inner transaction itself that reaches the call only through the ApplicationID == 0 side of a test of that transaction's ApplicationID (app creation); a v9+ replacement program carried by an inner UpdateApplication would otherwise lend its version to a v6–v8 callee, and allowsApplicationCall would skip the holding/locals cross-product checks that pre-sharing callees rely on.",
		Floor:       map[string]int{"R35.6": 2},
	})
}

// reachesWithout reports whether to is reachable from from without entering avoid.
func reachesWithout(from, to, avoid *ssa.BasicBlock) bool {
	seen := map[*ssa.BasicBlock]bool{avoid: true}
	work := []*ssa.BasicBlock{from}
	for len(work) > 0 {
		x := work[0]
		work = work[1:]
		if seen[x] {
			continue
		}
		seen[x] = true
		if x == to {
			return true
		}
		work = append(work, x.Succs...)
	}
	return false
}

// leafArrivesVia: does the value of leaf l reach its use through successor k of block ifb?
func leafArrivesVia(ifb *ssa.BasicBlock, k int, l kdLeaf) bool {
	s := ifb.Succs[k]
	if l.blk == ifb {
		return l.to != nil && s == l.to
	}
	return s == l.blk || reachesWithout(s, l.blk, ifb)
}

func ruleCalledVersionFromRunningProgram(c *Ctx) {
	const rule = "R35.6"
	const spec = "data/transactions/logic.opItxnSubmit"
	fn := c.Fn(spec)
	progVersion := c.Func("data/transactions.ProgramVersion")
	fTxnApproval := c.Field("data/transactions.ApplicationCallTxnFields.ApprovalProgram")
	fTxnClear := c.Field("data/transactions.ApplicationCallTxnFields.ClearStateProgram")
	fAppID := c.Field("data/transactions.ApplicationCallTxnFields.ApplicationID")
	appParams := c.Func("data/transactions/logic.LedgerForLogic.AppParams")
	calls := CallsTo(fn, false, progVersion)
	if len(calls) == 0 {
		c.Unk(rule, spec+":ProgramVersion", c.Pos(fn.Pos()), "no ProgramVersion call found")
		return
	}
	// tests of the inner transaction's ApplicationID against 0
	type idTest struct {
		b       *ssa.BasicBlock
		zeroIdx int
	}
	var tests []idTest
	for _, b := range fn.Blocks {
		iff, ok := b.Instrs[len(b.Instrs)-1].(*ssa.If)
		if !ok {
			continue
		}
		bo, ok := iff.Cond.(*ssa.BinOp)
		if !ok || (bo.Op != token.EQL && bo.Op != token.NEQ) {
			continue
		}
		var x ssa.Value
		switch {
		case IsConstInt(0)(bo.Y):
			x = bo.X
		case IsConstInt(0)(bo.X):
			x = bo.Y
		default:
			continue
		}
		if !Mentions(x, fAppID, 4) {
			continue
		}
		z := 0
		if bo.Op == token.NEQ {
			z = 1
		}
		tests = append(tests, idTest{b, z})
	}
	for i, call := range calls {
		site := spec + ":ProgramVersion(program)#" + itoa(i+1)
		arg := callArgs(call.Common())[0]
		leaves := phiLeaves(arg, call.Block())
		ok := true
		why := ""
		nTxn, nLedger := 0, 0
		for _, l := range leaves {
			switch {
			case Mentions(l.v, fTxnApproval, 5) || Mentions(l.v, fTxnClear, 5):
				nTxn++
				// some test of ApplicationID dominates the use and lets this leaf through only on its ==0 side
				good := false
				for _, t := range tests {
					useBlk := l.to
					if useBlk == nil {
						useBlk = l.blk
					}
					if !t.b.Dominates(useBlk) {
						continue
					}
					if leafArrivesVia(t.b, t.zeroIdx, l) && !leafArrivesVia(t.b, 1-t.zeroIdx, l) {
						good = true
					}
				}
				if !good {
					ok = false
					why = "the inner transaction's own program (" + describe(l.v) + ") reaches ProgramVersion on a path where its ApplicationID is not known to be 0"
				}
			case func() bool {
				found := false
				walkDef(l.v, 8, func(x ssa.Value) bool {
					if call, isCall := x.(*ssa.Call); isCall && sameFunc(calleeOf(call.Common()), appParams) {
						found = true
					}
					return !found
				})
				return found
			}():
				nLedger++
			default:
				ok = false
				why = "a program of unrecognised origin: " + describe(l.v)
			}
		}
		if nLedger == 0 {
			ok = false
			why = "no program taken from cx.Ledger.AppParams feeds the version"
		}
		c.Check(ok, rule, site, c.Pos(call.Pos()), itoa(nLedger)+" ledger program(s) and "+itoa(nTxn)+" transaction program(s) feed the version; the transaction's own program only for app creation"+sfx(why))
	}
}
