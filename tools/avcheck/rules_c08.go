package main

import (
	"fmt"
	"go/types"

	"golang.org/x/tools/go/ssa"
)

func init() {
	register(&Prop{
		ID:       "C08",
		Patterns: []string{"./ledger"},
		Run:      runC08,
		Explanation: "Decides the structural conditions that make accountUpdates' answers independent of when the tracker DB was flushed. " +
			"R08.1 (path rule, 14 sites = every call made through au.accountsq in package ledger: lookupKv, lookupKeysByPrefix, LookupKvPairsByPrefix, lookupLatest x2, lookupResource, lookupAssetResources x3, lookupApplicationResources x3, lookupWithoutRewards, getCreatorForRound): " +
			"after the DB call answered (its error edge excluded), every return that may carry a nil error is reached only on paths on which the DB round reported by that very call (PersistedXxx.Round or the Round result, per a frozen per-method table) has been established EQUAL to a value of au.cachedDBRound that was read before the call; " +
			"the relation is tracked per path over {<,==,>} so `==`, `!= -> goto retry`, and the `<`/`>` error/retry split are all understood, a comparison against a cachedDBRound value re-read after the call does not count, and a path ends when the snapshot is re-read (new attempt). " +
			"Tabled variant: LookupLimitedResources also accepts `no rows && round==0` (an empty join reports round 0). A second obligation per site: no read of cachedDBRound used as snapshot is reachable from a release of accountsMu without re-acquiring it (the snapshot belongs to the critical section of the delta walk). " +
			"R08.5 on the same paths, writes into the LRU caches baseAccounts/baseResources/baseKVs (write, writePending, writeNotFoundPending) after a DB call happen only with the equality established. " +
			"R08.3 au.cachedDBRound is assigned only in loadFromDisk and postCommit; in postCommit deltas, deltasAccum, versions and roundTotals are each re-sliced from the same offset value (dcc.offset), cachedDBRound becomes dcc.newBase() (= oldBase+offset), all five between accountsMu.Lock and Unlock. " +
			"R08.4 Ledger.AddValidatedBlock calls trackers.newBlock only after blockQ.putBlock returned nil, for the same block value, after trackerMu.Lock, and a successful putBlock is always followed by newBlock; putBlock and trackerRegistry.newBlock have no other callers (replay excepted). " +
			"Does NOT decide: that the delta walk selects the right value, the lock discipline of au.deltas/accounts/… (lockset rule R08.2 is provided separately), SQL correctness, or that the DB round stored with a row is the round of its transaction.",
		Assumptions: []string{
			"every trackerdb.AccountsReader method reads its rows and the round it reports in one consistent DB snapshot",
			"the per-method round-carrier table in rules_c08.go (which result/field carries the DB round)",
		},
		Floor: map[string]int{"R08.1": 30, "R08.3": 8, "R08.4": 7, "R08.5": 5},
	})
}

// bAUCfg builds the recheck configuration for accountUpdates.
func bAUCfg(c *Ctx, rule, cacheRule string) bRecheckCfg {
	rd := func(m string) *types.Func { return c.Func("ledger/store/trackerdb.AccountsReader." + m).Origin() }
	fld := func(s string) *types.Var { return c.Field("ledger/store/trackerdb." + s) }
	cfg := bRecheckCfg{
		Rule: rule, CacheRule: cacheRule, TrackerName: "accountUpdates",
		Reader:   c.Field("ledger.accountUpdates.accountsq"),
		Snapshot: c.Field("ledger.accountUpdates.cachedDBRound"),
		Mutex:    c.Field("ledger.accountUpdates.accountsMu"),
		Carriers: map[*types.Func]bRoundCarrier{
			rd("LookupAccount"):            {Res: 0, Field: fld("PersistedAccountData.Round")},
			rd("LookupResources"):          {Res: 0, Field: fld("PersistedResourcesData.Round")},
			rd("LookupAllResources"):       {Res: 1},
			rd("LookupLimitedResources"):   {Res: 1},
			rd("LookupKeyValue"):           {Res: 0, Field: fld("PersistedKVData.Round")},
			rd("LookupKeysByPrefix"):       {Res: 0},
			rd("LookupKeysByPrefixCursor"): {Res: 0},
			rd("LookupCreator"):            {Res: 2},
			rd("Close"):                    {Exempt: "-"},
		},
		EmptyZero: map[*types.Func]string{
			rd("LookupLimitedResources"): "the round comes from a join with the resource rows, so an empty page reports round 0; with no DB rows the answer is built from the deltas alone",
		},
	}
	if cacheRule != "" {
		cfg.CacheWrites = c.Funcs(
			"ledger.lruAccounts.writePending", "ledger.lruAccounts.writeNotFoundPending", "ledger.lruAccounts.write",
			"ledger.lruResources.writePending", "ledger.lruResources.writeNotFoundPending", "ledger.lruResources.write",
			"ledger.lruKV.writePending", "ledger.lruKV.write")
	}
	// sanity: the carriers have the types the table claims
	for m, car := range cfg.Carriers {
		if car.Exempt != "" {
			continue
		}
		res := m.Type().(*types.Signature).Results()
		round := c.Named("data/basics.Round")
		ok := car.Res < res.Len()
		if ok {
			t := res.At(car.Res).Type()
			if car.Field != nil {
				ok = types.Identical(car.Field.Type(), round)
				if st, isSt := t.Underlying().(*types.Struct); ok && isSt {
					found := false
					for i := 0; i < st.NumFields(); i++ {
						if st.Field(i) == car.Field {
							found = true
						}
					}
					ok = found
				} else {
					ok = false
				}
			} else {
				ok = types.Identical(t, round)
			}
		}
		if !ok {
			panic(abortRule("round-carrier table does not match the signature of AccountsReader." + m.Name()))
		}
	}
	return cfg
}

func runC08(c *Ctx) {
	ledgerFns := c.funcsOf(Mod + "/ledger")

	// ---- R08.1 / R08.5 ----
	cfg := bAUCfg(c, "R08.1", "R08.5")
	n := c.bRecheck(cfg, ledgerFns)
	if n == 0 {
		c.Unk("R08.1", "ledger.accountUpdates:accountsq-calls", "-", "no call through au.accountsq found")
	}
	// the reader must not be reachable by another route: the field is read only in package ledger functions we scanned
	// (FieldWrites covers writers; readers outside the scanned functions would be calls we did not see)
	c.OwnerRule("R08.1", "write(accountUpdates.accountsq)", c.FieldWrites(map[*types.Var]bool{cfg.Reader: true}, ScanOpts{SkipGenerated: true}),
		map[string]string{"ledger.accountUpdates.initializeFromDisk": "prepared reader created at load", "ledger.accountUpdates.close": "reset on close"})

	// ---- R08.3 ----
	bPostCommitRule(c, "R08.3", "ledger.accountUpdates", "cachedDBRound", "accountsMu",
		[]string{"deltas", "deltasAccum", "versions", "roundTotals"},
		map[string]string{
			"ledger.accountUpdates.loadFromDisk": "initial value: the tracker DB round read at load",
			"ledger.accountUpdates.postCommit":   "advanced together with the trimming of the deltas",
		})

	// ---- R08.4 ----
	{
		avb := c.Fn("ledger.Ledger.AddValidatedBlock")
		putBlock := c.Func("ledger.blockQueue.putBlock")
		newBlock := c.Func("ledger.trackerRegistry.newBlock")
		trackerMu := c.Field("ledger.Ledger.trackerMu")
		puts := CallsTo(avb, false, putBlock)
		news := CallsTo(avb, false, newBlock)
		name := "ledger.Ledger.AddValidatedBlock"
		c.MustGuard(MustGuardSpec{Rule: "R08.4", Fn: avb, Effects: asInstrs(news), EffName: "trackers.newBlock",
			Guards: []Guard{GErrNil("blockQ.putBlock()==nil", func(v ssa.Value) bool { _, ok := asResultOf(bCanon(v), 0, putBlock); return ok })}})
		if len(puts) == 1 && len(news) == 1 {
			// same block value
			a := bCanon(puts[0].Common().Args[1])
			b := bCanon(news[0].Common().Args[1])
			same := a == b
			if !same {
				// both are loads of one private local
				ua, oka := strip(puts[0].Common().Args[1]).(*ssa.UnOp)
				ub, okb := strip(news[0].Common().Args[1]).(*ssa.UnOp)
				same = oka && okb && ua.X == ub.X
				if al, ok := ua.X.(*ssa.Alloc); same && ok {
					same = bAllocPrivate(al) && len(localStores(al)) == 1
				}
			}
			c.Check(same, "R08.4", name+":putBlock.blk==newBlock.blk", c.Pos(news[0].Pos()), "the block enqueued for persistence and the block announced to the trackers are the same value")
			// a successful putBlock is always followed by newBlock
			nonNil, _ := bErrEdges(avb, bErrOf(puts[0]))
			rets := Instrs(avb, func(in ssa.Instruction) bool { _, ok := in.(*ssa.Return); return ok })
			bad := bNoEffectAfter(puts[0], nonNil, func(in ssa.Instruction) bool { return in == ssa.Instruction(news[0]) }, rets)
			c.Check(bad == nil && len(nonNil) > 0, "R08.4", name+":putBlock-ok=>newBlock", c.Pos(puts[0].Pos()), "after blockQ.putBlock succeeded no return is reachable without trackers.newBlock (a queued block the trackers never saw would make lookups lag the block history)")
			// lock ordering
			lock := bMethodOf(trackerMu.Type(), "Lock")
			unlock := bMethodOf(trackerMu.Type(), "Unlock")
			locks := bCallsOnField(avb, trackerMu, lock)
			unlocks := bCallsOnField(avb, trackerMu, unlock)
			okLock := len(locks) > 0 && Dominates(locks[0], puts[0])
			for _, u := range unlocks {
				fr := bReachFrom(u, nil, func(in ssa.Instruction) bool {
					for _, l := range locks {
						if in == l {
							return true
						}
					}
					return false
				})
				if fr.Reaches(puts[0]) || fr.Reaches(news[0]) {
					okLock = false
				}
			}
			c.Check(okLock, "R08.4", name+":trackerMu.Lock-dominates(putBlock,newBlock)", c.Pos(puts[0].Pos()), "trackerMu.Lock() precedes putBlock and newBlock and is not released in between (newBlock is notified before committedUpTo)")
		} else {
			c.Unk("R08.4", name+":putBlock/newBlock", c.Pos(avb.Pos()), fmt.Sprintf("expected one putBlock and one newBlock call, found %d and %d", len(puts), len(news)))
		}
		c.OwnerRule("R08.4", "call(blockQueue.putBlock)", c.Uses([]*types.Func{putBlock}, ScanOpts{SkipGenerated: true}),
			map[string]string{name: "the only producer of the block queue"})
		c.OwnerRule("R08.4", "call(trackerRegistry.newBlock)", c.Uses([]*types.Func{newBlock}, ScanOpts{SkipGenerated: true}),
			map[string]string{name: "after a successful putBlock", "ledger.trackerRegistry.replay": "replay of already persisted blocks at load"})
	}
}

// bPostCommitRule is R08.3 (and its C13 instance): ownership of the cached DB
// round and the pairing of its advance with the trimming of the per-round
// slices in postCommit.
func bPostCommitRule(c *Ctx, rule, typ, roundField, muField string, sliceFields []string, owners map[string]string) {
	fRound := c.Field(typ + "." + roundField)
	c.OwnerRule(rule, "write("+typ+"."+roundField+")", c.FieldWrites(map[*types.Var]bool{fRound: true}, ScanOpts{SkipGenerated: true}), owners)

	pc := c.Fn(typ + ".postCommit")
	name := typ + ".postCommit"
	fOffset := c.Field("ledger.deferredCommitRange.offset")
	fOldBase := c.Field("ledger.deferredCommitRange.oldBase")
	newBase := c.Func("ledger.deferredCommitContext.newBase")
	mu := c.Field(typ + "." + muField)
	lock, unlock := bMethodOf(mu.Type(), "Lock"), bMethodOf(mu.Type(), "Unlock")
	locks := bCallsOnField(pc, mu, lock)
	unlocks := bCallsOnField(pc, mu, unlock)

	underLock := func(st ssa.Instruction) bool {
		ok := false
		for _, l := range locks {
			if Dominates(l, st) {
				ok = true
			}
		}
		for _, u := range unlocks {
			fr := bReachFrom(u, nil, func(in ssa.Instruction) bool {
				for _, l := range locks {
					if in == l {
						return true
					}
				}
				return false
			})
			if fr.Reaches(st) {
				ok = false
			}
		}
		return ok
	}

	var low ssa.Value
	for _, sf := range sliceFields {
		f := c.Field(typ + "." + sf)
		stores := StoresToField(pc, false, map[*types.Var]bool{f: true})
		construct := name + ":" + sf + "=" + sf + "[offset:]"
		if len(stores) != 1 {
			c.Bad(rule, construct, c.Pos(pc.Pos()), fmt.Sprintf("expected exactly one assignment to %s.%s in postCommit (the trim by the committed offset), found %d", typ, sf, len(stores)))
			continue
		}
		st := stores[0].(*ssa.Store)
		l, ok := bSliceFromSelf(st, f)
		if !ok {
			c.Bad(rule, construct, c.Pos(st.Pos()), fmt.Sprintf("%s.%s is not re-sliced from itself with only a low bound: %s", typ, sf, describe(st.Val)))
			continue
		}
		l = strip(l)
		if low == nil {
			low = l
		}
		okOff := l == low && Mentions(l, fOffset, 4)
		okLock := underLock(st)
		detail := "trimmed by the committed offset (dcc.offset), the same value as the other per-round slices, under " + muField + ".Lock"
		if !okOff {
			detail = fmt.Sprintf("the low bound %s is not the shared dcc.offset value used for the other slices: the in-memory rounds would be misaligned with %s", describe(l), roundField)
		} else if !okLock {
			detail = "the trim is not between " + muField + ".Lock() and Unlock()"
		}
		c.Check(okOff && okLock, rule, construct, c.Pos(st.Pos()), detail)
	}
	// the cached round
	rs := StoresToField(pc, false, map[*types.Var]bool{fRound: true})
	construct := name + ":" + roundField + "=dcc.newBase()"
	if len(rs) != 1 {
		c.Bad(rule, construct, c.Pos(pc.Pos()), fmt.Sprintf("expected exactly one assignment to %s in postCommit, found %d", roundField, len(rs)))
	} else {
		st := rs[0].(*ssa.Store)
		_, isNB := asResultOf(bCanon(st.Val), 0, newBase)
		c.Check(isNB && underLock(st), rule, construct, c.Pos(st.Pos()), roundField+" advances to dcc.newBase() under "+muField+".Lock, in the same critical section as the trims")
	}
	// newBase() = oldBase + offset
	nb := c.Fn("ledger.deferredCommitContext.newBase")
	okNB := true
	nret := 0
	for _, b := range nb.Blocks {
		if ret, ok := b.Instrs[len(b.Instrs)-1].(*ssa.Return); ok {
			nret++
			leaves, pure := bAddLeaves(ret.Results[0], nil)
			want := map[ssa.Value]bool{structFieldKey{fOffset}: true, structFieldKey{fOldBase}: true}
			if !pure || !bSameLeaves(leaves, want) {
				okNB = false
			}
		}
	}
	c.Check(okNB && nret > 0, rule, "ledger.deferredCommitContext.newBase:oldBase+offset", c.Pos(nb.Pos()), "newBase() is exactly oldBase + offset, the offset by which postCommit trims")
}
