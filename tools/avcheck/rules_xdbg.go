package main

func init() {
	register(&Prop{ID: "XMR", Patterns: []string{"./ledger/eval"}, Explanation: "debug: map ranges", Run: func(c *Ctx) {
		determinismEval(c, "X20.2")
	}})
}
