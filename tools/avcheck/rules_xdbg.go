package main

func init() {
	register(&Prop{ID: "XMR", Patterns: []string{"./ledger/eval"}, Explanation: "debug: map ranges", Run: func(c *Ctx) {
		determinismEval(c, "X20.2")
	}})
	register(&Prop{ID: "XTA", Patterns: []string{"./data/transactions/logic"}, Explanation: "debug: taint", Run: func(c *Ctx) {
		ruleBoxContentsImmutable(c, "X19.6")
	}})
}
