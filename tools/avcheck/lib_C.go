package main

// Helpers of contributor C (rules C12, C14, C15, C16, C17). Every name is
// prefixed libC to avoid collisions with the shared core.

import (
	"fmt"
	"go/ast"
	"go/constant"
	"go/token"
	"go/types"
	"sort"
	"strings"

	"golang.org/x/tools/go/packages"
	"golang.org/x/tools/go/ssa"
)

// ---------- locals, closures, roots ----------

// libCBinding finds, for a free variable of a function literal, the value
// bound to it at the MakeClosure site(s) in the parent.
func libCBinding(fv *ssa.FreeVar) []ssa.Value {
	fn := fv.Parent()
	idx := -1
	for i, f := range fn.FreeVars {
		if f == fv {
			idx = i
		}
	}
	par := fn.Parent()
	if idx < 0 || par == nil {
		return nil
	}
	var out []ssa.Value
	for _, b := range par.Blocks {
		for _, in := range b.Instrs {
			if mc, ok := in.(*ssa.MakeClosure); ok && mc.Fn == ssa.Value(fn) && idx < len(mc.Bindings) {
				out = append(out, mc.Bindings[idx])
			}
		}
	}
	return out
}

// libCCell returns the canonical storage cell of an address value: the Alloc
// that a chain of FreeVar bindings leads to, or the value itself.
func libCCell(addr ssa.Value) ssa.Value {
	for i := 0; i < 6; i++ {
		fv, ok := addr.(*ssa.FreeVar)
		if !ok {
			return addr
		}
		b := libCBinding(fv)
		if len(b) != 1 {
			return addr
		}
		addr = b[0]
	}
	return addr
}

// libCAllStores returns every value stored into the local cell (Alloc) by the
// declaring function and by every function literal capturing it. complete is
// false when the address escapes in a way the walk does not follow (passed to
// a call, sub-addressed), so the store set may be partial.
func libCAllStores(cell ssa.Value) (vals []ssa.Value, stores []*ssa.Store, complete bool) {
	complete = true
	seen := map[ssa.Value]bool{}
	var rec func(a ssa.Value)
	rec = func(a ssa.Value) {
		if seen[a] {
			return
		}
		seen[a] = true
		refs := a.Referrers()
		if refs == nil {
			return
		}
		for _, r := range *refs {
			switch x := r.(type) {
			case *ssa.Store:
				if x.Addr == a {
					vals = append(vals, x.Val)
					stores = append(stores, x)
				} else {
					complete = false // the address itself is stored somewhere
				}
			case *ssa.UnOp, *ssa.DebugRef:
			case *ssa.MakeClosure:
				fn, _ := x.Fn.(*ssa.Function)
				for i, b := range x.Bindings {
					if b == a && fn != nil && i < len(fn.FreeVars) {
						rec(fn.FreeVars[i])
					}
				}
			case *ssa.IndexAddr, *ssa.FieldAddr:
				// partial writes through an element/field address count as stores
				sub := r.(ssa.Value)
				if sr := sub.Referrers(); sr != nil {
					for _, u := range *sr {
						switch y := u.(type) {
						case *ssa.Store:
							if y.Addr == sub {
								vals = append(vals, y.Val)
								stores = append(stores, y)
							} else {
								complete = false
							}
						case *ssa.UnOp, *ssa.DebugRef:
						default:
							complete = false
						}
					}
				}
			default:
				complete = false
			}
		}
	}
	rec(cell)
	return
}

// libCRoots follows conversions, phis and loads of local cells (including
// captured ones) down to the values that can flow into v. A load of a cell
// that has no store at all contributes nothing (zero value). ok is false when
// a cell's address escapes.
func libCRoots(v ssa.Value) (roots []ssa.Value, ok bool) {
	ok = true
	seen := map[ssa.Value]bool{}
	var rec func(v ssa.Value, d int)
	rec = func(v ssa.Value, d int) {
		if v == nil || seen[v] {
			return
		}
		seen[v] = true
		if d > 12 {
			ok = false
			return
		}
		switch x := v.(type) {
		case *ssa.ChangeType:
			rec(x.X, d+1)
			return
		case *ssa.Convert:
			rec(x.X, d+1)
			return
		case *ssa.MakeInterface:
			rec(x.X, d+1)
			return
		case *ssa.ChangeInterface:
			rec(x.X, d+1)
			return
		case *ssa.Phi:
			for _, e := range x.Edges {
				rec(e, d+1)
			}
			return
		case *ssa.UnOp:
			if x.Op == token.MUL {
				cell := libCCell(x.X)
				if _, isAlloc := cell.(*ssa.Alloc); isAlloc {
					vals, _, complete := libCAllStores(cell)
					if !complete {
						ok = false
					}
					for _, s := range vals {
						rec(s, d+1)
					}
					return
				}
			}
		}
		roots = append(roots, v)
	}
	rec(v, 0)
	return
}

// libCIsZeroConst reports a zero-value constant (nil, 0, "", false, zero aggregate).
func libCIsZeroConst(v ssa.Value) bool {
	k, ok := v.(*ssa.Const)
	if !ok {
		return false
	}
	if k.Value == nil {
		return true
	}
	switch k.Value.Kind() {
	case constant.Int, constant.Float:
		return constant.Sign(k.Value) == 0
	case constant.String:
		return constant.StringVal(k.Value) == ""
	case constant.Bool:
		return !constant.BoolVal(k.Value)
	}
	return false
}

// libCAllRoots: every non-zero root of v satisfies pred, and there is at least one.
func libCAllRoots(v ssa.Value, pred func(ssa.Value) bool) (bool, string) {
	roots, ok := libCRoots(v)
	if !ok {
		return false, "a local holding the value has its address taken in a way that is not followed"
	}
	n := 0
	for _, r := range roots {
		if libCIsZeroConst(r) {
			continue
		}
		n++
		if !pred(r) {
			return false, "value may be " + describe(r)
		}
	}
	if n == 0 {
		return false, "no defining value found"
	}
	return true, ""
}

// libCExtractOf matches "result idx of a call to one of fns".
func libCExtractOf(idx int, fns ...*types.Func) func(ssa.Value) bool {
	return func(v ssa.Value) bool {
		_, ok := libCCallOfResult(v, idx, fns...)
		return ok
	}
}

// libCCallOfResult returns the call whose result idx v is.
func libCCallOfResult(v ssa.Value, idx int, fns ...*types.Func) (*ssa.Call, bool) {
	switch x := v.(type) {
	case *ssa.Extract:
		if call, ok := x.Tuple.(*ssa.Call); ok && inFuncs(calleeOf(call.Common()), fns) && (idx < 0 || x.Index == idx) {
			return call, true
		}
	case *ssa.Call:
		if inFuncs(calleeOf(x.Common()), fns) && idx <= 0 {
			return x, true
		}
	}
	return nil, false
}

// ---------- deeper definition walk ----------

// libCWalk is walkDef extended through memory the core walker does not
// follow: a visited Alloc (or address derived from it) continues into every
// value stored to the cell, to its elements/fields (varargs arrays, composite
// literals) and into captured cells of closures.
func libCWalk(v ssa.Value, depth int, visit func(ssa.Value) bool) {
	seen := map[ssa.Value]bool{}
	var rec func(v ssa.Value, d int)
	storesInto := func(a ssa.Value, d int) {
		refs := a.Referrers()
		if refs == nil {
			return
		}
		for _, r := range *refs {
			switch x := r.(type) {
			case *ssa.Store:
				if x.Addr == a {
					rec(x.Val, d-1)
				}
			case *ssa.IndexAddr:
				if x.X == a {
					rec(x, d) // visits stores through the element address below
				}
			case *ssa.FieldAddr:
				if x.X == a {
					rec(x, d)
				}
			case *ssa.MakeClosure:
				// the cell is captured: stores made by the function literal
				if fn, ok := x.Fn.(*ssa.Function); ok {
					for i, b := range x.Bindings {
						if b == a && i < len(fn.FreeVars) {
							rec(fn.FreeVars[i], d)
						}
					}
				}
			}
		}
	}
	rec = func(v ssa.Value, d int) {
		if v == nil || seen[v] || d < 0 {
			return
		}
		seen[v] = true
		if !visit(v) {
			return
		}
		switch x := v.(type) {
		case *ssa.Alloc:
			storesInto(x, d)
		case *ssa.FreeVar:
			for _, b := range libCBinding(x) {
				rec(b, d-1)
			}
			storesInto(x, d)
		case *ssa.IndexAddr:
			storesInto(x, d)
			rec(x.X, d-1)
			rec(x.Index, d-1)
		case *ssa.FieldAddr:
			// a field of a local composite: values stored to that field
			if _, isAlloc := x.X.(*ssa.Alloc); isAlloc {
				refs := x.Referrers()
				if refs != nil {
					for _, r := range *refs {
						if st, ok := r.(*ssa.Store); ok && st.Addr == ssa.Value(x) {
							rec(st.Val, d-1)
						}
					}
				}
				// other FieldAddr instructions on the same alloc and field
				if ar := x.X.Referrers(); ar != nil {
					for _, r := range *ar {
						if fa, ok := r.(*ssa.FieldAddr); ok && fa != x && fa.Field == x.Field {
							if fr := fa.Referrers(); fr != nil {
								for _, r2 := range *fr {
									if st, ok := r2.(*ssa.Store); ok && st.Addr == ssa.Value(fa) {
										rec(st.Val, d-1)
									}
								}
							}
						}
					}
				}
				return
			}
			rec(x.X, d-1)
		case *ssa.UnOp:
			rec(x.X, d-1)
		case *ssa.Call:
			for _, a := range callArgs(x.Common()) {
				rec(a, d-1)
			}
			if !x.Common().IsInvoke() {
				rec(x.Common().Value, d-1)
			}
		case *ssa.MakeClosure:
			for _, b := range x.Bindings {
				rec(b, d-1)
			}
		default:
			if in, ok := v.(ssa.Instruction); ok {
				for _, op := range in.Operands(nil) {
					if *op != nil {
						rec(*op, d-1)
					}
				}
			}
		}
	}
	rec(v, depth)
}

// libCMentions is Mentions over libCWalk.
func libCMentions(v ssa.Value, obj types.Object) bool {
	found := false
	libCWalk(v, 14, func(x ssa.Value) bool {
		if found {
			return false
		}
		if valueIs(x, obj) {
			found = true
			return false
		}
		return true
	})
	return found
}

// libCMentionsValue reports whether the definition tree of v contains target.
func libCMentionsValue(v, target ssa.Value) bool {
	found := false
	libCWalk(v, 14, func(x ssa.Value) bool {
		if found {
			return false
		}
		if x == target {
			found = true
			return false
		}
		return true
	})
	return found
}

// libCMentionsCall reports whether the definition tree of v contains a call
// to one of fns (interface methods included).
func libCMentionsCall(v ssa.Value, fns ...*types.Func) *ssa.Call {
	var found *ssa.Call
	libCWalk(v, 14, func(x ssa.Value) bool {
		if found != nil {
			return false
		}
		if call, ok := x.(*ssa.Call); ok && inFuncs(calleeOf(call.Common()), fns) {
			found = call
			return false
		}
		return true
	})
	return found
}

// ---------- forward reachability from an instruction ----------

// libCFwd is the set of instructions reachable from (strictly after) start
// without executing past a stop instruction. A stop instruction itself counts
// as reached. Calls that never return end a path.
type libCFwd struct {
	full map[*ssa.BasicBlock]bool // block entered from its top
	cut  map[*ssa.BasicBlock]int  // first stop index when entered from top
	tail *ssa.BasicBlock          // start's block: instructions after start
	from int
	tcut int // index of the first stop after start in the tail (-1: none)
}

func libCReachFrom(start ssa.Instruction, stop func(ssa.Instruction) bool) *libCFwd {
	r := &libCFwd{full: map[*ssa.BasicBlock]bool{}, cut: map[*ssa.BasicBlock]int{}, tail: start.Block(), tcut: -1}
	b := start.Block()
	for i, in := range b.Instrs {
		if in == start {
			r.from = i
		}
	}
	var work []*ssa.BasicBlock
	stopped := false
	for i := r.from + 1; i < len(b.Instrs); i++ {
		if noReturnCall(b.Instrs[i]) || (stop != nil && stop(b.Instrs[i])) {
			r.tcut = i
			stopped = true
			break
		}
	}
	if !stopped {
		work = append(work, b.Succs...)
	}
	for len(work) > 0 {
		x := work[0]
		work = work[1:]
		if r.full[x] {
			continue
		}
		r.full[x] = true
		st := false
		for i, in := range x.Instrs {
			if noReturnCall(in) || (stop != nil && stop(in)) {
				r.cut[x] = i
				st = true
				break
			}
		}
		if !st {
			work = append(work, x.Succs...)
		}
	}
	return r
}

func (r *libCFwd) Reaches(in ssa.Instruction) bool {
	b := in.Block()
	idx := -1
	for i, x := range b.Instrs {
		if x == in {
			idx = i
		}
	}
	if r.full[b] {
		if c, ok := r.cut[b]; ok {
			if idx <= c {
				return true
			}
		} else {
			return true
		}
	}
	if b == r.tail && idx > r.from {
		if r.tcut < 0 || idx <= r.tcut {
			return true
		}
	}
	return false
}

// libCReturns lists the Return instructions of fn.
func libCReturns(fn *ssa.Function) []*ssa.Return {
	var out []*ssa.Return
	for _, b := range fn.Blocks {
		if len(b.Instrs) == 0 {
			continue
		}
		if r, ok := b.Instrs[len(b.Instrs)-1].(*ssa.Return); ok {
			out = append(out, r)
		}
	}
	return out
}

// ---------- constants ----------

// libCConstVal returns the integer value of an SSA constant.
func libCConstVal(v ssa.Value) (int64, bool) {
	k, ok := strip(v).(*ssa.Const)
	if !ok || k.Value == nil || k.Value.Kind() != constant.Int {
		return 0, false
	}
	return constant.Int64Val(k.Value)
}

// libCIsConstOf matches an SSA constant with the integer value of the named
// constant k (the declared type of k may be untyped).
func libCIsConstOf(k *types.Const) VM {
	n, ok := constInt64(k)
	return func(v ssa.Value) bool {
		if !ok {
			return false
		}
		x, isK := libCConstVal(v)
		return isK && x == n
	}
}

// libCStringConstIs matches an SSA string constant equal to the value of k.
func libCStringConstIs(v ssa.Value, k *types.Const) bool {
	c, ok := strip(v).(*ssa.Const)
	if !ok || c.Value == nil || c.Value.Kind() != constant.String || k.Val().Kind() != constant.String {
		return false
	}
	return constant.StringVal(c.Value) == constant.StringVal(k.Val())
}

// ---------- deep field-write scan ----------

// libCDeepFieldWrites is FieldWrites that additionally reports writes to a
// sub-component of one of the fields (x.F.g = …, x.F.g++, &x.F.g, x.F.g[i] = …),
// kinds "sub-assign", "sub-incdec", "sub-addr".
func (c *Ctx) libCDeepFieldWrites(fields map[*types.Var]bool, o ScanOpts) []Site {
	out := c.FieldWrites(fields, o)
	c.scanFiles(o, func(pk *packages.Package, f *ast.File, gen bool) {
		info := pk.TypesInfo
		// inner returns the field of the set that is a strict prefix of the selector chain e.
		inner := func(e ast.Expr) *types.Var {
			e = ast.Unparen(e)
			first := true
			for {
				switch x := e.(type) {
				case *ast.SelectorExpr:
					if !first {
						if v := selField(info, x); v != nil && fields[v] {
							return v
						}
					}
					first = false
					e = ast.Unparen(x.X)
					continue
				case *ast.IndexExpr:
					first = false
					e = ast.Unparen(x.X)
					continue
				case *ast.StarExpr:
					e = ast.Unparen(x.X)
					continue
				}
				return nil
			}
		}
		add := func(n ast.Node, kind string, v *types.Var) {
			out = append(out, Site{Pkg: pk, File: f, Node: n, Func: enclosingFuncName(pk, f, n), Kind: kind, Obj: v, Gen: gen})
		}
		ast.Inspect(f, func(n ast.Node) bool {
			switch x := n.(type) {
			case *ast.AssignStmt:
				for _, l := range x.Lhs {
					if _, isSel := ast.Unparen(l).(*ast.SelectorExpr); isSel {
						if v := inner(l); v != nil {
							add(x, "sub-assign", v)
						}
					} else if ie, isIdx := ast.Unparen(l).(*ast.IndexExpr); isIdx {
						if _, isSel := ast.Unparen(ie.X).(*ast.SelectorExpr); isSel {
							if v := inner(ie); v != nil && selField(info, ie.X) != v {
								add(x, "sub-assign", v)
							}
						}
					}
				}
			case *ast.IncDecStmt:
				if v := inner(x.X); v != nil {
					add(x, "sub-incdec", v)
				}
			case *ast.UnaryExpr:
				if x.Op == token.AND {
					if v := inner(x.X); v != nil {
						add(x, "sub-addr", v)
					}
				}
			}
			return true
		})
	})
	sort.SliceStable(out, func(i, j int) bool {
		if out[i].Pkg.PkgPath != out[j].Pkg.PkgPath {
			return out[i].Pkg.PkgPath < out[j].Pkg.PkgPath
		}
		return out[i].Node.Pos() < out[j].Node.Pos()
	})
	return out
}

// ---------- static call closure ----------

// libCClosure computes the static call closure of entries over module
// functions with bodies: static callees, function literals, and functions
// referenced as values. invoke, when non-nil, resolves selected interface
// calls to concrete functions. pred maps each reached function to the
// function it was first reached from.
func (c *Ctx) libCClosure(entries []*ssa.Function, invoke func(cc *ssa.CallCommon) []*ssa.Function) (order []*ssa.Function, pred map[*ssa.Function]*ssa.Function) {
	pred = map[*ssa.Function]*ssa.Function{}
	var work []*ssa.Function
	push := func(f, from *ssa.Function) {
		if f == nil || f.Blocks == nil {
			return
		}
		if _, ok := pred[f]; ok {
			return
		}
		pred[f] = from
		work = append(work, f)
		order = append(order, f)
	}
	for _, e := range entries {
		push(e, nil)
	}
	for len(work) > 0 {
		fn := work[0]
		work = work[1:]
		for _, b := range fn.Blocks {
			for _, in := range b.Instrs {
				if ci, ok := in.(ssa.CallInstruction); ok {
					cc := ci.Common()
					if cc.IsInvoke() {
						if invoke != nil {
							for _, t := range invoke(cc) {
								push(t, fn)
							}
						}
					} else if sf := cc.StaticCallee(); sf != nil {
						push(sf, fn)
					}
				}
				for _, op := range in.Operands(nil) {
					if *op == nil {
						continue
					}
					if f, ok := (*op).(*ssa.Function); ok {
						push(f, fn)
					}
					if mc, ok := (*op).(*ssa.MakeClosure); ok {
						if f, ok := mc.Fn.(*ssa.Function); ok {
							push(f, fn)
						}
					}
				}
				if mc, ok := in.(*ssa.MakeClosure); ok {
					if f, ok := mc.Fn.(*ssa.Function); ok {
						push(f, fn)
					}
				}
			}
		}
	}
	return
}

// libCChain renders the discovery chain entry → … → fn.
func libCChain(pred map[*ssa.Function]*ssa.Function, fn *ssa.Function) string {
	var parts []string
	for f := fn; f != nil; f = pred[f] {
		parts = append([]string{fnName(f)}, parts...)
		if len(parts) > 12 {
			break
		}
	}
	return strings.Join(parts, " → ")
}

// libCExternalCallee returns package path and name of a statically called
// function or method that lives outside the module (or anywhere).
func libCCalleePkgName(cc *ssa.CallCommon) (pkg, name string) {
	f := calleeOf(cc)
	if f == nil || f.Pkg() == nil {
		return "", ""
	}
	return f.Pkg().Path(), f.Name()
}

// ---------- misc ----------

// libCMethodsImplementing returns, for every named (non-interface) type of
// package pkgRel whose pointer or value type implements iface, the concrete
// method named m.
func (c *Ctx) libCImplementors(pkgRel string, iface *types.Interface) []*types.Named {
	pk := c.Pkg(pkgRel)
	var out []*types.Named
	names := pk.Types.Scope().Names()
	sort.Strings(names)
	for _, n := range names {
		tn, ok := pk.Types.Scope().Lookup(n).(*types.TypeName)
		if !ok {
			continue
		}
		nt, ok := tn.Type().(*types.Named)
		if !ok || types.IsInterface(nt) {
			continue
		}
		if types.Implements(nt, iface) || types.Implements(types.NewPointer(nt), iface) {
			out = append(out, nt)
		}
	}
	return out
}

// libCMethod finds the concrete method m of named type nt (pointer or value receiver).
func libCMethod(nt *types.Named, m string) *types.Func {
	for i := 0; i < nt.NumMethods(); i++ {
		if nt.Method(i).Name() == m {
			return nt.Method(i)
		}
	}
	return nil
}

func libCParamIndex(fn *ssa.Function, p *ssa.Parameter) int {
	for i, q := range fn.Params {
		if q == p {
			return i
		}
	}
	return -1
}

func libCSprintf(format string, a ...any) string { return fmt.Sprintf(format, a...) }

// ---------- corrected copy of SuccessReturns ----------

// libCNonNilByDominance: block at is dominated by the non-nil edge of a test
// `v != nil` / `v == nil` on this very value. (ssalib.definitelyNonNil has the
// same test but returns early for values that are direct results of a call to
// a module function with a single error result, e.g. `if err := f(); err !=
// nil { return err }`, and so misclassifies such returns as success returns.)
func libCNonNilByDominance(v ssa.Value, at *ssa.BasicBlock) bool {
	if at == nil || v == nil {
		return false
	}
	for _, b := range at.Parent().Blocks {
		if len(b.Instrs) == 0 {
			continue
		}
		iff, ok := b.Instrs[len(b.Instrs)-1].(*ssa.If)
		if !ok {
			continue
		}
		cond, neg := condOf(iff.Cond)
		bo, ok := cond.(*ssa.BinOp)
		if !ok || (bo.Op != token.NEQ && bo.Op != token.EQL) {
			continue
		}
		var other ssa.Value
		if bo.X == v {
			other = bo.Y
		} else if bo.Y == v {
			other = bo.X
		} else {
			continue
		}
		if !IsNil(other) {
			continue
		}
		nonNilOnTrue := (bo.Op == token.NEQ) != neg
		succ := b.Succs[1]
		if nonNilOnTrue {
			succ = b.Succs[0]
		}
		if len(succ.Preds) == 1 && succ.Dominates(at) {
			return true
		}
	}
	return false
}

// libCSuccessReturns is SuccessReturns with the dominance test applied to
// every kind of value.
func libCSuccessReturns(fn *ssa.Function) []ssa.Instruction {
	idx := errResultIndex(fn)
	var out []ssa.Instruction
	for _, b := range fn.Blocks {
		if len(b.Instrs) == 0 {
			continue
		}
		ret, ok := b.Instrs[len(b.Instrs)-1].(*ssa.Return)
		if !ok {
			continue
		}
		if idx >= 0 && idx < len(ret.Results) {
			v := resolveLocal(ret.Results[idx], ret)
			if definitelyNonNil(v, b, 0) || libCNonNilByDominance(v, b) {
				continue
			}
		}
		out = append(out, ret)
	}
	return out
}

// ---------- forward reachability with cut edges; abort-on-error ----------

// libCReachFromCut is libCReachFrom that additionally refuses to traverse the
// given CFG edges.
func libCReachFromCut(start ssa.Instruction, cut []Edge, stop func(ssa.Instruction) bool) *libCFwd {
	cutSet := map[Edge]bool{}
	for _, e := range cut {
		cutSet[e] = true
	}
	r := &libCFwd{full: map[*ssa.BasicBlock]bool{}, cut: map[*ssa.BasicBlock]int{}, tail: start.Block(), tcut: -1}
	b := start.Block()
	for i, in := range b.Instrs {
		if in == start {
			r.from = i
		}
	}
	succs := func(x *ssa.BasicBlock) []*ssa.BasicBlock {
		var out []*ssa.BasicBlock
		for i, s := range x.Succs {
			if !cutSet[Edge{x, i}] {
				out = append(out, s)
			}
		}
		return out
	}
	var work []*ssa.BasicBlock
	stopped := false
	for i := r.from + 1; i < len(b.Instrs); i++ {
		if noReturnCall(b.Instrs[i]) || (stop != nil && stop(b.Instrs[i])) {
			r.tcut = i
			stopped = true
			break
		}
	}
	if !stopped {
		work = append(work, succs(b)...)
	}
	for len(work) > 0 {
		x := work[0]
		work = work[1:]
		if r.full[x] {
			continue
		}
		r.full[x] = true
		st := false
		for i, in := range x.Instrs {
			if noReturnCall(in) || (stop != nil && stop(in)) {
				r.cut[x] = i
				st = true
				break
			}
		}
		if !st {
			work = append(work, succs(x)...)
		}
	}
	return r
}

// libCAbortsOnError decides: once call (whose error result is result errIdx,
// or the only result if errIdx < 0) has failed, the function can neither
// return a nil error nor reach any of the forbidden instructions. The error
// test must be made on the call's own result value.
func (c *Ctx) libCAbortsOnError(rule, construct string, call *ssa.Call, errIdx int, forbidden []ssa.Instruction, what string) {
	fn := call.Parent()
	errV := func(v ssa.Value) bool {
		if errIdx < 0 {
			return v == ssa.Value(call)
		}
		e, ok := v.(*ssa.Extract)
		return ok && e.Tuple == ssa.Value(call) && e.Index == errIdx
	}
	edges, n := PassEdges(fn, GErrNil("err==nil", errV))
	if n == 0 {
		c.Bad(rule, construct, c.Pos(call.Pos()), "the error of "+what+" is never tested (no branch compares it with nil)")
		return
	}
	fw := libCReachFromCut(call, edges, nil)
	for _, r := range libCSuccessReturns(fn) {
		if fw.Reaches(r) {
			c.Bad(rule, construct, c.Pos(r.Pos()), "after "+what+" failed the function can still return a nil error (return at "+c.Pos(r.Pos())+")")
			return
		}
	}
	for _, f := range forbidden {
		if fw.Reaches(f) {
			c.Bad(rule, construct, c.Pos(f.Pos()), "after "+what+" failed the function can still reach "+c.Pos(f.Pos()))
			return
		}
	}
	c.Ok(rule, construct, c.Pos(call.Pos()), "when the error of "+what+" is non-nil, no nil-error return and none of the "+itoa(len(forbidden))+" protected effect(s) is reachable")
}

// libCAbortsUnless decides: once the branch guarded by g has been taken on its
// failing side after instruction from (g's passing edges are cut), the
// function can neither return a nil error nor reach from again nor any
// forbidden instruction.
func (c *Ctx) libCAbortsUnless(rule, construct string, from ssa.Instruction, g Guard, forbidden []ssa.Instruction) {
	fn := from.Parent()
	edges, n := PassEdges(fn, g)
	if n == 0 {
		c.Bad(rule, construct, c.Pos(from.Pos()), "guard \""+g.Name+"\" not found in "+fnName(fn)+" (no branch tests it)")
		return
	}
	fw := libCReachFromCut(from, edges, nil)
	for _, r := range libCSuccessReturns(fn) {
		if fw.Reaches(r) {
			c.Bad(rule, construct, c.Pos(r.Pos()), "a nil-error return ("+c.Pos(r.Pos())+") is reachable after "+c.Pos(from.Pos())+" without passing guard \""+g.Name+"\"")
			return
		}
	}
	for _, f := range append([]ssa.Instruction{from}, forbidden...) {
		if fw.Reaches(f) {
			c.Bad(rule, construct, c.Pos(f.Pos()), c.Pos(f.Pos())+" is reachable again after "+c.Pos(from.Pos())+" without passing guard \""+g.Name+"\"")
			return
		}
	}
	c.Ok(rule, construct, c.Pos(from.Pos()), "with the passing edge(s) of \""+g.Name+"\" cut, no nil-error return and no further iteration is reachable from the call")
}

// libCAllRootsLoose is libCAllRoots that tolerates cells whose address is also
// sliced or passed to a call (e.g. digest[:] handed to an encoder): only the
// direct stores are considered, writes through such an alias are assumed away.
func libCAllRootsLoose(v ssa.Value, pred func(ssa.Value) bool) (bool, string) {
	roots, _ := libCRoots(v)
	n := 0
	for _, r := range roots {
		if libCIsZeroConst(r) {
			continue
		}
		n++
		if !pred(r) {
			return false, "value may be " + describe(r)
		}
	}
	if n == 0 {
		return false, "no defining value found"
	}
	return true, ""
}

// libCCall views a call instruction as an ordinary call; a go/defer call
// where a plain call is expected makes the property undecided instead of
// crashing the checker.
func libCCall(ci ssa.CallInstruction) *ssa.Call {
	call, ok := ci.(*ssa.Call)
	if !ok {
		panic(abortRule("a call the rule inspects is made through go/defer (" + ci.String() + "): idiom not understood"))
	}
	return call
}
