package main

import (
	"fmt"
	"go/constant"
	"go/token"
	"go/types"
	"sort"
	"strings"

	"golang.org/x/tools/go/ssa"
)

// hGenPatterns lists every package of the pinned tree that has a msgp_gen.go
// (test helper directories excluded). The extractor itself discovers generated
// files among whatever is loaded (thorough tier: ./...), the floor on the
// number of files makes a shrinking list fail.
var hGenPatterns = []string{
	"./agreement", "./cmd/algokey", "./crypto", "./crypto/merklearray", "./crypto/merklesignature", "./crypto/stateproof",
	"./daemon/algod/api/spec/v2", "./data/account", "./data/basics", "./data/bookkeeping", "./data/committee",
	"./data/hashable", "./data/stateproofmsg", "./data/transactions", "./ledger", "./ledger/encoded", "./ledger/ledgercore",
	"./ledger/store/trackerdb", "./ledger/store/trackerdb/generickv", "./network", "./node", "./protocol", "./rpcs", "./stateproof",
}

func init() {
	register(&Prop{
		ID:       "C40",
		Patterns: hGenPatterns,
		Run:      runC40,
		Explanation: "Decides, for every struct encoded by msgp-generated code (every msgp_gen.go of the loaded packages; struct types and structs inlined into them), that the generated encoder, the generated decoder and go-codec's reflection view of the type agree on the map layout, which is necessary for 'generated and reflection encoders produce identical bytes' and 'decode then re-encode reproduces them': " +
			"R40.0 the extractor understood every generated MarshalMsg / UnmarshalMsgWithState (any unrecognised idiom is undecided) and at least the pinned number of generated files was seen; " +
			"R40.1 per struct map block of MarshalMsg: the key literals (decoded from the appended fixmap/fixstr bytes) are strictly ascending bytewise (= go-codec Canonical order), their number equals the announced map size, their set equals go-codec's effective field names of the struct (codec tag, json fallback, embedded structs flattened and shadowed exactly as (*TypeInfos).rget does, '-' and unexported skipped), and the value encoded after each key is the field carrying that name; per `switch string(field)` of UnmarshalMsgWithState: the case labels equal the same names, each case decodes into the field carrying that name, and the default clause raises msgp.ErrNoField (go-codec ErrorIfNoField); " +
			"R40.2 omit-empty agreement: a key is emitted conditionally (mask bit test) exactly when go-codec may omit the field (omitempty from the field tag or the outermost _struct; for Go arrays additionally omitemptyarray), every mask bit is set by exactly one emptiness test that inspects the same field the bit guards and decrements the announced size, and a struct without conditional keys has a constant header; " +
			"R40.3 protocol.init configures CodecHandle with exactly the reviewed options (Canonical, RecursiveEmptyCheck, ErrorIfNoField, ErrorIfNoArrayExpand, WriteExt, PositiveIntUnsigned, Raw all true, nothing else), CodecHandle is assigned only there, every go-codec encoder/decoder built in package protocol on a MsgpackHandle uses CodecHandle, and protocol.Encode/EncodeMsgp reach the generated MarshalMsg (reflection only when CanMarshalMsg is false). " +
			"Does NOT decide: byte equality of values (integer/bytes/string primitives of msgp vs go-codec, emptiness of nested values, custom hand-written codecs such as basics.MicroAlgos), the struct-from-array decoding branch, types encoded only through reflection, nor who calls EncodeReflect (design rule R40.4 dropped: calling the reflection encoder is not a violation when R40.1-3 hold).",
		Assumptions: []string{
			"go-codec v1.1.10 derives struct fields as modelled in lib_H.go hCodecFields (rget/rgetResolveSFI/parseStructInfo)",
			"msgp primitives (AppendX/ReadXBytes) are byte-compatible with go-codec's msgpack primitives under the configured handle",
		},
		Floor: map[string]int{"R40.0": 24, "R40.1": 364, "R40.2": 182, "R40.3": 20},
	})
}

func hJoinProblems(p []string) string {
	if len(p) > 4 {
		p = append(append([]string{}, p[:4]...), fmt.Sprintf("… (%d more)", len(p)-4))
	}
	return strings.Join(p, "; ")
}

// hCompareNames checks that got (in emitted order or any order) equals want as a set.
func hCompareNames(got, want []string) string {
	g := map[string]int{}
	for _, n := range got {
		g[n]++
	}
	w := map[string]bool{}
	for _, n := range want {
		w[n] = true
	}
	var miss, extra, dup []string
	for _, n := range want {
		if g[n] == 0 {
			miss = append(miss, n)
		}
	}
	for n, k := range g {
		if !w[n] {
			extra = append(extra, n)
		}
		if k > 1 {
			dup = append(dup, n)
		}
	}
	sort.Strings(extra)
	sort.Strings(dup)
	var parts []string
	if len(miss) > 0 {
		parts = append(parts, "go-codec encodes "+fmt.Sprintf("%q", miss)+" but the generated code has no such key")
	}
	if len(extra) > 0 {
		parts = append(parts, "generated code uses "+fmt.Sprintf("%q", extra)+" which go-codec does not encode for this struct")
	}
	if len(dup) > 0 {
		parts = append(parts, "duplicate "+fmt.Sprintf("%q", dup))
	}
	return strings.Join(parts, "; ")
}

func runC40(c *Ctx) {
	m := hMsgpExtract(c)
	if m.Msgp == nil {
		c.Unk("R40.0", "msgp", "-", "github.com/algorand/msgp/msgp is not imported by any loaded package")
		return
	}
	for _, f := range m.Files {
		c.Ok("R40.0", "file:"+strings.SplitN(f, ":", 2)[0], f, "generated file parsed")
	}
	types_ := append([]*HGenType{}, m.Types...)
	sort.Slice(types_, func(i, j int) bool { return types_[i].Name < types_[j].Name })
	for _, g := range types_ {
		pos := c.Pos(g.Named.Obj().Pos())
		if len(g.Problems) > 0 {
			c.Unk("R40.0", g.Name+":extract", pos, "generated code not understood: "+hJoinProblems(g.Problems))
		}
		if g.Marshal != nil {
			c.NoteFn(g.Name + ".MarshalMsg")
		}
		if g.Unmarshal != nil {
			c.NoteFn(g.Name + ".UnmarshalMsgWithState")
		}
		// a struct type must have a top block and a top switch
		if _, isStruct := g.Named.Underlying().(*types.Struct); isStruct {
			if g.Marshal != nil && g.TopBlock() == nil && !g.MarshalForwards {
				c.Unk("R40.0", g.Name+".MarshalMsg:map(z)", pos, "no map block found for the struct itself: the encoder's idiom is not understood")
			}
			if g.Unmarshal != nil && g.TopSwitch() == nil && !g.UnmarshalForwards {
				c.Unk("R40.0", g.Name+".UnmarshalMsgWithState:switch(z)", pos, "no `switch string(field)` found for the struct itself: the decoder's idiom is not understood")
			}
		}
		for _, b := range g.Blocks {
			hCheckBlock(c, g, b)
		}
		for _, s := range g.Switches {
			hCheckSwitch(c, g, s)
		}
	}
	hCheckHandle(c)
	hDebugDump(c)
}

func hCheckBlock(c *Ctx, g *HGenType, b *HMapBlock) {
	construct := g.Name + ".MarshalMsg:map(" + hEString(b.Recv, b.E) + ")"
	pos := c.Pos(b.Pos)
	if b.S != nil && len(b.S.Problems) > 0 {
		b.Problems = append(b.Problems, b.S.Problems...)
	}
	if len(b.Problems) > 0 || b.S == nil {
		c.Unk("R40.1", construct, pos, "map block not understood: "+hJoinProblems(b.Problems))
		return
	}
	c.NoteSites(len(b.Keys))
	// ---- R40.1 ----
	var bad []string
	var names []string
	for i, k := range b.Keys {
		names = append(names, k.Name)
		if i > 0 && !(b.Keys[i-1].Name < k.Name) {
			bad = append(bad, fmt.Sprintf("key %q is emitted after %q: not in canonical (bytewise ascending) order", k.Name, b.Keys[i-1].Name))
		}
	}
	if len(b.Keys) != b.Count {
		bad = append(bad, fmt.Sprintf("map header announces %d entries, %d keys are emitted", b.Count, len(b.Keys)))
	}
	if d := hCompareNames(names, b.S.Names()); d != "" {
		bad = append(bad, d)
	}
	for i, k := range b.Keys {
		f := b.FieldOf[i]
		if f != nil && f.Name != k.Name {
			bad = append(bad, fmt.Sprintf("key %q is followed by the encoding of field %s, whose encoded name is %q", k.Name, f.PathString(), f.Name))
		}
	}
	if b.S.ToArray {
		bad = append(bad, "struct is tagged toarray for go-codec but generated code encodes a map")
	}
	if len(bad) > 0 {
		c.Bad("R40.1", construct, pos, hJoinProblems(bad))
	} else {
		c.Ok("R40.1", construct, pos, fmt.Sprintf("%d keys ascending, equal to go-codec's field names, each followed by its own field", len(b.Keys)))
	}
	// ---- R40.2 ----
	bad = nil
	nCond := 0
	tests := map[HMaskBit][]HEmptyTest{}
	for _, t := range b.EmptyTests {
		tests[t.Bit] = append(tests[t.Bit], t)
	}
	usedBits := map[HMaskBit]bool{}
	for i, k := range b.Keys {
		f := b.FieldOf[i]
		if f == nil {
			continue
		}
		if k.Cond != nil {
			nCond++
		}
		if (k.Cond != nil) != f.Omittable() {
			if k.Cond != nil {
				bad = append(bad, fmt.Sprintf("key %q (%s) is emitted conditionally but go-codec never omits it (omitempty=%v omitemptyarray=%v)", k.Name, f.PathString(), f.OmitEmpty, f.OmitEmptyArray))
			} else {
				bad = append(bad, fmt.Sprintf("key %q (%s) is always emitted but go-codec omits it when empty", k.Name, f.PathString()))
			}
		}
		if k.Cond == nil {
			continue
		}
		if usedBits[*k.Cond] {
			bad = append(bad, fmt.Sprintf("mask bit %#x guards more than one key (%q)", k.Cond.Bit, k.Name))
		}
		usedBits[*k.Cond] = true
		ts := tests[*k.Cond]
		switch {
		case len(ts) == 0:
			bad = append(bad, fmt.Sprintf("key %q is guarded by mask bit %#x which no emptiness test sets", k.Name, k.Cond.Bit))
		case len(ts) > 1:
			bad = append(bad, fmt.Sprintf("mask bit %#x of key %q is set by %d emptiness tests", k.Cond.Bit, k.Name, len(ts)))
		default:
			tf, why := hFieldOfChains(b.E, b.S, ts[0].Chains)
			if tf == nil {
				bad = append(bad, fmt.Sprintf("emptiness test for key %q: %s", k.Name, why))
			} else if tf != f {
				bad = append(bad, fmt.Sprintf("mask bit %#x is set when %s is empty but guards key %q (%s)", k.Cond.Bit, tf.PathString(), k.Name, f.PathString()))
			}
			if ts[0].Len != b.LenVar {
				bad = append(bad, fmt.Sprintf("emptiness test for key %q decrements a different size variable", k.Name))
			}
		}
	}
	for bit, ts := range tests {
		if !usedBits[bit] {
			bad = append(bad, fmt.Sprintf("emptiness test at line %d decrements the map size and sets mask bit %#x, but no key is guarded by that bit", c.Fset.Position(ts[0].Pos).Line, bit.Bit))
		}
	}
	if !b.Variable && nCond > 0 {
		bad = append(bad, "constant map header with conditional keys")
	}
	construct2 := g.Name + ".MarshalMsg:omitempty(" + hEString(b.Recv, b.E) + ")"
	if len(bad) > 0 {
		sort.Strings(bad)
		c.Bad("R40.2", construct2, pos, hJoinProblems(bad))
	} else {
		c.Ok("R40.2", construct2, pos, fmt.Sprintf("%d of %d keys conditional, matching go-codec's omit flags; mask bits wired to their own fields", nCond, len(b.Keys)))
	}
}

func hCheckSwitch(c *Ctx, g *HGenType, s *HSwitch) {
	construct := g.Name + ".UnmarshalMsgWithState:switch(" + hEString(s.Recv, s.E) + ")"
	pos := c.Pos(s.Pos)
	if s.S != nil && len(s.S.Problems) > 0 {
		s.Problems = append(s.Problems, s.S.Problems...)
	}
	if len(s.Problems) > 0 || s.S == nil {
		c.Unk("R40.1", construct, pos, "field switch not understood: "+hJoinProblems(s.Problems))
		return
	}
	c.NoteSites(len(s.Cases))
	var bad []string
	var names []string
	for _, cs := range s.Cases {
		names = append(names, cs.Labels...)
		if len(cs.Labels) != 1 {
			bad = append(bad, fmt.Sprintf("case with %d labels", len(cs.Labels)))
			continue
		}
		if cs.Field != nil && cs.Field.Name != cs.Labels[0] {
			bad = append(bad, fmt.Sprintf("case %q decodes into field %s, whose encoded name is %q", cs.Labels[0], cs.Field.PathString(), cs.Field.Name))
		}
	}
	if d := hCompareNames(names, s.S.Names()); d != "" {
		bad = append(bad, d)
	}
	if !s.HasDefault || !s.DefaultNoField {
		bad = append(bad, "unknown keys are not rejected with msgp.ErrNoField in the default clause (go-codec ErrorIfNoField)")
	}
	if len(bad) > 0 {
		c.Bad("R40.1", construct, pos, hJoinProblems(bad))
	} else {
		c.Ok("R40.1", construct, pos, fmt.Sprintf("%d case labels equal go-codec's field names, each decoding its own field; default rejects unknown keys", len(s.Cases)))
	}
}

// ---- R40.3: the reflection codec handle ----

var hHandleOptions = map[string]bool{
	"ErrorIfNoField": true, "ErrorIfNoArrayExpand": true, "Canonical": true, "RecursiveEmptyCheck": true,
	"WriteExt": true, "PositiveIntUnsigned": true, "Raw": true,
}

const hCodecPath = "github.com/algorand/go-codec/codec"

func hCheckHandle(c *Ctx) {
	protoPkg := c.Pkg("protocol")
	gv, _ := protoPkg.Types.Scope().Lookup("CodecHandle").(*types.Var)
	if gv == nil {
		c.Unk("R40.3", "protocol.CodecHandle", "-", "global CodecHandle not found")
		return
	}
	codecPkg := hExtPkg(c, hCodecPath)
	if codecPkg == nil {
		c.Unk("R40.3", "go-codec", "-", "go-codec is not imported")
		return
	}
	mh, _ := codecPkg.Scope().Lookup("MsgpackHandle").(*types.TypeName)
	if mh == nil {
		c.Unk("R40.3", "codec.MsgpackHandle", "-", "type not found")
		return
	}
	isHandleGlobal := func(v ssa.Value) bool {
		g, ok := v.(*ssa.Global)
		return ok && g.Object() == types.Object(gv)
	}
	// (a) who stores to the global
	var initFn *ssa.Function
	sp := c.SSAPkg[protoPkg.PkgPath]
	for _, fn := range c.AllFuncs() {
		for _, b := range fn.Blocks {
			for _, in := range b.Instrs {
				st, ok := in.(*ssa.Store)
				if !ok || !isHandleGlobal(st.Addr) {
					continue
				}
				isInit := fn.Pkg == sp && fn.Parent() == nil && strings.HasPrefix(fn.Name(), "init")
				c.Check(isInit, "R40.3", "store(protocol.CodecHandle)@"+fnName(fn), c.Pos(st.Pos()), "CodecHandle is assigned only by package protocol's init")
				if isInit {
					initFn = fn
				}
			}
		}
	}
	if initFn == nil {
		c.Bad("R40.3", "protocol.init:CodecHandle", "-", "no init function of package protocol assigns CodecHandle")
		return
	}
	c.NoteFn("protocol.init")
	// (b) the options set on the handle in init
	var handleAlloc ssa.Value
	for _, b := range initFn.Blocks {
		for _, in := range b.Instrs {
			if st, ok := in.(*ssa.Store); ok && isHandleGlobal(st.Addr) {
				handleAlloc = st.Val
			}
		}
	}
	isHandle := func(v ssa.Value) bool {
		if v == handleAlloc {
			return true
		}
		if u, ok := v.(*ssa.UnOp); ok && u.Op == token.MUL && isHandleGlobal(u.X) {
			return true
		}
		return false
	}
	got := map[string]string{}
	var walkField func(v ssa.Value) (string, bool)
	walkField = func(v ssa.Value) (string, bool) {
		fa, ok := v.(*ssa.FieldAddr)
		if !ok {
			return "", false
		}
		f := structField(fa.X.Type(), fa.Field)
		if f == nil {
			return "", false
		}
		if isHandle(fa.X) {
			return f.Name(), true
		}
		if _, ok := walkField(fa.X); ok {
			return f.Name(), true // promoted through embedded option structs
		}
		return "", false
	}
	for _, b := range initFn.Blocks {
		for _, in := range b.Instrs {
			st, ok := in.(*ssa.Store)
			if !ok {
				continue
			}
			name, ok := walkField(st.Addr)
			if !ok {
				continue
			}
			val := "non-constant"
			if k, ok := st.Val.(*ssa.Const); ok && k.Value != nil {
				val = k.Value.ExactString()
				if k.Value.Kind() == constant.Bool {
					val = fmt.Sprint(constant.BoolVal(k.Value))
				}
			}
			got[name] = val
		}
	}
	names := []string{}
	for n := range hHandleOptions {
		names = append(names, n)
	}
	sort.Strings(names)
	for _, n := range names {
		c.Check(got[n] == "true", "R40.3", "protocol.init:CodecHandle."+n+"=true", c.Pos(initFn.Pos()), "option "+n+" of the msgpack reflection handle must be set to true (found "+fmt.Sprintf("%q", got[n])+"): generated and reflection encodings diverge otherwise")
	}
	var extra []string
	for n, v := range got {
		if !hHandleOptions[n] {
			extra = append(extra, n+"="+v)
		}
	}
	sort.Strings(extra)
	c.Check(len(extra) == 0, "R40.3", "protocol.init:CodecHandle:no-other-option", c.Pos(initFn.Pos()), "no option outside the reviewed set is configured on CodecHandle (found "+strings.Join(extra, ", ")+"); a new option needs review")

	// (c) encoders/decoders of package protocol built on a MsgpackHandle use CodecHandle
	ctorNames := map[string]bool{"NewEncoder": true, "NewEncoderBytes": true, "NewDecoder": true, "NewDecoderBytes": true}
	n := 0
	for _, fn := range c.funcsOf(protoPkg.PkgPath) {
		for _, b := range fn.Blocks {
			for _, in := range b.Instrs {
				ci, ok := in.(ssa.CallInstruction)
				if !ok {
					continue
				}
				f := calleeOf(ci.Common())
				if f == nil || f.Pkg() != codecPkg || !ctorNames[f.Name()] || len(ci.Common().Args) != 2 {
					continue
				}
				h := strip(ci.Common().Args[1])
				pt, ok := h.Type().(*types.Pointer)
				if !ok {
					c.Unk("R40.3", "protocol:"+f.Name()+"@"+fnName(fn), c.Pos(in.Pos()), "handle argument is not a concrete handle pointer: "+describe(h))
					continue
				}
				nt, _ := pt.Elem().(*types.Named)
				if nt == nil || nt.Obj() != mh {
					continue // JSON handles are outside this property
				}
				n++
				u, isLoad := h.(*ssa.UnOp)
				c.Check(isLoad && u.Op == token.MUL && isHandleGlobal(u.X), "R40.3", "protocol:"+f.Name()+"(CodecHandle)@"+fnName(fn), c.Pos(in.Pos()), "msgpack encoder/decoder is built on protocol.CodecHandle")
			}
		}
	}
	if n == 0 {
		c.Unk("R40.3", "protocol:codec constructors", "-", "no go-codec encoder/decoder construction found in package protocol")
	}
	// (d) MsgpackHandle values are created only in the tabled functions
	owners := map[string]string{
		"protocol.init":                 "the canonical handle",
		"protocol/transcode.Transcode":  "msgpack<->JSON transcoding tool handle, not used to produce consensus bytes (thorough tier)",
		"daemon/kmd/wallet/driver.init": "kmd wallet database encoding, not a consensus object (thorough tier)",
	}
	for _, fn := range c.AllFuncs() {
		if fn.Pkg != nil && matchPkg(relPkg(fn.Pkg.Pkg.Path()), []string{"test/...", "tools/...", "cmd/..."}) {
			continue // tools and test helpers are outside the scope of the ownership scans
		}
		for _, b := range fn.Blocks {
			for _, in := range b.Instrs {
				al, ok := in.(*ssa.Alloc)
				if !ok {
					continue
				}
				nt, _ := al.Type().(*types.Pointer).Elem().(*types.Named)
				if nt == nil || nt.Obj() != mh {
					continue
				}
				name := fnName(topFn(fn))
				if strings.HasPrefix(topFn(fn).Name(), "init") && topFn(fn).Signature.Recv() == nil {
					name = relPkg(fn.Pkg.Pkg.Path()) + ".init"
				}
				_, ok = owners[name]
				c.Check(ok, "R40.3", "new(codec.MsgpackHandle)@"+name, c.Pos(al.Pos()), "a MsgpackHandle is created outside the reviewed functions: objects encoded with it may not be canonical; new instance needs review")
			}
		}
	}
	// (e) protocol.Encode prefers the generated marshaler
	enc := c.Fn("protocol.Encode")
	encMsgp := c.Func("protocol.EncodeMsgp")
	encRefl := c.Func("protocol.EncodeReflect")
	marshaler, _ := hLookupIface(hExtPkg(c, hMsgpPath), "Marshaler")
	if marshaler == nil {
		c.Unk("R40.3", "msgp.Marshaler", "-", "interface not found")
		return
	}
	var canMarshal, marshalMsg *types.Func
	for i := 0; i < marshaler.NumMethods(); i++ {
		switch marshaler.Method(i).Name() {
		case "CanMarshalMsg":
			canMarshal = marshaler.Method(i)
		case "MarshalMsg":
			marshalMsg = marshaler.Method(i)
		}
	}
	if canMarshal == nil || marshalMsg == nil {
		c.Unk("R40.3", "msgp.Marshaler", "-", "methods not found")
		return
	}
	c.MustGuard(MustGuardSpec{Rule: "R40.3", Fn: enc, Effects: asInstrs(CallsTo(enc, false, encRefl)), EffName: "EncodeReflect(obj)",
		Guards: []Guard{GBool("!obj.CanMarshalMsg(obj)", ResultOf(0, canMarshal), false)}})
	okMsgp := false
	for _, ret := range ReturnsWhere(enc, 0, ResultOf(0, encMsgp)) {
		_ = ret
		okMsgp = true
	}
	c.Check(okMsgp, "R40.3", "protocol.Encode:returns EncodeMsgp(obj)", c.Pos(enc.Pos()), "Encode returns the generated encoding when CanMarshalMsg holds")
	em := c.Fn("protocol.EncodeMsgp")
	okMM := len(ReturnsWhere(em, 0, ResultOf(0, marshalMsg))) > 0 && len(ReturnsWhere(em, 0, AnyV)) == len(ReturnsWhere(em, 0, ResultOf(0, marshalMsg)))
	c.Check(okMM, "R40.3", "protocol.EncodeMsgp:returns obj.MarshalMsg(nil)", c.Pos(em.Pos()), "EncodeMsgp returns the bytes of the generated MarshalMsg")
}

func hLookupIface(p *types.Package, name string) (*types.Interface, bool) {
	if p == nil {
		return nil, false
	}
	tn, ok := p.Scope().Lookup(name).(*types.TypeName)
	if !ok {
		return nil, false
	}
	it, ok := tn.Type().Underlying().(*types.Interface)
	return it, ok
}
