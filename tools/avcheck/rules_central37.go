package main

// R09.11: the same obligation as R11.8, reported under C09 as well. Two
// independent audits (of C11 and of C09) arrived at the same defect of
// txTail.loadFromDisk: with the single-row tail of a node whose tracker DB is
// at round 1, the reopened ledger has no header, txids or leases of round 1 —
// OpenLedger fails when a replayed block needs header 1 (an app reading
// FirstValidTime), and where it opens, its state differs from a replay from
// genesis.
func init() {
	extend("C09", Extension{
		Run: func(c *Ctx) {
			n := borrowRules(c, ruleTailReloadVisitsEveryRow, func(o Obligation) (string, bool) {
				return "R09.11", o.Rule == "R11.8"
			})
			if n == 0 {
				c.Unk("R09.11", "ledger.txTail.loadFromDisk:reload loop", "-", "the tail-reload rule produced no obligation")
			}
		},
		Explanation: "R09.11 (recovery reloads every persisted round of the transaction tail): same obligation as C11 R11.8, decided by the same code — the loop of txTail.loadFromDisk that consumes the rows of LoadTxTail ends only on its round counter passing dbRound or on the rows being exhausted. With an all-or-nothing condition such as dbRound > baseRound the single persisted round of a tracker DB at round 1 is dropped on restart: trackerRegistry.replay then has no header 1 (OpenLedger fails if a replayed block needs it) and the recovered state differs from a replay from genesis.",
		Floor:       map[string]int{"R09.11": 2},
	})
}
