package main

import (
	"go/types"

	"golang.org/x/tools/go/ssa"
)

// R08.9: the requested round is widened only for entities absent from the deltas.
//
// Same family as R08.8; reported as a side remark by an independent seeding
// agent (C08-5), reproduced and repaired (see known_findings.json, DESIGN §7).
// The lookups of accountUpdates advance their round variable to the latest
// round before going to the DB, so that a retry (DB ahead of memory) starts
// from roundOffset(latest). That is harmless where the entity is known to be
// absent from every in-memory delta — the else-branch of `_, indeltas :=
// au.accounts[addr]` — because then the widened delta walk finds nothing new.
// lookupKeysByPrefix did it unconditionally: after a flush completed during
// its DB query the retry walked ALL deltas and answered a lookup for round R
// with box keys created in later rounds.
func init() {
	extend("C08", Extension{
		Run:         ruleRoundWidenedOnlyWhenAbsent,
		Explanation: "R08.9 (a retry walks the deltas of the requested round only): for every function of package ledger whose retry loop calls roundOffset on a loop-carried round that starts as a parameter, each value the loop assigns to that round is assigned in a region dominated by the negative edge of a membership test of the in-memory delta index (`_, ok := au.accounts[addr]`, `au.resources.get`, `au.kvStore[key]`): only then is the entity known to be unchanged in every delta and the widened walk of a retry harmless. An unconditional rewrite (lookupKeysByPrefix on the pinned tree) makes the retry collect keys of rounds after the requested one.",
		Floor:       map[string]int{"R08.9": 3},
	})
}

func ruleRoundWidenedOnlyWhenAbsent(c *Ctx) {
	const rule = "R08.9"
	offAU := c.Func("ledger.accountUpdates.roundOffset")
	offAO := c.Func("ledger.onlineAccounts.roundOffset")
	n := 0
	for _, fn := range c.funcsOf(Mod + "/ledger") {
		calls := CallsTo(fn, false, offAU, offAO)
		if len(calls) == 0 {
			continue
		}
		loops := naturalLoops(fn)
		done := map[*ssa.Phi]bool{}
		for _, call := range calls {
			a := callArgs(call.Common())
			phi, isPhi := strip(a[len(a)-1]).(*ssa.Phi)
			if !isPhi || done[phi] {
				continue
			}
			var loop *natLoop
			for _, l := range loops {
				if l.header == phi.Block() && l.blocks[call.Block()] {
					loop = l
				}
			}
			if loop == nil {
				continue
			}
			fromParam := false
			for i, e := range phi.Edges {
				if !loop.blocks[phi.Block().Preds[i]] {
					if _, isP := strip(e).(*ssa.Parameter); isP {
						fromParam = true
					}
				}
			}
			if !fromParam {
				continue
			}
			done[phi] = true
			// the values assigned to the round inside the loop
			var writes []ssa.Value
			seen := map[ssa.Value]bool{phi: true}
			var walk func(v ssa.Value)
			walk = func(v ssa.Value) {
				if seen[v] {
					return
				}
				seen[v] = true
				if p, ok := v.(*ssa.Phi); ok && loop.blocks[p.Block()] {
					for _, e := range p.Edges {
						walk(e)
					}
					return
				}
				writes = append(writes, v)
			}
			for i, e := range phi.Edges {
				if loop.blocks[phi.Block().Preds[i]] {
					walk(e)
				}
			}
			for _, w := range writes {
				n++
				in, isInstr := w.(ssa.Instruction)
				ok := false
				if isInstr {
					for b := range loop.blocks {
						iff, isIf := b.Instrs[len(b.Instrs)-1].(*ssa.If)
						if !isIf || !isMembershipFlag(iff.Cond) {
							continue
						}
						neg := b.Succs[1]
						if len(neg.Preds) == 1 && neg.Dominates(in.Block()) {
							ok = true
						}
					}
				}
				c.Check(ok, rule, fnName(fn)+":round widened only when the entity is absent from the deltas", c.Pos(w.Pos()),
					"the loop assigns "+describe(w)+" to the round it hands to roundOffset; the assignment sits on the not-in-deltas side of a membership test"+func() string {
						if !ok {
							return "; here it is unconditional, so a retry walks the deltas of rounds after the requested one"
						}
						return ""
					}())
			}
		}
	}
	if n == 0 {
		c.Unk(rule, "ledger:retry loops", "-", "no retry loop rewriting the round it hands to roundOffset was found")
	}
}

// isMembershipFlag: the ok result of a map lookup or of a (value, bool) getter.
func isMembershipFlag(v ssa.Value) bool {
	e, ok := v.(*ssa.Extract)
	if !ok {
		return false
	}
	if b, isB := e.Type().Underlying().(*types.Basic); !isB || b.Kind() != types.Bool {
		return false
	}
	switch t := e.Tuple.(type) {
	case *ssa.Lookup:
		return t.CommaOk && e.Index == 1
	case *ssa.Call:
		tup, isT := t.Type().(*types.Tuple)
		return isT && e.Index == tup.Len()-1
	}
	return false
}
