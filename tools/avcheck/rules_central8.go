package main

import (
	"go/types"

	"golang.org/x/tools/go/ssa"
)

// R09.9 (added after seed C09-2) and R10.4 (after seed C10-1).
func init() {
	extend("C09", Extension{
		Run:         ruleDurableBulletin,
		Explanation: "R09.9 (Wait means durable): Ledger.Wait/WaitWithCancel wait on the field bulletinDisk, and the only tracker callback of that field's type that releases waiters (reaches bulletin.notifyRound) is committedUpTo, which the tracker registry calls after the block database commit — newBlock, which runs when a block is merely added in memory, must not release them (that is what the separate bulletinMem field is for).",
		Floor:       map[string]int{"R09.9": 3},
	})
	extend("C10", Extension{
		Run:         ruleKvPageMoreData,
		Explanation: "R10.4 (a KV page never ends the listing early): in sqlitedriver processKvRows a non-error return that reports moreData=false (anything but the constant true) is reachable only after rows.Next() returned false — after a full page the remaining rows are scanned until one qualifies or the rows are exhausted, so a non-qualifying row (e.g. a key deleted in an in-memory round) right after the page boundary cannot hide the rows behind it.",
		Floor:       map[string]int{"R10.4": 2},
		Patterns:    []string{"./ledger/store/trackerdb/sqlitedriver"},
	})
}

func ruleDurableBulletin(c *Ctx) {
	const rule = "R09.9"
	fDisk := c.Field("ledger.Ledger.bulletinDisk")
	notify := c.Func("ledger.bulletin.notifyRound")
	// Ledger.Wait and WaitWithCancel use bulletinDisk
	for _, spec := range []string{"ledger.Ledger.Wait", "ledger.Ledger.WaitWithCancel"} {
		fn := c.Fn(spec)
		uses := false
		for _, f := range withAnon(fn) {
			for _, b := range f.Blocks {
				for _, in := range b.Instrs {
					if call, ok := in.(*ssa.Call); ok {
						if cal := calleeOf(call.Common()); cal != nil && cal.Name() == "Wait" {
							for _, a := range callArgs(call.Common()) {
								if Mentions(a, fDisk, 4) {
									uses = true
								}
							}
						}
					}
				}
			}
		}
		c.Check(uses, rule, spec+":waits on bulletinDisk", c.Pos(fn.Pos()), "the durability wait is served by the bulletinDisk field")
	}
	// which tracker callbacks of the field's type release waiters?
	t := fDisk.Type()
	ms := c.SSA.MethodSets.MethodSet(types.NewPointer(t))
	var releasing []string
	for i := 0; i < ms.Len(); i++ {
		sel := ms.At(i)
		m := c.SSA.MethodValue(sel)
		if m == nil {
			continue
		}
		// promoted methods come as wrappers: use the declared method
		if o, ok := sel.Obj().(*types.Func); ok {
			if real := c.SSA.FuncValue(o); real != nil {
				m = real
			}
		}
		if sameFuncObj(m, notify) {
			continue
		}
		if c.reachesFunc(m, notify, 2, map[*ssa.Function]bool{}) {
			releasing = append(releasing, sel.Obj().Name())
		}
	}
	ok := len(releasing) == 1 && releasing[0] == "committedUpTo"
	detail := "of the methods of " + types.TypeString(t, nil) + " only committedUpTo releases waiters"
	if !ok {
		detail = "methods of the bulletinDisk field's type that release waiters: " + joinStrings(releasing) + " — newBlock runs before the block is durable, so Ledger.Wait would confirm a round that a crash can still lose"
	}
	c.Check(ok, rule, "ledger.Ledger.bulletinDisk:waiters released only by committedUpTo", c.Pos(fDisk.Pos()), detail)
}

func sameFuncObj(f *ssa.Function, o *types.Func) bool {
	fo, ok := f.Object().(*types.Func)
	return ok && sameFunc(fo, o)
}

func joinStrings(s []string) string {
	out := ""
	for i, x := range s {
		if i > 0 {
			out += ", "
		}
		out += x
	}
	if out == "" {
		return "(none)"
	}
	return out
}

func ruleKvPageMoreData(c *Ctx) {
	const rule = "R10.4"
	if !c.HasPkg("ledger/store/trackerdb/sqlitedriver") {
		c.Unk(rule, "sqlitedriver", "-", "package not loaded")
		return
	}
	fn := c.Fn("ledger/store/trackerdb/sqlitedriver.accountsDbQueries.processKvRows")
	name := "ledger/store/trackerdb/sqlitedriver.accountsDbQueries.processKvRows"
	isNext := func(v ssa.Value) bool {
		call, ok := v.(*ssa.Call)
		if !ok {
			return false
		}
		cal := calleeOf(call.Common())
		return cal != nil && cal.Name() == "Next" && cal.Pkg() != nil && cal.Pkg().Path() == "database/sql"
	}
	exhausted := GBool("rows.Next()==false", isNext, false)
	edges, matched := PassEdges(fn, exhausted)
	if matched == 0 {
		c.Unk(rule, name+":rows.Next()", c.Pos(fn.Pos()), "no branch on rows.Next() found")
		return
	}
	// returns that report "no more data" without an error
	var noMore []ssa.Instruction
	n := 0
	for _, r := range SuccessReturns(fn) {
		ret := r.(*ssa.Return)
		if len(ret.Results) < 4 {
			continue
		}
		n++
		if IsConstBool(true)(ret.Results[2]) {
			continue
		}
		noMore = append(noMore, ret)
	}
	if n == 0 || len(noMore) == 0 {
		c.Unk(rule, name+":returns", c.Pos(fn.Pos()), "result shape of processKvRows not recognised")
		return
	}
	r := NewReach(fn, edges, nil)
	ok := true
	var where ssa.Instruction
	for _, ret := range noMore {
		if r.Reaches(ret) {
			ok = false
			where = ret
		}
	}
	pos := c.Pos(noMore[0].Pos())
	if where != nil {
		pos = c.Pos(where.Pos())
	}
	c.Check(ok, rule, name+":moreData=false<=rows exhausted", pos, "a page reports 'no more data' only after rows.Next() returned false")
	c.Ok(rule, name+":returns examined", c.Pos(fn.Pos()), itoa(n)+" non-error returns, "+itoa(len(noMore))+" of them report no more data")
}
