package main

import "strings"

// R14.8: the obligation of C15's R15.1 on the trie-leaf builders, reported
// under C14 as well. An independent audit of C14 showed what the ambiguous
// key‖value pre-image of KvHashBuilderV6 (known finding of C15) does to label
// determinism: the balances trie is maintained as a SET (a duplicate Add and a
// Delete of a missing leaf are only logged), so with two boxes whose
// name‖value strings coincide ("x" holding 00 00 and "x\0" holding 00) the trie
// content depends on how rounds were grouped into flushes — a ledger flushing
// every round and one flushing the same rounds in one commit publish different
// labels for the same catchpoint round (findings/C14/demo). Not repaired for
// the reason given under C15: the leaf format is a network-wide contract
// (TestHashContract, existing databases, every published label).
func init() {
	extend("C14", Extension{
		Run: func(c *Ctx) {
			n := borrowRules(c, runC15, func(o Obligation) (string, bool) {
				return "R14.8", o.Rule == "R15.1" && strings.Contains(o.Construct, "HashBuilderV6")
			})
			if n == 0 {
				c.Unk("R14.8", "ledger/store/trackerdb:trie-leaf builders", "-", "the C15 rules produced no obligation on the trie-leaf builders")
			}
		},
		Explanation: "R14.8 (distinct entries have distinct trie leaves, or the set-like trie makes the label depend on flush grouping): same obligation as C15 R15.1 for AccountHashBuilderV6, ResourcesHashBuilderV6 and KvHashBuilderV6 — the hashed pre-image is a uniquely decodable concatenation. The balances trie ignores a duplicate Add and a Delete of a missing leaf, so when two live entries share a leaf, whether the leaf survives depends on which rounds were flushed together; two nodes with the same history then publish different labels. KNOWN FINDING on the pinned tree for KvHashBuilderV6 (key‖value without a length), demonstrated for C14 in findings/C14.",
		Floor:       map[string]int{"R14.8": 3},
	})
}
