package main

import (
	"go/token"
	"go/types"

	"golang.org/x/tools/go/ssa"
)

func init() {
	register(&Prop{
		ID:       "C25",
		Patterns: []string{"./data/bookkeeping", "./ledger/eval"},
		Run:      runC25,
		Explanation: "Decides the algebraic shape of the rewards update, not its arithmetic: " +
			"R25.1 (second sentence) in RewardsState.NextRewardsState every value stored to res.RewardsRate is N / nextProto.RewardsRateRefreshInterval where N is either 0 or result #0 of basics.OSub(incentivePoolBalance.Raw, M) used only on the !overflowed edge, and M is nextProto.MinBalance, or a checked basics.OAdd that includes it (used only on its !overflowed edge), or the pool balance itself (rate 0); the next RewardsRecalculationRound is nextRound + the same RewardsRateRefreshInterval; RewardsRate is written nowhere else in data/bookkeeping and ledger/eval except the genesis block constructor. " +
			"R25.2 StartEvaluator (validate) returns an evaluator only if block.RewardsState == prevHeader.NextRewardsState(hdr.Round, proto, pool.MicroAlgos, prevTotals.RewardUnits()) with the pool record read by LookupWithoutRewards(prevHeader.Round, prevHeader.RewardsPool); the proposer's call has the same argument expressions. " +
			"R25.3 (first sentence, as a shape) the only assignments are RewardsLevel = ot.Add(old RewardsLevel, X/totalRewardUnits) and RewardsResidue = X % totalRewardUnits with the same SSA value X = ot.Add(rate, old RewardsResidue) and the same divisor, rate being res.RewardsRate or s.RewardsRate; both happen together, only when totalRewardUnits != 0 and ot.Overflowed is false — hence (ΔLevel)·units + ΔResidue = rate whenever they execute. " +
			"R25.4 StartEvaluator withdraws from the pool exactly ot.Mul(prevTotals.RewardUnits(), ot.Sub(block.RewardsLevel, prevHeader.RewardsLevel)) via ot.SubA on the pool record it then Puts for the same pool address, and returns an evaluator only after ot.SubA(poolNew.MicroAlgos, proto.MinBalance) with ot.Overflowed tested false after each step. " +
			"Does NOT decide: exactness of OSub/OAdd/OverflowTracker (C45), the numeric identity when a branch keeps the old level (totalRewardUnits==0 or overflow: level and residue unchanged, the rate is not distributed that round), whether eval.prevHeader is modified between the proposer's and the validator's call (expression shape only), nor the legacy genesis rate formula.",
		Assumptions: []string{"basics.OSub/OAdd and OverflowTracker.Add/Sub/Mul/SubA are exact and set their overflow flag correctly", "integer / and % by the same divisor satisfy q*d + r = n"},
		Floor:       map[string]int{"R25.1": 6, "R25.2": 5, "R25.3": 6, "R25.4": 7},
	})
}

func runC25(c *Ctx) {
	defer eGuardRun(c, "C25")
	const bk = "data/bookkeeping."
	nrs := c.Fn(bk + "RewardsState.NextRewardsState")
	fRate := c.Field(bk + "RewardsState.RewardsRate")
	fLevel := c.Field(bk + "RewardsState.RewardsLevel")
	fResidue := c.Field(bk + "RewardsState.RewardsResidue")
	fRecalc := c.Field(bk + "RewardsState.RewardsRecalculationRound")
	fMinBal := c.Field("config.ConsensusParams.MinBalance")
	fInterval := c.Field("config.ConsensusParams.RewardsRateRefreshInterval")
	fRaw := c.Field("data/basics.MicroAlgos.Raw")
	fOverflowed := c.Field("data/basics.OverflowTracker.Overflowed")
	oSub, oAdd := c.Func("data/basics.OSub"), c.Func("data/basics.OAdd")
	otAdd := c.Func("data/basics.OverflowTracker.Add")
	otSub := c.Func("data/basics.OverflowTracker.Sub")
	otMul := c.Func("data/basics.OverflowTracker.Mul")
	otSubA := c.Func("data/basics.OverflowTracker.SubA")
	name := bk + "RewardsState.NextRewardsState"

	pS := nrs.Params[0]
	pRound, pProto, pPool, pUnits := eParamN(nrs, 0), eParamN(nrs, 1), eParamN(nrs, 2), eParamN(nrs, 3)
	isMinBal := eParamFieldLoad(pProto, fMinBal)
	isInterval := eParamFieldLoad(pProto, fInterval)
	isPoolRaw := eParamFieldLoad(pPool, fRaw)

	// the named result `res`
	var res *ssa.Alloc
	for _, b := range nrs.Blocks {
		for _, in := range b.Instrs {
			if st, ok := in.(*ssa.Store); ok {
				root, path := eFieldPathOfAddr(st.Addr)
				if al, isA := root.(*ssa.Alloc); isA && len(path) == 1 && path[0] == fRate {
					res = al
				}
			}
		}
	}
	if res == nil {
		c.Unk("R25.1", name+":res.RewardsRate", c.Pos(nrs.Pos()), "no assignment to the RewardsRate of a local RewardsState found")
		return
	}
	okCopy := false
	if ws := eWholeStores(res); len(ws) == 1 {
		okCopy = eIsParamVal(ws[0].Val, pS)
	}

	// ---- R25.1 the refreshed rate ----
	overflowFalse := func(call *ssa.Call) Guard {
		return GBool("!overflowed("+calleeOf(call.Common()).Name()+")", func(v ssa.Value) bool { return eExtractOf(v, call, 1) }, false)
	}
	// usedUnder: value v (result #0 of a checked op) reaches `use` only under g
	type useCtx struct {
		phi  *ssa.Phi
		edge int
		at   ssa.Instruction
	}
	guardedUse := func(u useCtx, g Guard) bool {
		if u.phi != nil {
			return ePhiEdgeGuarded(u.phi, u.edge, g)
		}
		return eInstrGuarded(u.at, g)
	}
	var why string
	var floorOK func(v ssa.Value, u useCtx, d int) bool
	floorOK = func(v ssa.Value, u useCtx, d int) bool {
		if d > 6 {
			why = "expression too deep"
			return false
		}
		if isMinBal(v) || isPoolRaw(v) {
			return true
		}
		if p, ok := v.(*ssa.Phi); ok {
			for i, e := range p.Edges {
				if !floorOK(e, useCtx{phi: p, edge: i}, d+1) {
					return false
				}
			}
			return true
		}
		if call, ok := eCallOfExtract(v, 0); ok && sameFunc(calleeOf(call.Common()), oAdd) {
			if _, isExt := v.(*ssa.Extract); !isExt {
				why = "OAdd result not understood"
				return false
			}
			if !guardedUse(u, overflowFalse(call)) {
				why = "the sum added to MinBalance (basics.OAdd) is used without its overflow flag being false"
				return false
			}
			a := call.Common().Args
			if floorOK(a[0], u, d+1) || floorOK(a[1], u, d+1) {
				why = ""
				return true
			}
			why = "neither operand of basics.OAdd is nextProto.MinBalance"
			return false
		}
		why = "the amount withheld from the pool is " + describe(v) + ", not nextProto.MinBalance (optionally plus a checked addition) nor the pool balance"
		return false
	}
	var numerOK func(v ssa.Value, u useCtx, d int) bool
	numerOK = func(v ssa.Value, u useCtx, d int) bool {
		if d > 6 {
			why = "expression too deep"
			return false
		}
		if IsConstInt(0)(v) {
			return true
		}
		if p, ok := v.(*ssa.Phi); ok {
			for i, e := range p.Edges {
				if !numerOK(e, useCtx{phi: p, edge: i}, d+1) {
					return false
				}
			}
			return true
		}
		if call, ok := eCallOfExtract(v, 0); ok && sameFunc(calleeOf(call.Common()), oSub) {
			if !guardedUse(u, overflowFalse(call)) {
				why = "the result of basics.OSub(pool, withheld) is used as the new rate without its overflow flag being false"
				return false
			}
			a := call.Common().Args
			if !isPoolRaw(a[0]) {
				why = "the minuend of basics.OSub is not incentivePoolBalance.Raw: " + describe(a[0])
				return false
			}
			return floorOK(a[1], useCtx{at: call}, d+1)
		}
		why = "the refreshed rate derives from " + describe(v) + ", not from basics.OSub(incentivePoolBalance.Raw, withheld) or 0"
		return false
	}
	nRate := 0
	for _, ls := range eLeafStores(res) {
		if len(ls.Path) != 1 {
			continue
		}
		switch ls.Path[0] {
		case fRate:
			nRate++
			bo, ok := ls.St.Val.(*ssa.BinOp)
			if !ok || bo.Op != token.QUO {
				c.Bad("R25.1", name+":RewardsRate=N/RefreshInterval", c.Pos(ls.St.Pos()), "RewardsRate is not assigned a quotient: "+describe(ls.St.Val))
				continue
			}
			why = ""
			okN := numerOK(bo.X, useCtx{at: ls.St}, 0)
			d := "the refreshed rate is (pool − withheld)/interval with withheld ≥ MinBalance, or 0"
			if !okN {
				d = why
			}
			c.Check(okN, "R25.1", name+":RewardsRate numerator<=pool-MinBalance", c.Pos(ls.St.Pos()), d)
			c.Check(isInterval(bo.Y), "R25.1", name+":RewardsRate divisor==RewardsRateRefreshInterval", c.Pos(ls.St.Pos()), "the pool surplus is spread over nextProto.RewardsRateRefreshInterval rounds")
		case fRecalc:
			bo, ok := ls.St.Val.(*ssa.BinOp)
			okR := ok && bo.Op == token.ADD && ((eIsParamVal(bo.X, pRound) && isInterval(bo.Y)) || (eIsParamVal(bo.Y, pRound) && isInterval(bo.X)))
			c.Check(okR, "R25.1", name+":RewardsRecalculationRound=nextRound+RewardsRateRefreshInterval", c.Pos(ls.St.Pos()), "the rate is kept for exactly the interval it was divided by")
		}
	}
	if nRate == 0 {
		c.Unk("R25.1", name+":RewardsRate", c.Pos(nrs.Pos()), "no RewardsRate assignment found")
	}
	c.Check(okCopy, "R25.1", name+":res=s", c.Pos(nrs.Pos()), "the result starts as a copy of the receiver (previous state)")
	scope := ScanOpts{SkipGenerated: true, OnlyPkgs: []string{"data/bookkeeping", "ledger/eval/...", "ledger/apply"}}
	c.OwnerRule("R25.1", "write(RewardsState.RewardsRate/Level/Residue)", c.FieldWrites(map[*types.Var]bool{fRate: true, fLevel: true, fResidue: true}, scope), map[string]string{
		name:                  "the per-round update",
		bk + "MakeGenesisBlock": "genesis state (legacy initial-rate formula, outside the property)",
	})

	// ---- R25.3 level / residue shape ----
	{
		var lvl, rsd []*ssa.Store
		for _, ls := range eLeafStores(res) {
			if len(ls.Path) == 1 && ls.Path[0] == fLevel {
				lvl = append(lvl, ls.St)
			}
			if len(ls.Path) == 1 && ls.Path[0] == fResidue {
				rsd = append(rsd, ls.St)
			}
		}
		if len(lvl) != 1 || len(rsd) != 1 {
			c.Bad("R25.3", name+":one assignment each to RewardsLevel and RewardsResidue", c.Pos(nrs.Pos()), "expected exactly one assignment to res.RewardsLevel and one to res.RewardsResidue, found "+itoa(len(lvl))+" and "+itoa(len(rsd)))
		} else {
			ls, rs := lvl[0], rsd[0]
			oldOf := func(f *types.Var) VM {
				return func(v ssa.Value) bool {
					root, path, ok := eLoadPath(v)
					return ok && root == ssa.Value(res) && len(path) == 1 && path[0] == f && okCopy
				}
			}
			rateLeaf := func(v ssa.Value) bool {
				root, path, ok := eLoadPath(v)
				if !ok || len(path) != 1 || path[0] != fRate {
					return false
				}
				return root == ssa.Value(res) || eIsSpillOf(root, pS)
			}
			var isRate func(v ssa.Value, d int) bool
			isRate = func(v ssa.Value, d int) bool {
				if p, ok := v.(*ssa.Phi); ok && d < 4 {
					for _, e := range p.Edges {
						if !isRate(e, d+1) {
							return false
						}
					}
					return true
				}
				return rateLeaf(v)
			}
			okShape := false
			detail := "the level advances by the quotient of the distributed amount by the reward units"
			var x ssa.Value
			var tracker ssa.Value
			var addL *ssa.Call
			if call, ok := ls.Val.(*ssa.Call); ok && sameFunc(calleeOf(call.Common()), otAdd) {
				addL = call
				a := call.Common().Args // tracker, old level, quotient
				tracker = a[0]
				q, isQ := a[2].(*ssa.BinOp)
				l := a[1]
				if !isQ {
					q, isQ = a[1].(*ssa.BinOp)
					l = a[2]
				}
				switch {
				case !isQ || q.Op != token.QUO:
					detail = "RewardsLevel is not ot.Add(old level, X/totalRewardUnits)"
				case !oldOf(fLevel)(l):
					detail = "the level is not advanced from the previous res.RewardsLevel: " + describe(l)
				case !eIsParamVal(q.Y, pUnits):
					detail = "the per-unit reward is not divided by totalRewardUnits: " + describe(q.Y)
				default:
					x = q.X
					okShape = true
				}
			} else {
				detail = "RewardsLevel is not assigned the result of OverflowTracker.Add: " + describe(ls.Val)
			}
			c.Check(okShape, "R25.3", name+":RewardsLevel=ot.Add(RewardsLevel, X/totalRewardUnits)", c.Pos(ls.Pos()), detail)
			if okShape {
				m, isM := rs.Val.(*ssa.BinOp)
				okR := isM && m.Op == token.REM && m.X == x && eIsParamVal(m.Y, pUnits)
				d := "the residue is the remainder of the same dividend X by the same divisor"
				if !okR {
					d = "RewardsResidue is " + describe(rs.Val) + ", not X % totalRewardUnits for the X whose quotient advanced the level"
				}
				c.Check(okR, "R25.3", name+":RewardsResidue=X%totalRewardUnits (same X)", c.Pos(rs.Pos()), d)
				xa, isA := x.(*ssa.Call)
				okX := isA && sameFunc(calleeOf(xa.Common()), otAdd) && xa.Common().Args[0] == tracker
				if okX {
					a1, a2 := xa.Common().Args[1], xa.Common().Args[2]
					okX = (isRate(a1, 0) && oldOf(fResidue)(a2)) || (isRate(a2, 0) && oldOf(fResidue)(a1))
				}
				c.Check(okX, "R25.3", name+":X=ot.Add(RewardsRate, old RewardsResidue)", c.Pos(ls.Pos()), "the distributed amount is the rate in effect plus the carried residue, on the same overflow tracker")
				// both stores together, under the guards
				first, second := ssa.Instruction(ls), ssa.Instruction(rs)
				if !Dominates(first, second) {
					first, second = second, first
				}
				together := Dominates(first, second)
				if together {
					var rets []ssa.Instruction
					for _, r := range eReturnsOf(nrs) {
						rets = append(rets, r)
					}
					together, _ = eOnlyThrough(first, rets, map[ssa.Instruction]bool{second: true}, nil)
				}
				c.Check(together, "R25.3", name+":level and residue assigned together", c.Pos(ls.Pos()), "no path assigns one of RewardsLevel/RewardsResidue without the other")
				ovf := Guard{Name: "!ot.Overflowed (after both Adds)", Match: func(cond ssa.Value) (bool, bool) {
					root, path, ok := eLoadPath(cond)
					if !ok || root != tracker || len(path) != 1 || path[0] != fOverflowed {
						return false, false
					}
					ld := cond.(ssa.Instruction)
					if !Dominates(addL, ld) || !Dominates(xa, ld) {
						return false, false
					}
					return true, false
				}}
				c.MustGuard(MustGuardSpec{Rule: "R25.3", Fn: nrs, Effects: []ssa.Instruction{ls, rs}, EffName: "store(RewardsLevel,RewardsResidue)", Guards: []Guard{
					ovf,
					GCmp("totalRewardUnits!=0", token.NEQ, func(v ssa.Value) bool { return eIsParamVal(v, pUnits) }, IsConstInt(0)),
				}})
			}
		}
	}

	// ---- R25.2 / R25.4 StartEvaluator ----
	const ev = "ledger/eval."
	se := c.Fn(ev + "StartEvaluator")
	sname := ev + "StartEvaluator"
	fNRS := c.Func(bk + "RewardsState.NextRewardsState")
	fValidate := c.Field(ev + "EvaluatorOptions.Validate")
	fGenerate := c.Field(ev + "EvaluatorOptions.Generate")
	fBlock := c.Field(ev + "BlockEvaluator.block")
	fPrevHdr := c.Field(ev + "BlockEvaluator.prevHeader")
	fRS := c.Field(bk + "BlockHeader.RewardsState")
	fPool := c.Field(bk + "RewardsState.RewardsPool")
	fHdrRound := c.Field(bk + "BlockHeader.Round")
	fMicro := c.Field("ledger/ledgercore.AccountBaseData.MicroAlgos")
	rewardUnits := c.Func("ledger/ledgercore.AccountTotals.RewardUnits")
	lookupWR := c.Func(ev + "LedgerForEvaluator.LookupWithoutRewards")
	cowGet, cowPut := c.Func(ev+"roundCowState.Get"), c.Func(ev+"roundCowState.Put")
	calls := eCallsToIn(se, false, fNRS)
	var gen, val *ssa.Call
	for _, call := range calls {
		// the validator's call is compared, the proposer's is stored
		stored := false
		for _, r := range *call.Referrers() {
			if st, ok := r.(*ssa.Store); ok && st.Val == ssa.Value(call) {
				stored = true
			}
		}
		if stored {
			gen = call
		} else {
			val = call
		}
	}
	if gen == nil || val == nil || len(calls) != 2 {
		c.Unk("R25.2", sname+":NextRewardsState×2", c.Pos(se.Pos()), "expected one proposer and one validator call to NextRewardsState, found "+itoa(len(calls)))
	} else {
		isSucc := eSuccessReturns(se)
		blockRS := func(v ssa.Value) bool {
			_, path, ok := eLoadPath(v)
			return ok && len(path) >= 2 && path[0] == fBlock && path[len(path)-1] == fRS
		}
		c.MustGuard(MustGuardSpec{Rule: "R25.2", Fn: se, Effects: isSucc, EffName: "return evaluator",
			Guards: []Guard{GCmp("block.RewardsState==prevHeader.NextRewardsState(…)", token.EQL, blockRS, IsV(val))},
			Bypass: []Guard{GBool("!evalOpts.Validate", M(fValidate), false)}})
		// argument descriptors of the validator's call
		a := val.Common().Args // recv, round, proto, pool, units, log
		okRecv := Mentions(a[0], fPrevHdr, 4) && Mentions(a[0], fRS, 2)
		c.Check(okRecv, "R25.2", sname+":NextRewardsState receiver=prevHeader.RewardsState", c.Pos(val.Pos()), "the expected state is derived from the previous block's rewards state")
		okRound := Mentions(a[1], fHdrRound, 3)
		okUnits := false
		if u, ok := a[4].(*ssa.Call); ok && sameFunc(calleeOf(u.Common()), rewardUnits) {
			okUnits = true
		}
		okPool := false
		var poolLocal *ssa.Alloc
		if root, path, ok := eLoadPath(a[3]); ok && len(path) >= 1 && path[len(path)-1] == fMicro {
			if al, isA := root.(*ssa.Alloc); isA {
				poolLocal = al
				ws := eWholeStores(al)
				okPool = len(ws) > 0
				for _, st := range ws {
					if Mentions(st.Val, lookupWR, 6) {
						continue
					}
					okPool = false
				}
				for _, lk := range eCallsToIn(se, false, lookupWR) {
					la := eArgs(lk.Common())
					if !(Mentions(la[0], fPrevHdr, 4) && Mentions(la[1], fPrevHdr, 6) && Mentions(la[1], fPool, 6)) {
						okPool = false
					}
				}
			}
		}
		_ = poolLocal
		c.Check(okRound && okUnits && okPool, "R25.2", sname+":NextRewardsState(hdr.Round, proto, LookupWithoutRewards(prevHeader.Round, prevHeader.RewardsPool).MicroAlgos, prevTotals.RewardUnits())", c.Pos(val.Pos()), "the validator recomputes the state from the new round, the pool balance as of the previous round and the previous totals")
		ga := gen.Common().Args
		same := len(ga) == len(a)
		bad := ""
		for i := 0; same && i < len(a)-1; i++ {
			if !eSameShape(ga[i], a[i]) {
				same = false
				bad = "argument #" + itoa(i) + " differs: " + describe(ga[i]) + " vs " + describe(a[i])
			}
		}
		d := "proposer and validator evaluate NextRewardsState on the same argument expressions"
		if !same {
			d = "the proposer's and the validator's NextRewardsState calls take different arguments (" + bad + ")"
		}
		c.Check(same, "R25.2", sname+":generate call == validate call (argument shapes)", c.Pos(gen.Pos()), d)
		genStoreOK := false
		for _, r := range *gen.Referrers() {
			if st, ok := r.(*ssa.Store); ok {
				_, path := eFieldPathOfAddr(st.Addr)
				if len(path) >= 2 && path[0] == fBlock && path[len(path)-1] == fRS {
					genStoreOK = true
					c.MustGuard(MustGuardSpec{Rule: "R25.2", Fn: se, Effects: []ssa.Instruction{st}, EffName: "block.RewardsState=NextRewardsState(…)", Guards: []Guard{GBool("evalOpts.Generate", M(fGenerate), true)}})
				}
			}
		}
		if !genStoreOK {
			c.Bad("R25.2", sname+":block.RewardsState=NextRewardsState(…)", c.Pos(gen.Pos()), "the proposer's NextRewardsState result is not stored into the block header's RewardsState")
		}
	}

	// R25.4 pool withdrawal
	{
		puts := eCallsToIn(se, false, cowPut)
		subAs := eCallsToIn(se, false, otSubA)
		if len(puts) != 1 || len(subAs) != 2 {
			c.Unk("R25.4", sname+":Put(pool)/ot.SubA", c.Pos(se.Pos()), "expected one Put and two ot.SubA calls, found "+itoa(len(puts))+" and "+itoa(len(subAs)))
		} else {
			put := puts[0]
			pa := eArgs(put.Common())
			poolNew, isL := eLoadedLocal(pa[1])
			var withdraw, floor *ssa.Call
			var storeNew *ssa.Store
			if isL {
				for _, ls := range eLeafStores(poolNew) {
					if ls.Path[len(ls.Path)-1] == fMicro {
						if call, ok := ls.St.Val.(*ssa.Call); ok && sameFunc(calleeOf(call.Common()), otSubA) {
							withdraw, storeNew = call, ls.St
						}
					}
				}
			}
			for _, s := range subAs {
				if s != withdraw {
					floor = s
				}
			}
			if withdraw == nil || floor == nil {
				c.Bad("R25.4", sname+":poolNew.MicroAlgos=ot.SubA(poolOld.MicroAlgos, …)", c.Pos(put.Pos()), "the record written for the pool does not get its MicroAlgos from ot.SubA")
			} else {
				tracker := withdraw.Common().Args[0]
				wa := withdraw.Common().Args
				// subtrahend: MicroAlgos{Raw: ot.Mul(RewardUnits(), ot.Sub(block.RewardsLevel, prevHeader.RewardsLevel))}
				okAmt := false
				detail := "withdrawal = units × (new level − previous level)"
				if lit, ok := eLoadedLocal(wa[2]); ok {
					for _, ls := range eLeafStores(lit) {
						if ls.Path[0] != fRaw {
							continue
						}
						mul, ok := ls.St.Val.(*ssa.Call)
						if !ok || !sameFunc(calleeOf(mul.Common()), otMul) || mul.Common().Args[0] != tracker {
							detail = "the withdrawn amount is not ot.Mul(…) on the same tracker: " + describe(ls.St.Val)
							continue
						}
						m1, m2 := mul.Common().Args[1], mul.Common().Args[2]
						isUnits := func(v ssa.Value) bool {
							u, ok := v.(*ssa.Call)
							return ok && sameFunc(calleeOf(u.Common()), rewardUnits)
						}
						isDelta := func(v ssa.Value) bool {
							s, ok := v.(*ssa.Call)
							if !ok || !sameFunc(calleeOf(s.Common()), otSub) || s.Common().Args[0] != tracker {
								return false
							}
							x, y := s.Common().Args[1], s.Common().Args[2]
							_, px, okx := eLoadPath(x)
							_, py, oky := eLoadPath(y)
							return okx && oky && len(px) >= 2 && len(py) >= 2 && px[0] == fBlock && px[len(px)-1] == fLevel && py[0] == fPrevHdr && py[len(py)-1] == fLevel
						}
						if (isUnits(m1) && isDelta(m2)) || (isUnits(m2) && isDelta(m1)) {
							okAmt = true
						} else {
							detail = "the withdrawn amount is not RewardUnits() × ot.Sub(block.RewardsLevel, prevHeader.RewardsLevel)"
						}
					}
				} else {
					detail = "withdrawn amount not understood: " + describe(wa[2])
				}
				c.Check(okAmt, "R25.4", sname+":withdraw=ot.Mul(RewardUnits(), ot.Sub(block.RewardsLevel, prevHeader.RewardsLevel))", c.Pos(withdraw.Pos()), detail)
				// minuend: poolOld.MicroAlgos where poolNew started as a copy of poolOld and poolOld was read for the same address
				okOld := false
				if root, path, ok := eLoadPath(wa[1]); ok && path[len(path)-1] == fMicro {
					if old, isA := root.(*ssa.Alloc); isA {
						ws := eWholeStores(poolNew)
						okOld = len(ws) == 1
						if okOld {
							src, isSrc := eLoadedLocal(ws[0].Val)
							okOld = isSrc && src == old
						}
						for _, st := range eWholeStores(old) {
							okSrc := false
							if g, isG := eCallOfExtract(st.Val, 0); isG {
								if sameFunc(calleeOf(g.Common()), cowGet) && eSameVal(eArgs(g.Common())[0], pa[0]) {
									okSrc = true
								}
								if calleeOf(g.Common()) != nil && calleeOf(g.Common()).Name() == "workaroundOverspentRewards" {
									okSrc = true
								}
							}
							okOld = okOld && okSrc
						}
					}
				}
				c.Check(okOld, "R25.4", sname+":Put(poolAddr, poolOld−withdraw) for the address read", c.Pos(put.Pos()), "the debited record is the pool's own record (Get/Put on the same address; the tabled testnet hotfix may refresh it)")
				c.Check(Mentions(pa[0], fPool, 6) && Mentions(pa[0], fPrevHdr, 6), "R25.4", sname+":poolAddr=prevHeader.RewardsPool", c.Pos(put.Pos()), "the account debited is the rewards pool")
				// floor: ot.SubA(poolNew.MicroAlgos, {Raw: proto.MinBalance})
				fa := floor.Common().Args
				okFloor := fa[0] == tracker
				if okFloor {
					root, path, ok := eLoadPath(fa[1])
					okFloor = ok && root == ssa.Value(poolNew) && path[len(path)-1] == fMicro && Dominates(storeNew, floor)
					if lit, isLit := eLoadedLocal(fa[2]); okFloor && isLit {
						okFloor = false
						for _, ls := range eLeafStores(lit) {
							if ls.Path[0] == fRaw && Mentions(ls.St.Val, fMinBal, 3) {
								okFloor = true
							}
						}
					} else {
						okFloor = false
					}
				}
				c.Check(okFloor, "R25.4", sname+":ot.SubA(poolNew.MicroAlgos, proto.MinBalance)", c.Pos(floor.Pos()), "the pool balance after the withdrawal is tested against MinBalance on the same tracker")
				after := func(nm string, op ssa.Instruction) Guard {
					return Guard{Name: "!ot.Overflowed after " + nm, Match: func(cond ssa.Value) (bool, bool) {
						root, path, ok := eLoadPath(cond)
						if !ok || root != tracker || len(path) != 1 || path[0] != fOverflowed {
							return false, false
						}
						if !Dominates(op, cond.(ssa.Instruction)) {
							return false, false
						}
						return true, false
					}}
				}
				c.MustGuard(MustGuardSpec{Rule: "R25.4", Fn: se, Effects: []ssa.Instruction{put}, EffName: "Put(pool)", Guards: []Guard{after("the withdrawal", withdraw)}})
				c.MustGuard(MustGuardSpec{Rule: "R25.4", Fn: se, Effects: eSuccessReturns(se), EffName: "return evaluator", Guards: []Guard{
					after("the MinBalance test", floor),
					GErrNil("Put(pool) err==nil", IsV(put)),
				}})
			}
		}
	}
	eDump(c)
}
