package main

// Lock tables (T8), taken from the struct comments of the ledger trackers, the
// block queue and the transaction pool. Each Exempt entry was confirmed by
// reading the code; the reason is part of the obligation text.

// lockAccountUpdates: C08 R08.2.
func lockAccountUpdates(c *Ctx, rule string) {
	c.RunLockset(&LockSpec{
		Rule:   rule,
		Struct: c.Named("ledger.accountUpdates"),
		Mu:     c.Field("ledger.accountUpdates.accountsMu"),
		Guarded: c.Fields(
			"ledger.accountUpdates.cachedDBRound", "ledger.accountUpdates.deltas", "ledger.accountUpdates.accounts",
			"ledger.accountUpdates.resources", "ledger.accountUpdates.kvStore", "ledger.accountUpdates.creatables",
			"ledger.accountUpdates.versions", "ledger.accountUpdates.roundTotals", "ledger.accountUpdates.deltasAccum"),
		Pkgs:                []string{"ledger"},
		WritesNeedExclusive: true,
		Exempt:              lockExemptAccountUpdates,
	})
}

var lockExemptAccountUpdates = map[string]string{
	"ledger.accountUpdatesLedgerEvaluator.*": "ledger emulator used only by trackerRegistry.replay during (re)initialisation, which runs with the tracker lock held exclusively (see its doc comment); R08.2 also checks that it is constructed only there",
}

// lockOnlineAccounts: C13.
func lockOnlineAccounts(c *Ctx, rule string) {
	c.RunLockset(&LockSpec{
		Rule:   rule,
		Struct: c.Named("ledger.onlineAccounts"),
		Mu:     c.Field("ledger.onlineAccounts.accountsMu"),
		Guarded: c.Fields(
			"ledger.onlineAccounts.cachedDBRoundOnline", "ledger.onlineAccounts.deltas", "ledger.onlineAccounts.accounts",
			"ledger.onlineAccounts.onlineRoundParamsData", "ledger.onlineAccounts.deltasAccum"),
		Pkgs:                []string{"ledger"},
		WritesNeedExclusive: true,
		Exempt:              lockExemptOnlineAccounts,
	})
}

var lockExemptOnlineAccounts = map[string]string{}

// lockTxTail: C11 R11.4.
func lockTxTail(c *Ctx, rule string) {
	c.RunLockset(&LockSpec{
		Rule:   rule,
		Struct: c.Named("ledger.txTail"),
		Mu:     c.Field("ledger.txTail.tailMu"),
		Guarded: c.Fields(
			"ledger.txTail.lastValid", "ledger.txTail.recent", "ledger.txTail.lowWaterMark",
			"ledger.txTail.roundTailHashes", "ledger.txTail.roundTailSerializedDeltas", "ledger.txTail.blockHeaderData"),
		Pkgs:                []string{"ledger"},
		WritesNeedExclusive: true,
		Exempt:              lockExemptTxTail,
	})
}

var lockExemptTxTail = map[string]string{}

// lockBlockQueue: C09 R09.5.
func lockBlockQueue(c *Ctx, rule string) {
	c.RunLockset(&LockSpec{
		Rule:                rule,
		Struct:              c.Named("ledger.blockQueue"),
		Mu:                  c.Field("ledger.blockQueue.mu"),
		Guarded:             c.Fields("ledger.blockQueue.lastCommitted", "ledger.blockQueue.q", "ledger.blockQueue.running"),
		Pkgs:                []string{"ledger"},
		WritesNeedExclusive: true,
		Exempt:              lockExemptBlockQueue,
	})
}

var lockExemptBlockQueue = map[string]string{}

// lockTxPool: C44 R44.4 — mu protects the pending block evaluator and the
// remembered sets. The pendingMu table (pendingTxGroups/pendingTxids) is NOT
// armed: TransactionPool.Reset rewrites both under mu only, which deviates
// from the struct comment but is outside what C44 states (see DESIGN §8).
func lockTxPool(c *Ctx, rule string) {
	c.RunLockset(&LockSpec{
		Rule:   rule + "b",
		Struct: c.Named("data/pools.TransactionPool"),
		Mu:     c.Field("data/pools.TransactionPool.mu"),
		Guarded: c.Fields("data/pools.TransactionPool.pendingBlockEvaluator", "data/pools.TransactionPool.rememberedTxGroups",
			"data/pools.TransactionPool.rememberedTxids", "data/pools.TransactionPool.numPendingWholeBlocks"),
		Pkgs:                []string{"data/pools"},
		WritesNeedExclusive: true,
		Exempt:              lockExemptTxPoolMu,
	})
}

var lockExemptTxPoolMu = map[string]string{
	"data/pools.MakeTransactionPool": "constructor: the pool is not shared yet",
}

