package main

import (
	"go/types"
	"reflect"
	"sort"
	"strings"

	"golang.org/x/tools/go/ssa"
)

// R40.8: sorters of struct-typed map keys compare the fields in the order the
// canonical encoding writes them.
//
// Found by an independent audit of C40 on the pinned tree (KNOWN FINDING: the
// repair contradicts an existing test, TestSortProposalValueLess, which pins the
// old order, and existing tests must pass unedited). The reflection codec in
// canonical mode orders struct-typed map keys by their ENCODED BYTES, i.e.
// field by field in the order the struct is encoded — codec names sorted:
// for proposalValue dig, encdig, oper, oprop. agreement.SortProposalValue.Less,
// which the generated marshalers of voteTracker.Counts and
// proposalStore.Assemblers use, compares OriginalPeriod, OriginalProposer,
// BlockDigest, EncodingDigest. With two non-bottom proposal values in one map
// (two proposers in a period) protocol.Encode and protocol.EncodeReflect
// disagree about half the time, and so do the two encodings of the agreement
// crash state. Decoding is order-independent and production persists with the
// generated encoder only, so nothing breaks at run time.
func init() {
	extend("C40", Extension{
		Run:         ruleStructSortersFollowEncodingOrder,
		Explanation: "R40.8 (struct-keyed map sorters follow the encoded field order): for every Sort… slice type of the module with Len/Less/Swap whose elements are structs, the fields Less compares appear in the order of their codec names (the order in which the canonical encoding writes them, which is what the reflection codec sorts struct keys by); this is a necessary condition only — variable-width integers make byte order differ from numeric order as well. KNOWN FINDING: agreement.SortProposalValue.Less compares oper, oprop, dig, encdig while the encoding order is dig, encdig, oper, oprop.",
		Floor:       map[string]int{"R40.8": 1},
	})
}

func ruleStructSortersFollowEncodingOrder(c *Ctx) {
	const rule = "R40.8"
	n := 0
	var pkgs []*ssa.Package
	for _, sp := range c.SSAPkg {
		if sp != nil && sp.Pkg != nil && inModule(sp.Pkg.Path()) {
			pkgs = append(pkgs, sp)
		}
	}
	sort.Slice(pkgs, func(i, j int) bool { return pkgs[i].Pkg.Path() < pkgs[j].Pkg.Path() })
	for _, sp := range pkgs {
		var names []string
		for name := range sp.Members {
			names = append(names, name)
		}
		sort.Strings(names)
		for _, name := range names {
			t, ok := sp.Members[name].(*ssa.Type)
			if !ok || !strings.HasPrefix(name, "Sort") {
				continue
			}
			sl, ok := t.Type().Underlying().(*types.Slice)
			if !ok {
				continue
			}
			st, ok := sl.Elem().Underlying().(*types.Struct)
			if !ok {
				continue
			}
			var less *ssa.Function
			ms := c.SSA.MethodSets.MethodSet(t.Type())
			for i := 0; i < ms.Len(); i++ {
				if ms.At(i).Obj().Name() == "Less" {
					less = c.SSA.MethodValue(ms.At(i))
				}
			}
			if less == nil || len(less.Blocks) == 0 {
				continue
			}
			// codec names of the fields
			codec := map[*types.Var]string{}
			for i := 0; i < st.NumFields(); i++ {
				tag := reflect.StructTag(st.Tag(i)).Get("codec")
				nm := strings.Split(tag, ",")[0]
				if nm == "" || nm == "-" {
					continue
				}
				codec[st.Field(i)] = nm
			}
			// fields in the order Less first looks at them (blocks are numbered in source order)
			var seq []string
			seen := map[*types.Var]bool{}
			for _, b := range less.Blocks {
				for _, in := range b.Instrs {
					var f *types.Var
					switch x := in.(type) {
					case *ssa.FieldAddr:
						f = structField(x.X.Type(), x.Field)
					case *ssa.Field:
						f = structField(x.X.Type(), x.Field)
					}
					if f != nil && codec[f] != "" && !seen[f] {
						seen[f] = true
						seq = append(seq, codec[f])
					}
				}
			}
			if len(seq) < 2 {
				continue
			}
			n++
			sorted := append([]string{}, seq...)
			sort.Strings(sorted)
			ok2 := strings.Join(sorted, ",") == strings.Join(seq, ",")
			c.Check(ok2, rule, strings.TrimPrefix(sp.Pkg.Path(), Mod+"/")+"."+name+".Less:fields compared in encoding order", c.Pos(less.Pos()),
				"Less compares the fields in the order "+strings.Join(seq, ", ")+"; the canonical encoding writes (and the reflection codec sorts struct keys by) "+strings.Join(sorted, ", "))
		}
	}
	if n == 0 {
		c.Unk(rule, "Sort* helpers over structs", "-", "no struct-keyed sorter found")
	}
}
