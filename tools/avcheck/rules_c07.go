package main

import (
	"go/constant"
	"go/token"
	"go/types"
	"reflect"
	"sort"
	"strings"

	"golang.org/x/tools/go/ssa"
)

func init() {
	register(&Prop{
		ID:       "C07",
		Patterns: []string{"./agreement"},
		Run:      runC07,
		Explanation: "Decides coverage clauses of 'persisted consensus state restores exactly', not behavioural equality of the restored node. " +
			"R07.1 walking every struct type of packages agreement and data/committee reachable through encoded fields from player, rootRouter, diskState and every concrete action type: each field that is NOT encoded (unexported, or codec:\"-\") is in the reviewed 'reconstructed or deliberately not persisted' table (router listener roots, rootRouter.root, network handles, done channel, validated-block cache, timing/telemetry fields, credential-arrival history), no exported field has an unencodable (chan/func) type; the table's reconstruction claims are checked: every router type's update() stores its listener roots and every read of a root in its dispatch() is dominated by the update() call; rootRouter.root is stored by makeRootRouter and in decode every Decode/DecodeReflect into a rootRouter is dominated by storing makeRootRouter's result into it; every success return of decode passes the re-creation of player.lowestCredentialArrivals. " +
			"R07.3 zeroAction returns, for every actionType constant, the concrete action type whose t() can yield it (constant t(), or the constants stored in the type's T field anywhere in the package), except the reviewed never-persisted table (only stageDigest: built solely in player.handleThresholdEvent's cert-without-block branch, which cannot also emit the attest action that triggers persistence; obligations pin this: its literal is built only there, from Certificate(EV.Bundle), only past EV.t()==certThreshold and only on the NOT-committable edge of the stagedValue test); decode instantiates zeroAction(s.ActionTypes[i]) for the bytes s.Actions[i] of the same index and encode stores act.t() and the encoding of the same act under one index. " +
			"R07.4 encode writes and decode reads exactly the fields of diskState, and each of Router/Player is decoded into the type it was encoded from; Clock is produced/consumed by the clock's own Encode/Decode. " +
			"Does NOT decide: that generated msgp code agrees with the struct tags (R07.2, wired in separately), that the decoded values equal the encoded ones, nor behaviour after restore; fields in the table are by design not restored (credential-arrival history and validatedAt/receivedAt timing affect only filter-timeout timing and telemetry).",
		Assumptions: []string{"go-codec / msgp encode exactly the exported, non codec:\"-\" fields", "protocol.Decode/DecodeReflect fill the object passed as second argument"},
		Floor:       map[string]int{"R07.1": 88, "R07.3": 21, "R07.4": 5},
	})
}

// aPersistWalk visits every struct type reachable through encoded fields from
// the start types and reports the fields that are NOT encoded (unexported or
// codec:"-").
type aSkipField struct {
	Owner *types.Named
	Field *types.Var
	Why   string
}

func aCodecName(tag string) (name string, skip bool) {
	v, ok := reflect.StructTag(tag).Lookup("codec")
	if !ok {
		return "", false
	}
	name = strings.Split(v, ",")[0]
	return name, name == "-"
}

func aPersistWalk(c *Ctx, starts []*types.Named) (skipped []aSkipField, visited []*types.Named, ifaces []string) {
	seen := map[*types.Named]bool{}
	var visitType func(t types.Type, from string)
	var visitNamed func(nt *types.Named)
	visitType = func(t types.Type, from string) {
		switch x := types.Unalias(t).(type) {
		case *types.Pointer:
			visitType(x.Elem(), from)
		case *types.Slice:
			visitType(x.Elem(), from)
		case *types.Array:
			visitType(x.Elem(), from)
		case *types.Map:
			visitType(x.Key(), from)
			visitType(x.Elem(), from)
		case *types.Named:
			if _, isStruct := x.Underlying().(*types.Struct); isStruct {
				visitNamed(x)
			} else if _, isIface := x.Underlying().(*types.Interface); !isIface {
				visitType(x.Underlying(), from)
			}
		case *types.Chan, *types.Signature:
			ifaces = append(ifaces, from)
		}
	}
	visitNamed = func(nt *types.Named) {
		nt = nt.Origin()
		if seen[nt] {
			return
		}
		seen[nt] = true
		if nt.Obj().Pkg() == nil || (nt.Obj().Pkg().Path() != Mod+"/agreement" && nt.Obj().Pkg().Path() != Mod+"/data/committee") {
			// other packages' types are leaves here: their encoders are C40's subject
			return
		}
		visited = append(visited, nt)
		st := nt.Underlying().(*types.Struct)
		for i := 0; i < st.NumFields(); i++ {
			f := st.Field(i)
			if f.Name() == "_struct" || f.Name() == "_" {
				continue
			}
			_, skip := aCodecName(st.Tag(i))
			switch {
			case skip:
				skipped = append(skipped, aSkipField{nt, f, "codec:\"-\""})
			case !f.Exported() && !f.Embedded():
				skipped = append(skipped, aSkipField{nt, f, "unexported"})
			case !f.Exported() && f.Embedded():
				// embedded unexported struct types: go-codec/msgp inline their exported fields
				visitType(f.Type(), relPkg(nt.Obj().Pkg().Path())+"."+nt.Obj().Name()+"."+f.Name())
			default:
				visitType(f.Type(), relPkg(nt.Obj().Pkg().Path())+"."+nt.Obj().Name()+"."+f.Name())
			}
		}
	}
	for _, s := range starts {
		visitNamed(s)
	}
	sort.Slice(skipped, func(i, j int) bool {
		a, b := skipped[i], skipped[j]
		if a.Owner.Obj().Name() != b.Owner.Obj().Name() {
			return a.Owner.Obj().Name() < b.Owner.Obj().Name()
		}
		return a.Field.Name() < b.Field.Name()
	})
	return
}

func aTypeSpec(nt *types.Named) string {
	return relPkg(nt.Obj().Pkg().Path()) + "." + nt.Obj().Name()
}

// aNotPersisted is the reviewed table of fields of persisted types that are
// not encoded, with the reason why restoring without them is intended.
var aNotPersisted = map[string]string{
	"agreement.rootRouter.root":                       "reconstructed: makeRootRouter in decode (checked by R07.1)",
	"agreement.rootRouter.proposalRoot":               "reconstructed lazily by rootRouter.update (checked by R07.1)",
	"agreement.rootRouter.voteRoot":                   "reconstructed lazily by rootRouter.update (checked by R07.1)",
	"agreement.roundRouter.proposalRoot":              "reconstructed lazily by roundRouter.update (checked by R07.1)",
	"agreement.roundRouter.voteRoot":                  "reconstructed lazily by roundRouter.update (checked by R07.1)",
	"agreement.periodRouter.proposalRoot":             "reconstructed lazily by periodRouter.update (checked by R07.1)",
	"agreement.periodRouter.voteRoot":                 "reconstructed lazily by periodRouter.update (checked by R07.1)",
	"agreement.stepRouter.voteRoot":                   "reconstructed lazily by stepRouter.update (checked by R07.1)",
	"agreement.player.lowestCredentialArrivals":       "re-created empty in decode (checked by R07.1); only the dynamic filter timeout depends on it",
	"agreement.player.dynamicFilterTimeout":           "telemetry only",
	"agreement.ensureAction.voteValidatedAt":          "telemetry only",
	"agreement.ensureAction.dynamicFilterTimeout":     "telemetry only",
	"agreement.checkpointAction.done":                 "completion channel of the running process; checkpointAction.do tolerates nil",
	"agreement.networkAction.h":                       "ephemeral network handle, cleared on recovery by design",
	"agreement.message.messageHandle":                 "ephemeral network handle, cleared on recovery by design",
	"agreement.proposal.ve":                           "validated-block cache; ensureAction.do falls back to the raw block when nil",
	"agreement.proposal.validatedAt":                  "timing telemetry",
	"agreement.unauthenticatedProposal.receivedAt":    "timing telemetry",
	"agreement.vote.validatedAt":                      "credential-arrival timing only (dynamic filter timeout)",
	"agreement.proposalSeeker.lowestIncludingLate":    "credential-arrival tracking only (dynamic filter timeout)",
	"agreement.proposalSeeker.hasLowestIncludingLate": "credential-arrival tracking only (dynamic filter timeout)",
}

// aNeverPersistedAction is the reviewed table of action types for which
// zeroAction may lack a case because such an action can never be part of a
// persisted action list. Each entry names the only functions that may build
// the action, so that a new emitter forces a review.
var aNeverPersistedAction = map[string]*struct {
	reason string
	owners map[string]string
	anchor func(c *Ctx, T *types.Named) // extra obligations that pin the reason to the code
}{
	"stageDigest": {
		reason: "never co-occurs with a persistent (attest) action in one submitTop result: emitted only by player.handleThresholdEvent's cert-threshold-without-block branch, whose continuation enterPeriod(certThreshold source) cannot issue a cert vote (the staged value it would vote for was just found not committable); a list is persisted only when it contains an attest action",
		owners: map[string]string{"agreement.player.handleThresholdEvent": "cert threshold reached without the block: hint the ledger to fetch it"},
		anchor: aStageDigestBranch,
	},
}

// aStageDigestBranch pins "cert-threshold-without-block branch": every store
// into a stageDigestAction takes Certificate(EV.Bundle) and is reachable only
// through EV.t()==certThreshold and through the NOT-committable edge of the
// stagedValue test.
func aStageDigestBranch(c *Ctx, T *types.Named) {
	fCert := c.Field("agreement.stageDigestAction.Certificate")
	fBundle := c.Field("agreement.thresholdEvent.Bundle")
	fCommittable := c.Field("agreement.stagingValueEvent.Committable")
	stagedValue := c.Func("agreement.stagedValue")
	stores := aStoresIn(c, map[*types.Var]bool{fCert: true}, "agreement")
	if len(stores) == 0 {
		c.Unk("R07.3", "store(stageDigestAction.Certificate)", "-", "no store into a stageDigestAction found")
	}
	for _, s := range stores {
		name := fnName(s.Fn)
		p := aRootPath(s.Store.Val)
		if p.last() != fBundle {
			c.Bad("R07.3", name+":stageDigestAction.Certificate<=Certificate(EV.Bundle)", c.Pos(s.Store.Pos()), "the staged digest is not taken from a threshold event's bundle: "+p.String())
			continue
		}
		notCommittable := GBool("!stagedValue(…).Committable", func(v ssa.Value) bool {
			q := aRootPath(v)
			call, ok := q.Root.(*ssa.Call)
			return ok && len(q.Fields) == 1 && q.Fields[0] == fCommittable && sameFunc(calleeOf(call.Common()), stagedValue)
		}, false)
		c.MustGuard(MustGuardSpec{Rule: "R07.3", Fn: s.Fn, Effects: []ssa.Instruction{s.Store}, EffName: "store(stageDigestAction.Certificate)", Guards: []Guard{aCertThresholdGuard(c, p.parent(1)), notCommittable}})
	}
}

func runC07(c *Ctx) {
	defer aDebug(c)
	agr := c.Pkg("agreement")
	actionNamed := c.Named("agreement.action")
	actionI := actionNamed.Underlying().(*types.Interface)
	var actionTypes []*types.Named
	sc := agr.Types.Scope()
	for _, n := range sc.Names() {
		if tn, ok := sc.Lookup(n).(*types.TypeName); ok && !tn.IsAlias() {
			if nt, ok := tn.Type().(*types.Named); ok {
				if _, isS := nt.Underlying().(*types.Struct); isS && types.Implements(nt, actionI) {
					actionTypes = append(actionTypes, nt)
				}
			}
		}
	}

	// ---- R07.1: what is not encoded ----
	{
		starts := append([]*types.Named{c.Named("agreement.player"), c.Named("agreement.rootRouter"), c.Named("agreement.diskState")}, actionTypes...)
		skipped, visited, bad := aPersistWalk(c, starts)
		for _, v := range visited {
			c.Ok("R07.1", "walk:"+aTypeSpec(v), c.Pos(v.Obj().Pos()), "persisted struct type reached through encoded fields")
		}
		for _, s := range skipped {
			key := aTypeSpec(s.Owner) + "." + s.Field.Name()
			if why, ok := aNotPersisted[key]; ok {
				c.Ok("R07.1", "not-encoded:"+key, c.Pos(s.Field.Pos()), s.Why+"; reviewed: "+why)
			} else {
				c.Bad("R07.1", "not-encoded:"+key, c.Pos(s.Field.Pos()), "field "+key+" ("+s.Why+", type "+types.TypeString(s.Field.Type(), func(p *types.Package) string { return p.Name() })+") belongs to persisted consensus state but is not encoded and is not in the reviewed reconstruction table: it is lost on restart")
			}
		}
		for _, b := range bad {
			c.Bad("R07.1", "unencodable:"+b, "-", "an exported field of a persisted type has a channel or function type: it cannot be encoded")
		}

		// (a) router listener roots
		listener := c.Named("agreement.listener")
		for _, rt := range []string{"rootRouter", "roundRouter", "periodRouter", "stepRouter"} {
			T := c.Named("agreement." + rt)
			upd := c.Fn("agreement." + rt + ".update")
			updF := c.Func("agreement." + rt + ".update")
			disp := c.Fn("agreement." + rt + ".dispatch")
			for _, f := range aFieldsOf(T) {
				if !types.Identical(f.Type(), listener) {
					continue
				}
				set := map[*types.Var]bool{f: true}
				c.Check(len(StoresToField(upd, false, set)) > 0, "R07.1", "agreement."+rt+".update:store("+f.Name()+")", c.Pos(upd.Pos()), "update() (re)creates the listener root "+f.Name())
				ucalls := CallsTo(disp, false, updF)
				okDom, n := true, 0
				for _, in := range Instrs(disp, func(in ssa.Instruction) bool {
					fa, ok := in.(*ssa.FieldAddr)
					return ok && structField(fa.X.Type(), fa.Field) == f
				}) {
					n++
					dom := false
					for _, u := range ucalls {
						if Dominates(u, in) && len(u.Common().Args) > 0 && u.Common().Args[0] == in.(*ssa.FieldAddr).X {
							dom = true
						}
					}
					if !dom {
						okDom = false
					}
				}
				c.Check(okDom && n > 0, "R07.1", "agreement."+rt+".dispatch:read("+f.Name()+")<=update()", c.Pos(disp.Pos()), "every use of the root in dispatch() follows update() on the same router")
			}
		}
		// (b) rootRouter.root
		{
			fRoot := c.Field("agreement.rootRouter.root")
			mk := c.Fn("agreement.makeRootRouter")
			mkF := c.Func("agreement.makeRootRouter")
			c.Check(len(StoresToField(mk, false, map[*types.Var]bool{fRoot: true})) > 0, "R07.1", "agreement.makeRootRouter:store(root)", c.Pos(mk.Pos()), "makeRootRouter installs the player actor")
			dec := c.Fn("agreement.decode")
			decoders := []*types.Func{c.Func("protocol.Decode"), c.Func("protocol.DecodeReflect")}
			rrT := c.Named("agreement.rootRouter")
			n, ok := 0, true
			for _, call := range CallsTo(dec, false, decoders...) {
				a := call.Common().Args
				if len(a) != 2 {
					continue
				}
				al, isAlloc := strip(a[1]).(*ssa.Alloc)
				if !isAlloc || !types.Identical(al.Type().(*types.Pointer).Elem(), rrT) {
					continue
				}
				n++
				dom := false
				for _, r := range *al.Referrers() {
					if st, isSt := r.(*ssa.Store); isSt && st.Addr == ssa.Value(al) {
						if _, isRes := asResultOf(st.Val, -1, mkF); isRes && Dominates(st, call) {
							dom = true
						}
					}
				}
				if !dom {
					ok = false
				}
			}
			c.Check(ok && n > 0, "R07.1", "agreement.decode:Decode(Router)<=rr=makeRootRouter(p)", c.Pos(dec.Pos()), "every decode into the router ("+itoa(n)+" call(s)) happens into a router whose root was installed by makeRootRouter")
		}
		// (c) lowestCredentialArrivals
		{
			dec := c.Fn("agreement.decode")
			fHist := c.Field("agreement.player.lowestCredentialArrivals")
			mkHist := c.Func("agreement.makeCredentialArrivalHistory")
			stop := func(in ssa.Instruction) bool {
				st, ok := in.(*ssa.Store)
				if !ok {
					return false
				}
				fa, ok := st.Addr.(*ssa.FieldAddr)
				if !ok || structField(fa.X.Type(), fa.Field) != fHist {
					return false
				}
				_, isRes := asResultOf(st.Val, -1, mkHist)
				return isRes
			}
			r := NewReach(dec, nil, stop)
			succ := aSuccessReturns(dec)
			ok := len(succ) > 0
			where := ""
			for _, s := range succ {
				if r.Reaches(s) {
					ok = false
					where += " " + c.Pos(s.Pos()) + "[" + r.PathTo(c.Program, s) + "]"
				}
			}
			c.Check(ok, "R07.1", "agreement.decode:success=>player.lowestCredentialArrivals re-created", c.Pos(dec.Pos()), "no success return of decode is reachable without re-creating the credential arrival history"+where)
		}
	}

	// ---- R07.3: action types round-trip ----
	{
		actT := c.Named("agreement.actionType")
		// constants of actionType
		type kconst struct {
			obj *types.Const
			val int64
		}
		var consts []kconst
		for _, n := range sc.Names() {
			if k, ok := sc.Lookup(n).(*types.Const); ok && types.Identical(k.Type(), actT) {
				v, _ := constant.Int64Val(constant.ToInt(k.Val()))
				consts = append(consts, kconst{k, v})
			}
		}
		sort.Slice(consts, func(i, j int) bool { return consts[i].val < consts[j].val })
		// which concrete type yields which constants
		yields := map[int64][]*types.Named{}
		for _, T := range actionTypes {
			var tm *types.Func
			ms := types.NewMethodSet(T)
			for i := 0; i < actionI.NumMethods(); i++ {
				im := actionI.Method(i)
				if sig := im.Type().(*types.Signature); sig.Results().Len() == 1 && types.Identical(sig.Results().At(0).Type(), actT) {
					if sel := ms.Lookup(im.Pkg(), im.Name()); sel != nil {
						tm, _ = sel.Obj().(*types.Func)
					}
				}
			}
			fn := c.SSAOf(tm)
			if fn == nil {
				c.Unk("R07.3", aTypeSpec(T)+".t()", c.Pos(T.Obj().Pos()), "no body for the action-type method")
				continue
			}
			for _, ret := range aReturns(fn) {
				if k, isK := aConstOf(ret.Results[0]); isK {
					yields[k] = append(yields[k], T)
					continue
				}
				p := aRootPath(ret.Results[0])
				if len(p.Fields) != 1 || len(fn.Params) == 0 || p.Root != ssa.Value(fn.Params[0]) {
					c.Unk("R07.3", aTypeSpec(T)+".t()", c.Pos(fn.Pos()), "t() returns neither a constant nor a field of the receiver: "+describe(ret.Results[0]))
					continue
				}
				for _, st := range aStoresIn(c, map[*types.Var]bool{p.Fields[0]: true}, "agreement") {
					if aGeneratedFn(c, st.Fn) {
						continue
					}
					k, isK := aConstOf(st.Store.Val)
					if !isK {
						c.Unk("R07.3", aTypeSpec(T)+"."+p.Fields[0].Name()+"@"+fnName(st.Fn), c.Pos(st.Store.Pos()), "the action type field receives a non-constant value: "+describe(st.Store.Val))
						continue
					}
					dup := false
					for _, x := range yields[k] {
						if x == T {
							dup = true
						}
					}
					if !dup {
						yields[k] = append(yields[k], T)
					}
				}
			}
		}
		za := c07MappingFn(c)
		for _, k := range consts {
			name := k.obj.Name()
			got, how := aEvalSwitch(za, k.val)
			want := yields[k.val]
			switch {
			case len(want) == 0:
				// no action type produces this constant (e.g. the zero literal types cover it); zeroAction must still not mis-map it
				c.Ok("R07.3", "zeroAction("+name+")", c.Pos(za.Pos()), "no concrete action type yields "+name+"; zeroAction: "+how)
			case len(want) > 1:
				c.Unk("R07.3", "zeroAction("+name+")", c.Pos(za.Pos()), "more than one action type yields "+name)
			case got == nil && aNeverPersistedAction[name] != nil:
				// reviewed exception: the action type cannot be part of a persisted list; the
				// reason is anchored by an ownership obligation on the type's literals
				ex := aNeverPersistedAction[name]
				c.OwnerRule("R07.3", "literal("+aTypeSpec(want[0])+")", c.Literals(want[0], true, ScanOpts{SkipGenerated: true}), ex.owners)
				if ex.anchor != nil {
					ex.anchor(c, want[0])
				}
				c.Ok("R07.3", "zeroAction("+name+"):never-persisted", c.Pos(za.Pos()), "zeroAction has no case for "+name+" ("+how+"); reviewed exception: "+ex.reason)
			case got == nil:
				c.Bad("R07.3", "zeroAction("+name+")", c.Pos(za.Pos()), "zeroAction has no case for action type "+name+" ("+how+"), although "+aTypeSpec(want[0])+".t() yields it: a persisted action list containing it cannot be decoded (decode panics)")
			case !types.Identical(got, want[0]):
				c.Bad("R07.3", "zeroAction("+name+")", c.Pos(za.Pos()), "zeroAction("+name+") returns "+got.String()+" but "+name+" is produced by "+aTypeSpec(want[0]))
			default:
				c.Ok("R07.3", "zeroAction("+name+")", c.Pos(za.Pos()), "returns "+aTypeSpec(want[0])+"{}")
			}
		}
		if len(consts) == 0 {
			c.Unk("R07.3", "actionType constants", "-", "no constants of type actionType found")
		}

		// index pairing in decode and encode
		fTypes := c.Field("agreement.diskState.ActionTypes")
		fActs := c.Field("agreement.diskState.Actions")
		elemOf := func(v ssa.Value, f *types.Var) (idx ssa.Value, ok bool) {
			// v = load(IndexAddr(load(s.f), idx))
			u, isU := v.(*ssa.UnOp)
			if !isU || u.Op != token.MUL {
				return nil, false
			}
			ia, isIA := u.X.(*ssa.IndexAddr)
			if !isIA || aRootPath(ia.X).last() != f {
				return nil, false
			}
			return ia.Index, true
		}
		dec := c.Fn("agreement.decode")
		okDec, n := true, 0
		for _, zc := range CallsTo(dec, false, c07MappingFn(c).Object().(*types.Func)) {
			n++
			i, ok := elemOf(zc.Common().Args[0], fTypes)
			if !ok {
				okDec = false
				continue
			}
			// the result lands in a local that is then decoded into from s.Actions[i]
			paired := false
			for _, dc := range CallsTo(dec, false, c.Func("protocol.DecodeReflect"), c.Func("protocol.Decode")) {
				a := dc.Common().Args
				j, isEl := elemOf(a[0], fActs)
				al, isAlloc := strip(a[1]).(*ssa.Alloc)
				if !isEl || !isAlloc || j != i {
					continue
				}
				for _, sv := range localStores(al) {
					if sv == zc.Value() && Dominates(zc, dc) {
						paired = true
					}
					// (value, error) form of the mapping function
					if ex, isEx := sv.(*ssa.Extract); isEx && ex.Tuple == ssa.Value(zc.Value()) && ex.Index == 0 && Dominates(zc, dc) {
						paired = true
					}
				}
			}
			if !paired {
				okDec = false
			}
		}
		c.Check(okDec && n > 0, "R07.3", "agreement.decode:zeroAction(s.ActionTypes[i])<->Decode(s.Actions[i])", c.Pos(dec.Pos()), "the zero value chosen by the i-th type is the one the i-th encoding is decoded into")

		enc := c.Fn("agreement.encode")
		actT0 := c.Func("agreement.action.t")
		var tIdx, aIdx, tAct, aAct ssa.Value
		nT, nA := 0, 0
		for _, in := range Instrs(enc, func(in ssa.Instruction) bool { _, ok := in.(*ssa.Store); return ok }) {
			st := in.(*ssa.Store)
			ia, isIA := st.Addr.(*ssa.IndexAddr)
			if !isIA {
				continue
			}
			switch aRootPath(ia.X).last() {
			case fTypes:
				nT++
				if call, ok := st.Val.(*ssa.Call); ok && sameFunc(calleeOf(call.Common()), actT0) {
					tIdx, tAct = ia.Index, call.Common().Value
				}
			case fActs:
				nA++
				if call, ok := st.Val.(*ssa.Call); ok && len(call.Common().Args) == 1 {
					aIdx, aAct = ia.Index, strip(call.Common().Args[0])
				}
			}
		}
		c.Check(nT == 1 && nA == 1 && tIdx != nil && tIdx == aIdx && tAct != nil && tAct == aAct, "R07.3", "agreement.encode:ActionTypes[i]=act.t()<->Actions[i]=Encode(act)", c.Pos(enc.Pos()), "type tag and encoding of one action are stored under the same index")
	}

	// ---- R07.4: encode and decode are siblings over diskState ----
	{
		ds := c.Named("agreement.diskState")
		all := map[*types.Var]bool{}
		for _, f := range aFieldsOf(ds) {
			all[f] = true
		}
		enc := c.Fn("agreement.encode")
		dec := c.Fn("agreement.decode")
		written, read := map[*types.Var]bool{}, map[*types.Var]bool{}
		for _, in := range StoresToField(enc, true, all) {
			fa := in.(*ssa.Store).Addr.(*ssa.FieldAddr)
			written[structField(fa.X.Type(), fa.Field)] = true
		}
		for _, in := range Instrs(dec, func(in ssa.Instruction) bool {
			fa, ok := in.(*ssa.FieldAddr)
			if !ok || !all[structField(fa.X.Type(), fa.Field)] {
				return false
			}
			for _, r := range *fa.Referrers() {
				if u, isU := r.(*ssa.UnOp); isU && u.Op == token.MUL {
					return true
				}
			}
			return false
		}) {
			fa := in.(*ssa.FieldAddr)
			read[structField(fa.X.Type(), fa.Field)] = true
		}
		var missW, missR []string
		for f := range all {
			if !written[f] {
				missW = append(missW, f.Name())
			}
			if !read[f] {
				missR = append(missR, f.Name())
			}
		}
		sort.Strings(missW)
		sort.Strings(missR)
		c.Check(len(missW) == 0 && len(all) > 0, "R07.4", "agreement.encode:writes(diskState.*)", c.Pos(enc.Pos()), "encode fills every field of diskState; missing: ["+strings.Join(missW, ",")+"]")
		c.Check(len(missR) == 0 && len(all) > 0, "R07.4", "agreement.decode:reads(diskState.*)", c.Pos(dec.Pos()), "decode consumes every field of diskState; missing: ["+strings.Join(missR, ",")+"]")

		// type pairing for Router and Player
		encoders := []*types.Func{c.Func("protocol.Encode"), c.Func("protocol.EncodeReflect")}
		decoders := []*types.Func{c.Func("protocol.Decode"), c.Func("protocol.DecodeReflect")}
		deref := func(t types.Type) types.Type {
			if p, ok := t.Underlying().(*types.Pointer); ok {
				return p.Elem()
			}
			return t
		}
		for _, fn := range []string{"Router", "Player"} {
			f := c.Field("agreement.diskState." + fn)
			var encT, decT []types.Type
			for _, in := range StoresToField(enc, false, map[*types.Var]bool{f: true}) {
				call, ok := asResultOf(in.(*ssa.Store).Val, -1, encoders...)
				if !ok || len(call.Common().Args) != 1 {
					encT = append(encT, nil)
					continue
				}
				encT = append(encT, deref(strip(call.Common().Args[0]).Type()))
			}
			for _, dc := range CallsTo(dec, false, decoders...) {
				a := dc.Common().Args
				if len(a) == 2 && aRootPath(a[0]).last() == f && len(aRootPath(a[0]).Fields) == 1 {
					decT = append(decT, deref(strip(a[1]).Type()))
				}
			}
			ok := len(encT) > 0 && len(decT) > 0
			for _, t := range append(append([]types.Type{}, encT...), decT...) {
				if t == nil || !types.Identical(t, encT[0]) {
					ok = false
				}
			}
			tn := "?"
			if len(encT) > 0 && encT[0] != nil {
				tn = types.TypeString(encT[0], func(p *types.Package) string { return p.Name() })
			}
			c.Check(ok, "R07.4", "diskState."+fn+":encode("+tn+")<->decode", c.Pos(dec.Pos()), itoa(len(encT))+" encode site(s) and "+itoa(len(decT))+" decode site(s) use the same Go type")
		}
		// clock
		fClock := c.Field("agreement.diskState.Clock")
		okClk := false
		for _, in := range StoresToField(enc, false, map[*types.Var]bool{fClock: true}) {
			if call, ok := in.(*ssa.Store).Val.(*ssa.Call); ok && call.Common().IsInvoke() && len(enc.Params) > 0 && call.Common().Value == ssa.Value(enc.Params[0]) {
				okClk = true
			}
		}
		okClkD := false
		for _, in := range Instrs(dec, func(in ssa.Instruction) bool {
			call, ok := in.(*ssa.Call)
			return ok && call.Common().IsInvoke() && len(call.Common().Args) == 1 && aRootPath(call.Common().Args[0]).last() == fClock
		}) {
			_ = in
			okClkD = true
		}
		c.Check(okClk && okClkD, "R07.4", "diskState.Clock:clock.Encode()<->clock.Decode()", c.Pos(enc.Pos()), "the clock serialises itself and is restored by its own decoder")
	}
}

// aEvalSwitch evaluates a function of one integer parameter made of
// `param == const` tests for the argument value k and returns the dynamic type
// of the returned interface value (nil if the function panics / has no case).
func aEvalSwitch(fn *ssa.Function, k int64) (types.Type, string) {
	if len(fn.Params) != 1 || len(fn.Blocks) == 0 {
		return nil, "unexpected shape"
	}
	b := fn.Blocks[0]
	for steps := 0; steps < 1000; steps++ {
		last := b.Instrs[len(b.Instrs)-1]
		switch x := last.(type) {
		case *ssa.Return:
			// (action) or (action, error): with an error result, a non-nil error is "no case"
			if len(x.Results) == 2 && isErrorType(x.Results[1].Type()) {
				if k2, isK := x.Results[1].(*ssa.Const); !isK || !k2.IsNil() {
					return nil, "returns an error for this value"
				}
			} else if len(x.Results) != 1 {
				return nil, "unexpected result arity"
			}
			if mi, ok := x.Results[0].(*ssa.MakeInterface); ok {
				return mi.X.Type(), "case found"
			}
			return nil, "returns a non-literal value"
		case *ssa.Panic:
			return nil, "falls to the panicking default"
		case *ssa.Jump:
			b = b.Succs[0]
		case *ssa.If:
			bo, ok := x.Cond.(*ssa.BinOp)
			if !ok || bo.Op != token.EQL || bo.X != ssa.Value(fn.Params[0]) {
				return nil, "a condition that is not `t == constant`"
			}
			cv, isK := aConstOf(bo.Y)
			if !isK {
				return nil, "a comparison with a non-constant"
			}
			if cv == k {
				b = b.Succs[0]
			} else {
				b = b.Succs[1]
			}
		default:
			return nil, "unexpected terminator"
		}
	}
	return nil, "evaluation did not terminate"
}
