package main

import (
	"go/token"
	"go/types"
	"sort"
	"strings"

	"golang.org/x/tools/go/ssa"
)

func init() {
	register(&Prop{
		ID:       "C12",
		Patterns: []string{"./ledger"},
		Run:      runC12,
		Explanation: "Decides the bookkeeping skeleton that makes the incrementally maintained totals equal the sum over accounts (not the sums themselves): " +
			"R12.1 AccountTotals.AddAccount and DelAccount are mirror images: each selects the bucket by statusField(data.Status), computes the amount by data.Money(rewardUnit, at.RewardsLevel), and stores bucket.Money = ot.AddA/SubA(bucket.Money, amount) and bucket.RewardUnits = ot.Add/Sub(bucket.RewardUnits, data.MicroAlgos.RewardUnits(rewardUnit)) with no other store; statusField maps every basics.Status constant to the like-named bucket, each to a different one; ApplyRewards moves RewardsLevel to its argument and applies the difference to Online and Offline through AlgoCount.applyRewards. " +
			"R12.2 (ownership) AlgoCount.Money/RewardUnits, AccountTotals.RewardsLevel and the three buckets are written (also through sub-fields and address-of) only by AddAccount, DelAccount, applyRewards, ApplyRewards, statusField (address for the two former) and the SQLite totals row scan; accountUpdates.roundTotals is written only by initializeFromDisk, newBlockImpl and postCommit. " +
			"R12.3 roundCowState.CalculateTotals: starts from cb.prevTotals, ApplyRewards(header RewardsLevel) dominates the loop, the loop runs i = 0 … cb.mods.Accts.Len()-1 step 1, and on every iteration exactly one DelAccount(previous) is followed by exactly one AddAccount(updated) on the same totals value and overflow tracker with cb.proto.RewardUnit, where (addr, updated) = Accts.GetByIdx(i) and previous = lookupParent.lookup(addr) on its nil-error edge; cb.mods.Totals is stored from that value only after the tracker's Overflowed flag and the All()==prevTotals.All() test passed. " +
			"R12.4 BlockEvaluator.endOfBlock returns nil only after CalculateTotals()==nil; accountUpdates.newBlockImpl appends delta.Totals to roundTotals on exactly the paths that append the delta to au.deltas; postCommit trims deltas and roundTotals by the same offset value; prepareCommit snapshots roundTotals[dcc.offset] and commitRound persists exactly that snapshot with AccountsPutTotals; totalsImpl/latestTotalsImpl index roundTotals by roundOffset(rnd)/len(deltas). " +
			"Does NOT decide: the arithmetic of Money/RewardUnits/WithUpdatedRewards, that every balance-changing path records its account in cb.mods.Accts, genesis initialisation of the totals, or locking (C08).",
		Assumptions: []string{"basics.OverflowTracker Add/Sub/AddA/SubA are exact inverses when Overflowed stays false"},
		Floor:       map[string]int{"R12.1": 18, "R12.2": 11, "R12.3": 12, "R12.4": 9},
	})
}

// c12FieldAddrOn matches a FieldAddr of field f whose base is base.
func c12FieldAddrOn(v ssa.Value, f *types.Var, base ssa.Value) bool {
	fa, ok := v.(*ssa.FieldAddr)
	return ok && fa.X == base && structField(fa.X.Type(), fa.Field) == f
}

// c12LoadOfFieldOn matches *(&base.f).
func c12LoadOfFieldOn(v ssa.Value, f *types.Var, base ssa.Value) bool {
	u, ok := v.(*ssa.UnOp)
	return ok && u.Op == token.MUL && c12FieldAddrOn(u.X, f, base)
}

// c12ParamPath reports whether v is a load of the field path fs[0].fs[1]… of
// the (spilled) parameter p.
func c12ParamPath(v ssa.Value, p *ssa.Parameter, fs ...*types.Var) bool {
	for i := len(fs) - 1; i >= 0; i-- {
		switch x := v.(type) {
		case *ssa.UnOp:
			if x.Op != token.MUL {
				return false
			}
			fa, ok := x.X.(*ssa.FieldAddr)
			if !ok || structField(fa.X.Type(), fa.Field) != fs[i] {
				return false
			}
			// continue with the base address: either another FieldAddr or the spill alloc
			if i == 0 {
				return c12IsParamCell(fa.X, p)
			}
			// wrap the base address as a pseudo-load for the next round
			nfa, ok := fa.X.(*ssa.FieldAddr)
			if !ok || structField(nfa.X.Type(), nfa.Field) != fs[i-1] {
				return false
			}
			if i-1 == 0 {
				return c12IsParamCell(nfa.X, p)
			}
			// deeper paths are not needed today
			return false
		case *ssa.Field:
			if structField(x.X.Type(), x.Field) != fs[i] {
				return false
			}
			v = x.X
			if i == 0 {
				return c12IsParam(v, p)
			}
		default:
			return false
		}
	}
	return false
}

// c12IsParamCell: addr is the local cell holding parameter p (only store: p).
func c12IsParamCell(addr ssa.Value, p *ssa.Parameter) bool {
	a, ok := addr.(*ssa.Alloc)
	if !ok {
		return false
	}
	st := localStores(a)
	return len(st) == 1 && st[0] == ssa.Value(p)
}

// c12IsParam: v is p or a load of p's spill cell.
func c12IsParam(v ssa.Value, p *ssa.Parameter) bool {
	if v == ssa.Value(p) {
		return true
	}
	if u, ok := v.(*ssa.UnOp); ok && u.Op == token.MUL {
		return c12IsParamCell(u.X, p)
	}
	return false
}

func c12Param(fn *ssa.Function, name string, t types.Type) *ssa.Parameter {
	// parameters are identified by type (unique in these signatures), never by name
	var found *ssa.Parameter
	for _, p := range fn.Params {
		if types.Identical(p.Type(), t) {
			if found != nil {
				return nil
			}
			found = p
		}
	}
	_ = name
	return found
}

func runC12(c *Ctx) {
	lc := "ledger/ledgercore"
	atT := c.Named(lc + ".AccountTotals")
	adT := c.Named(lc + ".AccountData")
	fMoney := c.Field(lc + ".AlgoCount.Money")
	fUnits := c.Field(lc + ".AlgoCount.RewardUnits")
	fLevel := c.Field(lc + ".AccountTotals.RewardsLevel")
	fOnline := c.Field(lc + ".AccountTotals.Online")
	fOffline := c.Field(lc + ".AccountTotals.Offline")
	fNotPart := c.Field(lc + ".AccountTotals.NotParticipating")
	fBase := c.Field(lc + ".AccountData.AccountBaseData")
	fStatus := c.Field(lc + ".AccountBaseData.Status")
	fMicro := c.Field(lc + ".AccountBaseData.MicroAlgos")
	statusField := c.Func(lc + ".AccountTotals.statusField")
	moneyFn := c.Func(lc + ".AccountData.Money")
	unitsFn := c.Func("data/basics.MicroAlgos.RewardUnits")
	otT := c.Named("data/basics.OverflowTracker")
	otAdd, otSub := c.Func("data/basics.OverflowTracker.Add"), c.Func("data/basics.OverflowTracker.Sub")
	otAddA, otSubA := c.Func("data/basics.OverflowTracker.AddA"), c.Func("data/basics.OverflowTracker.SubA")
	otMul := c.Func("data/basics.OverflowTracker.Mul")
	uint64T := types.Typ[types.Uint64]

	// ---- R12.1: Add/Del mirror ----
	for _, side := range []struct {
		spec       string
		amt, units *types.Func
		word       string
	}{
		{lc + ".AccountTotals.AddAccount", otAddA, otAdd, "AddA/Add"},
		{lc + ".AccountTotals.DelAccount", otSubA, otSub, "SubA/Sub"},
	} {
		fn := c.Fn(side.spec)
		name := fnName(fn)
		recv := fn.Params[0]
		pUnit := c12Param(fn, "rewardUnit", uint64T)
		pData := c12Param(fn, "data", adT)
		pOT := c12Param(fn, "ot", types.NewPointer(otT))
		if pUnit == nil || pData == nil || pOT == nil {
			c.Unk("R12.1", name+":signature", c.Pos(fn.Pos()), "expected parameters (uint64, AccountData, *OverflowTracker)")
			continue
		}
		// bucket = statusField(data.Status)
		sf := CallsTo(fn, true, statusField)
		okBucket := len(sf) == 1
		var bucket ssa.Value
		if okBucket {
			call := libCCall(sf[0])
			bucket = call
			okBucket = call.Common().Args[0] == ssa.Value(recv) && c12ParamPath(call.Common().Args[1], pData, fBase, fStatus)
		}
		c.Check(okBucket, "R12.1", name+":bucket=statusField(data.Status)", c.Pos(fn.Pos()), "the bucket is at.statusField(data.Status) of the account being added/removed (one call)")
		if !okBucket {
			continue
		}
		// amount = data.Money(rewardUnit, at.RewardsLevel) #0
		mc := CallsTo(fn, true, moneyFn)
		okAmt := len(mc) == 1
		var amount *ssa.Call
		if okAmt {
			amount = libCCall(mc[0])
			a := amount.Common().Args
			okAmt = len(a) == 3 && c12IsParam(a[0], pData) && a[1] == ssa.Value(pUnit) && c12LoadOfFieldOn(a[2], fLevel, recv)
		}
		c.Check(okAmt, "R12.1", name+":amount=data.Money(rewardUnit,at.RewardsLevel)", c.Pos(fn.Pos()), "the amount moved is data.Money(rewardUnit, at.RewardsLevel), i.e. balance with pending rewards at the totals' own level")
		// stores
		stores := StoresToField(fn, true, map[*types.Var]bool{fMoney: true, fUnits: true, fLevel: true, fOnline: true, fOffline: true, fNotPart: true})
		var nMoney, nUnits, nOther int
		okMoney, okUnits := false, false
		for _, in := range stores {
			st := in.(*ssa.Store)
			fa := st.Addr.(*ssa.FieldAddr)
			switch structField(fa.X.Type(), fa.Field) {
			case fMoney:
				nMoney++
				if call, ok := st.Val.(*ssa.Call); ok && fa.X == bucket && sameFunc(calleeOf(call.Common()), side.amt) {
					a := call.Common().Args
					if len(a) == 3 && a[0] == ssa.Value(pOT) && c12LoadOfFieldOn(a[1], fMoney, bucket) && okAmt {
						if ex, ok := a[2].(*ssa.Extract); ok && ex.Tuple == ssa.Value(amount) && ex.Index == 0 {
							okMoney = true
						}
					}
				}
			case fUnits:
				nUnits++
				if call, ok := st.Val.(*ssa.Call); ok && fa.X == bucket && sameFunc(calleeOf(call.Common()), side.units) {
					a := call.Common().Args
					if len(a) == 3 && a[0] == ssa.Value(pOT) && c12LoadOfFieldOn(a[1], fUnits, bucket) {
						if uc, ok := a[2].(*ssa.Call); ok && sameFunc(calleeOf(uc.Common()), unitsFn) {
							ua := uc.Common().Args
							if len(ua) == 2 && ua[1] == ssa.Value(pUnit) && c12ParamPath(ua[0], pData, fBase, fMicro) {
								okUnits = true
							}
						}
					}
				}
			default:
				nOther++
			}
		}
		c.Check(okMoney && nMoney == 1, "R12.1", name+":bucket.Money="+side.amt.Name()+"(bucket.Money,amount)", c.Pos(fn.Pos()), "the only store to Money is ot."+side.amt.Name()+"(bucket.Money, amount) on the selected bucket")
		c.Check(okUnits && nUnits == 1, "R12.1", name+":bucket.RewardUnits="+side.units.Name()+"(bucket.RewardUnits,data.MicroAlgos.RewardUnits(rewardUnit))", c.Pos(fn.Pos()), "the only store to RewardUnits is ot."+side.units.Name()+"(bucket.RewardUnits, data.MicroAlgos.RewardUnits(rewardUnit)) on the selected bucket")
		c.Check(nOther == 0, "R12.1", name+":no-other-totals-store", c.Pos(fn.Pos()), "no store to RewardsLevel or to a whole bucket")
	}

	// statusField: every Status constant maps to the like-named bucket
	{
		fn := c.Fn(lc + ".AccountTotals.statusField")
		name := fnName(fn)
		statusT := c.Named("data/basics.Status")
		recv := fn.Params[0]
		var pStatus *ssa.Parameter
		if len(fn.Params) == 2 {
			pStatus = fn.Params[1]
		}
		want := map[string]*types.Var{"Online": fOnline, "Offline": fOffline, "NotParticipating": fNotPart}
		bp := c.Pkg("data/basics")
		nConst := 0
		for _, nm := range bp.Types.Scope().Names() {
			k, ok := bp.Types.Scope().Lookup(nm).(*types.Const)
			if !ok || !types.Identical(k.Type(), statusT) {
				continue
			}
			nConst++
			target := want[nm]
			if target == nil {
				c.Bad("R12.1", name+":case("+nm+")", c.Pos(k.Pos()), "basics.Status constant "+nm+" has no bucket in the frozen table: a new account status needs a totals bucket and a review of this rule")
				continue
			}
			kv, _ := constInt64(k)
			ok2 := false
			detail := "no `status == " + nm + "` branch returning a bucket found"
			for _, b := range fn.Blocks {
				iff, isIf := b.Instrs[len(b.Instrs)-1].(*ssa.If)
				if !isIf {
					continue
				}
				cond, neg := condOf(iff.Cond)
				bo, isBo := cond.(*ssa.BinOp)
				if !isBo || (bo.Op != token.EQL && bo.Op != token.NEQ) {
					continue
				}
				var other ssa.Value
				if bo.X == ssa.Value(pStatus) {
					other = bo.Y
				} else if bo.Y == ssa.Value(pStatus) {
					other = bo.X
				} else {
					continue
				}
				if n, isK := libCConstVal(other); !isK || n != kv {
					continue
				}
				eqOnTrue := (bo.Op == token.EQL) != neg
				succ := b.Succs[1]
				if eqOnTrue {
					succ = b.Succs[0]
				}
				if len(succ.Preds) != 1 {
					continue
				}
				// every return dominated by the equal edge returns &at.<target>
				n := 0
				good := true
				for _, r := range libCReturns(fn) {
					if succ.Dominates(r.Block()) {
						n++
						if !c12FieldAddrOn(r.Results[0], target, recv) {
							good = false
							detail = "status " + nm + " returns " + describe(r.Results[0]) + " instead of &at." + target.Name()
						}
					}
				}
				if n > 0 && good {
					ok2 = true
				} else if n == 0 {
					detail = "the `status == " + nm + "` edge reaches no return"
				}
			}
			if ok2 {
				detail = "every return behind the `status == " + nm + "` edge is &at." + target.Name()
			}
			c.Check(ok2, "R12.1", name+":case("+nm+")->"+target.Name(), c.Pos(fn.Pos()), "status "+nm+" selects bucket "+target.Name()+"; "+detail)
		}
		if nConst != len(want) {
			c.Bad("R12.1", name+":exhaustive", c.Pos(fn.Pos()), "expected "+itoa(len(want))+" basics.Status constants, found "+itoa(nConst))
		}
		// any other return yields nil (after the panic)
		okNil := true
		for _, r := range libCReturns(fn) {
			if fa, isFA := r.Results[0].(*ssa.FieldAddr); isFA {
				f := structField(fa.X.Type(), fa.Field)
				if f != fOnline && f != fOffline && f != fNotPart {
					okNil = false
				}
			} else if !IsNil(r.Results[0]) {
				okNil = false
			}
		}
		c.Check(okNil, "R12.1", name+":returns-only-buckets", c.Pos(fn.Pos()), "statusField returns only the address of one of the three buckets (or nil after the panic)")
	}

	// ApplyRewards / applyRewards
	{
		fn := c.Fn(lc + ".AccountTotals.ApplyRewards")
		name := fnName(fn)
		recv := fn.Params[0]
		pLevel := c12Param(fn, "rewardsLevel", uint64T)
		applyInner := c.Func(lc + ".AlgoCount.applyRewards")
		ok := pLevel != nil
		var diff ssa.Value
		if ok {
			subs := CallsTo(fn, false, otSub)
			ok = len(subs) == 1
			if ok {
				a := subs[0].Common().Args
				ok = len(a) == 3 && a[1] == ssa.Value(pLevel) && c12LoadOfFieldOn(a[2], fLevel, recv)
				diff = subs[0].Value()
				// the old level is read before it is overwritten
				for _, st := range StoresToField(fn, false, map[*types.Var]bool{fLevel: true}) {
					if !Dominates(subs[0], st) {
						ok = false
					}
				}
			}
		}
		c.Check(ok, "R12.1", name+":perUnit=ot.Sub(rewardsLevel,at.RewardsLevel)", c.Pos(fn.Pos()), "the per-unit reward is new level minus the old level, computed before RewardsLevel is overwritten")
		st := StoresToField(fn, false, map[*types.Var]bool{fLevel: true})
		okSt := len(st) == 1 && pLevel != nil
		if okSt {
			s := st[0].(*ssa.Store)
			okSt = s.Val == ssa.Value(pLevel) && c12FieldAddrOn(s.Addr, fLevel, recv)
		}
		c.Check(okSt, "R12.1", name+":RewardsLevel=rewardsLevel", c.Pos(fn.Pos()), "RewardsLevel is set to the argument (one store)")
		got := map[*types.Var]bool{}
		okCalls := true
		for _, ci := range CallsTo(fn, false, applyInner) {
			a := ci.Common().Args
			if len(a) != 3 || a[1] != diff {
				okCalls = false
				continue
			}
			if fa, isFA := a[0].(*ssa.FieldAddr); isFA && fa.X == ssa.Value(recv) {
				got[structField(fa.X.Type(), fa.Field)] = true
			} else {
				okCalls = false
			}
		}
		c.Check(okCalls && got[fOnline] && got[fOffline] && !got[fNotPart] && len(got) == 2, "R12.1", name+":applyRewards(Online,Offline)", c.Pos(fn.Pos()), "the difference is applied to the Online and Offline buckets (NotParticipating accrues nothing)")

		in := c.Fn(lc + ".AlgoCount.applyRewards")
		iname := fnName(in)
		irecv := in.Params[0]
		pPer := c12Param(in, "rewardsPerUnit", uint64T)
		okIn := pPer != nil
		sts := StoresToField(in, false, map[*types.Var]bool{fMoney: true, fUnits: true})
		okIn = okIn && len(sts) == 1
		if okIn {
			s := sts[0].(*ssa.Store)
			okIn = false
			if call, isCall := s.Val.(*ssa.Call); isCall && c12FieldAddrOn(s.Addr, fMoney, irecv) && sameFunc(calleeOf(call.Common()), otAddA) {
				a := call.Common().Args
				if len(a) == 3 && c12LoadOfFieldOn(a[1], fMoney, irecv) {
					if m := libCMentionsCall(a[2], otMul); m != nil {
						ma := m.Common().Args
						okIn = len(ma) == 3 && (c12LoadOfFieldOn(ma[1], fUnits, irecv) && ma[2] == ssa.Value(pPer) || c12LoadOfFieldOn(ma[2], fUnits, irecv) && ma[1] == ssa.Value(pPer))
					}
				}
			}
		}
		c.Check(okIn, "R12.1", iname+":Money=AddA(Money,Mul(RewardUnits,perUnit))", c.Pos(in.Pos()), "a bucket's money grows by RewardUnits × per-unit reward and RewardUnits is unchanged (one store)")
	}

	// ---- R12.2: ownership ----
	{
		only := []string{"ledger/..."}
		if c.Thorough {
			only = nil
		}
		fields := map[*types.Var]bool{fMoney: true, fUnits: true, fLevel: true, fOnline: true, fOffline: true, fNotPart: true}
		sites := c.libCDeepFieldWrites(fields, ScanOpts{SkipGenerated: true, OnlyPkgs: only, SkipPkgs: []string{"test/...", "tools/...", "cmd/..."}})
		c.OwnerRule("R12.2", "write(AccountTotals/AlgoCount field)", sites, map[string]string{
			lc + ".AccountTotals.AddAccount":   "adds an account (R12.1)",
			lc + ".AccountTotals.DelAccount":   "removes an account (R12.1)",
			lc + ".AccountTotals.ApplyRewards": "moves the rewards level (R12.1)",
			lc + ".AlgoCount.applyRewards":     "per-bucket reward (R12.1)",
			lc + ".AccountTotals.statusField":  "hands the bucket address to AddAccount/DelAccount",
			"ledger/store/trackerdb/sqlitedriver.accountsV2Reader.AccountsTotals": "decodes the persisted totals row",
		})
		callers := c.Uses([]*types.Func{statusField}, ScanOpts{SkipGenerated: true})
		c.OwnerRule("R12.2", "use(AccountTotals.statusField)", callers, map[string]string{
			lc + ".AccountTotals.AddAccount": "bucket selection",
			lc + ".AccountTotals.DelAccount": "bucket selection",
		})
		fRT := c.Field("ledger.accountUpdates.roundTotals")
		c.OwnerRule("R12.2", "write(accountUpdates.roundTotals)", c.libCDeepFieldWrites(map[*types.Var]bool{fRT: true}, ScanOpts{SkipGenerated: true}), map[string]string{
			"ledger.accountUpdates.initializeFromDisk": "loads the persisted totals of the DB round",
			"ledger.accountUpdates.newBlockImpl":       "appends the block's totals (R12.4)",
			"ledger.accountUpdates.postCommit":         "trims with the deltas (R12.4)",
		})
	}

	// ---- R12.3: CalculateTotals ----
	{
		fn := c.Fn("ledger/eval.roundCowState.CalculateTotals")
		name := fnName(fn)
		addF, delF := c.Func(lc+".AccountTotals.AddAccount"), c.Func(lc+".AccountTotals.DelAccount")
		applyF := c.Func(lc + ".AccountTotals.ApplyRewards")
		getByIdx := c.Func(lc + ".AccountDeltas.GetByIdx")
		lenF := c.Func(lc + ".AccountDeltas.Len")
		lookupF := c.Func("ledger/eval.roundCowParent.lookup")
		allF := c.Func(lc + ".AccountTotals.All")
		fPrev := c.Field("ledger/eval.roundCowState.prevTotals")
		fMods := c.Field("ledger/eval.roundCowState.mods")
		fAccts := c.Field(lc + ".StateDelta.Accts")
		fTotals := c.Field(lc + ".StateDelta.Totals")
		fProto := c.Field("ledger/eval.roundCowState.proto")
		fRU := c.Field("config.ConsensusParams.RewardUnit")
		fOver := c.Field("data/basics.OverflowTracker.Overflowed")
		fHdrLevel := c.Field("data/bookkeeping.RewardsState.RewardsLevel")
		recv := fn.Params[0]

		adds, dels := CallsTo(fn, true, addF), CallsTo(fn, true, delF)
		if len(adds) != 1 || len(dels) != 1 {
			c.Bad("R12.3", name+":one-Del-one-Add", c.Pos(fn.Pos()), "expected exactly one DelAccount and one AddAccount call, found "+itoa(len(dels))+"/"+itoa(len(adds)))
			return
		}
		add, del := libCCall(adds[0]), libCCall(dels[0])
		aa, da := add.Common().Args, del.Common().Args
		totals := da[0]
		// same totals cell, copy of prevTotals
		okCell := aa[0] == totals
		if al, isAlloc := totals.(*ssa.Alloc); okCell && isAlloc {
			vals, _, complete := libCAllStores(al)
			okCell = len(vals) == 1 && c12LoadOfFieldOn(vals[0], fPrev, recv)
			_ = complete // the cell's address is passed to the totals methods by design
		} else {
			okCell = false
		}
		c.Check(okCell, "R12.3", name+":totals:=cb.prevTotals", c.Pos(fn.Pos()), "DelAccount and AddAccount update one local totals value initialised (only) from cb.prevTotals")
		// same tracker
		c.Check(aa[3] == da[3], "R12.3", name+":same-overflow-tracker", c.Pos(fn.Pos()), "both calls report overflow into the same tracker")
		// reward unit
		isRU := func(v ssa.Value) bool { return Mentions(v, fRU, 4) && Mentions(v, fProto, 4) }
		c.Check(isRU(aa[1]) && isRU(da[1]), "R12.3", name+":rewardUnit=cb.proto.RewardUnit", c.Pos(fn.Pos()), "both calls use cb.proto.RewardUnit")
		// data arguments
		var gb *ssa.Call
		okData := false
		if ex, ok := aa[2].(*ssa.Extract); ok && ex.Index == 1 {
			if call, ok := ex.Tuple.(*ssa.Call); ok && sameFunc(calleeOf(call.Common()), getByIdx) {
				gb = call
				okData = Mentions(call.Common().Args[0], fAccts, 4) && Mentions(call.Common().Args[0], fMods, 4)
			}
		}
		c.Check(okData, "R12.3", name+":AddAccount(updated=Accts.GetByIdx(i)#1)", c.Pos(add.Pos()), "the account added is the updated data of cb.mods.Accts at index i")
		okPrev := false
		var lk *ssa.Call
		if ex, ok := da[2].(*ssa.Extract); ok && ex.Index == 0 && gb != nil {
			if call, ok := ex.Tuple.(*ssa.Call); ok && sameFunc(calleeOf(call.Common()), lookupF) {
				lk = call
				args := call.Common().Args
				if ax, ok := args[0].(*ssa.Extract); ok && ax.Tuple == ssa.Value(gb) && ax.Index == 0 {
					okPrev = true
				}
			}
		}
		c.Check(okPrev, "R12.3", name+":DelAccount(previous=lookupParent.lookup(addr of the same GetByIdx))", c.Pos(del.Pos()), "the account removed is the parent's (pre-block) data of the same address")
		if lk != nil {
			ei := 1
			c.MustGuard(MustGuardSpec{Rule: "R12.3", Fn: fn, Effects: []ssa.Instruction{del, add}, EffName: "DelAccount/AddAccount", Guards: []Guard{GErrNil("lookup err==nil", func(v ssa.Value) bool {
				e, ok := v.(*ssa.Extract)
				return ok && e.Tuple == ssa.Value(lk) && e.Index == ei
			})}})
		}
		// pairing on every iteration
		pairOK := true
		detail := "on every path DelAccount is followed by AddAccount before the next iteration or any return"
		fromDel := libCReachFrom(del, func(in ssa.Instruction) bool { return in == ssa.Instruction(add) })
		for _, r := range libCReturns(fn) {
			if fromDel.Reaches(r) {
				pairOK = false
				detail = "a return is reachable after DelAccount without AddAccount"
			}
		}
		if fromDel.Reaches(del) {
			pairOK = false
			detail = "DelAccount can run again before AddAccount"
		}
		fromAdd := libCReachFrom(add, func(in ssa.Instruction) bool { return in == ssa.Instruction(del) })
		if fromAdd.Reaches(add) {
			pairOK = false
			detail = "AddAccount can run again without a new DelAccount"
		}
		if NewReach(fn, nil, func(in ssa.Instruction) bool { return in == ssa.Instruction(del) }).Reaches(add) {
			pairOK = false
			detail = "AddAccount is reachable without a preceding DelAccount"
		}
		c.Check(pairOK, "R12.3", name+":Del-then-Add-per-iteration", c.Pos(del.Pos()), detail)
		// the loop covers every index
		okLoop := false
		if gb != nil {
			if phi, ok := gb.Common().Args[1].(*ssa.Phi); ok && len(phi.Edges) == 2 {
				zero, step := false, false
				for _, e := range phi.Edges {
					if IsConstInt(0)(e) {
						zero = true
					}
					if bo, ok := e.(*ssa.BinOp); ok && bo.Op == token.ADD && (bo.X == ssa.Value(phi) && IsConstInt(1)(bo.Y) || bo.Y == ssa.Value(phi) && IsConstInt(1)(bo.X)) {
						step = true
					}
				}
				bound := GCmp("i<Accts.Len()", token.LSS, IsV(phi), func(v ssa.Value) bool {
					call, ok := v.(*ssa.Call)
					return ok && sameFunc(calleeOf(call.Common()), lenF) && Mentions(call.Common().Args[0], fAccts, 4) && Mentions(call.Common().Args[0], fMods, 4)
				})
				edges, n := PassEdges(fn, bound)
				if zero && step && n == 1 && len(edges) == 1 {
					// the loop body is entered through that edge only, and nothing else leaves the loop header
					okLoop = edges[0].From == phi.Block() && edges[0].From.Succs[edges[0].Idx].Dominates(gb.Block())
				}
			}
		}
		c.Check(okLoop, "R12.3", name+":for i:=0;i<Accts.Len();i++", c.Pos(fn.Pos()), "the index given to GetByIdx counts from 0 in steps of 1 while i < cb.mods.Accts.Len()")
		// ApplyRewards first
		ar := CallsTo(fn, false, applyF)
		okAR := len(ar) == 1
		if okAR {
			a := ar[0].Common().Args
			okAR = a[0] == totals && Mentions(a[1], fHdrLevel, 6) && Mentions(a[1], fMods, 8) && a[2] == da[3] && Dominates(ar[0], del)
			if fromDelToAR := libCReachFrom(del, nil); fromDelToAR.Reaches(ar[0]) {
				okAR = false
			}
		}
		c.Check(okAR, "R12.3", name+":ApplyRewards(header.RewardsLevel)-before-loop", c.Pos(fn.Pos()), "ApplyRewards(cb.mods.Hdr.RewardsLevel) runs once on the same totals and tracker, before any account is moved")
		// result store
		sts := StoresToField(fn, true, map[*types.Var]bool{fTotals: true})
		okStore := len(sts) == 1
		if okStore {
			s := sts[0].(*ssa.Store)
			u, isLoad := s.Val.(*ssa.UnOp)
			okStore = isLoad && u.X == totals && Mentions(s.Addr, fMods, 4)
		}
		c.Check(okStore, "R12.3", name+":mods.Totals=totals", c.Pos(fn.Pos()), "cb.mods.Totals is assigned exactly the computed totals value (one store)")
		if len(sts) > 0 {
			overflow := GBool("!ot.Overflowed", func(v ssa.Value) bool {
				u, ok := v.(*ssa.UnOp)
				if !ok {
					return false
				}
				fa, ok := u.X.(*ssa.FieldAddr)
				return ok && structField(fa.X.Type(), fa.Field) == fOver && fa.X == da[3]
			}, false)
			isAllOf := func(base func(ssa.Value) bool) VM {
				return func(v ssa.Value) bool {
					call, ok := v.(*ssa.Call)
					return ok && sameFunc(calleeOf(call.Common()), allF) && base(call.Common().Args[0])
				}
			}
			conserve := GCmp("totals.All()==prevTotals.All()", token.EQL,
				isAllOf(func(v ssa.Value) bool { return v == totals }),
				isAllOf(func(v ssa.Value) bool { return c12FieldAddrOn(v, fPrev, recv) }))
			eff := append(append([]ssa.Instruction{}, sts...), libCSuccessReturns(fn)...)
			c.MustGuard(MustGuardSpec{Rule: "R12.3", Fn: fn, Effects: eff, EffName: "store(mods.Totals)/return nil", Guards: []Guard{overflow, conserve}})
		}
	}

	// ---- R12.4: hand-over to the tracker ----
	{
		eob := c.Fn("ledger/eval.BlockEvaluator.endOfBlock")
		calc := c.Func("ledger/eval.roundCowState.CalculateTotals")
		c.MustGuard(MustGuardSpec{Rule: "R12.4", Fn: eob, Effects: libCSuccessReturns(eob), EffName: "return nil", Guards: []Guard{GErrNil("CalculateTotals()==nil", ResultOf(0, calc))}})

		nb := c.Fn("ledger.accountUpdates.newBlockImpl")
		nbName := fnName(nb)
		fRT := c.Field("ledger.accountUpdates.roundTotals")
		fDeltas := c.Field("ledger.accountUpdates.deltas")
		fDT := c.Field(lc + ".StateDelta.Totals")
		sdT := c.Named(lc + ".StateDelta")
		pDelta := c12Param(nb, "delta", sdT)
		rt := StoresToField(nb, true, map[*types.Var]bool{fRT: true})
		ds := StoresToField(nb, true, map[*types.Var]bool{fDeltas: true})
		ok := len(rt) == 1 && len(ds) == 1 && pDelta != nil
		detail := "au.roundTotals = append(au.roundTotals, delta.Totals) on exactly the paths that append delta to au.deltas"
		if ok {
			s := rt[0].(*ssa.Store)
			call, isCall := s.Val.(*ssa.Call)
			cc, isApp := isBuiltinCall(call, "append")
			if !isCall || !isApp || !Mentions(cc.Args[0], fRT, 3) {
				ok = false
				detail = "roundTotals is not extended by append(au.roundTotals, …)"
			} else {
				// the appended element is delta.Totals of the parameter, exactly one element
				elem := false
				n := 0
				libCWalk(cc.Args[1], 6, func(x ssa.Value) bool {
					if st, isSt := x.(*ssa.Alloc); isSt {
						if at, isArr := st.Type().(*types.Pointer).Elem().Underlying().(*types.Array); isArr {
							n = int(at.Len())
						}
					}
					if u, isLoad := x.(*ssa.UnOp); isLoad {
						if fa, isFA := u.X.(*ssa.FieldAddr); isFA && structField(fa.X.Type(), fa.Field) == fDT && c12IsParamCell(fa.X, pDelta) {
							elem = true
						}
					}
					if f, isF := x.(*ssa.Field); isF && structField(f.X.Type(), f.Field) == fDT && c12IsParam(f.X, pDelta) {
						elem = true
					}
					return true
				})
				if !elem || n != 1 {
					ok = false
					detail = "the appended element is not exactly the Totals of the delta parameter"
				}
			}
			d := ds[0].(*ssa.Store)
			dcall, isCall2 := d.Val.(*ssa.Call)
			dcc, isApp2 := isBuiltinCall(dcall, "append")
			if !isCall2 || !isApp2 || !Mentions(dcc.Args[0], fDeltas, 3) || !libCMentionsValue(dcc.Args[1], pDelta) {
				ok = false
				detail = "au.deltas is not extended by append(au.deltas, delta)"
			}
			if ok {
				// both or neither on every path
				if NewReach(nb, nil, func(in ssa.Instruction) bool { return in == rt[0] }).Reaches(ds[0]) == false {
					// deltas store not reachable without roundTotals store first: unusual order but still paired; check the converse below
				}
				for _, pair := range [][2]ssa.Instruction{{ds[0], rt[0]}, {rt[0], ds[0]}} {
					first, second := pair[0], pair[1]
					if !Dominates(first, second) {
						continue
					}
					fw := libCReachFrom(first, func(in ssa.Instruction) bool { return in == second })
					for _, r := range libCReturns(nb) {
						if fw.Reaches(r) {
							ok = false
							detail = "a return is reachable after one of the two appends without the other"
						}
					}
				}
				if !Dominates(ds[0], rt[0]) && !Dominates(rt[0], ds[0]) {
					ok = false
					detail = "the two appends are on different branches"
				}
			}
		} else {
			detail = "expected one store to au.roundTotals and one to au.deltas, found " + itoa(len(rt)) + "/" + itoa(len(ds))
		}
		c.Check(ok, "R12.4", nbName+":roundTotals-append-paired-with-deltas-append", c.Pos(nb.Pos()), detail)

		// postCommit trims both by the same offset
		pc := c.Fn("ledger.accountUpdates.postCommit")
		pcName := fnName(pc)
		trim := func(f *types.Var) (ssa.Value, bool) {
			var low ssa.Value
			n := 0
			for _, in := range StoresToField(pc, false, map[*types.Var]bool{f: true}) {
				s := in.(*ssa.Store)
				sl, isSl := s.Val.(*ssa.Slice)
				if !isSl || sl.High != nil || sl.Low == nil || !Mentions(sl.X, f, 3) {
					return nil, false
				}
				low = sl.Low
				n++
			}
			return low, n == 1
		}
		lowRT, ok1 := trim(fRT)
		lowD, ok2 := trim(fDeltas)
		same := ok1 && ok2 && resolveLocalAny(lowRT) == resolveLocalAny(lowD)
		c.Check(same, "R12.4", pcName+":roundTotals[offset:]-same-offset-as-deltas[offset:]", c.Pos(pc.Pos()), "postCommit re-slices au.roundTotals and au.deltas from the same offset value (one store each)")

		// prepareCommit snapshot and commitRound persist
		prep := c.Fn("ledger.accountUpdates.prepareCommit")
		fDccRT := c.Field("ledger.deferredCommitContext.roundTotals")
		fDccOff := c.Field("ledger.deferredCommitRange.offset")
		sn := StoresToField(prep, true, map[*types.Var]bool{fDccRT: true})
		okSn := len(sn) == 1
		if okSn {
			s := sn[0].(*ssa.Store)
			okSn = false
			if u, isLoad := s.Val.(*ssa.UnOp); isLoad {
				if ia, isIA := u.X.(*ssa.IndexAddr); isIA && Mentions(ia.X, fRT, 3) {
					okSn = Mentions(ia.Index, fDccOff, 6)
				}
			}
		}
		c.Check(okSn, "R12.4", fnName(prep)+":dcc.roundTotals=au.roundTotals[dcc.offset]", c.Pos(prep.Pos()), "the totals snapshot taken for a commit is the entry at the commit's offset")
		cr := c.Fn("ledger.accountUpdates.commitRound")
		put := c.Func("ledger/store/trackerdb.AccountsWriterExt.AccountsPutTotals")
		puts := CallsTo(cr, true, put)
		okPut := len(puts) == 1
		if okPut {
			a := puts[0].Common().Args
			okPut = len(a) == 2 && Mentions(a[0], fDccRT, 4) && IsConstBool(false)(a[1])
		}
		c.Check(okPut, "R12.4", fnName(cr)+":AccountsPutTotals(dcc.roundTotals,false)", c.Pos(cr.Pos()), "commitRound persists exactly the snapshot into the live (non-staging) totals row")
		if okPut {
			c.MustGuard(MustGuardSpec{Rule: "R12.4", Fn: cr, Effects: libCSuccessReturns(cr), EffName: "return nil", Guards: []Guard{GErrNil("AccountsPutTotals err==nil", ResultOf(0, put))}})
		}

		// readers
		ti := c.Fn("ledger.accountUpdates.totalsImpl")
		ro := c.Func("ledger.accountUpdates.roundOffset")
		okTi := true
		nRet := 0
		for _, r := range libCSuccessReturns(ti) {
			nRet++
			v := r.(*ssa.Return).Results[0]
			u, isLoad := v.(*ssa.UnOp)
			if !isLoad {
				okTi = false
				continue
			}
			ia, isIA := u.X.(*ssa.IndexAddr)
			if !isIA || !Mentions(ia.X, fRT, 3) {
				okTi = false
				continue
			}
			call, isRes := asResultOf(ia.Index, 0, ro)
			if !isRes || len(ti.Params) != 2 || call.Common().Args[1] != ssa.Value(ti.Params[1]) {
				okTi = false
			}
		}
		c.Check(okTi && nRet > 0, "R12.4", fnName(ti)+":roundTotals[roundOffset(rnd)]", c.Pos(ti.Pos()), "Totals(rnd) answers with the entry at roundOffset(rnd) of the requested round")
		if okTi {
			c.MustGuard(MustGuardSpec{Rule: "R12.4", Fn: ti, Effects: libCSuccessReturns(ti), EffName: "return totals", Guards: []Guard{GErrNil("roundOffset err==nil", ResultOf(1, ro))}})
		}
		// latestTotalsImpl: the newest entry, index len(au.deltas), reported for round cachedDBRound+len(au.deltas)
		lt := c.Fn("ledger.accountUpdates.latestTotalsImpl")
		fDB := c.Field("ledger.accountUpdates.cachedDBRound")
		isLenDeltas := func(v ssa.Value) bool {
			found := false
			libCWalk(v, 6, func(x ssa.Value) bool {
				if call, ok := x.(*ssa.Call); ok {
					if cc, ok := isBuiltinCall(call, "len"); ok && Mentions(cc.Args[0], fDeltas, 3) {
						found = true
					}
				}
				return !found
			})
			return found
		}
		okLt := true
		nLt := 0
		for _, r := range libCReturns(lt) {
			nLt++
			res := r.Results
			if len(res) != 3 {
				okLt = false
				continue
			}
			u, isLoad := res[1].(*ssa.UnOp)
			if !isLoad {
				okLt = false
				continue
			}
			ia, isIA := u.X.(*ssa.IndexAddr)
			if !isIA || !Mentions(ia.X, fRT, 3) || !isLenDeltas(ia.Index) {
				okLt = false
			}
			bo, isBo := res[0].(*ssa.BinOp)
			if !isBo || bo.Op != token.ADD || !(Mentions(bo.X, fDB, 3) && isLenDeltas(bo.Y) || Mentions(bo.Y, fDB, 3) && isLenDeltas(bo.X)) {
				okLt = false
			}
		}
		c.Check(okLt && nLt > 0, "R12.4", fnName(lt)+":(cachedDBRound+len(deltas),roundTotals[len(deltas)])", c.Pos(lt.Pos()), "LatestTotals answers with the newest entry and labels it with the newest round")
	}
	_ = sort.Strings
	_ = strings.Join
	_ = atT
}
