package main

// Helpers shared by rules_c01/c03/c04/c06/c07 (contributor A). All names are
// prefixed with "a" to avoid collisions with other contributors' helpers.

import (
	"fmt"
	"go/constant"
	"go/token"
	"go/types"
	"os"
	"sort"

	"golang.org/x/tools/go/ssa"
)

// aPath is an access path: a root SSA value plus the struct fields selected
// from it (outermost first). It identifies "the same stored datum" across the
// loads, spills to locals, changetype conversions and field projections that
// SSA construction introduces.
type aPath struct {
	Root   ssa.Value
	Fields []*types.Var
}

// aFieldWritten reports whether alloc a has a field-address referrer for field
// f (or any field when f == nil) that is stored through.
func aFieldWritten(a *ssa.Alloc, f *types.Var) bool {
	for _, r := range *a.Referrers() {
		fa, ok := r.(*ssa.FieldAddr)
		if !ok || fa.X != ssa.Value(a) {
			continue
		}
		if f != nil && structField(fa.X.Type(), fa.Field) != f {
			continue
		}
		for _, rr := range *fa.Referrers() {
			if st, ok := rr.(*ssa.Store); ok && st.Addr == ssa.Value(fa) {
				return true
			}
		}
	}
	return false
}

// aRootPath follows loads, field selections, changetype conversions and locals
// with exactly one whole-value store back to the value everything was read
// from. A local that is also written field-wise on the path being followed is
// treated as a root itself (the path is then not comparable with others).
func aRootPath(v ssa.Value) aPath {
	var rev []*types.Var
	for i := 0; i < 64; i++ {
		switch x := v.(type) {
		case *ssa.ChangeType:
			v = x.X
			continue
		case *ssa.UnOp:
			if x.Op == token.MUL {
				v = x.X
				continue
			}
		case *ssa.FieldAddr:
			rev = append(rev, structField(x.X.Type(), x.Field))
			v = x.X
			continue
		case *ssa.Field:
			rev = append(rev, structField(x.X.Type(), x.Field))
			v = x.X
			continue
		case *ssa.Alloc:
			st := localStores(x)
			var next *types.Var
			if len(rev) > 0 {
				next = rev[len(rev)-1]
			}
			if len(st) == 1 && !aFieldWritten(x, next) {
				v = st[0]
				continue
			}
		}
		break
	}
	p := aPath{Root: v}
	for i := len(rev) - 1; i >= 0; i-- {
		p.Fields = append(p.Fields, rev[i])
	}
	return p
}

func (p aPath) eq(q aPath) bool {
	if p.Root != q.Root || len(p.Fields) != len(q.Fields) {
		return false
	}
	for i := range p.Fields {
		if p.Fields[i] != q.Fields[i] {
			return false
		}
	}
	return true
}

// isPrefixOf reports whether q is p or a field selection below p.
func (p aPath) isPrefixOf(q aPath) bool {
	if p.Root != q.Root || len(p.Fields) > len(q.Fields) {
		return false
	}
	for i := range p.Fields {
		if p.Fields[i] != q.Fields[i] {
			return false
		}
	}
	return true
}

func (p aPath) with(f ...*types.Var) aPath {
	return aPath{Root: p.Root, Fields: append(append([]*types.Var{}, p.Fields...), f...)}
}

// parent drops the last n fields.
func (p aPath) parent(n int) aPath {
	if n > len(p.Fields) {
		n = len(p.Fields)
	}
	return aPath{Root: p.Root, Fields: p.Fields[:len(p.Fields)-n]}
}

func (p aPath) last() *types.Var {
	if len(p.Fields) == 0 {
		return nil
	}
	return p.Fields[len(p.Fields)-1]
}

func (p aPath) String() string {
	s := "?"
	switch r := p.Root.(type) {
	case *ssa.Parameter:
		// name the parameter by its type, not by its (local) identifier
		s = "<" + types.TypeString(r.Type(), func(*types.Package) string { return "" }) + " parameter>"
	case *ssa.Call:
		if f := calleeOf(r.Common()); f != nil {
			s = f.Name() + "(…)"
		} else {
			s = r.Name()
		}
	case *ssa.TypeAssert:
		s = "(" + aPath{Root: r.X}.String() + ").(" + types.TypeString(r.AssertedType, func(*types.Package) string { return "" }) + ")"
	case nil:
		s = "<nil>"
	default:
		s = r.Name()
	}
	for _, f := range p.Fields {
		s += "." + f.Name()
	}
	return s
}

// aIsPath builds a matcher: the value's access path equals p.
func aIsPath(p aPath) VM {
	return func(v ssa.Value) bool { return aRootPath(v).eq(p) }
}

// aUnderPath builds a matcher: the value's access path is p or below it.
func aUnderPath(p aPath) VM {
	return func(v ssa.Value) bool { return p.isPrefixOf(aRootPath(v)) }
}

// aConst matches the SSA constant equal to the named constant k.
func aConst(k *types.Const) VM {
	return func(v ssa.Value) bool { return valueIs(v, k) }
}

// aCallOn matches a call (static or invoke) to one of fns whose receiver /
// first argument satisfies recv.
func aCallOn(recv VM, fns ...*types.Func) VM {
	return func(v ssa.Value) bool {
		call, ok := v.(*ssa.Call)
		if !ok || !inFuncs(calleeOf(call.Common()), fns) {
			return false
		}
		args := callArgs(call.Common())
		return len(args) > 0 && recv(args[0])
	}
}

// aPkgFuncs returns the SSA functions (with literals) of a module package.
func aPkgFuncs(c *Ctx, rel string) []*ssa.Function {
	return c.funcsOf(Mod + "/" + rel)
}

// aFieldStore is a store to a struct field found in SSA.
type aFieldStore struct {
	Fn    *ssa.Function
	Store *ssa.Store
	Field *types.Var
}

// aStoresIn finds every SSA store to one of fields in the functions of the
// given module packages (composite literal elements, assignments, inc/dec).
func aStoresIn(c *Ctx, fields map[*types.Var]bool, pkgs ...string) []aFieldStore {
	var out []aFieldStore
	for _, rel := range pkgs {
		for _, fn := range aPkgFuncs(c, rel) {
			for _, in := range StoresToField(fn, false, fields) {
				st := in.(*ssa.Store)
				fa := st.Addr.(*ssa.FieldAddr)
				out = append(out, aFieldStore{fn, st, structField(fa.X.Type(), fa.Field)})
			}
		}
	}
	return out
}

// aGeneratedFn reports whether an SSA function comes from a generated file.
func aGeneratedFn(c *Ctx, fn *ssa.Function) bool {
	top := topFn(fn)
	o, ok := top.Object().(*types.Func)
	if !ok {
		return false
	}
	_, file, _ := c.funcDecl(o)
	return file != nil && isGenerated(file)
}

// aOwnerStores records one obligation per function owning a store and checks
// the function against allowed (keys are fnName of the declared function).
func aOwnerStores(c *Ctx, rule, what string, stores []aFieldStore, allowed map[string]string) {
	by := map[string][]aFieldStore{}
	for _, s := range stores {
		if aGeneratedFn(c, s.Fn) {
			continue
		}
		n := fnName(topFn(s.Fn))
		by[n] = append(by[n], s)
	}
	names := make([]string, 0, len(by))
	for n := range by {
		names = append(names, n)
	}
	sort.Strings(names)
	for _, n := range names {
		ss := by[n]
		if reason, ok := allowed[n]; ok {
			c.Ok(rule, what+"@"+n, c.Pos(ss[0].Store.Pos()), "allowed owner ("+reason+"), "+itoa(len(ss))+" store(s)")
		} else {
			c.Bad(rule, what+"@"+n, c.Pos(ss[0].Store.Pos()), what+" outside its owners: "+n+" is not in the owner table; new instance needs review")
		}
	}
	c.NoteSites(len(stores))
}

// aConstOf returns the constant integer value of v if it is a constant.
func aConstOf(v ssa.Value) (int64, bool) {
	k, ok := strip(v).(*ssa.Const)
	if !ok || k.Value == nil || k.Value.Kind() != constant.Int {
		return 0, false
	}
	return constant.Int64Val(k.Value)
}

// aReturns lists the Return instructions of fn.
func aReturns(fn *ssa.Function) []*ssa.Return {
	var out []*ssa.Return
	for _, b := range fn.Blocks {
		if len(b.Instrs) == 0 {
			continue
		}
		if r, ok := b.Instrs[len(b.Instrs)-1].(*ssa.Return); ok {
			out = append(out, r)
		}
	}
	return out
}

// aRetInstrs converts returns to instructions.
func aRetInstrs(rs []*ssa.Return) []ssa.Instruction {
	out := make([]ssa.Instruction, len(rs))
	for i, r := range rs {
		out[i] = r
	}
	return out
}

// aFieldsOf returns the field set of a named struct type excluding blank
// (_struct) fields.
func aFieldsOf(t *types.Named) []*types.Var {
	st, ok := t.Underlying().(*types.Struct)
	if !ok {
		return nil
	}
	var out []*types.Var
	for i := 0; i < st.NumFields(); i++ {
		if st.Field(i).Name() == "_" || st.Field(i).Name() == "_struct" {
			continue
		}
		out = append(out, st.Field(i))
	}
	return out
}

// aDebug prints every obligation when AVCHECK_DEBUG_A is set (development aid).
func aDebug(c *Ctx) {
	if os.Getenv("AVCHECK_DEBUG_A") == "" {
		return
	}
	for _, o := range c.obs {
		fmt.Printf("  [%s] %s@%s at %s: %s\n", o.Verdict, o.Rule, o.Construct, o.Pos, o.Detail)
	}
}

// aReachFromEdge reports which of targets are reachable when execution starts
// on CFG edge e (ignoring cut edges; paths end at calls that never return and
// at stop instructions).
func aReachFromEdge(e Edge, cut []Edge, stop func(ssa.Instruction) bool, targets []ssa.Instruction) []ssa.Instruction {
	cutSet := map[Edge]bool{}
	for _, x := range cut {
		cutSet[x] = true
	}
	want := map[ssa.Instruction]bool{}
	for _, t := range targets {
		want[t] = true
	}
	var hit []ssa.Instruction
	if cutSet[e] {
		return nil
	}
	seen := map[*ssa.BasicBlock]bool{}
	work := []*ssa.BasicBlock{e.From.Succs[e.Idx]}
	seen[work[0]] = true
	for len(work) > 0 {
		b := work[0]
		work = work[1:]
		stopped := false
		for _, in := range b.Instrs {
			if want[in] {
				hit = append(hit, in)
			}
			if noReturnCall(in) || (stop != nil && stop(in)) {
				stopped = true
				break
			}
		}
		if stopped {
			continue
		}
		for i, s := range b.Succs {
			if cutSet[Edge{b, i}] || seen[s] {
				continue
			}
			seen[s] = true
			work = append(work, s)
		}
	}
	return hit
}

// aFailDead decides: on the failing edge of every branch matching guard g, no
// effect instruction is reachable (the rejection is final). Used where the
// guard sits inside a loop body, so that "cut the passing edge" cannot work
// because the loop may run zero times. One obligation.
func aFailDead(c *Ctx, rule string, fn *ssa.Function, g Guard, effects []ssa.Instruction, effName string) bool {
	name := fnName(fn)
	construct := name + ":" + effName + "<=not(" + g.Name + ") is final"
	c.NoteFn(name)
	if len(effects) == 0 {
		c.Unk(rule, construct, c.Pos(fn.Pos()), "effect "+effName+" not found in function: the rule no longer sees its site")
		return false
	}
	pass, matched := PassEdges(fn, g)
	if matched == 0 {
		c.Bad(rule, construct, c.Pos(fn.Pos()), fmt.Sprintf("guard %q not found in %s (no branch tests it)", g.Name, name))
		return false
	}
	for _, pe := range pass {
		fail := Edge{pe.From, 1 - pe.Idx}
		if hit := aReachFromEdge(fail, nil, nil, effects); len(hit) > 0 {
			c.Bad(rule, construct, c.Pos(hit[0].Pos()), fmt.Sprintf("%s is reachable after the test %q failed (branch at %s): the rejection is not final", effName, g.Name, c.Pos(pe.From.Instrs[len(pe.From.Instrs)-1].(*ssa.If).Cond.Pos())))
			return false
		}
	}
	c.Ok(rule, construct, c.Pos(effects[0].Pos()), fmt.Sprintf("%d effect site(s) unreachable from the failing edge of %d branch(es) testing %q", len(effects), matched, g.Name))
	return true
}

// aReachFromInstr reports which of targets can execute after instruction
// start (same block later, or any block reachable from it). Paths end at stop
// instructions and at calls that never return.
func aReachFromInstr(start ssa.Instruction, stop func(ssa.Instruction) bool, targets []ssa.Instruction) []ssa.Instruction {
	want := map[ssa.Instruction]bool{}
	for _, t := range targets {
		want[t] = true
	}
	var hit []ssa.Instruction
	b0 := start.Block()
	seen := map[*ssa.BasicBlock]bool{}
	var work []*ssa.BasicBlock
	scan := func(b *ssa.BasicBlock, from int) {
		for _, in := range b.Instrs[from:] {
			if want[in] {
				hit = append(hit, in)
			}
			if noReturnCall(in) || (stop != nil && stop(in)) {
				return
			}
		}
		for _, s := range b.Succs {
			if !seen[s] {
				seen[s] = true
				work = append(work, s)
			}
		}
	}
	idx := 0
	for i, in := range b0.Instrs {
		if in == start {
			idx = i + 1
		}
	}
	scan(b0, idx)
	for len(work) > 0 {
		b := work[0]
		work = work[1:]
		scan(b, 0)
	}
	return hit
}

// aLookupExtract matches the comma-ok (idx 1) or value (idx 0) result of a map
// lookup `m[k]` where m is read from field mapField.
func aLookupExtract(mapField *types.Var, idx int) VM {
	return func(v ssa.Value) bool {
		e, ok := v.(*ssa.Extract)
		if !ok || e.Index != idx {
			return false
		}
		l, ok := e.Tuple.(*ssa.Lookup)
		return ok && l.CommaOk && aRootPath(l.X).last() == mapField
	}
}

// aNonNilByTest reports whether value v was tested `!= nil` on an edge that
// dominates block at. (Corrected companion of the shared definitelyNonNil,
// which returns early for *ssa.Call values and so misses
// `err := f(); if err != nil { return …, err }`.)
func aNonNilByTest(v ssa.Value, at *ssa.BasicBlock) bool {
	if at == nil || v == nil {
		return false
	}
	for _, b := range at.Parent().Blocks {
		iff, ok := b.Instrs[len(b.Instrs)-1].(*ssa.If)
		if !ok {
			continue
		}
		cond, neg := condOf(iff.Cond)
		bo, ok := cond.(*ssa.BinOp)
		if !ok || (bo.Op != token.NEQ && bo.Op != token.EQL) {
			continue
		}
		var other ssa.Value
		switch v {
		case bo.X:
			other = bo.Y
		case bo.Y:
			other = bo.X
		default:
			continue
		}
		if !IsNil(other) {
			continue
		}
		nonNilOnTrue := (bo.Op == token.NEQ) != neg
		succ := b.Succs[1]
		if nonNilOnTrue {
			succ = b.Succs[0]
		}
		if len(succ.Preds) == 1 && (succ == at || succ.Dominates(at)) {
			return true
		}
	}
	return false
}

// aSuccessReturns is SuccessReturns with the corrected non-nil reasoning.
func aSuccessReturns(fn *ssa.Function) []ssa.Instruction {
	idx := errResultIndex(fn)
	var out []ssa.Instruction
	for _, r := range SuccessReturns(fn) {
		ret := r.(*ssa.Return)
		if idx >= 0 && idx < len(ret.Results) {
			v := resolveLocal(ret.Results[idx], ret)
			if aNonNilByTest(v, ret.Block()) {
				continue
			}
		}
		out = append(out, r)
	}
	return out
}

// aAtMost is the guard "value matched by vm is <= max on the passing edge",
// recognising every comparison of vm against an integer constant that implies
// it (x<=k, x<k+1, x==k with k<=max, and the negations x>k, x>=k+1), written
// either way round.
func aAtMost(name string, vm VM, max int64) Guard {
	return Guard{Name: name, Match: func(cond ssa.Value) (bool, bool) {
		bo, ok := cond.(*ssa.BinOp)
		if !ok {
			return false, false
		}
		op := bo.Op
		var k int64
		if kk, isK := aConstOf(bo.Y); isK && vm(bo.X) {
			k = kk
		} else if kk, isK := aConstOf(bo.X); isK && vm(bo.Y) {
			k = kk
			op = mirrorOp(op)
		} else {
			return false, false
		}
		switch op {
		case token.LEQ:
			return k <= max, true
		case token.LSS:
			return k-1 <= max, true
		case token.EQL:
			return k <= max, true
		case token.GTR: // false edge: x <= k
			return k <= max, false
		case token.GEQ: // false edge: x < k
			return k-1 <= max, false
		}
		return false, false
	}}
}
