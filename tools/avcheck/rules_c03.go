package main

import (
	"go/token"
	"go/types"

	"golang.org/x/tools/go/ssa"
)

func init() {
	register(&Prop{
		ID:       "C03",
		Patterns: []string{"./agreement"},
		Run:      runC03,
		Explanation: "Decides the provenance chain of the certificate that accompanies a committed block, as code shape. " +
			"R03.1 every store to ensureAction.Certificate takes Certificate(EV.Bundle) of a thresholdEvent EV, is reachable only through EV.t()==certThreshold, and the Payload next to it is the staged payload of (EV.Round,EV.Period) under Committable or a payload X with EV.Proposal==X.value(); ensureAction.do hands exactly a.Payload's block (or its validated block) and a.Certificate to the ledger's block+certificate entry points; Certificate values are converted from bundles only in the player's cert-threshold branches and unauthenticatedBundle.Certificate, and non-zero Certificate literals appear only in the frozen (dev-mode / network bootstrap) table. " +
			"R03.2 thresholdEvent.Bundle is written only in voteTracker.handle from the result of genBundle; genBundle returns makeBundle's result; makeBundle's returned bundle is reachable only through step.reachesQuorum(proto, packed)==true for the step of votes[0] (the Panicf edge ends the path), takes Round/Period/Step from votes[0] and Proposal from targetProposal, and a vote whose proposal differs from targetProposal never reaches the return; the event kind certThreshold is stored only under Vote.R.Step==cert with Step taken from the same vote. " +
			"R03.3 who-may-call: every function or interface method of the loaded packages that takes an agreement.Certificate together with a block (bookkeeping.Block, ledgercore.ValidatedBlock, agreement.ValidatedBlock) is called only from the frozen caller table (quick tier: packages loaded for ./agreement; thorough tier: the whole module incl. node, catchup, data, ledger down to blockdb; entry points taking *Certificate, i.e. the catchpoint accessor interface, are not in scope). " +
			"Does NOT decide: validity of the signatures and credentials inside the bundle at run time (C04 decides the verifier's shape), that all votes of a tracker share round/period/step (router construction), or that catchup authenticates before writing (C30).",
		Assumptions: []string{"events are not mutated through aliases between guard and use", "logging Panicf does not return"},
		Floor:       map[string]int{"R03.1": 12, "R03.2": 14, "R03.3": 2},
	})
}

// aBlockCertSinks returns every declared function / method / interface method
// of the loaded module packages that has a parameter of type
// agreement.Certificate and a parameter carrying a block.
func aBlockCertSinks(c *Ctx) []*types.Func {
	cert := c.Named("agreement.Certificate")
	var blockTypes []types.Type
	for _, spec := range []string{"data/bookkeeping.Block", "ledger/ledgercore.ValidatedBlock", "agreement.ValidatedBlock"} {
		if tn, ok := c.TryObj(spec).(*types.TypeName); ok {
			blockTypes = append(blockTypes, tn.Type())
		}
	}
	isBlock := func(t types.Type) bool {
		if p, ok := t.(*types.Pointer); ok {
			t = p.Elem()
		}
		for _, b := range blockTypes {
			if types.Identical(t, b) {
				return true
			}
		}
		return false
	}
	isSink := func(f *types.Func) bool {
		sig, ok := f.Type().(*types.Signature)
		if !ok {
			return false
		}
		hasCert, hasBlock := false, false
		for i := 0; i < sig.Params().Len(); i++ {
			t := sig.Params().At(i).Type()
			if types.Identical(t, cert) {
				hasCert = true
			}
			if isBlock(t) {
				hasBlock = true
			}
		}
		return hasCert && hasBlock
	}
	var out []*types.Func
	seen := map[*types.Func]bool{}
	add := func(f *types.Func) {
		if f != nil && !seen[f] && isSink(f) {
			seen[f] = true
			out = append(out, f)
		}
	}
	for _, pk := range c.sortedPkgs() {
		sc := pk.Types.Scope()
		for _, n := range sc.Names() {
			switch o := sc.Lookup(n).(type) {
			case *types.Func:
				add(o)
			case *types.TypeName:
				if o.IsAlias() {
					continue
				}
				nt, ok := o.Type().(*types.Named)
				if !ok {
					continue
				}
				for i := 0; i < nt.NumMethods(); i++ {
					add(nt.Method(i))
				}
				if it, ok := nt.Underlying().(*types.Interface); ok {
					for i := 0; i < it.NumExplicitMethods(); i++ {
						add(it.ExplicitMethod(i))
					}
				}
			}
		}
	}
	return out
}

func runC03(c *Ctx) {
	defer aDebug(c)
	// ---- R03.1: the certificate of every ensureAction ----
	sites := aEnsureSites(c)
	if len(sites) == 0 {
		c.Unk("R03.1", "ensureAction.Certificate", "-", "no store to ensureAction.Certificate found")
	}
	for _, s := range sites {
		aEnsureGating(c, "R03.1", s)
	}
	sinks := aBlockCertSinks(c)
	{
		do := c.Fn("agreement.ensureAction.do")
		fCert := c.Field("agreement.ensureAction.Certificate")
		fPay := c.Field("agreement.ensureAction.Payload")
		var recv *ssa.Parameter
		if len(do.Params) > 0 {
			recv = do.Params[0]
		}
		calls := CallsTo(do, true, sinks...)
		if len(calls) == 0 || recv == nil {
			c.Unk("R03.1", "agreement.ensureAction.do:ledger-call", c.Pos(do.Pos()), "no call handing a block and a certificate to the ledger found")
		}
		for _, call := range calls {
			callee := calleeOf(call.Common())
			okCert, okBlock := false, false
			for _, a := range call.Common().Args {
				p := aRootPath(a)
				if types.Identical(a.Type(), c.Named("agreement.Certificate")) {
					okCert = p.Root == ssa.Value(recv) && len(p.Fields) == 1 && p.Fields[0] == fCert
				} else {
					okBlock = p.Root == ssa.Value(recv) && len(p.Fields) >= 1 && p.Fields[0] == fPay
				}
			}
			c.Check(okCert && okBlock, "R03.1", "agreement.ensureAction.do:"+funcObjName(callee)+"(a.Payload…, a.Certificate)", c.Pos(call.Pos()), "the ledger receives the action's own payload block and the action's own certificate")
		}
		c.OwnerRule("R03.1", "use(ensureAction.do sinks)", c.Uses(sinks, ScanOpts{SkipGenerated: true, OnlyPkgs: []string{"agreement"}}), map[string]string{"agreement.ensureAction.do": "executes the commit"})
	}
	{
		certT := c.Named("agreement.Certificate")
		opts := ScanOpts{SkipGenerated: true, SkipPkgs: []string{"test/...", "tools/...", "cmd/...", "data/datatest", "ledger/simulation/testing", "agreement/agreementtest", "agreement/fuzzer"}}
		c.OwnerRule("R03.1", "conversion(agreement.Certificate)", c.Conversions(certT, opts), map[string]string{
			"agreement.player.handleThresholdEvent":       "cert threshold: ensure / stage digest",
			"agreement.player.handleMessageEvent":         "late payload for the freshest cert threshold",
			"agreement.unauthenticatedBundle.Certificate": "panics unless Step==cert and Proposal!=bottom",
		})
		lits := c.Literals(certT, true, opts)
		c.OwnerRule("R03.1", "literal(agreement.Certificate)", lits, map[string]string{
			"node.AlgorandFullNode.writeDevmodeBlock":                "dev mode only: single-node network without agreement (thorough tier)",
			"netdeploy/remote.createBlock":                           "offline network bootstrap tool writes a fresh ledger (thorough tier)",
			"netdeploy/remote.generateAccounts":                      "offline network bootstrap tool writes a fresh ledger (thorough tier)",
			"netdeploy/remote.DeployedNetwork.GenerateDatabaseFiles": "offline network bootstrap tool writes a fresh ledger (thorough tier)",
		})
		c.Ok("R03.1", "literal(agreement.Certificate):scan", "-", itoa(len(lits))+" non-zero Certificate literal(s) in "+itoa(len(c.ByPath))+" loaded packages")
	}

	// ---- R03.2: where the bundle of a threshold event comes from ----
	{
		fBundle := c.Fields("agreement.thresholdEvent.Bundle")
		c.OwnerRule("R03.2", "write(thresholdEvent.Bundle)", c.FieldWrites(fBundle, ScanOpts{SkipGenerated: true}), map[string]string{"agreement.voteTracker.handle": "bundle generated from the tracker's own tally"})
		h := c.Fn("agreement.voteTracker.handle")
		genBundleF := c.Func("agreement.voteTracker.genBundle")
		st := StoresToField(h, true, fBundle)
		okSrc := len(st) > 0
		for _, s := range st {
			if _, isRes := asResultOf(s.(*ssa.Store).Val, -1, genBundleF); !isRes {
				okSrc = false
			}
		}
		c.Check(okSrc, "R03.2", "agreement.voteTracker.handle:thresholdEvent.Bundle<=genBundle()", c.Pos(h.Pos()), "the bundle of an emitted threshold event is the result of genBundle")

		gen := c.Fn("agreement.voteTracker.genBundle")
		makeBundleF := c.Func("agreement.makeBundle")
		rets := aReturns(gen)
		okGen := len(rets) > 0
		for _, r := range rets {
			if _, isRes := asResultOf(r.Results[0], -1, makeBundleF); !isRes {
				okGen = false
			}
		}
		c.Check(okGen, "R03.2", "agreement.voteTracker.genBundle:returns(makeBundle())", c.Pos(gen.Pos()), "genBundle returns the bundle built (and quorum-checked) by makeBundle")
		c.OwnerRule("R03.2", "use(makeBundle)", c.Uses([]*types.Func{makeBundleF}, ScanOpts{SkipGenerated: true}), map[string]string{"agreement.voteTracker.genBundle": "packs the tally"})
		c.OwnerRule("R03.2", "use(genBundle)", c.Uses([]*types.Func{genBundleF}, ScanOpts{SkipGenerated: true}), map[string]string{"agreement.voteTracker.handle": "on the threshold edge"})
		aMakeBundleShape(c, "R03.2")
		aThresholdKindByStep(c, "R03.2", true)
	}

	// ---- R03.3: who may hand a block + certificate to a ledger ----
	{
		if len(sinks) == 0 {
			c.Unk("R03.3", "block+certificate sinks", "-", "no function taking a block and an agreement.Certificate found")
		}
		names := ""
		for i, f := range sinks {
			if i > 0 {
				names += ", "
			}
			names += funcObjName(f)
		}
		c.Ok("R03.3", "sinks:found", "-", itoa(len(sinks))+" block+certificate entry point(s): "+names)
		opts := ScanOpts{SkipGenerated: true, SkipPkgs: []string{"test/...", "tools/...", "cmd/...", "data/datatest", "ledger/simulation/testing", "agreement/agreementtest", "agreement/fuzzer", "components/mocks"}}
		c.OwnerRule("R03.3", "use(block+certificate sink)", c.Uses(sinks, opts), map[string]string{
			"agreement.ensureAction.do":                              "consensus commit (R03.1)",
			"node.agreementLedger.EnsureBlock":                       "adaptor agreement -> data.Ledger (thorough tier)",
			"node.agreementLedger.EnsureValidatedBlock":              "adaptor agreement -> data.Ledger (thorough tier)",
			"data.Ledger.EnsureBlock":                                "wrapper: AddBlock with retry until the round is present (thorough tier)",
			"data.Ledger.EnsureValidatedBlock":                       "wrapper: AddValidatedBlock with retry until the round is present (thorough tier)",
			"ledger.Ledger.AddBlock":                                 "validates then AddValidatedBlock (thorough tier)",
			"ledger.Ledger.AddValidatedBlock":                        "enqueues block and certificate into the block queue under trackerMu (thorough tier)",
			"ledger.blockQueue.syncer":                               "writes the queued (block, certificate) pairs to the block DB (thorough tier)",
			"ledger.catchpointCatchupAccessorImpl.StoreBlock":        "catchpoint catchup staging table; certificate authenticated by the catchpoint service (thorough tier)",
			"ledger.catchpointCatchupAccessorImpl.StoreFirstBlock":   "catchpoint catchup staging table; certificate authenticated by the catchpoint service (thorough tier)",
			"ledger/store/blockdb.BlockInit":                         "genesis block(s) with the empty certificate (thorough tier)",
			"catchup.Service.fetchAndWrite":                          "catchup writes fetched blocks after certificate authentication (C30) (thorough tier)",
			"catchup.Service.fetchRound":                             "cert-driven fetch of the block agreement already certified (thorough tier)",
			"node.AlgorandFullNode.writeDevmodeBlock":                "dev mode only (thorough tier)",
			"netdeploy/remote.createBlock":                           "offline bootstrap tool (thorough tier)",
			"netdeploy/remote.generateAccounts":                      "offline bootstrap tool (thorough tier)",
			"netdeploy/remote.DeployedNetwork.GenerateDatabaseFiles": "offline bootstrap tool (thorough tier)",
		})
	}
}

// aMakeBundleShape checks makeBundle: quorum before return, header fields.
func aMakeBundleShape(c *Ctx, rule string) {
	mb := c.Fn("agreement.makeBundle")
	reaches := c.Func("agreement.step.reachesQuorum")
	fR := c.Field("agreement.vote.R")
	fStep := c.Field("agreement.rawVote.Step")
	rets := aRetInstrs(aReturns(mb))
	var votesP, targetP *ssa.Parameter
	voteSlice := types.NewSlice(c.Named("agreement.vote"))
	for _, p := range mb.Params {
		if types.Identical(p.Type(), voteSlice) {
			votesP = p
		}
		if types.Identical(p.Type(), c.Named("agreement.proposalValue")) {
			targetP = p
		}
	}
	if votesP == nil || targetP == nil {
		c.Unk(rule, "agreement.makeBundle:params", c.Pos(mb.Pos()), "makeBundle no longer takes ([]vote, proposalValue)")
		return
	}
	// votes[0].<f...>: IndexAddr(votes, 0) then fields
	isVotes0 := func(v ssa.Value, fields ...*types.Var) bool {
		p := aRootPath(v)
		ia, ok := p.Root.(*ssa.IndexAddr)
		if !ok || ia.X != ssa.Value(votesP) || !IsConstInt(0)(ia.Index) || len(p.Fields) != len(fields) {
			return false
		}
		for i := range fields {
			if p.Fields[i] != fields[i] {
				return false
			}
		}
		return true
	}
	g := GBool("votes[0].R.Step.reachesQuorum(proto, packed)", func(v ssa.Value) bool {
		call, ok := v.(*ssa.Call)
		if !ok || !sameFunc(calleeOf(call.Common()), reaches) {
			return false
		}
		a := call.Common().Args
		return len(a) == 3 && isVotes0(a[0], fR, fStep)
	}, true)
	c.MustGuard(MustGuardSpec{Rule: rule, Fn: mb, Effects: rets, EffName: "return(bundle)", Guards: []Guard{g}})

	// header of the returned literal
	for _, pair := range [][2]string{{"Round", "Round"}, {"Period", "Period"}, {"Step", "Step"}} {
		st := StoresToField(mb, false, c.Fields("agreement.unauthenticatedBundle."+pair[0]))
		ok := len(st) > 0
		for _, s := range st {
			if !isVotes0(s.(*ssa.Store).Val, fR, c.Field("agreement.rawVote."+pair[1])) {
				ok = false
			}
		}
		c.Check(ok, rule, "agreement.makeBundle:bundle."+pair[0]+"<=votes[0].R."+pair[1], c.Pos(mb.Pos()), "the bundle header is taken from the packed votes")
	}
	st := StoresToField(mb, false, c.Fields("agreement.unauthenticatedBundle.Proposal"))
	ok := len(st) > 0
	for _, s := range st {
		if s.(*ssa.Store).Val != ssa.Value(targetP) {
			ok = false
		}
	}
	c.Check(ok, rule, "agreement.makeBundle:bundle.Proposal<=targetProposal", c.Pos(mb.Pos()), "the bundle claims the proposal all packed votes were checked against")
	aFailDead(c, rule, mb, GCmp("vote.R.Proposal==targetProposal", token.EQL, aLastField(c.Field("agreement.rawVote.Proposal")), IsV(targetP)), rets, "return(bundle)")
}
