package main

import (
	"golang.org/x/tools/go/ssa"
)

// R08.10: the database layer does not answer a resource lookup differently from
// the in-memory layers above it.
//
// Found by a second independent audit of C08 (a genuine defect, repaired by a
// "fix:" commit, see known_findings.json and DESIGN §7). Asset and application
// ids come from one counter, and nothing stops a caller — a transaction listing
// an asset id among its foreign apps — from asking for the wrong kind. The
// deltas (au.resources) and the LRU cache (au.baseResources) are keyed by
// (address, index) only and hand back the row whatever its kind; the wrapper
// projects out the empty fields: "no such application, no error". The database
// readers of both drivers instead ASSERTED the kind and returned an error
// ("lookupResources asked for an app but got …"). postCommit writes every
// flushed resource through the cache, so the error appeared only after a
// restart, an eviction or with the cache disabled — and the evaluator propagates
// it: an app call running app_opted_in on (Sender, id of an asset the sender
// holds) was accepted by a node with a warm cache and rejected by a freshly
// restarted one. Block validity depended on cache content.
func init() {
	extend("C08", Extension{
		Run:         ruleResourceReadersDoNotAssertKind,
		Explanation: "R08.10 (every layer that can serve a resource row treats a kind mismatch alike): in the implementations of trackerdb.AccountsReader.LookupResources (sqlitedriver, generickv), no error is constructed (fmt.Errorf / errors.New) in a region controlled by a condition on the ctype parameter — the in-memory deltas and the LRU cache of accountUpdates are keyed by (address, index) only and return the row whatever its kind, so a database reader that fails on a mismatch makes Ledger.LookupApplication/LookupAsset (and, through the evaluator, the validity of a block) depend on whether the row is still cached.",
		Floor:       map[string]int{"R08.10": 2},
		Patterns:    []string{"./ledger/store/trackerdb/sqlitedriver", "./ledger/store/trackerdb/generickv"},
	})
}

func ruleResourceReadersDoNotAssertKind(c *Ctx) {
	const rule = "R08.10"
	iface := c.Named("ledger/store/trackerdb.AccountsReader")
	m := c.Func("ledger/store/trackerdb.AccountsReader.LookupResources")
	n := 0
	for _, impl := range c.implementations(iface, m) {
		if impl == nil || len(impl.Blocks) == 0 || impl.Pkg == nil {
			continue
		}
		path := impl.Pkg.Pkg.Path()
		if path != r47SQLite && path != r47KV {
			continue
		}
		if len(impl.Params) < 4 {
			continue
		}
		n++
		ctype := impl.Params[3]
		same := valuesOfParam(impl, ctype)
		bad := ""
		for _, f := range withAnon(impl) {
			for _, b := range f.Blocks {
				iff, ok := b.Instrs[len(b.Instrs)-1].(*ssa.If)
				if !ok {
					continue
				}
				mentions := false
				walkDef(iff.Cond, 6, func(x ssa.Value) bool {
					if same != nil && same[x] {
						mentions = true
					}
					return !mentions
				})
				if !mentions {
					continue
				}
				for _, s := range b.Succs {
					if len(s.Preds) != 1 {
						continue
					}
					for _, b2 := range f.Blocks {
						if !s.Dominates(b2) {
							continue
						}
						for _, in := range b2.Instrs {
							call, ok := in.(*ssa.Call)
							if !ok {
								continue
							}
							cal := calleeOf(call.Common())
							if cal != nil && cal.Pkg() != nil && ((cal.Pkg().Path() == "fmt" && cal.Name() == "Errorf") || (cal.Pkg().Path() == "errors" && cal.Name() == "New")) {
								bad = c.Pos(call.Pos())
							}
						}
					}
				}
			}
		}
		c.Check(bad == "", rule, fnName(impl)+":no error conditioned on ctype", c.Pos(impl.Pos()),
			"the reader returns the stored row whatever kind was asked for, as the deltas and the LRU cache do"+func() string {
				if bad != "" {
					return "; an error is built at " + bad + " under a condition on the ctype parameter"
				}
				return ""
			}())
	}
	if n == 0 {
		c.Unk(rule, "trackerdb.AccountsReader.LookupResources:implementations", "-", "no implementation in sqlitedriver/generickv found")
	}
}
