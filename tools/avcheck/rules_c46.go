package main

import (
	"go/token"
	"go/types"
	"sort"
	"strings"

	"golang.org/x/tools/go/ssa"
)

func init() {
	register(&Prop{
		ID:       "C46",
		Patterns: []string{"./daemon/kmd/wallet/driver"},
		Run:      runC46,
		Explanation: "Decides the password gate and the shape of index-derived key generation of the kmd SQLite wallet. " +
			"R46.1 (must-guard) in each password-taking operation of the frozen table — SQLiteWallet.ExportKey, ExportMasterDerivationKey, DeleteKey, DeleteMultisigAddr, SignTransaction, SignProgram, MultisigSignTransaction, MultisigSignProgram and SQLiteWalletDriver.RenameWallet — every sensitive effect (a call of fetchSecretKey, an Exec on the wallet database, a read of sw.masterDerivationKey/masterEncryptionKey) is reachable only past `CheckPassword(<the password parameter>) == nil` on the wallet the effect is applied to, and on the failing edge the function returns exactly CheckPassword's error. " +
			"R46.2 (ownership) fetchSecretKey is called only by those operations; decryptAndGetMasterKey only by Init and CheckPassword; decryptAndGetMasterDerivationKey only by Init; the in-memory keys are read only by the tabled functions; every exported method of SQLiteWallet/SQLiteWalletDriver whose results contain crypto.PrivateKey or crypto.MasterDerivationKey is in the R46.1 table. " +
			"R46.3 CheckPassword returns nil only on the ConstantTimeCompare(fastHashWithSalt(pw, salt), walletPasswordHash)==1 edge or as the error of decryptAndGetMasterKey(pw); decryptAndGetMasterKey returns a key only when decryptBlobWithPassword(blob, PTMasterKey, pw) succeeded; Init stores the keys and the password hash only after both decryptions succeeded, computes the hash from its own pw, and is the only writer of the password-hash fields. " +
			"R46.4 generateKeyTxLocked: the candidate key is extractKeyWithIndex(sw.masterDerivationKey, nextIndex); both Execs are reachable only past `cnt == 0` for the COUNT of that candidate's address (imported keys are skipped, no address is inserted twice); the other way out of the loop is nextIndex+1; the inserted address, secret key and index and the new encrypted max index all derive from the same candidate/nextIndex; nextIndex starts at the decrypted stored maximum + 1; extractKeyWithIndex feeds HKDF with exactly (derivationKey, index) and calls no randomness source. " +
			"Does NOT decide: the SQL text (that the COUNT really filters by address, PRIMARY KEY uniqueness of keys.address), cryptographic strength of scrypt/secretbox/HKDF, ImportKey's reliance on the database constraint for uniqueness, the wallet.Wallet wrappers in kmd's session layer, or the ledger (hardware) wallet driver.",
		Assumptions: []string{
			"keys.address is a PRIMARY KEY in walletSchema (uniqueness for ImportKey is enforced by SQLite, not by Go code)",
			"golang.org/x/crypto/hkdf.Expand and crypto.GenerateSignatureSecrets are deterministic functions of their arguments",
		},
		Floor: map[string]int{"R46.1": 19, "R46.2": 15, "R46.3": 9, "R46.4": 9},
	})
}

const c46Pkg = "daemon/kmd/wallet/driver"

// c46Resolve follows a load of a local (named result with defer, address-taken
// variable) back to the value stored just before it.
func c46Resolve(v ssa.Value) ssa.Value {
	for i := 0; i < 3; i++ {
		r := resolveLocal(v, nil)
		if r == v {
			break
		}
		v = r
	}
	return v
}

// c46ErrOfCall matches an error value that is the (error result of the) given
// call instruction, possibly through a local.
func c46ErrOfCall(call *ssa.Call) VM {
	return func(v ssa.Value) bool {
		v = c46Resolve(v)
		if v == ssa.Value(call) {
			return true
		}
		if e, ok := v.(*ssa.Extract); ok && e.Tuple == ssa.Value(call) && isErrorType(e.Type()) {
			return true
		}
		return false
	}
}

func runC46(c *Ctx) {
	W := c46Pkg + ".SQLiteWallet"
	D := c46Pkg + ".SQLiteWalletDriver"
	checkPassword := c.Func(W + ".CheckPassword")
	fetchSK := c.Func(W + ".fetchSecretKey")
	fMDK := c.Field(W + ".masterDerivationKey")
	fMEK := c.Field(W + ".masterEncryptionKey")

	// password-taking operations: method -> index of the password parameter (receiver excluded)
	type op struct {
		spec string
		pw   int
	}
	table := []op{
		{W + ".ExportMasterDerivationKey", 0},
		{W + ".ExportKey", 1},
		{W + ".DeleteKey", 1},
		{W + ".DeleteMultisigAddr", 1},
		{W + ".SignTransaction", 2},
		{W + ".SignProgram", 2},
		{W + ".MultisigSignTransaction", 3},
		{W + ".MultisigSignProgram", 4},
		{D + ".RenameWallet", 2},
	}
	tabled := map[string]bool{}
	for _, o := range table {
		tabled[o.spec] = true
	}

	isExec := func(cc *ssa.CallCommon) bool {
		f := calleeOf(cc)
		if f == nil || f.Pkg() == nil || f.Name() != "Exec" && f.Name() != "MustExec" && f.Name() != "NamedExec" {
			return false
		}
		p := f.Pkg().Path()
		return p == "database/sql" || p == "github.com/jmoiron/sqlx"
	}
	readsKey := func(in ssa.Instruction) bool {
		switch x := in.(type) {
		case *ssa.FieldAddr:
			f := structField(x.X.Type(), x.Field)
			return f == fMDK || f == fMEK
		case *ssa.Field:
			f := structField(x.X.Type(), x.Field)
			return f == fMDK || f == fMEK
		}
		return false
	}

	// ================= R46.1 =================
	for _, o := range table {
		fn := c.Fn(o.spec)
		if len(fn.Params) <= o.pw+1 {
			c.Unk("R46.1", o.spec, c.Pos(fn.Pos()), "signature changed: the tabled password parameter does not exist")
			continue
		}
		pw := fn.Params[o.pw+1]
		if sl, ok := pw.Type().Underlying().(*types.Slice); !ok || !types.Identical(sl.Elem(), types.Typ[types.Byte]) {
			c.Unk("R46.1", o.spec, c.Pos(fn.Pos()), "signature changed: the tabled password parameter is not a []byte")
			continue
		}
		// the CheckPassword call on this function's password parameter
		var cp *ssa.Call
		for _, ci := range CallsTo(fn, false, checkPassword) {
			if call, ok := ci.(*ssa.Call); ok && len(call.Common().Args) == 2 && strip(call.Common().Args[1]) == ssa.Value(pw) {
				cp = call
			}
		}
		if cp == nil {
			c.Bad("R46.1", o.spec+":CheckPassword(pw)", c.Pos(fn.Pos()), "no call CheckPassword(<password parameter>) in "+o.spec+": the operation is not gated by the caller's password")
			continue
		}
		walletVal := cp.Common().Args[0]
		// sensitive effects
		var effects []ssa.Instruction
		var kinds []string
		for _, b := range fn.Blocks {
			for _, in := range b.Instrs {
				if ci, ok := in.(ssa.CallInstruction); ok {
					switch {
					case sameFunc(calleeOf(ci.Common()), fetchSK):
						effects = append(effects, in)
						kinds = append(kinds, "fetchSecretKey")
						// the key is fetched from the wallet whose password was checked
						if ci.Common().Args[0] != walletVal {
							c.Bad("R46.1", o.spec+":fetchSecretKey(same wallet)", c.Pos(in.Pos()), "fetchSecretKey is applied to a different wallet value than CheckPassword")
						}
					case isExec(ci.Common()):
						effects = append(effects, in)
						kinds = append(kinds, "db.Exec")
					}
				}
				if readsKey(in) {
					effects = append(effects, in)
					kinds = append(kinds, "read(master key)")
				}
			}
		}
		// nested literals must not carry effects past the gate unnoticed
		for _, an := range fn.AnonFuncs {
			for _, b := range an.Blocks {
				for _, in := range b.Instrs {
					if ci, ok := in.(ssa.CallInstruction); ok && (sameFunc(calleeOf(ci.Common()), fetchSK) || isExec(ci.Common())) || readsKey(in) {
						c.Unk("R46.1", o.spec+":effect-in-literal", c.Pos(in.Pos()), "a sensitive effect sits in a function literal; the gate cannot be decided")
					}
				}
			}
		}
		sort.Strings(kinds)
		c.MustGuard(MustGuardSpec{Rule: "R46.1", Fn: fn, Effects: effects, EffName: "sensitive effect(" + strings.Join(c46Uniq(kinds), ",") + ")",
			Guards: []Guard{GErrNil("CheckPassword(pw) == nil", c46ErrOfCall(cp))}})
		// for the driver-level operation the database that is written belongs to the checked wallet
		if o.spec == D+".RenameWallet" {
			fDBPath := c.Field(W + ".dbPath")
			ok := false
			for _, in := range Instrs(fn, func(in ssa.Instruction) bool {
				ci, ok := in.(*ssa.Call)
				return ok && calleeOf(ci.Common()) != nil && calleeOf(ci.Common()).Name() == "Connect" && calleeOf(ci.Common()).Pkg() != nil && calleeOf(ci.Common()).Pkg().Path() == "github.com/jmoiron/sqlx"
			}) {
				ci := in.(*ssa.Call)
				ok = false
				walkDef(ci.Common().Args[1], 6, func(x ssa.Value) bool {
					if fa, isFA := x.(*ssa.FieldAddr); isFA && structField(fa.X.Type(), fa.Field) == fDBPath && fa.X == walletVal {
						ok = true
					}
					return true
				})
			}
			c.Check(ok, "R46.1", o.spec+":db=checked wallet's dbPath", c.Pos(fn.Pos()), "the database opened for the update is the dbPath of the wallet whose password was checked")
		}
		// on the failing edge the function returns CheckPassword's own error
		fail, n := PassEdges(fn, GCmp("CheckPassword(pw) != nil", token.NEQ, c46ErrOfCall(cp), IsNil))
		okRet := n > 0
		why := "when CheckPassword fails the function returns that error"
		idx := errResultIndex(fn)
		for _, e := range fail {
			// returns reachable from the failing successor
			seen := map[*ssa.BasicBlock]bool{}
			work := []*ssa.BasicBlock{e.From.Succs[e.Idx]}
			nret := 0
			for len(work) > 0 && len(seen) < 64 {
				b := work[0]
				work = work[1:]
				if seen[b] {
					continue
				}
				seen[b] = true
				if ret, isRet := b.Instrs[len(b.Instrs)-1].(*ssa.Return); isRet {
					nret++
					if idx < 0 || !c46ErrOfCall(cp)(ret.Results[idx]) {
						okRet = false
						why = "on the failing edge of CheckPassword a return does not carry CheckPassword's error (" + describe(ret.Results[idx]) + ")"
					}
					continue
				}
				stopped := false
				for _, in := range b.Instrs {
					if noReturnCall(in) {
						stopped = true
					}
				}
				if !stopped {
					work = append(work, b.Succs...)
				}
			}
			if nret == 0 {
				okRet = false
				why = "the failing edge of CheckPassword does not lead to a return"
			}
		}
		c.Check(okRet, "R46.1", o.spec+":CheckPassword error returned", c.Pos(cp.Pos()), why)
	}

	// ================= R46.2 =================
	owners := map[string]string{}
	for _, o := range table {
		owners[o.spec] = "password-gated operation (R46.1)"
	}
	scan := ScanOpts{SkipGenerated: true}
	if !c.Thorough {
		scan.OnlyPkgs = []string{"daemon/kmd/..."}
	}
	c.OwnerRule("R46.2", "call(fetchSecretKey)", c.Uses([]*types.Func{fetchSK}, scan), owners)
	c.OwnerRule("R46.2", "call(decryptAndGetMasterKey)", c.Uses([]*types.Func{c.Func(W + ".decryptAndGetMasterKey")}, scan), map[string]string{
		W + ".Init":          "unlocks the wallet with the password",
		W + ".CheckPassword": "verifies the password",
	})
	c.OwnerRule("R46.2", "call(decryptAndGetMasterDerivationKey)", c.Uses([]*types.Func{c.Func(W + ".decryptAndGetMasterDerivationKey")}, scan), map[string]string{
		W + ".Init": "unlocks the wallet with the password",
	})
	{
		// who touches the in-memory keys
		allowed := map[string]string{
			W + ".Init":                      "stores the decrypted keys",
			W + ".ExportMasterDerivationKey": "password-gated export (R46.1)",
			W + ".ImportKey":                 "encrypts an imported key with the master encryption key",
			W + ".fetchSecretKey":            "decrypts a stored key (callers gated, R46.2)",
			W + ".generateKeyTxLocked":       "derives and encrypts the next key",
			D + ".fetchWalletLocked":         "constructs a locked wallet with nil keys",
		}
		users := map[string]ssa.Instruction{}
		for _, fn := range c.funcsOf(Mod + "/" + c46Pkg) {
			for _, b := range fn.Blocks {
				for _, in := range b.Instrs {
					if readsKey(in) {
						n := fnName(topFn(fn))
						if _, ok := users[n]; !ok {
							users[n] = in
						}
					}
				}
			}
		}
		for _, n := range iSortedKeys(users) {
			if reason, ok := allowed[n]; ok {
				c.Ok("R46.2", "use(masterDerivationKey|masterEncryptionKey)@"+n, c.Pos(users[n].Pos()), "allowed user ("+reason+")")
			} else {
				c.Bad("R46.2", "use(masterDerivationKey|masterEncryptionKey)@"+n, c.Pos(users[n].Pos()), n+" touches the wallet's in-memory master keys but is not in the reviewed table; new instance needs review")
			}
		}
	}
	{
		// exported methods that hand out secret key material must be gated
		privKey := c.Named("crypto.PrivateKey")
		mdkT := c.Named("crypto.MasterDerivationKey")
		for _, tspec := range []string{W, D} {
			nt := c.Named(tspec)
			for i := 0; i < nt.NumMethods(); i++ {
				m := nt.Method(i)
				if !m.Exported() {
					continue
				}
				res := m.Type().(*types.Signature).Results()
				secret := false
				for r := 0; r < res.Len(); r++ {
					if rn, ok := types.Unalias(res.At(r).Type()).(*types.Named); ok && (rn.Origin() == privKey || rn.Origin() == mdkT) {
						secret = true
					}
				}
				if !secret {
					continue
				}
				name := funcObjName(m)
				c.Check(tabled[name], "R46.2", "returns-secret:"+name, c.Pos(m.Pos()), "an exported method returning crypto.PrivateKey/MasterDerivationKey must be a password-gated operation of the R46.1 table")
			}
		}
	}

	// ================= R46.3 =================
	c46PasswordCheck(c)

	// ================= R46.4 =================
	c46Generate(c)
	iDumpObs(c)
}

func c46Uniq(xs []string) []string {
	var out []string
	for i, x := range xs {
		if i == 0 || xs[i-1] != x {
			out = append(out, x)
		}
	}
	return out
}

func c46PasswordCheck(c *Ctx) {
	W := c46Pkg + ".SQLiteWallet"
	cpFn := c.Fn(W + ".CheckPassword")
	decMK := c.Func(W + ".decryptAndGetMasterKey")
	decMDK := c.Func(W + ".decryptAndGetMasterDerivationKey")
	fastHash := c.Func(c46Pkg + ".fastHashWithSalt")
	fHash := c.Field(W + ".walletPasswordHash")
	fHashed := c.Field(W + ".walletPasswordHashed")
	fSalt := c.Field(W + ".walletPasswordSalt")
	fMDK := c.Field(W + ".masterDerivationKey")
	fMEK := c.Field(W + ".masterEncryptionKey")

	// --- CheckPassword ---
	if len(cpFn.Params) != 2 {
		c.Unk("R46.3", W+".CheckPassword", c.Pos(cpFn.Pos()), "unexpected signature")
	} else {
		sw, pw := cpFn.Params[0], cpFn.Params[1]
		isCTC := func(v ssa.Value) bool {
			call, ok := strip(v).(*ssa.Call)
			if !ok || !iCalleeIs(call.Common(), "crypto/subtle", "ConstantTimeCompare") {
				return false
			}
			a := call.Common().Args
			// one side: fastHashWithSalt(pw, salt); other side: stored hash
			side := func(x ssa.Value) (fresh, stored bool) {
				iWalk(x, 8, func(y ssa.Value) bool {
					if cl, ok := y.(*ssa.Call); ok && sameFunc(calleeOf(cl.Common()), fastHash) {
						if strip(cl.Common().Args[0]) == ssa.Value(pw) && Mentions(cl.Common().Args[1], fSalt, 4) {
							fresh = true
						}
						return false
					}
					if valueIs(y, fHash) {
						stored = true
					}
					return true
				})
				return
			}
			f0, s0 := side(a[0])
			f1, s1 := side(a[1])
			return f0 && s1 && !s0 || f1 && s0 && !s1
		}
		eq1 := GCmp("ConstantTimeCompare(fastHashWithSalt(pw,salt), walletPasswordHash) == 1", token.EQL, isCTC, IsConstInt(1))
		pass, n := PassEdges(cpFn, eq1)
		r := NewReach(cpFn, pass, nil)
		nNil, nDec, ok := 0, 0, true
		why := "CheckPassword returns nil only on the hash-match edge, otherwise the error of decryptAndGetMasterKey(pw) or errDecrypt"
		for _, ret := range iReturns(cpFn) {
			v := c46Resolve(ret.Results[0])
			switch {
			case IsNil(v):
				nNil++
				if n == 0 || r.Reaches(ret) {
					ok = false
					why = "`return nil` in CheckPassword is reachable without the password hash comparing equal"
				}
			case definitelyNonNil(v, ret.Block(), 0):
			default:
				call, isRes := asResultOf(v, 1, decMK)
				if !isRes || call.Common().Args[0] != ssa.Value(sw) || strip(call.Common().Args[1]) != ssa.Value(pw) {
					ok = false
					why = "CheckPassword returns a value that is neither nil-on-match, a sentinel error nor the error of decryptAndGetMasterKey(pw): " + describe(v)
				} else {
					nDec++
				}
			}
		}
		c.Check(ok && nNil+nDec > 0, "R46.3", W+".CheckPassword:nil<=hash match|decrypt ok", c.Pos(cpFn.Pos()), why)
	}

	// --- decryptAndGetMasterKey / decryptAndGetMasterDerivationKey ---
	decBlob := c.Func(c46Pkg + ".decryptBlobWithPassword")
	for _, spec := range []string{W + ".decryptAndGetMasterKey", W + ".decryptAndGetMasterDerivationKey"} {
		fn := c.Fn(spec)
		var dc *ssa.Call
		for _, ci := range CallsTo(fn, false, decBlob) {
			if call, ok := ci.(*ssa.Call); ok && len(fn.Params) == 2 && strip(call.Common().Args[2]) == ssa.Value(fn.Params[1]) {
				dc = call
			}
		}
		if dc == nil {
			c.Bad("R46.3", spec+":decryptBlobWithPassword(_,_,pw)", c.Pos(fn.Pos()), "the stored blob is not decrypted with the caller's password/key")
			continue
		}
		// returns with a non-nil key
		var keyRets []ssa.Instruction
		for _, r := range iReturns(fn) {
			if !IsNil(c46Resolve(r.Results[0])) {
				keyRets = append(keyRets, r)
			}
		}
		c.MustGuard(MustGuardSpec{Rule: "R46.3", Fn: fn, Effects: keyRets, EffName: "return(key)", Guards: []Guard{GErrNil("decryptBlobWithPassword err == nil", c46ErrOfCall(dc))}})
		okKey := len(keyRets) > 0
		for _, kr := range keyRets {
			v := c46Resolve(kr.(*ssa.Return).Results[0])
			if e, ok := v.(*ssa.Extract); !ok || e.Tuple != ssa.Value(dc) || e.Index != 0 {
				okKey = false
			}
		}
		c.Check(okKey, "R46.3", spec+":key=decryptBlobWithPassword result", c.Pos(fn.Pos()), "the key returned is the plaintext produced by that decryption")
	}

	// --- Init ---
	{
		fn := c.Fn(W + ".Init")
		fields := map[*types.Var]bool{fHash: true, fHashed: true, fMDK: true, fMEK: true}
		stores := StoresToField(fn, false, fields)
		var g []Guard
		var c1, c2 *ssa.Call
		if len(fn.Params) == 2 {
			for _, ci := range CallsTo(fn, false, decMK) {
				if call, ok := ci.(*ssa.Call); ok && strip(call.Common().Args[1]) == ssa.Value(fn.Params[1]) {
					c1 = call
				}
			}
			for _, ci := range CallsTo(fn, false, decMDK) {
				if call, ok := ci.(*ssa.Call); ok && c1 != nil {
					if e, isE := strip(call.Common().Args[1]).(*ssa.Extract); isE && e.Tuple == ssa.Value(c1) && e.Index == 0 {
						c2 = call
					}
				}
			}
		}
		if c1 == nil || c2 == nil {
			c.Bad("R46.3", W+".Init:decrypt chain", c.Pos(fn.Pos()), "Init no longer decrypts the master key with pw and the derivation key with that master key")
		} else {
			g = []Guard{GErrNil("decryptAndGetMasterKey(pw) err == nil", c46ErrOfCall(c1)), GErrNil("decryptAndGetMasterDerivationKey(mek) err == nil", c46ErrOfCall(c2))}
			c.MustGuard(MustGuardSpec{Rule: "R46.3", Fn: fn, Effects: stores, EffName: "store(keys,password hash)", Guards: g})
			okHash := false
			for _, s := range StoresToField(fn, false, map[*types.Var]bool{fHash: true}) {
				call, isRes := asResultOf(s.(*ssa.Store).Val, 0, fastHash)
				okHash = isRes && strip(call.Common().Args[0]) == ssa.Value(fn.Params[1]) && Mentions(call.Common().Args[1], fSalt, 4)
			}
			c.Check(okHash, "R46.3", W+".Init:walletPasswordHash=fastHashWithSalt(pw,salt)", c.Pos(fn.Pos()), "the remembered hash is computed from the password that just decrypted the wallet and the wallet's salt")
		}
		c.OwnerRule("R46.3", "write(walletPasswordHash|Hashed|Salt)", c.FieldWrites(map[*types.Var]bool{fHash: true, fHashed: true, fSalt: true}, ScanOpts{SkipGenerated: true}), map[string]string{
			W + ".Init": "after successful decryption",
		}, "addr", "elem")
	}
}

func c46Generate(c *Ctx) {
	W := c46Pkg + ".SQLiteWallet"
	spec := W + ".generateKeyTxLocked"
	fn := c.Fn(spec)
	extract := c.Func(c46Pkg + ".extractKeyWithIndex")
	fMDK := c.Field(W + ".masterDerivationKey")
	pk2addr := c.Func(c46Pkg + ".publicKeyToAddress")
	encBlob := c.Func(c46Pkg + ".encryptBlobWithKey")
	decBlob := c.Func(c46Pkg + ".decryptBlobWithPassword")
	encode := c.Func(c46Pkg + ".msgpackEncode")
	decode := c.Func(c46Pkg + ".msgpackDecode")

	isTxMethod := func(cc *ssa.CallCommon, name string) bool {
		f := calleeOf(cc)
		return f != nil && f.Pkg() != nil && f.Name() == name && (f.Pkg().Path() == "github.com/jmoiron/sqlx" || f.Pkg().Path() == "database/sql")
	}
	var execs []*ssa.Call
	for _, in := range Instrs(fn, func(in ssa.Instruction) bool {
		ci, ok := in.(*ssa.Call)
		return ok && isTxMethod(ci.Common(), "Exec")
	}) {
		execs = append(execs, in.(*ssa.Call))
	}
	exCalls := CallsTo(fn, false, extract)
	if len(exCalls) != 1 || len(execs) == 0 {
		c.Unk("R46.4", spec, c.Pos(fn.Pos()), "expected one extractKeyWithIndex call and at least one tx.Exec, found "+itoa(len(exCalls))+" / "+itoa(len(execs)))
		return
	}
	ex := exCalls[0].(*ssa.Call)
	idxVal := ex.Common().Args[1] // nextIndex at the time of derivation
	c.Check(Mentions(ex.Common().Args[0], fMDK, 4) && !Mentions(ex.Common().Args[0], extract, 4), "R46.4", spec+":extractKeyWithIndex(sw.masterDerivationKey,nextIndex)", c.Pos(ex.Pos()), "the candidate key is derived from the wallet's master derivation key")

	// the COUNT for the candidate address and the `cnt == 0` gate
	var cntAlloc *ssa.Alloc
	var getCall *ssa.Call
	genAddrOK := func(v ssa.Value) bool {
		// v derives from publicKeyToAddress(pk of ex)
		found := false
		iWalk(v, 10, func(x ssa.Value) bool {
			if cl, ok := x.(*ssa.Call); ok && sameFunc(calleeOf(cl.Common()), pk2addr) {
				if e, isE := c46Resolve(cl.Common().Args[0]).(*ssa.Extract); isE && e.Tuple == ssa.Value(ex) && e.Index == 0 {
					found = true
				}
			}
			return true
		})
		return found
	}
	varargHas := func(call *ssa.Call, from int, pred func(ssa.Value) bool) bool {
		// variadic ...any arguments are stored into a fresh array: the predicates walk with iWalk, which follows those stores
		for _, a := range call.Common().Args[from:] {
			if pred(a) {
				return true
			}
		}
		return false
	}
	for _, in := range Instrs(fn, func(in ssa.Instruction) bool {
		ci, ok := in.(*ssa.Call)
		return ok && isTxMethod(ci.Common(), "Get")
	}) {
		call := in.(*ssa.Call)
		if !Dominates(ex, call) {
			continue
		}
		// dest is &cnt (an int local)
		var dest *ssa.Alloc
		walkDef(call.Common().Args[1], 3, func(x ssa.Value) bool {
			if al, ok := x.(*ssa.Alloc); ok {
				if pt, isP := al.Type().Underlying().(*types.Pointer); isP {
					if bt, isB := pt.Elem().Underlying().(*types.Basic); isB && bt.Info()&types.IsInteger != 0 {
						dest = al
					}
				}
			}
			return true
		})
		if dest != nil && varargHas(call, 3, genAddrOK) {
			cntAlloc, getCall = dest, call
		}
	}
	if cntAlloc == nil {
		c.Bad("R46.4", spec+":COUNT(candidate address)", c.Pos(fn.Pos()), "no tx.Get(&cnt, …, genAddr) on the candidate's address after deriving it: imported keys are not looked up")
		return
	}
	isCnt := func(v ssa.Value) bool {
		u, ok := v.(*ssa.UnOp)
		return ok && u.Op == token.MUL && u.X == ssa.Value(cntAlloc)
	}
	var effects []ssa.Instruction
	for _, e := range execs {
		effects = append(effects, e)
	}
	free := GCmp("cnt == 0", token.EQL, isCnt, IsConstInt(0))
	c.MustGuard(MustGuardSpec{Rule: "R46.4", Fn: fn, Effects: effects, EffName: "tx.Exec(INSERT key / UPDATE max index)",
		Guards: []Guard{free, GErrNil("tx.Get(COUNT) err == nil", c46ErrOfCall(getCall))}})

	// the occupied edge advances nextIndex by exactly one and re-derives
	{
		ok := false
		why := "when the candidate address already exists the loop continues with nextIndex+1"
		phi, isPhi := idxVal.(*ssa.Phi)
		if isPhi {
			for _, e := range phi.Edges {
				if bo, isBo := e.(*ssa.BinOp); isBo && bo.Op == token.ADD && bo.X == ssa.Value(phi) && IsConstInt(1)(bo.Y) {
					ok = true
				}
			}
		}
		pass, n := PassEdges(fn, free)
		if ok && n > 0 {
			// after the derivation, deriving again is possible only through the occupied edge
			if !iReachableAfter(ex, nil, nil).Reaches(ex) {
				ok, why = false, "the derivation is no longer in a loop: an imported key at the next index makes generation fail instead of being skipped"
			} else if iReachableAfter(ex, func() []Edge {
				var occ []Edge
				for _, e := range pass {
					occ = append(occ, Edge{e.From, 1 - e.Idx})
				}
				return occ
			}(), nil).Reaches(ex) {
				ok, why = false, "the derivation loop repeats on an edge other than `cnt != 0`"
			}
		} else if ok {
			ok = false
		}
		if !isPhi {
			why = "nextIndex is not a loop variable advanced by one"
		}
		c.Check(ok, "R46.4", spec+":occupied=>nextIndex+1", c.Pos(ex.Pos()), why)
		// initial value: decrypted stored maximum + 1
		okInit := false
		if isPhi {
			for _, e := range phi.Edges {
				bo, isBo := e.(*ssa.BinOp)
				if !isBo || bo.Op != token.ADD || bo.X == ssa.Value(phi) || !IsConstInt(1)(bo.Y) {
					continue
				}
				// bo.X is a load of the local decoded by msgpackDecode(decryptBlobWithPassword(...), &highestIndex)
				u, isU := bo.X.(*ssa.UnOp)
				if !isU || u.Op != token.MUL {
					continue
				}
				al, isAl := u.X.(*ssa.Alloc)
				if !isAl {
					continue
				}
				for _, r := range iRefs(al) {
					walk := func(call *ssa.Call) {
						if sameFunc(calleeOf(call.Common()), decode) && Mentions(call.Common().Args[0], decBlob, 6) {
							okInit = true
						}
					}
					if mi, isMI := r.(*ssa.MakeInterface); isMI {
						for _, rr := range iRefs(mi) {
							if call, isC := rr.(*ssa.Call); isC {
								walk(call)
							}
						}
					}
					if call, isC := r.(*ssa.Call); isC {
						walk(call)
					}
				}
			}
		}
		c.Check(okInit, "R46.4", spec+":nextIndex0=decrypt(max_key_idx)+1", c.Pos(fn.Pos()), "generation resumes one past the stored, decrypted highest index")
	}

	// what is written: address/secret/index of the candidate, and the new maximum = nextIndex
	{
		skOK := func(v ssa.Value) bool {
			found := false
			iWalk(v, 10, func(x ssa.Value) bool {
				if cl, ok := x.(*ssa.Call); ok && sameFunc(calleeOf(cl.Common()), encBlob) {
					iWalk(cl.Common().Args[0], 6, func(y ssa.Value) bool {
						if e, isE := c46Resolve(y).(*ssa.Extract); isE && e.Tuple == ssa.Value(ex) && e.Index == 1 {
							found = true
						}
						return true
					})
				}
				return true
			})
			return found
		}
		isIdx := func(v ssa.Value) bool { return strip(v) == strip(idxVal) }
		hasIdx := func(v ssa.Value) bool {
			// the index itself (boxed into the variadic array), not something computed from it
			found := false
			iWalk(v, 5, func(x ssa.Value) bool {
				switch x.(type) {
				case *ssa.Slice, *ssa.Alloc, *ssa.MakeInterface, *ssa.Convert, *ssa.ChangeType:
					return true
				}
				if isIdx(x) {
					found = true
				}
				return false
			})
			return found
		}
		idxBlobOK := func(v ssa.Value) bool {
			found := false
			iWalk(v, 10, func(x ssa.Value) bool {
				if cl, ok := x.(*ssa.Call); ok && sameFunc(calleeOf(cl.Common()), encBlob) {
					iWalk(cl.Common().Args[0], 6, func(y ssa.Value) bool {
						if en, isC := y.(*ssa.Call); isC && sameFunc(calleeOf(en.Common()), encode) && isIdx(en.Common().Args[0]) {
							found = true
						}
						return true
					})
				}
				return true
			})
			return found
		}
		nIns, nUpd := 0, 0
		for _, e := range execs {
			switch {
			case varargHas(e, 2, genAddrOK):
				nIns++
				ok := varargHas(e, 2, skOK) && varargHas(e, 2, hasIdx)
				c.Check(ok, "R46.4", spec+":INSERT(addr,sk,idx) of one candidate", c.Pos(e.Pos()), "the inserted address, encrypted secret key and key_idx all belong to the candidate derived at nextIndex")
			case varargHas(e, 2, idxBlobOK):
				nUpd++
				c.Ok("R46.4", spec+":UPDATE max index=encrypt(nextIndex)", c.Pos(e.Pos()), "the stored maximum becomes the index just used")
			default:
				c.Bad("R46.4", spec+":tx.Exec(unrecognised)", c.Pos(e.Pos()), "a database write in generateKeyTxLocked stores neither the candidate key nor encrypt(nextIndex)")
			}
		}
		if nIns != 1 || nUpd != 1 {
			c.Bad("R46.4", spec+":one INSERT and one UPDATE", c.Pos(fn.Pos()), "expected exactly one insert of the candidate and one update of the maximum index, found "+itoa(nIns)+" / "+itoa(nUpd))
		}
		// the function's address result is the candidate's address on success
		okRet := true
		nOK := 0
		for _, r := range iReturns(fn) {
			idx := errResultIndex(fn)
			if !IsNil(c46Resolve(r.Results[idx])) {
				continue
			}
			nOK++
			if !genAddrOK(r.Results[0]) {
				okRet = false
			}
		}
		c.Check(okRet && nOK > 0, "R46.4", spec+":returns candidate address", c.Pos(fn.Pos()), "the explicit success return yields the address that was inserted")
	}

	// extractKeyWithIndex is a function of (derivationKey, index) only
	{
		efn := c.Fn(c46Pkg + ".extractKeyWithIndex")
		ok := len(efn.Params) == 2
		why := "HKDF is expanded from exactly (derivationKey, info(index)); no randomness or clock source is called"
		nExpand := 0
		for _, f := range withAnon(efn) {
			for _, b := range f.Blocks {
				for _, in := range b.Instrs {
					ci, isC := in.(ssa.CallInstruction)
					if !isC {
						continue
					}
					cal := calleeOf(ci.Common())
					if cal == nil || cal.Pkg() == nil {
						continue
					}
					switch p := cal.Pkg().Path(); {
					case p == "crypto/rand" || p == "math/rand" || p == "math/rand/v2" || p == "time" || p == "os":
						ok, why = false, "extractKeyWithIndex calls "+p+"."+cal.Name()+": derived keys are no longer a function of (master derivation key, index)"
					case sameFunc(cal, c.Func(c46Pkg+".fillRandomBytes")):
						ok, why = false, "extractKeyWithIndex calls fillRandomBytes"
					case p == "golang.org/x/crypto/hkdf" && cal.Name() == "Expand":
						nExpand++
						a := ci.Common().Args
						if len(a) != 3 || strip(a[1]) != ssa.Value(efn.Params[0]) || !iMentions(a[2], efn.Params[1].Object(), 8) {
							ok, why = false, "hkdf.Expand is not keyed by (derivationKey, info(index))"
						}
					}
				}
			}
		}
		c.Check(ok && nExpand == 1, "R46.4", c46Pkg+".extractKeyWithIndex:deterministic(derivationKey,index)", c.Pos(efn.Pos()), why)
	}
}
