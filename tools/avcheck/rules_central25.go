package main

import "strings"

// borrowRules runs another property's rule function on a private context and
// re-records, under a rule id of the borrowing property, the obligations that
// pick selects. One obligation can be a necessary condition of two properties;
// it is decided once, by the same code, and reported under both.
func borrowRules(c *Ctx, run func(*Ctx), pick func(Obligation) (rule string, keep bool)) int {
	sub := &Ctx{Program: c.Program, Prop: c.Prop, Thorough: c.Thorough, seenKey: map[string]bool{}, fnSeen: map[string]bool{}}
	run(sub)
	n := 0
	for _, o := range sub.obs {
		rule, keep := pick(o)
		if !keep {
			continue
		}
		n++
		c.add(rule, o.Construct, o.Verdict, o.Pos, o.Detail)
	}
	for f := range sub.fnSeen {
		c.NoteFn(f)
	}
	return n
}

// R29.7 (after seed C29-2): "a block is accepted only if its transactions match
// the header's commitment" also has to hold where catchup writes blocks it did
// not evaluate. The obligation is C30's R30.1/R30.3 clause on
// ContentsMatchHeader, reported under C29 as well.
func init() {
	extend("C29", Extension{
		Run: func(c *Ctx) {
			n := borrowRules(c, runC30, func(o Obligation) (string, bool) {
				return "R29.7", (o.Rule == "R30.1" || o.Rule == "R30.3") && strings.Contains(o.Construct, "ContentsMatchHeader()")
			})
			if n == 0 {
				c.Unk("R29.7", "catchup:ledger writes<=block.ContentsMatchHeader()", "-", "the catchup rules produced no obligation on ContentsMatchHeader")
			}
		},
		Explanation: "R29.7 (catchup stores a block only after comparing its transactions with the header's commitment): in catchup.Service.fetchAndWrite every Ledger.AddBlock/AddValidatedBlock call, and in fetchRound the EnsureBlock call, is unreachable from the innerFetch call that produced the block unless Block.ContentsMatchHeader() of THAT fetched block was true on this attempt — only bypass: s.cfg.CatchupVerifyPaysetHash()==false. A result remembered from an earlier attempt does not count: the block hash covers only the header, so a later fetch with the same hash can carry other transactions. (Same obligations as C30 R30.1/R30.3, decided by the same code.)",
		Floor:       map[string]int{"R29.7": 3},
		Patterns:    []string{"./catchup"},
	})
}
