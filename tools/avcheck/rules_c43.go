package main

import (
	"go/ast"
	"go/constant"
	"go/token"
	"go/types"
	"sort"

	"golang.org/x/tools/go/ssa"
)

func init() {
	register(&Prop{
		ID:       "C43",
		Patterns: []string{"./network", "./protocol"},
		Run:      runC43,
		Explanation: "Decides the guard/ownership chain that bounds and de-duplicates incoming gossip in the code's shape. " +
			"R43.1 wsPeer.readLoop: every LimitedReaderSlurper.Read is preceded on every path (from entry and from the previous Read) by Reset(msg.Tag.MaxMessageSize()) on the same slurper, msg.Tag being the two bytes just read with io.ReadFull from the same reader; the hand-off `wp.readBuffer <- msg` is reachable only when slurper.Read returned nil and only through a true `msg.Tag == <known tag constant>` edge (the default case drops); msg.Data is only slurper.Bytes() or the result of msgCodec.decompress. " +
			"R43.2 protocol.Tag.MaxMessageSize returns a non-zero constant for every tag of protocol.TagList and for every tag constant readLoop compares msg.Tag with. " +
			"R43.3 LimitedReaderSlurper: in Read every store into s.buffers[..] is reachable only past the failing side of `currentMessageBytesRead > currentMessageMaxSize` (bypass: currentMessageMaxSize == 0, which R43.2 reserves for unknown tags), the counter is increased by the n of that very reader.Read before the test, allocateNextBuffer is called only when remainedUnallocatedSpace != 0, allocates min(step, remaining) and subtracts what it allocated; Reset stores its argument into currentMessageMaxSize and zero into currentMessageBytesRead; these fields have no other writers. " +
			"R43.4 the io.Reader returned by conn.NextReader is obtained only in readLoop and consumed only by io.ReadFull into a fixed-size local array, by the slurper, or by io.Copy(io.Discard, …). " +
			"R43.5 the hand-off is reachable only past CheckIncomingMessage(msg.Tag, msg.Data, add=true, …)==false, bypassed only by len(msg.Data)==0, a nil filter or dedupSafeTag(msg.Tag)==false; CheckIncomingMessage returns CheckDigest(digest, add, promote) on the same filter; CheckDigest returns find()'s answer and, when add && !has, inserts the digest before returning; every wsPeer literal of package network (WebsocketNetwork's two and P2PNetwork's stream peer) passes the incoming filter field of the network type that builds it — a network type that builds peers but has no filter field is a violation — the network-level filters are assigned only in setup and in NewHybridP2PNetwork, which gives both halves of a hybrid node the same filter instance. " +
			"R43.6 zstd proposal decompression: MaxDecompressedMessageSize equals the PP tag limit and the read loop of zstdProposalDecompressor.convert continues only past len(b) <= MaxDecompressedMessageSize. " +
			"Does NOT decide: the filter's retention window or bucket rotation, de-duplication for P2PNetwork stream peers (they are built without a filter), which bytes the digest covers (hash collisions, over-eager dropping of distinct messages), the total allocation cap of the slurper, the websocket library's own frame limit, vpack vote decompression bounds, or numeric adequacy of the per-tag constants.",
		Assumptions: []string{
			"io.ReadFull, io.Copy and io.LimitReader behave as documented",
			"the zstd reader returns io.EOF only together with n == 0 (github.com/DataDog/zstd v1.5.7 does)",
		},
		Floor: map[string]int{"R43.1": 7, "R43.2": 20, "R43.3": 13, "R43.4": 4, "R43.5": 11, "R43.6": 2},
	})
}

// c43TagCmp recognises `x == K` / `x != K` where x satisfies isTag and K is a
// constant of type protocol.Tag; it returns the constant's string value.
func c43TagCmp(cond ssa.Value, isTag VM, tagType types.Type) (val string, eq bool, ok bool) {
	bo, isBo := cond.(*ssa.BinOp)
	if !isBo || (bo.Op != token.EQL && bo.Op != token.NEQ) {
		return "", false, false
	}
	for _, p := range [][2]ssa.Value{{bo.X, bo.Y}, {bo.Y, bo.X}} {
		k, isK := p[1].(*ssa.Const)
		if !isK || k.Value == nil || k.Value.Kind() != constant.String || !types.Identical(k.Type(), tagType) {
			continue
		}
		if isTag(p[0]) {
			return constant.StringVal(k.Value), bo.Op == token.EQL, true
		}
	}
	return "", false, false
}

func runC43(c *Ctx) {
	readLoop := c.Fn("network.wsPeer.readLoop")
	rl := "network.wsPeer.readLoop"
	nextReader := c.Func("network.wsPeerWebsocketConn.NextReader")
	slRead := c.Func("network.LimitedReaderSlurper.Read")
	slReset := c.Func("network.LimitedReaderSlurper.Reset")
	slBytes := c.Func("network.LimitedReaderSlurper.Bytes")
	maxSize := c.Func("protocol.Tag.MaxMessageSize")
	decompress := c.Func("network.wsPeerMsgCodec.decompress")
	fTag := c.Field("network.IncomingMessage.Tag")
	fData := c.Field("network.IncomingMessage.Data")
	fReadBuffer := c.Field("network.wsPeerCore.readBuffer")
	tagType := c.Named("protocol.Tag")

	sends := chanSends(readLoop, M(fReadBuffer))
	isMsgTag := func(v ssa.Value) bool { return Mentions(v, fTag, 3) }

	// ================= R43.1 =================
	reads := CallsTo(readLoop, true, slRead)
	if len(reads) == 0 {
		c.Unk("R43.1", rl+":slurper.Read", c.Pos(readLoop.Pos()), "no call of LimitedReaderSlurper.Read in readLoop")
	}
	for _, rc := range reads {
		args := rc.Common().Args // slurper, reader
		site := rl + ":slurper.Read"
		if rc.Parent() != readLoop || len(args) != 2 {
			c.Unk("R43.1", site, c.Pos(rc.Pos()), "slurper.Read inside a function literal or of unexpected shape")
			continue
		}
		isReset := func(in ssa.Instruction) bool {
			ci, ok := in.(*ssa.Call)
			return ok && sameFunc(calleeOf(ci.Common()), slReset) && ci.Common().Args[0] == args[0]
		}
		var resets []*ssa.Call
		for _, in := range Instrs(readLoop, isReset) {
			resets = append(resets, in.(*ssa.Call))
		}
		// (a) every path to the Read, from entry and from the previous Read, passes a Reset of this slurper
		fromEntry := NewReach(readLoop, nil, isReset)
		again := iReachableAfter(rc, nil, isReset)
		okA := len(resets) > 0 && !fromEntry.Reaches(rc) && !again.Reaches(rc)
		detail := "every path to slurper.Read (from entry and from the previous Read) passes slurper.Reset"
		if !okA {
			detail = "slurper.Read is reachable without a fresh slurper.Reset (the size limit of an earlier message, or none, would apply)"
			if fromEntry.Reaches(rc) {
				detail += "; path (lines): " + fromEntry.PathTo(c.Program, rc)
			}
		}
		c.Check(okA, "R43.1", site+"<=Reset", c.Pos(rc.Pos()), detail)

		// (b) every such Reset carries MaxMessageSize of the tag just read from the same reader
		for _, rs := range resets {
			rsite := rl + ":slurper.Reset(limit)"
			lim, isCall := strip(rs.Common().Args[1]).(*ssa.Call)
			if !isCall || !sameFunc(calleeOf(lim.Common()), maxSize) {
				c.Bad("R43.1", rsite, c.Pos(rs.Pos()), "the limit given to slurper.Reset is not Tag.MaxMessageSize() of the tag: "+describe(rs.Common().Args[1]))
				continue
			}
			c.Ok("R43.1", rsite, c.Pos(rs.Pos()), "slurper.Reset(<tag>.MaxMessageSize())")
			// the tag asked: either a load of msg.Tag (then the assignment feeding it) or a value built directly from the bytes read
			tsite := rl + ":limit-tag<=io.ReadFull(reader)"
			tagVal := strip(lim.Common().Args[0])
			var at ssa.Instruction = rs
			okT := true
			why := ""
			if tagLoad, isLoad := tagVal.(*ssa.UnOp); isLoad && tagLoad.Op == token.MUL {
				fa, _ := tagLoad.X.(*ssa.FieldAddr)
				if fa == nil || structField(fa.X.Type(), fa.Field) != fTag {
					okT, why = false, "MaxMessageSize is asked of something that is neither msg.Tag nor the bytes just read: "+describe(tagVal)
				} else {
					msgVal := fa.X
					var tagStores []*ssa.Store
					for _, in := range Instrs(readLoop, func(in ssa.Instruction) bool {
						st, ok := in.(*ssa.Store)
						if !ok {
							return false
						}
						a, ok := st.Addr.(*ssa.FieldAddr)
						return ok && a.X == msgVal && structField(a.X.Type(), a.Field) == fTag
					}) {
						tagStores = append(tagStores, in.(*ssa.Store))
					}
					var feeding *ssa.Store
					for _, st := range tagStores {
						if Dominates(st, rs) {
							feeding = st
						}
					}
					if feeding == nil {
						okT, why = false, "no assignment of msg.Tag dominates slurper.Reset"
					} else {
						tagVal, at = feeding.Val, feeding
						// no other assignment of msg.Tag between the feeding one and the Reset
						after := iReachableAfter(feeding, nil, func(in ssa.Instruction) bool { return in == ssa.Instruction(rs) })
						for _, st := range tagStores {
							if st != feeding && after.Reaches(st) {
								okT, why = false, "msg.Tag is reassigned between the tag read and slurper.Reset"
							}
						}
					}
				}
			}
			if okT {
				// the value is built from a local array filled by io.ReadFull(reader, arr[:]) on the reader given to slurper.Read
				var arr *ssa.Alloc
				walkDef(tagVal, 6, func(x ssa.Value) bool {
					if sl, ok := x.(*ssa.Slice); ok {
						if a, ok := sl.X.(*ssa.Alloc); ok {
							arr = a
						}
					}
					return true
				})
				found := false
				if arr != nil {
					for _, in := range Instrs(readLoop, func(in ssa.Instruction) bool {
						ci, ok := in.(*ssa.Call)
						return ok && iCalleeIs(ci.Common(), "io", "ReadFull")
					}) {
						ci := in.(*ssa.Call)
						sl, isSl := ci.Common().Args[1].(*ssa.Slice)
						if isSl && sl.X == ssa.Value(arr) && ci.Common().Args[0] == args[1] && Dominates(ci, at) {
							found = true
						}
					}
				}
				if !found {
					okT, why = false, "the tag whose limit is installed is not the bytes read by io.ReadFull from the reader that slurper.Read consumes"
				}
			}
			if okT {
				why = "the tag whose limit is installed is exactly the bytes read by io.ReadFull from the reader that slurper.Read consumes"
			}
			c.Check(okT, "R43.1", tsite, c.Pos(rs.Pos()), why)
		}

		// (c) reader comes from conn.NextReader
		nr, isNR := asResultOf(args[1], 1, nextReader)
		c.Check(isNR, "R43.1", site+":reader=conn.NextReader()", c.Pos(rc.Pos()), "the slurped reader is the one returned by wp.conn.NextReader()")
		_ = nr

	}

	// (e) hand-off only when slurper.Read returned nil, and only for a known tag
	knownTag := Guard{Name: "msg.Tag == <known tag>", Match: func(cond ssa.Value) (bool, bool) {
		_, eq, ok := c43TagCmp(cond, isMsgTag, tagType)
		return ok, eq
	}}
	c.MustGuard(MustGuardSpec{Rule: "R43.1", Fn: readLoop, Effects: sends, EffName: "send(wp.readBuffer)",
		Guards: []Guard{GErrNil("slurper.Read err==nil", ResultOf(0, slRead)), knownTag}})

	// (f) provenance of msg.Data
	{
		stores := StoresToField(readLoop, false, map[*types.Var]bool{fData: true})
		ok := len(stores) > 0
		bad := ""
		for _, s := range stores {
			v := s.(*ssa.Store).Val
			if _, isB := asResultOf(v, 0, slBytes); isB {
				continue
			}
			if _, isD := asResultOf(v, 0, decompress); isD {
				continue
			}
			ok = false
			bad = describe(v) + " at " + c.Pos(s.Pos())
		}
		d := "msg.Data is assigned only slurper.Bytes() or msgCodec.decompress(...)"
		if !ok {
			d = "msg.Data is assigned from another source: " + bad
		}
		c.Check(ok, "R43.1", rl+":msg.Data<=slurper.Bytes()|decompress", c.Pos(readLoop.Pos()), d)
	}

	// ================= R43.2 =================
	limits := c43Limits(c, "protocol.Tag.MaxMessageSize")
	{
		// tags of protocol.TagList
		tagListObj := c.Obj("protocol.TagList")
		pk := c.Pkg("protocol")
		var elts []ast.Expr
		for _, f := range pk.Syntax {
			ast.Inspect(f, func(n ast.Node) bool {
				vs, ok := n.(*ast.ValueSpec)
				if !ok {
					return true
				}
				for i, nm := range vs.Names {
					if pk.TypesInfo.Defs[nm] == tagListObj && i < len(vs.Values) {
						if cl, ok := ast.Unparen(vs.Values[i]).(*ast.CompositeLit); ok {
							elts = cl.Elts
						}
					}
				}
				return true
			})
		}
		if len(elts) == 0 {
			c.Unk("R43.2", "protocol.TagList", c.Pos(tagListObj.Pos()), "protocol.TagList is no longer a composite literal the rule can enumerate")
		}
		for _, e := range elts {
			tv, ok := pk.TypesInfo.Types[e]
			name := types.ExprString(e)
			if id, isID := ast.Unparen(e).(*ast.Ident); isID {
				if k, isK := pk.TypesInfo.Uses[id].(*types.Const); isK {
					name = "protocol." + k.Name()
				}
			}
			if !ok || tv.Value == nil || tv.Value.Kind() != constant.String {
				c.Unk("R43.2", "protocol.Tag.MaxMessageSize:case("+name+")", c.Pos(e.Pos()), "TagList element is not a constant")
				continue
			}
			c43CheckLimit(c, limits, constant.StringVal(tv.Value), name, "member of protocol.TagList", c.Pos(e.Pos()))
		}
		// tags readLoop compares msg.Tag with
		seen := map[string]bool{}
		var vals []string
		for _, b := range readLoop.Blocks {
			if iff := iBlockIf(b); iff != nil {
				cond, _ := condOf(iff.Cond)
				if v, _, ok := c43TagCmp(cond, isMsgTag, tagType); ok && !seen[v] {
					seen[v] = true
					vals = append(vals, v)
				}
			}
		}
		sort.Strings(vals)
		for _, v := range vals {
			c43CheckLimit(c, limits, v, "tag \""+v+"\"", "compared with msg.Tag in wsPeer.readLoop", c.Pos(readLoop.Pos()))
		}
	}

	// ================= R43.3 =================
	c43Slurper(c)

	// ================= R43.4 =================
	{
		only := []string{"network/..."}
		if c.Thorough {
			only = nil
		}
		c.OwnerRule("R43.4", "call(conn.NextReader)", c.Uses([]*types.Func{nextReader}, ScanOpts{SkipGenerated: true, OnlyPkgs: only}), map[string]string{
			rl: "the peer's only read loop",
		})
		for _, nrc := range CallsTo(readLoop, true, nextReader) {
			call, ok := nrc.(*ssa.Call)
			if !ok {
				c.Unk("R43.4", rl+":reader-uses", c.Pos(nrc.Pos()), "NextReader called with go/defer")
				continue
			}
			n := 0
			for _, r := range iRefs(call) {
				ex, isEx := r.(*ssa.Extract)
				if !isEx || ex.Index != 1 {
					continue
				}
				for _, u := range iRefs(ex) {
					n++
					ci, isCall := u.(*ssa.Call)
					switch {
					case isCall && sameFunc(calleeOf(ci.Common()), slRead) && ci.Common().Args[1] == ssa.Value(ex):
						c.Ok("R43.4", rl+":reader->slurper.Read", c.Pos(u.Pos()), "bounded by the slurper")
					case isCall && iCalleeIs(ci.Common(), "io", "ReadFull") && ci.Common().Args[0] == ssa.Value(ex):
						sl, isSl := ci.Common().Args[1].(*ssa.Slice)
						okArr := false
						if isSl {
							if a, isA := sl.X.(*ssa.Alloc); isA {
								if pt, isP := a.Type().Underlying().(*types.Pointer); isP {
									_, okArr = pt.Elem().Underlying().(*types.Array)
								}
							}
						}
						c.Check(okArr, "R43.4", rl+":reader->io.ReadFull(fixed array)", c.Pos(u.Pos()), "io.ReadFull reads into a fixed-size local array")
					case isCall && iCalleeIs(ci.Common(), "io", "Copy") && ci.Common().Args[1] == ssa.Value(ex):
						c.Check(iLoadsGlobal(ci.Common().Args[0], "io", "Discard"), "R43.4", rl+":reader->io.Copy(io.Discard)", c.Pos(u.Pos()), "the only unbounded consumer of the reader discards what it reads")
					default:
						c.Bad("R43.4", rl+":reader->other", c.Pos(u.Pos()), "the reader returned by conn.NextReader is consumed by something other than the slurper, io.ReadFull into a fixed array or io.Copy(io.Discard): "+u.String())
					}
				}
			}
			if n == 0 {
				c.Unk("R43.4", rl+":reader-uses", c.Pos(call.Pos()), "the reader result of NextReader has no use the rule can see")
			}
		}
	}

	// ================= R43.5 =================
	c43Dedup(c, readLoop, sends, fTag, fData)

	// ================= R43.6 =================
	c43Decompress(c)
	iDumpObs(c)
}

// c43Limits extracts tag -> returned constant from Tag.MaxMessageSize: every
// branch `tag == K` whose true edge leads (through jumps) to `return <const>`.
type c43Limit struct {
	val   uint64
	known bool // the return value is a constant
}

func c43Limits(c *Ctx, spec string) map[string]c43Limit {
	fn := c.Fn(spec)
	out := map[string]c43Limit{}
	if len(fn.Params) != 1 {
		c.Unk("R43.2", spec, c.Pos(fn.Pos()), "unexpected signature")
		return out
	}
	isRecv := func(v ssa.Value) bool { return strip(v) == ssa.Value(fn.Params[0]) }
	for _, b := range fn.Blocks {
		iff := iBlockIf(b)
		if iff == nil {
			continue
		}
		cond, neg := condOf(iff.Cond)
		v, eq, ok := c43TagCmp(cond, isRecv, fn.Params[0].Type())
		if !ok {
			continue
		}
		succ := b.Succs[0]
		if eq == neg {
			succ = b.Succs[1]
		}
		// follow unconditional jumps
		for hops := 0; hops < 4; hops++ {
			if len(succ.Instrs) == 1 {
				if _, isJ := succ.Instrs[0].(*ssa.Jump); isJ {
					succ = succ.Succs[0]
					continue
				}
			}
			break
		}
		lim := c43Limit{}
		if ret, isRet := succ.Instrs[len(succ.Instrs)-1].(*ssa.Return); isRet && len(ret.Results) == 1 {
			if n, isK := iConstU64(ret.Results[0]); isK {
				lim = c43Limit{n, true}
			}
		}
		if old, dup := out[v]; dup && old != lim {
			lim = c43Limit{}
		}
		out[v] = lim
	}
	return out
}

func c43CheckLimit(c *Ctx, limits map[string]c43Limit, tag, name, why, pos string) {
	construct := "protocol.Tag.MaxMessageSize:case(" + name + ")"
	l, ok := limits[tag]
	switch {
	case !ok:
		c.Bad("R43.2", construct, pos, "tag \""+tag+"\" ("+why+") has no case in Tag.MaxMessageSize: it falls to the default, whose 0 disables the slurper's per-message limit")
	case !l.known:
		c.Unk("R43.2", construct, pos, "the case for tag \""+tag+"\" does not return a constant")
	case l.val == 0:
		c.Bad("R43.2", construct, pos, "the case for tag \""+tag+"\" ("+why+") returns 0, which disables the slurper's per-message limit")
	default:
		c.Ok("R43.2", construct, pos, why+"; limit "+itoa(int(l.val)))
	}
}

// c43Slurper checks LimitedReaderSlurper (R43.3).
func c43Slurper(c *Ctx) {
	T := "network.LimitedReaderSlurper"
	read := c.Fn(T + ".Read")
	reset := c.Fn(T + ".Reset")
	alloc := c.Fn(T + ".allocateNextBuffer")
	allocF := c.Func(T + ".allocateNextBuffer")
	fRemain := c.Field(T + ".remainedUnallocatedSpace")
	fRead := c.Field(T + ".currentMessageBytesRead")
	fMax := c.Field(T + ".currentMessageMaxSize")
	fBuffers := c.Field(T + ".buffers")

	// stores into s.buffers[i]
	bufStores := Instrs(read, func(in ssa.Instruction) bool {
		st, ok := in.(*ssa.Store)
		if !ok {
			return false
		}
		ia, ok := st.Addr.(*ssa.IndexAddr)
		return ok && Mentions(ia.X, fBuffers, 3)
	})
	tooLarge := GCmp("currentMessageBytesRead <= currentMessageMaxSize", token.LEQ, M(fRead), M(fMax))
	noLimit := GAnyOf("currentMessageMaxSize == 0 (no limit set)", GCmp("max<=0", token.LEQ, M(fMax), IsConstInt(0)), GCmp("max==0", token.EQL, M(fMax), IsConstInt(0)))
	c.MustGuard(MustGuardSpec{Rule: "R43.3", Fn: read, Effects: bufStores, EffName: "store(s.buffers[i])", Guards: []Guard{tooLarge}, Bypass: []Guard{noLimit}})

	// the counter is increased by the n of the reader.Read that filled the buffer, before the test
	{
		site := T + ".Read:currentMessageBytesRead+=n"
		var incr *ssa.Store
		var srcRead *ssa.Call
		for _, in := range StoresToField(read, false, map[*types.Var]bool{fRead: true}) {
			st := in.(*ssa.Store)
			bo, ok := st.Val.(*ssa.BinOp)
			if !ok || bo.Op != token.ADD {
				continue
			}
			for _, p := range [][2]ssa.Value{{bo.X, bo.Y}, {bo.Y, bo.X}} {
				if !Mentions(p[0], fRead, 2) {
					continue
				}
				if ex, ok := strip(p[1]).(*ssa.Extract); ok && ex.Index == 0 {
					if call, ok := ex.Tuple.(*ssa.Call); ok && call.Common().IsInvoke() && call.Common().Method.Name() == "Read" && len(read.Params) == 2 && call.Common().Value == ssa.Value(read.Params[1]) {
						incr, srcRead = st, call
					}
				}
			}
		}
		ok := incr != nil
		detail := "s.currentMessageBytesRead += uint64(n) with n the result of reader.Read into the slurper's buffer, before the size test"
		if ok {
			// the read fills the slurper's own buffer
			if !Mentions(srcRead.Common().Args[0], fBuffers, 8) {
				ok = false
				detail = "the counted reader.Read does not read into s.buffers"
			}
			// the increment dominates every size test and every buffer store
			edges, _ := PassEdges(read, tooLarge)
			for _, e := range edges {
				if !Dominates(incr, e.From.Instrs[len(e.From.Instrs)-1]) {
					ok = false
					detail = "the counter increment does not dominate the size test"
				}
			}
			for _, bs := range bufStores {
				if !Dominates(srcRead, bs) {
					ok = false
					detail = "a store into s.buffers is not dominated by the counted reader.Read"
				}
			}
		} else {
			detail = "no `s.currentMessageBytesRead += uint64(n)` with n from reader.Read found in Read"
		}
		c.Check(ok, "R43.3", site, c.Pos(read.Pos()), detail)
		// every reader.Read other than the counted one reads at most a fixed-size probe and never stores it
		for _, in := range Instrs(read, func(in ssa.Instruction) bool {
			call, ok := in.(*ssa.Call)
			return ok && call.Common().IsInvoke() && call.Common().Method.Name() == "Read" && call.Common().Value == ssa.Value(read.Params[1])
		}) {
			call := in.(*ssa.Call)
			if call == srcRead {
				continue
			}
			okProbe := false
			if sl, isSl := call.Common().Args[0].(*ssa.Slice); isSl {
				if a, isA := sl.X.(*ssa.Alloc); isA {
					if pt, isP := a.Type().Underlying().(*types.Pointer); isP {
						_, okProbe = pt.Elem().Underlying().(*types.Array)
					}
				}
			}
			c.Check(okProbe, "R43.3", T+".Read:uncounted reader.Read is a fixed-size probe", c.Pos(call.Pos()), "a reader.Read whose bytes are not counted reads into a fixed-size scratch array only")
		}
	}

	// allocateNextBuffer only when space remains
	c.MustGuard(MustGuardSpec{Rule: "R43.3", Fn: read, Effects: asInstrs(CallsTo(read, false, allocF)), EffName: "allocateNextBuffer()",
		Guards: []Guard{GCmp("remainedUnallocatedSpace != 0", token.NEQ, M(fRemain), IsConstInt(0))}})
	c.OwnerRule("R43.3", "call(allocateNextBuffer)", c.Uses([]*types.Func{allocF}, ScanOpts{SkipGenerated: true}), map[string]string{T + ".Read": "guarded by remainedUnallocatedSpace != 0"})

	// allocateNextBuffer sizes by what remains and accounts for it
	{
		var mk *ssa.MakeSlice
		for _, in := range Instrs(alloc, func(in ssa.Instruction) bool { _, ok := in.(*ssa.MakeSlice); return ok }) {
			mk = in.(*ssa.MakeSlice)
		}
		ok := mk != nil && Mentions(mk.Cap, fRemain, 6)
		c.Check(ok, "R43.3", T+".allocateNextBuffer:cap<=remainedUnallocatedSpace", c.Pos(alloc.Pos()), "the capacity of the new buffer derives from min(allocationStep, s.remainedUnallocatedSpace)")
		okSub := false
		if mk != nil {
			for _, in := range StoresToField(alloc, false, map[*types.Var]bool{fRemain: true}) {
				bo, isBo := in.(*ssa.Store).Val.(*ssa.BinOp)
				if isBo && bo.Op == token.SUB && Mentions(bo.X, fRemain, 2) && strip(bo.Y) == strip(mk.Cap) {
					okSub = true
				}
			}
		}
		c.Check(okSub, "R43.3", T+".allocateNextBuffer:remainedUnallocatedSpace-=cap", c.Pos(alloc.Pos()), "the allocated capacity is subtracted from s.remainedUnallocatedSpace")
	}

	// Reset installs the limit and clears the counter
	{
		okMax, okZero := false, false
		if len(reset.Params) == 2 {
			for _, in := range StoresToField(reset, false, map[*types.Var]bool{fMax: true}) {
				okMax = strip(in.(*ssa.Store).Val) == ssa.Value(reset.Params[1])
			}
			for _, in := range StoresToField(reset, false, map[*types.Var]bool{fRead: true}) {
				okZero = IsConstInt(0)(in.(*ssa.Store).Val)
			}
		}
		c.Check(okMax, "R43.3", T+".Reset:currentMessageMaxSize=n", c.Pos(reset.Pos()), "Reset stores its argument as the limit of the next message")
		c.Check(okZero, "R43.3", T+".Reset:currentMessageBytesRead=0", c.Pos(reset.Pos()), "Reset clears the per-message byte counter")
	}
	c.OwnerRule("R43.3", "write(currentMessageMaxSize)", c.FieldWrites(map[*types.Var]bool{fMax: true}, ScanOpts{SkipGenerated: true}), map[string]string{
		T + ".Reset":                       "installs the per-message limit",
		"network.MakeLimitedReaderSlurper": "constructor (zero)",
	})
	c.OwnerRule("R43.3", "write(currentMessageBytesRead)", c.FieldWrites(map[*types.Var]bool{fRead: true}, ScanOpts{SkipGenerated: true}), map[string]string{
		T + ".Reset":                       "clears the counter",
		T + ".Read":                        "counts the bytes read",
		"network.MakeLimitedReaderSlurper": "constructor (zero)",
	})
}

// c43Dedup checks the duplicate filter chain (R43.5).
func c43Dedup(c *Ctx, readLoop *ssa.Function, sends []ssa.Instruction, fTag, fData *types.Var) {
	rl := "network.wsPeer.readLoop"
	check := c.Func("network.messageFilter.CheckIncomingMessage")
	checkDigest := c.Func("network.messageFilter.CheckDigest")
	find := c.Func("network.messageFilter.find")
	dedupSafe := c.Func("network.dedupSafeTag")
	fFilter := c.Field("network.wsPeer.incomingMsgFilter")
	_ = c.Field("network.WebsocketNetwork.incomingMsgFilter")

	isLenData := func(v ssa.Value) bool {
		x, ok := lenOf(v)
		return ok && Mentions(x, fData, 3)
	}
	c.MustGuard(MustGuardSpec{Rule: "R43.5", Fn: readLoop, Effects: sends, EffName: "send(wp.readBuffer)",
		Guards: []Guard{GBool("CheckIncomingMessage(...) == false", ResultOf(0, check), false)},
		Bypass: []Guard{
			GCmp("len(msg.Data) == 0", token.LEQ, isLenData, IsConstInt(0)),
			GCmp("wp.incomingMsgFilter == nil", token.EQL, M(fFilter), IsNil),
			GBool("dedupSafeTag(msg.Tag) == false", ResultOf(0, dedupSafe), false),
		}})
	// arguments of the filter call and of dedupSafeTag
	for _, cc := range CallsTo(readLoop, false, check) {
		a := cc.Common().Args // filter, tag, data, add, promote
		ok := len(a) == 5 && Mentions(a[0], fFilter, 3) && Mentions(a[1], fTag, 3) && Mentions(a[2], fData, 3) && IsConstBool(true)(a[3])
		c.Check(ok, "R43.5", rl+":CheckIncomingMessage(msg.Tag,msg.Data,add=true)", c.Pos(cc.Pos()), "the shared filter is asked about this message's tag and data and told to remember it (add is the constant true)")
	}
	for _, cc := range CallsTo(readLoop, false, dedupSafe) {
		c.Check(Mentions(cc.Common().Args[0], fTag, 3), "R43.5", rl+":dedupSafeTag(msg.Tag)", c.Pos(cc.Pos()), "dedupSafeTag is asked about this message's tag")
	}

	// CheckIncomingMessage: hash(tag, msg) -> CheckDigest(digest, add, promote)
	{
		fn := c.Fn("network.messageFilter.CheckIncomingMessage")
		site := "network.messageFilter.CheckIncomingMessage"
		ok := len(fn.Params) == 5
		var cd *ssa.Call
		if ok {
			rets := iReturns(fn)
			ok = len(rets) > 0
			for _, r := range rets {
				call, isRes := asResultOf(r.Results[0], 0, checkDigest)
				if !isRes {
					ok = false
					continue
				}
				cd = call
				a := call.Common().Args // f, digest, add, promote
				if len(a) != 4 || a[0] != ssa.Value(fn.Params[0]) || a[2] != ssa.Value(fn.Params[3]) || a[3] != ssa.Value(fn.Params[4]) {
					ok = false
				}
			}
		}
		c.Check(ok, "R43.5", site+":returns CheckDigest(digest,add,promote)", c.Pos(fn.Pos()), "every return is CheckDigest on the same filter with the caller's add and promote")
		_ = cd
	}

	// CheckDigest: answer is find()'s, and add && !has inserts before returning
	{
		fn := c.Fn("network.messageFilter.CheckDigest")
		site := "network.messageFilter.CheckDigest"
		if len(fn.Params) != 4 {
			c.Unk("R43.5", site, c.Pos(fn.Pos()), "unexpected signature")
		} else {
			hasOf := ResultOf(1, find)
			rets := iReturns(fn)
			ok := len(rets) > 0
			for _, r := range rets {
				if !hasOf(r.Results[0]) {
					ok = false
				}
			}
			for _, fc := range CallsTo(fn, false, find) {
				if strip(fc.Common().Args[1]) != ssa.Value(fn.Params[1]) {
					ok = false
				}
			}
			c.Check(ok, "R43.5", site+":returns find(msgHash).found", c.Pos(fn.Pos()), "every return yields the `found` result of f.find(msgHash)")
			inserts := Instrs(fn, func(in ssa.Instruction) bool {
				mu, ok := in.(*ssa.MapUpdate)
				return ok && strip(mu.Key) == ssa.Value(fn.Params[1])
			})
			isInsert := func(in ssa.Instruction) bool {
				for _, x := range inserts {
					if x == in {
						return true
					}
				}
				return false
			}
			// paths with add==true and has==false: cut the other edges
			addFalse, n1 := PassEdges(fn, GBool("add==false", IsV(fn.Params[2]), false))
			hasTrue, n2 := PassEdges(fn, GBool("has==true", hasOf, true))
			okIns := len(inserts) > 0 && n1 > 0 && n2 > 0
			if okIns {
				r := NewReach(fn, append(addFalse, hasTrue...), isInsert)
				for _, ret := range rets {
					if r.Reaches(ret) {
						okIns = false
					}
				}
			}
			c.Check(okIns, "R43.5", site+":add&&!has=>insert(msgHash)", c.Pos(fn.Pos()), "when add is true and the digest is new, no return is reachable without first storing buckets[..][msgHash]")
		}
	}

	// one shared filter per node: EVERY wsPeer literal of package network passes the incoming filter of the
	// network that builds it (WebsocketNetwork and, since the fix recorded in known_findings.json, P2PNetwork;
	// HybridP2PNetwork shares one filter between its two halves)
	{
		wsPeerT := c.Named("network.wsPeer")
		msgFilterT := c.Named("network.messageFilter")
		filterFieldOf := func(nt *types.Named) *types.Var {
			st, ok := nt.Underlying().(*types.Struct)
			if !ok {
				return nil
			}
			for i := 0; i < st.NumFields(); i++ {
				if pt, isP := st.Field(i).Type().(*types.Pointer); isP {
					if ft, isN := types.Unalias(pt.Elem()).(*types.Named); isN && ft.Origin() == msgFilterT {
						return st.Field(i)
					}
				}
			}
			return nil
		}
		netFilterFields := map[*types.Var]bool{}
		for _, s := range c.Literals(wsPeerT, true, ScanOpts{SkipGenerated: true, OnlyPkgs: []string{"network"}}) {
			cl := s.Node.(*ast.CompositeLit)
			info := s.Pkg.TypesInfo
			construct := "literal(wsPeer)@" + s.Func + ":incomingMsgFilter"
			var owner *types.Named
			if f, ok := c.TryObj(s.Func).(*types.Func); ok {
				if recv := f.Type().(*types.Signature).Recv(); recv != nil {
					t := recv.Type()
					if p, isP := t.(*types.Pointer); isP {
						t = p.Elem()
					}
					owner, _ = types.Unalias(t).(*types.Named)
				}
			}
			if owner == nil {
				c.Unk("R43.5", construct, c.Pos(cl.Pos()), "a peer is built outside a method of a network type: cannot tell which incoming filter it should share")
				continue
			}
			netField := filterFieldOf(owner)
			if netField == nil {
				c.Bad("R43.5", construct, c.Pos(cl.Pos()), owner.Obj().Name()+" builds peers but has no incoming message filter at all: EnableIncomingMessageFilter is silently ignored there and the same duplicate-safe message received from two peers is handed to the handlers twice")
				continue
			}
			netFilterFields[netField] = true
			ok := false
			for _, el := range cl.Elts {
				kv, isKV := el.(*ast.KeyValueExpr)
				if !isKV {
					continue
				}
				id, isID := kv.Key.(*ast.Ident)
				if !isID || info.Uses[id] != types.Object(fFilter) {
					continue
				}
				ok = selField(info, kv.Value) == netField
			}
			c.Check(ok, "R43.5", construct, c.Pos(cl.Pos()), "the peer is given the network-wide filter "+owner.Obj().Name()+"."+netField.Name()+", so duplicates are recognised across peers")
		}
		c.OwnerRule("R43.5", "write(wsPeer.incomingMsgFilter)", c.FieldWrites(map[*types.Var]bool{fFilter: true}, ScanOpts{SkipGenerated: true}), map[string]string{
			"network.WebsocketNetwork.ServeHTTP":      "incoming peer literal",
			"network.WebsocketNetwork.tryConnect":     "outgoing peer literal",
			"network.P2PNetwork.baseWsStreamHandler": "p2p stream peer literal",
		})
		c.OwnerRule("R43.5", "write(network-level incomingMsgFilter)", c.FieldWrites(netFilterFields, ScanOpts{SkipGenerated: true}), map[string]string{
			"network.WebsocketNetwork.setup": "created once at setup when EnableIncomingMessageFilter",
			"network.P2PNetwork.setup":       "created once at setup when EnableIncomingMessageFilter",
			"network.NewHybridP2PNetwork":    "one filter shared by both halves of a hybrid node",
		})
		// the hybrid node shares ONE filter: both halves deliver to the same handlers
		if hy := c.SSAOf(c.Func("network.NewHybridP2PNetwork")); hy != nil && len(netFilterFields) >= 2 {
			vals := map[ssa.Value]bool{}
			n := 0
			for _, st := range StoresToField(hy, false, netFilterFields) {
				vals[st.(*ssa.Store).Val] = true
				n++
			}
			c.Check(n >= 2 && len(vals) == 1, "R43.5", "network.NewHybridP2PNetwork:both halves share one incoming filter", c.Pos(hy.Pos()), "the websocket and the p2p half of a hybrid node are given the same filter instance (separate filters would each let the other half's copy through)")
		}
	}
}

// c43Decompress checks the zstd bound (R43.6).
func c43Decompress(c *Ctx) {
	kMax := c.Const("network.MaxDecompressedMessageSize")
	kPP := c.Const("protocol.ProposalPayloadTagMaxSize")
	a, ok1 := constInt64(kMax)
	b, ok2 := constInt64(kPP)
	c.Check(ok1 && ok2 && a == b && a > 0, "R43.6", "network.MaxDecompressedMessageSize==protocol.ProposalPayloadTagMaxSize", c.Pos(kMax.Pos()), "the decompressed-size cap equals the PP tag's limit")

	fn := c.Fn("network.zstdProposalDecompressor.convert")
	site := "network.zstdProposalDecompressor.convert:loop<=len(b)<=MaxDecompressedMessageSize"
	isMaxConst := func(v ssa.Value) bool {
		n, ok := iConstU64(v)
		return ok && ok1 && n == uint64(a)
	}
	isLen := func(v ssa.Value) bool { _, ok := lenOf(v); return ok }
	g := GCmp("len(b) <= MaxDecompressedMessageSize", token.LEQ, isLen, isMaxConst)
	pass, n := PassEdges(fn, g)
	// the decompressing reads: invoke Read on the zstd reader
	reads := Instrs(fn, func(in ssa.Instruction) bool {
		ci, ok := in.(*ssa.Call)
		return ok && ci.Common().IsInvoke() && ci.Common().Method.Name() == "Read"
	})
	switch {
	case len(reads) == 0:
		c.Unk("R43.6", site, c.Pos(fn.Pos()), "no Read on the decompressing reader found")
	case n == 0:
		c.Bad("R43.6", site, c.Pos(fn.Pos()), "convert no longer compares len(b) with MaxDecompressedMessageSize: a small compressed proposal can expand without bound")
	default:
		ok := true
		for _, rd := range reads {
			if iReachableAfter(rd, pass, nil).Reaches(rd) {
				ok = false
			}
		}
		c.Check(ok, "R43.6", site, c.Pos(reads[0].Pos()), "after a Read, another Read is reachable only through the len(b) <= MaxDecompressedMessageSize edge")
	}
}
