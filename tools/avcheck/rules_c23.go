package main

import (
	"go/token"
	"go/types"

	"golang.org/x/tools/go/ssa"
)

func init() {
	register(&Prop{
		ID:       "C23",
		Patterns: []string{"./ledger/eval", "./ledger/apply", "./data/transactions/logic"},
		Run:      runC23,
		Explanation: "Decides the bookkeeping shape that keeps box counters and schema counts equal to the stored state: " +
			"R23.1 in ledger/apply, ledger/eval/…, data/transactions/logic/… and ledger/ledgercore the fields AccountBaseData.TotalBoxes/TotalBoxBytes are written only by roundCowState.NewBox/DelBox (and the whole-record copy constructor ledgercore.ToAccountData); roundCowState.kvPut is called only by NewBox/SetBox and kvDel only by DelBox; StateDelta.AddKvMod only by kvPut/kvDel and the child-to-parent commit. " +
			"R23.2 NewBox: the kvPut(MakeBoxKey(appIdx,key), value) is reachable only when kvGet of the same full key reported !exists and Get/Put of the app account succeeded; the record Put for appAddr is the one read by Get(appAddr) with exactly TotalBoxes=AddSaturate(TotalBoxes,1) and TotalBoxBytes=AddSaturate(TotalBoxBytes, len(key)+len(value)) for the very key/value being stored. DelBox: mirrored with SubSaturate, operand len(key)+len(old value read by kvGet of the same key), kvDel only when the box existed. SetBox: kvPut only when the box exists and len(old)==len(new) (byte total unchanged). " +
			"R23.3 in the AVM every LedgerForLogic.NewBox/DelBox call passes appAddr = GetApplicationAddress(appID) for the same appID value as its first argument (counters land on the owning app's account), and resize is DelBox followed by NewBox for the same (appID,name,appAddr). " +
			"R23.4 schema counts: setKey returns nil only through lsd.checkCounts() after updateCounts(lsd, old value/presence from getKey of the same key, new value, true) succeeded; delKey only after updateCounts(…, false); SetAppGlobalSchema stores the new limits and returns checkCounts(); checkCounts returns nil only when counts.NumUint<=maxCounts.NumUint and counts.NumByteSlice<=maxCounts.NumByteSlice; updateCounts decrements/increments exactly the counter of the old/new value's type under bok/aok; storageDelta.counts is written only by updateCounts, DeallocateApp (zeroed), applyChild (child's absolute counts) and the ensureStorageDelta literal, which takes counts from getStorageCounts and maxCounts from getStorageLimits of the same (addr,aidx,global); the base getStorageLimits returns GlobalStateSchema iff global (else LocalStateSchema) and getStorageCounts measures GlobalState iff global (else the local KeyValue). " +
			"R23.5 apply.Payment closes an account (CloseAccount) only when the record read for the same sender has TotalBoxes==0 and TotalBoxBytes==0. " +
			"Does NOT decide: saturation (AddSaturate/SubSaturate clamp instead of failing), that TealKeyValue.ToStateSchema counts correctly, that applyStorageDelta writes exactly the kvCow entries the counts describe, box-reference/IO-budget rules (C35), nor persistence of the counters (C13).",
		Assumptions: []string{"avm-abi/apps.MakeBoxKey is injective per (app,name)", "basics.AddSaturate/SubSaturate do not saturate for reachable counter values"},
		Floor:       map[string]int{"R23.1": 9, "R23.2": 23, "R23.3": 13, "R23.4": 30, "R23.5": 3},
	})
}

func runC23(c *Ctx) {
	defer eGuardRun(c, "C23")
	const ev = "ledger/eval."
	const cs = ev + "roundCowState."
	fBoxes := c.Field("ledger/ledgercore.AccountBaseData.TotalBoxes")
	fBytes := c.Field("ledger/ledgercore.AccountBaseData.TotalBoxBytes")
	kvPut, kvDel, kvGet := c.Func(cs+"kvPut"), c.Func(cs+"kvDel"), c.Func(cs+"kvGet")
	cowGet, cowPut := c.Func(cs+"Get"), c.Func(cs+"Put")
	addSat, subSat := c.Func("data/basics.AddSaturate"), c.Func("data/basics.SubSaturate")
	scope := ScanOpts{SkipGenerated: true, OnlyPkgs: []string{"ledger/apply", "ledger/eval/...", "data/transactions/logic/...", "ledger/ledgercore"}}

	// ---- R23.1 ownership ----
	c.OwnerRule("R23.1", "write(TotalBoxes/TotalBoxBytes)", c.FieldWrites(map[*types.Var]bool{fBoxes: true, fBytes: true}, scope), map[string]string{
		cs + "NewBox": "creation: +1 box, +len(key)+len(value) bytes",
		cs + "DelBox": "deletion: mirrored",
		"ledger/ledgercore.ToAccountData":                  "whole-record copy from basics.AccountData",
	})
	c.OwnerRule("R23.1", "use(kvPut)", c.Uses([]*types.Func{kvPut}, scope), map[string]string{
		cs + "NewBox": "after the counters", cs + "SetBox": "same size",
	})
	c.OwnerRule("R23.1", "use(kvDel)", c.Uses([]*types.Func{kvDel}, scope), map[string]string{
		cs + "DelBox": "after the counters",
	})
	c.OwnerRule("R23.1", "use(StateDelta.AddKvMod)", c.Uses([]*types.Func{c.Func("ledger/ledgercore.StateDelta.AddKvMod")}, scope), map[string]string{
		cs + "kvPut": "box write", cs + "kvDel": "box delete", cs + "commitToParent": "child cow commit copies the child's mods",
		"data/transactions/logic/mocktracer.MergeStateDeltas": "test scaffolding (thorough tier only)",
	})

	// ---- R23.2 NewBox / DelBox / SetBox ----
	isBoxKey := func(fn *ssa.Function) func(v ssa.Value) bool {
		return func(v ssa.Value) bool {
			call, ok := v.(*ssa.Call)
			if !ok || !eIsExtFunc(call.Common(), "github.com/algorand/avm-abi/apps", "MakeBoxKey") {
				return false
			}
			a := call.Common().Args
			return len(a) == 2 && eIsParamVal(a[0], eParamN(fn, 0)) && eIsParamVal(a[1], eParamN(fn, 1))
		}
	}
	for _, w := range []struct {
		name     string
		eff      *types.Func
		sat      *types.Func
		satName  string
		existing bool // the effect requires the box to exist
	}{{"NewBox", kvPut, addSat, "AddSaturate", false}, {"DelBox", kvDel, subSat, "SubSaturate", true}} {
		fn := c.Fn(cs + w.name)
		name := cs + w.name
		effs := eCallsToIn(fn, true, w.eff)
		gets := eCallsToIn(fn, true, kvGet)
		if len(effs) != 1 || len(gets) != 1 {
			c.Unk("R23.2", name+":"+w.eff.Name(), c.Pos(fn.Pos()), "expected exactly one "+w.eff.Name()+" and one kvGet call")
			continue
		}
		eff, get := effs[0], gets[0]
		ea, ga := eArgs(eff.Common()), eArgs(get.Common())
		keyParam, appAddr := eParamN(fn, 1), eParamN(fn, 3)
		var measured ssa.Value // the value whose length is accounted
		if w.existing {
			appAddr = eParamN(fn, 2)
			for _, r := range *get.Referrers() {
				if e, ok := r.(*ssa.Extract); ok && e.Index == 0 {
					measured = e
				}
			}
		} else {
			measured = eParamN(fn, 2)
		}
		c.Check(isBoxKey(fn)(ea[0]) && ea[0] == ga[0], "R23.2", name+":"+w.eff.Name()+"(MakeBoxKey(appIdx,key))==kvGet key", c.Pos(eff.Pos()), "existence is tested and the box is written under the same full key MakeBoxKey(appIdx, key)")
		if !w.existing {
			c.Check(len(ea) == 2 && eIsParamVal(ea[1], eParamN(fn, 2)), "R23.2", name+":kvPut(value)", c.Pos(eff.Pos()), "the stored bytes are the value parameter whose length is accounted")
		}
		// account record
		getRec, putRec := eCallsToIn(fn, true, cowGet), eCallsToIn(fn, true, cowPut)
		if len(getRec) != 1 || len(putRec) != 1 {
			c.Unk("R23.2", name+":Get/Put(appAddr)", c.Pos(fn.Pos()), "expected exactly one Get and one Put of the app account")
			continue
		}
		gr, pr := getRec[0], putRec[0]
		gra, pra := eArgs(gr.Common()), eArgs(pr.Common())
		rec, isLocal := eLoadedLocal(pra[1])
		okRec := isLocal && eIsParamVal(gra[0], appAddr) && eIsParamVal(pra[0], appAddr)
		if okRec {
			ws := eWholeStores(rec)
			okRec = len(ws) == 1 && eExtractOf(ws[0].Val, gr, 0)
		}
		c.Check(okRec, "R23.2", name+":Put(appAddr, record<-Get(appAddr))", c.Pos(pr.Pos()), "the record written back is the app account's record read in this call")
		if !okRec {
			continue
		}
		seen := map[*types.Var]bool{}
		for _, ls := range eLeafStores(rec) {
			leaf := ls.Path[len(ls.Path)-1]
			site := name + ":record." + leaf.Name()
			if leaf != fBoxes && leaf != fBytes {
				continue // other fields of the record are not the subject of this property
			}
			if seen[leaf] {
				c.Bad("R23.2", site, c.Pos(ls.St.Pos()), "counter "+leaf.Name()+" is assigned more than once")
				continue
			}
			seen[leaf] = true
			call, ok := ls.St.Val.(*ssa.Call)
			if !ok || !sameFunc(calleeOf(call.Common()), w.sat) {
				c.Bad("R23.2", site+"="+w.satName+"(…)", c.Pos(ls.St.Pos()), leaf.Name()+" is not assigned basics."+w.satName+"(…): "+describe(ls.St.Val))
				continue
			}
			a := call.Common().Args
			r0, p0, isLoad := eLoadPath(a[0])
			okOld := isLoad && r0 == ssa.Value(rec) && eSamePath(p0, ls.Path) && eStableBetween(rec, a[0].(ssa.Instruction), ls.St)
			detail := ""
			okOp := false
			if leaf == fBoxes {
				okOp = IsConstInt(1)(a[1])
				detail = leaf.Name() + " = " + w.satName + "(record." + leaf.Name() + ", 1)"
			} else {
				terms, isLen := eLenTerms(a[1])
				if isLen && len(terms) == 2 {
					k, v := terms[0], terms[1]
					if !eIsParamVal(k, keyParam) {
						k, v = v, k
					}
					okOp = eIsParamVal(k, keyParam) && (v == measured || (!w.existing && eIsParamVal(v, measured.(*ssa.Parameter))))
				}
				detail = leaf.Name() + " = " + w.satName + "(record." + leaf.Name() + ", len(key)+len(value)) for the key parameter and the bytes being stored/removed"
			}
			if !okOld || !okOp {
				detail = "expected " + detail + "; found operands " + describe(a[0]) + ", " + describe(a[1])
			}
			c.Check(okOld && okOp && Dominates(ls.St, pr), "R23.2", site+"="+w.satName+"(…)", c.Pos(ls.St.Pos()), detail)
		}
		for _, f := range []*types.Var{fBoxes, fBytes} {
			if !seen[f] {
				c.Bad("R23.2", name+":record."+f.Name()+"="+w.satName+"(…)", c.Pos(fn.Pos()), w.name+" does not update "+f.Name())
			}
		}
		exists := func(v ssa.Value) bool { return eExtractOf(v, get, 1) }
		c.MustGuard(MustGuardSpec{Rule: "R23.2", Fn: fn, Effects: []ssa.Instruction{eff}, EffName: w.eff.Name(), Guards: []Guard{
			GBool(map[bool]string{true: "box exists", false: "box does not exist"}[w.existing], exists, w.existing),
			GErrNil("kvGet err==nil", func(v ssa.Value) bool { return eExtractOf(v, get, 2) }),
			GErrNil("Get(appAddr) err==nil", func(v ssa.Value) bool { return eExtractOf(v, gr, 1) }),
			GErrNil("Put(appAddr) err==nil", IsV(pr)),
		}})
		// and the counters are not touched without the kv effect: Put reaches only kv effect or error return
		ok, wit := eOnlyThrough(pr, eSuccessReturnsAny(fn), map[ssa.Instruction]bool{eff: true}, nil)
		d := "after the counters are written every non-error return passes " + w.eff.Name()
		if !ok {
			d = "a possibly-nil return (" + c.Pos(wit.Pos()) + ") is reachable after Put(appAddr) without " + w.eff.Name() + ": counters change but the box does not"
		}
		c.Check(ok, "R23.2", name+":Put=>"+w.eff.Name(), c.Pos(pr.Pos()), d)
	}
	{
		fn := c.Fn(cs + "SetBox")
		name := cs + "SetBox"
		effs := eCallsToIn(fn, true, kvPut)
		gets := eCallsToIn(fn, true, kvGet)
		if len(effs) != 1 || len(gets) != 1 {
			c.Unk("R23.2", name+":kvPut", c.Pos(fn.Pos()), "expected exactly one kvPut and one kvGet call")
		} else {
			eff, get := effs[0], gets[0]
			ea, ga := eArgs(eff.Common()), eArgs(get.Common())
			valParam := eParamN(fn, 2)
			c.Check(isBoxKey(fn)(ea[0]) && ea[0] == ga[0] && eIsParamVal(ea[1], valParam), "R23.2", name+":kvPut(MakeBoxKey(appIdx,key), value)==kvGet key", c.Pos(eff.Pos()), "the replaced box is the one whose old length was compared")
			lenIs := func(pred VM) VM {
				return func(v ssa.Value) bool { s, ok := lenOf(v); return ok && pred(s) }
			}
			c.MustGuard(MustGuardSpec{Rule: "R23.2", Fn: fn, Effects: []ssa.Instruction{eff}, EffName: "kvPut", Guards: []Guard{
				GBool("box exists", func(v ssa.Value) bool { return eExtractOf(v, get, 1) }, true),
				GErrNil("kvGet err==nil", func(v ssa.Value) bool { return eExtractOf(v, get, 2) }),
				GCmp("len(old)==len(value)", token.EQL, lenIs(func(v ssa.Value) bool { return eExtractOf(v, get, 0) }), lenIs(func(v ssa.Value) bool { return eIsParamVal(v, valParam) })),
			}})
		}
	}

	// ---- R23.3 the AVM passes the owning app's address ----
	{
		const lg = "data/transactions/logic."
		newBox, delBox := c.Func(lg+"LedgerForLogic.NewBox"), c.Func(lg+"LedgerForLogic.DelBox")
		getAddr := c.Func(lg + "EvalParams.GetApplicationAddress")
		sites := c.Uses([]*types.Func{newBox, delBox, c.Func(lg + "LedgerForLogic.SetBox")}, ScanOpts{SkipGenerated: true, OnlyPkgs: []string{"data/transactions/logic", "ledger/eval/...", "ledger/apply"}})
		c.OwnerRule("R23.3", "use(LedgerForLogic.NewBox/SetBox/DelBox)", sites, map[string]string{
			lg + "boxCreateImpl": "box_create", lg + "boxReplaceImpl": "box_replace", lg + "boxSpliceImpl": "box_splice",
			lg + "boxDelImpl": "box_del", lg + "boxResizeImpl": "box_resize = DelBox+NewBox", lg + "boxPutImpl": "box_put",
		})
		n := 0
		for _, fname := range []string{"boxCreateImpl", "boxDelImpl", "boxResizeImpl", "boxPutImpl"} {
			fn := c.Fn(lg + fname)
			for _, call := range eCallsToIn(fn, true, newBox, delBox) {
				n++
				a := eArgs(call.Common())
				addr := a[len(a)-1]
				site := lg + fname + ":" + calleeOf(call.Common()).Name() + "(appID,…,GetApplicationAddress(appID))"
				ga, ok := addr.(*ssa.Call)
				if !ok || !sameFunc(calleeOf(ga.Common()), getAddr) {
					c.Bad("R23.3", site, c.Pos(call.Pos()), "appAddr argument is not cx.GetApplicationAddress(…): "+describe(addr))
					continue
				}
				c.Check(eSameVal(eArgs(ga.Common())[0], a[0]), "R23.3", site, c.Pos(call.Pos()), "the counters are charged to the account of the app that owns the box (same appID value)")
			}
		}
		if n == 0 {
			c.Unk("R23.3", lg+"box*Impl", "-", "no NewBox/DelBox call found in the AVM box opcodes")
		}
		// resize = DelBox then NewBox on the same (appID, name, appAddr)
		rz := c.Fn(lg + "boxResizeImpl")
		ds, ns := eCallsToIn(rz, false, delBox), eCallsToIn(rz, false, newBox)
		ok := len(ds) == 1 && len(ns) == 1
		if ok {
			da, na := eArgs(ds[0].Common()), eArgs(ns[0].Common())
			ok = eSameVal(da[0], na[0]) && eSameVal(da[1], na[1]) && eSameVal(da[2], na[3]) && Dominates(ds[0], ns[0])
		}
		c.Check(ok, "R23.3", lg+"boxResizeImpl:DelBox(appID,name,addr);NewBox(appID,name,_,addr)", c.Pos(rz.Pos()), "resize removes and recreates the same box of the same app, so both counters are rebased on the new length")
		if ok {
			c.MustGuard(MustGuardSpec{Rule: "R23.3", Fn: rz, Effects: []ssa.Instruction{ns[0]}, EffName: "NewBox", Guards: []Guard{
				GErrNil("DelBox err==nil", func(v ssa.Value) bool { return eExtractOf(v, ds[0], 1) })}})
		}
	}

	// ---- R23.4 schema counts ----
	{
		fCounts := c.Field(ev + "storageDelta.counts")
		fMax := c.Field(ev + "storageDelta.maxCounts")
		fNumUint := c.Field("data/basics.StateSchema.NumUint")
		fNumBS := c.Field("data/basics.StateSchema.NumByteSlice")
		fType := c.Field("data/basics.TealValue.Type")
		kBytes, kUint := c.Const("data/basics.TealBytesType"), c.Const("data/basics.TealUintType")
		updateCounts := c.Func(ev + "updateCounts")
		checkCounts := c.Func(ev + "storageDelta.checkCounts")
		ensure := c.Func(cs + "ensureStorageDelta")
		getKey := c.Func(cs + "getKey")

		// checkCounts
		cc := c.Fn(ev + "storageDelta.checkCounts")
		path2 := func(a, b *types.Var) VM {
			return func(v ssa.Value) bool {
				root, p, ok := eLoadPath(v)
				return ok && len(p) == 2 && p[0] == a && p[1] == b && eIsParamVal(root, cc.Params[0])
			}
		}
		c.MustGuard(MustGuardSpec{Rule: "R23.4", Fn: cc, Effects: eSuccessReturnsAny(cc), EffName: "return nil", Guards: []Guard{
			GCmp("counts.NumUint<=maxCounts.NumUint", token.LEQ, path2(fCounts, fNumUint), path2(fMax, fNumUint)),
			GCmp("counts.NumByteSlice<=maxCounts.NumByteSlice", token.LEQ, path2(fCounts, fNumBS), path2(fMax, fNumBS)),
		}})

		// updateCounts
		uc := c.Fn(ev + "updateCounts")
		pLsd, pBv, pBok, pAv, pAok := uc.Params[0], uc.Params[1], uc.Params[2], uc.Params[3], uc.Params[4]
		typeOf := func(p *ssa.Parameter) VM {
			return func(v ssa.Value) bool {
				if f, ok := v.(*ssa.Field); ok {
					return f.X == ssa.Value(p) && structField(f.X.Type(), f.Field) == fType
				}
				root, path, ok := eLoadPath(v)
				if !ok || len(path) != 1 || path[0] != fType {
					return false
				}
				al, isA := root.(*ssa.Alloc)
				if !isA {
					return false
				}
				ws, esc := eAllocWriters(al)
				if esc || len(ws) != 1 {
					return false
				}
				st, isSt := ws[0].(*ssa.Store)
				return isSt && st.Val == ssa.Value(p)
			}
		}
		have := map[string]bool{}
		for _, st := range eStoresThroughField([]*ssa.Function{uc}, fCounts)[uc] {
			root, path := eFieldPathOfAddr(st.Addr)
			if root != ssa.Value(pLsd) || len(path) != 2 {
				c.Unk("R23.4", ev+"updateCounts:store(counts.?)", c.Pos(st.Pos()), "store into counts not understood")
				continue
			}
			leaf := path[1]
			bo, ok := st.Val.(*ssa.BinOp)
			if !ok || !IsConstInt(1)(bo.Y) || (bo.Op != token.ADD && bo.Op != token.SUB) {
				c.Bad("R23.4", ev+"updateCounts:counts."+leaf.Name(), c.Pos(st.Pos()), "counter is not stepped by exactly one: "+describe(st.Val))
				continue
			}
			r0, p0, isL := eLoadPath(bo.X)
			if !isL || r0 != root || !eSamePath(p0, path) {
				c.Bad("R23.4", ev+"updateCounts:counts."+leaf.Name(), c.Pos(st.Pos()), "counter is stepped from a different field: "+describe(bo.X))
				continue
			}
			k := kBytes
			if leaf == fNumUint {
				k = kUint
			} else if leaf != fNumBS {
				c.Unk("R23.4", ev+"updateCounts:counts."+leaf.Name(), c.Pos(st.Pos()), "unknown counter")
				continue
			}
			isK := func(v ssa.Value) bool { return valueIs(strip(v), k) || valueIs(v, k) }
			flag, val, dir := pAok, pAv, "++"
			if bo.Op == token.SUB {
				flag, val, dir = pBok, pBv, "--"
			}
			have[leaf.Name()+dir] = true
			c.MustGuard(MustGuardSpec{Rule: "R23.4", Fn: uc, Effects: []ssa.Instruction{st}, EffName: "counts." + leaf.Name() + dir, Guards: []Guard{
				GBool(flag.Name()+" (value present)", IsV(flag), true),
				GCmp(val.Name()+".Type=="+k.Name(), token.EQL, typeOf(val), isK),
			}})
		}
		for _, want := range []string{"NumUint++", "NumUint--", "NumByteSlice++", "NumByteSlice--"} {
			c.Check(have[want], "R23.4", ev+"updateCounts:has counts."+want, c.Pos(uc.Pos()), "updateCounts steps every counter in both directions")
		}

		// setKey / delKey
		for _, w := range []struct {
			name  string
			exist bool
		}{{"setKey", true}, {"delKey", false}} {
			fn := c.Fn(cs + w.name)
			name := cs + w.name
			ucs := eCallsToIn(fn, false, updateCounts)
			if len(ucs) != 1 {
				c.Unk("R23.4", name+":updateCounts", c.Pos(fn.Pos()), "expected exactly one updateCounts call")
				continue
			}
			u := ucs[0]
			ua := u.Common().Args
			lsdCall, isLsd := eCallOfExtract(ua[0], 0)
			gk, isGk := eCallOfExtract(ua[1], 0)
			okArgs := isLsd && sameFunc(calleeOf(lsdCall.Common()), ensure) && isGk && sameFunc(calleeOf(gk.Common()), getKey) && eExtractOf(ua[2], gk, 1)
			detail := "updateCounts(lsd, old value, old presence, …) uses the storage delta of ensureStorageDelta and both results of one getKey"
			if okArgs {
				// getKey and ensureStorageDelta are asked about this call's own addr/aidx/global/key
				ga, la := eArgs(gk.Common()), eArgs(lsdCall.Common())
				for i := 0; i < 4; i++ {
					if !eIsParamVal(ga[i], eParamN(fn, i)) {
						okArgs, detail = false, "getKey is not asked about this call's own (addr, aidx, global, key)"
					}
				}
				for i := 0; i < 3; i++ {
					if !eIsParamVal(la[i], eParamN(fn, i)) {
						okArgs, detail = false, "ensureStorageDelta is not asked about this call's own (addr, aidx, global)"
					}
				}
			}
			if okArgs {
				aok := ua[4]
				if lv := eLastStoreBefore(aok); lv != nil {
					aok = lv
				}
				if !IsConstBool(w.exist)(aok) {
					okArgs, detail = false, "the 'value exists afterwards' argument of updateCounts is not the constant "+map[bool]string{true: "true", false: "false"}[w.exist]+": "+describe(ua[4])
				}
				if w.exist {
					av := ua[3]
					if lv := eLastStoreBefore(av); lv != nil {
						av = lv
					}
					if !eIsParamVal(av, eParamN(fn, 4)) {
						okArgs, detail = false, "the new value counted by updateCounts is not the value parameter being stored: "+describe(ua[3])
					}
				}
			}
			c.Check(okArgs, "R23.4", name+":updateCounts(lsd,getKey…,new)", c.Pos(u.Pos()), detail)
			succ := eSuccessReturnsAny(fn)
			if w.exist {
				// every possibly-nil return is `return lsd.checkCounts()`
				okRet := len(succ) > 0
				for _, r := range succ {
					rc, isC := r.(*ssa.Return).Results[0].(*ssa.Call)
					if !isC || !sameFunc(calleeOf(rc.Common()), checkCounts) || !isLsd || rc.Common().Args[0] != ua[0] {
						okRet = false
					}
				}
				c.Check(okRet, "R23.4", name+":return lsd.checkCounts()", c.Pos(fn.Pos()), "setKey can return nil only with the verdict of checkCounts on the same storage delta")
			}
			c.MustGuard(MustGuardSpec{Rule: "R23.4", Fn: fn, Effects: succ, EffName: "return nil", Guards: []Guard{GErrNil("updateCounts err==nil", IsV(u))}})
		}
		// SetAppGlobalSchema
		{
			fn := c.Fn(cs + "SetAppGlobalSchema")
			name := cs + "SetAppGlobalSchema"
			succ := eSuccessReturnsAny(fn)
			okRet := len(succ) > 0
			var lsd ssa.Value
			for _, r := range succ {
				rc, isC := r.(*ssa.Return).Results[0].(*ssa.Call)
				if !isC || !sameFunc(calleeOf(rc.Common()), checkCounts) {
					okRet = false
					continue
				}
				lsd = rc.Common().Args[0]
			}
			okStore := false
			if okRet {
				for _, st := range eStoresThroughField([]*ssa.Function{fn}, fMax)[fn] {
					root, path := eFieldPathOfAddr(st.Addr)
					if root == lsd && len(path) == 1 && eIsParamVal(st.Val, eParamN(fn, 2)) {
						okStore = true
					}
				}
			}
			c.Check(okRet && okStore, "R23.4", name+":maxCounts=limits;return checkCounts()", c.Pos(fn.Pos()), "a schema change is accepted only if the current counts fit the new limits")
		}
		// writers of storageDelta.counts
		evFns := c.funcsOf(Mod + "/ledger/eval")
		owners := map[string]string{ev + "updateCounts": "±1 per key", cs + "DeallocateApp": "zeroed with the storage", ev + "storageDelta.applyChild": "child's absolute counts", cs + "ensureStorageDelta": "initialised from getStorageCounts"}
		for fn, sts := range eStoresThroughField(evFns, fCounts) {
			_, ok := owners[fnName(fn)]
			d := "allowed writer of storageDelta.counts (" + owners[fnName(fn)] + "), " + itoa(len(sts)) + " store(s)"
			if !ok {
				d = fnName(fn) + " writes storageDelta.counts but is not in the owner table; new instance needs review"
			}
			c.Check(ok, "R23.4", "store(storageDelta.counts)@"+fnName(fn), c.Pos(sts[0].Pos()), d)
		}
		// ensureStorageDelta initialisation
		{
			fn := c.Fn(cs + "ensureStorageDelta")
			gsc, gsl := c.Func(cs+"getStorageCounts"), c.Func(cs+"getStorageLimits")
			for _, w := range []struct {
				f    *types.Var
				from *types.Func
			}{{fCounts, gsc}, {fMax, gsl}} {
				sts := eStoresThroughField([]*ssa.Function{fn}, w.f)[fn]
				ok := len(sts) == 1
				if ok {
					call, isC := eCallOfExtract(sts[0].Val, 0)
					ok = isC && sameFunc(calleeOf(call.Common()), w.from)
					if ok {
						a := eArgs(call.Common())
						for i := 0; i < 3; i++ {
							ok = ok && eIsParamVal(a[i], eParamN(fn, i))
						}
					}
				}
				c.Check(ok, "R23.4", cs+"ensureStorageDelta:"+w.f.Name()+"<-"+w.from.Name()+"(addr,aidx,global)", c.Pos(fn.Pos()), "a fresh storage delta starts from the stored usage/limits of the same storage")
			}
		}
		// base lookups select by `global`
		for _, w := range []struct {
			fn     string
			gField string
			lField string
		}{{"getStorageLimits", "data/basics.AppParams.GlobalStateSchema", "data/basics.AppParams.LocalStateSchema"},
			{"getStorageCounts", "data/basics.AppParams.GlobalState", "data/basics.AppLocalState.KeyValue"}} {
			fn := c.Fn(ev + "roundCowBase." + w.fn)
			pGlobal := eParamN(fn, 2)
			for _, side := range []struct {
				fld  *types.Var
				want bool
			}{{c.Field(w.gField), true}, {c.Field(w.lField), false}} {
				rets := ReturnsWhere(fn, 0, M(side.fld))
				if len(rets) == 0 {
					c.Bad("R23.4", ev+"roundCowBase."+w.fn+":return "+side.fld.Name(), c.Pos(fn.Pos()), "no return derives from "+side.fld.Name())
					continue
				}
				c.MustGuard(MustGuardSpec{Rule: "R23.4", Fn: fn, Effects: rets, EffName: "return " + side.fld.Name(), Guards: []Guard{
					GBool("global=="+map[bool]string{true: "true", false: "false"}[side.want], func(v ssa.Value) bool { return eIsParamVal(v, pGlobal) }, side.want)}})
			}
		}
	}

	// ---- R23.5 closing an account with boxes ----
	{
		const ap = "ledger/apply."
		fn := c.Fn(ap + "Payment")
		closeAcct := c.Func(ap + "Balances.CloseAccount")
		balGet := c.Func(ap + "Balances.Get")
		calls := eCallsToIn(fn, true, closeAcct)
		if len(calls) != 1 {
			c.Unk("R23.5", ap+"Payment:CloseAccount", c.Pos(fn.Pos()), "expected exactly one CloseAccount call")
		} else {
			cl := calls[0]
			who := eArgs(cl.Common())[0]
			ofRec := func(f *types.Var) VM {
				return func(v ssa.Value) bool {
					root, path, ok := eLoadPath(v)
					if !ok || len(path) == 0 || path[len(path)-1] != f {
						return false
					}
					al, isA := root.(*ssa.Alloc)
					if !isA {
						return false
					}
					ws := eWholeStores(al)
					if len(ws) == 0 {
						return false
					}
					for _, st := range ws {
						g, isG := eCallOfExtract(st.Val, 0)
						if !isG || !sameFunc(calleeOf(g.Common()), balGet) || !eSameVal(eArgs(g.Common())[0], who) {
							return false
						}
					}
					return true
				}
			}
			zero := func(name string, f *types.Var) Guard {
				return GAnyOf(name, GCmp(name, token.LEQ, ofRec(f), IsConstInt(0)), GCmp(name, token.EQL, ofRec(f), IsConstInt(0)))
			}
			c.Check(Mentions(who, c.Field("data/transactions.Header.Sender"), 4), "R23.5", ap+"Payment:CloseAccount(header.Sender)", c.Pos(cl.Pos()), "the closed account is the sender whose record was inspected")
			c.MustGuard(MustGuardSpec{Rule: "R23.5", Fn: fn, Effects: []ssa.Instruction{cl}, EffName: "CloseAccount", Guards: []Guard{
				zero("sender.TotalBoxes==0", fBoxes), zero("sender.TotalBoxBytes==0", fBytes)}})
		}
	}
	eDump(c)
}

// eSuccessReturnsAny is eSuccessReturns; for functions with several results
// the error result decides.
func eSuccessReturnsAny(fn *ssa.Function) []ssa.Instruction { return eSuccessReturns(fn) }
