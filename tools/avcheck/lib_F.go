package main

// Helpers of contributor F (rules_c28/c29/c30/c44). Every name is prefixed
// with f/F to stay clear of the shared core and of other contributors.

import (
	"fmt"
	"go/constant"
	"go/token"
	"go/types"

	"golang.org/x/tools/go/ssa"
)

// ---------- reachability from an arbitrary instruction ----------

// fReach is Reach generalised to start after a given instruction (nil = entry).
// It is used where a check must lie between the *definition* of a value in a
// retry loop and its use: every path to the use passes the definition, so
// "unreachable from the definition when the passing edges are cut" says that
// the latest definition was checked.
type fReach struct {
	iv   map[*ssa.BasicBlock][][2]int // reached instruction index intervals [from,to]
	pred map[*ssa.BasicBlock]*ssa.BasicBlock
}

func fReachFrom(fn *ssa.Function, start ssa.Instruction, cut []Edge, stop func(ssa.Instruction) bool) *fReach {
	return fReachFromAt(fn, start, nil, cut, stop)
}

// fReachFromBlock starts at the first instruction of block b.
func fReachFromBlock(fn *ssa.Function, b *ssa.BasicBlock, cut []Edge, stop func(ssa.Instruction) bool) *fReach {
	return fReachFromAt(fn, nil, b, cut, stop)
}

func fReachFromAt(fn *ssa.Function, start ssa.Instruction, startBlock *ssa.BasicBlock, cut []Edge, stop func(ssa.Instruction) bool) *fReach {
	r := &fReach{iv: map[*ssa.BasicBlock][][2]int{}, pred: map[*ssa.BasicBlock]*ssa.BasicBlock{}}
	if len(fn.Blocks) == 0 {
		return r
	}
	cutSet := map[Edge]bool{}
	for _, e := range cut {
		cutSet[e] = true
	}
	type item struct {
		b    *ssa.BasicBlock
		from int
		pred *ssa.BasicBlock
	}
	var work []item
	if startBlock != nil {
		work = append(work, item{startBlock, 0, nil})
	} else if start == nil {
		work = append(work, item{fn.Blocks[0], 0, nil})
	} else {
		b := start.Block()
		for i, in := range b.Instrs {
			if in == start {
				work = append(work, item{b, i + 1, nil})
			}
		}
	}
	done := map[*ssa.BasicBlock]int{} // smallest from already expanded
	for len(work) > 0 {
		it := work[0]
		work = work[1:]
		if f, ok := done[it.b]; ok && f <= it.from {
			continue
		}
		done[it.b] = it.from
		if _, ok := r.pred[it.b]; !ok && it.pred != nil {
			r.pred[it.b] = it.pred
		}
		to := len(it.b.Instrs) - 1
		stopped := false
		for i := it.from; i < len(it.b.Instrs); i++ {
			in := it.b.Instrs[i]
			if noReturnCall(in) || (stop != nil && stop(in)) {
				to = i
				stopped = true
				break
			}
		}
		r.iv[it.b] = append(r.iv[it.b], [2]int{it.from, to})
		if stopped {
			continue
		}
		for i, s := range it.b.Succs {
			if cutSet[Edge{it.b, i}] {
				continue
			}
			work = append(work, item{s, 0, it.b})
		}
	}
	return r
}

// ReachesBlock reports whether any instruction of b is reached from its start.
func (r *fReach) ReachesBlockStart(b *ssa.BasicBlock) bool {
	for _, iv := range r.iv[b] {
		if iv[0] == 0 {
			return true
		}
	}
	return false
}

func (r *fReach) Reaches(in ssa.Instruction) bool {
	b := in.Block()
	ivs := r.iv[b]
	if len(ivs) == 0 {
		return false
	}
	for i, x := range b.Instrs {
		if x == in {
			for _, iv := range ivs {
				if i >= iv[0] && i <= iv[1] {
					return true
				}
			}
			return false
		}
	}
	return false
}

func (r *fReach) PathTo(p *Program, in ssa.Instruction) string {
	var lines []string
	last := ""
	var blocks []*ssa.BasicBlock
	for b := in.Block(); b != nil && len(blocks) < 200; b = r.pred[b] {
		blocks = append(blocks, b)
		if r.pred[b] == b {
			break
		}
	}
	for i := len(blocks) - 1; i >= 0; i-- {
		for _, x := range blocks[i].Instrs {
			if x.Pos().IsValid() {
				s := p.Pos(x.Pos())
				if s != last {
					lines = append(lines, s)
					last = s
				}
				break
			}
		}
	}
	if len(lines) > 12 {
		lines = append(lines[:5], append([]string{"…"}, lines[len(lines)-6:]...)...)
	}
	out := ""
	for i, l := range lines {
		if i > 0 {
			out += "→"
		}
		out += l
	}
	return out
}

// fGuardSpec is MustGuardSpec with a start instruction and per-call bypasses.
type fGuardSpec struct {
	Rule     string
	Fn       *ssa.Function
	From     ssa.Instruction // nil = function entry
	FromName string
	Effects  []ssa.Instruction
	EffName  string
	Guard    Guard
	Bypass   []Guard
	Stop     func(ssa.Instruction) bool
}

// fMustGuard records one obligation: with the passing edges of Guard (and of
// the Bypass guards) cut, no effect is reachable from From.
func (c *Ctx) fMustGuard(s fGuardSpec) bool {
	name := fnName(s.Fn)
	c.NoteFn(name)
	construct := name + ":" + s.EffName + "<=" + s.Guard.Name
	if len(s.Effects) == 0 {
		c.Unk(s.Rule, construct, c.Pos(s.Fn.Pos()), "effect "+s.EffName+" not found in "+name+": the rule no longer sees its site")
		return false
	}
	edges, matched := PassEdges(s.Fn, s.Guard)
	if matched == 0 {
		c.Bad(s.Rule, construct, c.Pos(s.Effects[0].Pos()), fmt.Sprintf("guard %q not found in %s: no branch tests it, so %s is not conditioned on it", s.Guard.Name, name, s.EffName))
		return false
	}
	cut := append([]Edge{}, edges...)
	bnames := ""
	for _, bg := range s.Bypass {
		e, n := PassEdges(s.Fn, bg)
		if n > 0 {
			cut = append(cut, e...)
			bnames += " (bypass " + bg.Name + ")"
		}
	}
	r := fReachFrom(s.Fn, s.From, cut, s.Stop)
	from := "the function entry"
	if s.From != nil {
		from = s.FromName
	}
	for _, e := range s.Effects {
		if r.Reaches(e) {
			c.Bad(s.Rule, construct, c.Pos(e.Pos()), fmt.Sprintf("%s is reachable from %s without passing guard %q%s; path: %s", s.EffName, from, s.Guard.Name, bnames, r.PathTo(c.Program, e)))
			return false
		}
	}
	c.Ok(s.Rule, construct, c.Pos(s.Effects[0].Pos()), fmt.Sprintf("%d effect site(s) unreachable from %s when the %d passing edge(s) of %q are cut%s", len(s.Effects), from, len(edges), s.Guard.Name, bnames))
	c.NoteSites(len(s.Effects))
	return true
}

// ---------- value shapes ----------

// fLocal resolves loads of non-escaping/escaping local Allocs whose every
// store holds the same SSA value, and single-valued phis.
func fLocal(v ssa.Value) ssa.Value {
	for i := 0; i < 6; i++ {
		switch x := v.(type) {
		case *ssa.UnOp:
			if a, ok := x.X.(*ssa.Alloc); ok && x.Op == token.MUL {
				st := localStores(a)
				if len(st) > 0 {
					same := true
					for _, s := range st[1:] {
						if s != st[0] {
							same = false
						}
					}
					if same {
						v = st[0]
						continue
					}
				}
			}
		case *ssa.Phi:
			var u ssa.Value
			multi := false
			for _, e := range x.Edges {
				if e == ssa.Value(x) {
					continue
				}
				if u == nil {
					u = e
				} else if u != e {
					multi = true
				}
			}
			if u != nil && !multi {
				v = u
				continue
			}
		}
		return v
	}
	return v
}

// fRoot peels conversions, loads, field selections and single-valued locals:
// the pointer/struct value an expression like (*p).F.G or p.F is rooted at.
func fRoot(v ssa.Value) ssa.Value {
	for i := 0; i < 12; i++ {
		v = strip(v)
		w := fLocal(v)
		if w != v {
			v = w
			continue
		}
		switch x := v.(type) {
		case *ssa.UnOp:
			if x.Op == token.MUL {
				v = x.X
				continue
			}
		case *ssa.Alloc:
			// spilled copy of a parameter/value: `*t0 = cert` is its only whole store
			if st := localStores(x); len(st) == 1 {
				v = st[0]
				continue
			}
		case *ssa.FieldAddr:
			v = x.X
			continue
		case *ssa.Field:
			v = x.X
			continue
		}
		return v
	}
	return v
}

// fDeref: v is exactly *p (a load of pointer value p, possibly through a
// single-valued local); returns p.
func fDeref(v ssa.Value) (ssa.Value, bool) {
	v = fLocal(strip(v))
	u, ok := v.(*ssa.UnOp)
	if !ok || u.Op != token.MUL {
		return nil, false
	}
	if _, isAlloc := u.X.(*ssa.Alloc); isAlloc {
		return nil, false
	}
	return fLocal(u.X), true
}

// fIsParam: v is parameter p, directly or through its spilled copy (a local
// that is only ever assigned the parameter).
func fIsParam(v ssa.Value, p *ssa.Parameter) bool {
	if p == nil {
		return false
	}
	return fLocal(strip(v)) == ssa.Value(p)
}

func fParam(fn *ssa.Function, name string) *ssa.Parameter {
	for _, p := range fn.Params {
		if p.Name() == name {
			return p
		}
	}
	return nil
}

// fParamAt returns the i-th declared parameter (receiver excluded).
func fParamAt(fn *ssa.Function, i int) *ssa.Parameter {
	if fn.Signature.Recv() != nil {
		i++
	}
	if i < 0 || i >= len(fn.Params) {
		return nil
	}
	return fn.Params[i]
}

// fExtractOf: v is result idx of call (through single-valued locals and, for
// address-taken locals, the last store before the load).
func fExtractOf(v ssa.Value, call ssa.Value, idx int) bool {
	v = strip(v)
	if w := resolveLocal(v, nil); w != v {
		v = strip(w)
	}
	v = fLocal(v)
	if e, ok := v.(*ssa.Extract); ok {
		return e.Tuple == call && e.Index == idx
	}
	if c, ok := call.(*ssa.Call); ok && v == ssa.Value(c) {
		return c.Common().Signature().Results().Len() == 1 && idx == 0
	}
	return false
}

// fCallOf returns the call producing v (v is the call or an extract of it),
// through locals as fExtractOf does.
func fCallOf(v ssa.Value) (*ssa.Call, int) {
	v = strip(v)
	if w := resolveLocal(v, nil); w != v {
		v = strip(w)
	}
	v = fLocal(v)
	if e, ok := v.(*ssa.Extract); ok {
		if c, ok := e.Tuple.(*ssa.Call); ok {
			return c, e.Index
		}
		return nil, -1
	}
	if c, ok := v.(*ssa.Call); ok {
		return c, 0
	}
	return nil, -1
}

// fIsCallTo: in is a call to one of fns.
func fIsCallTo(v ssa.Value, fns ...*types.Func) (*ssa.Call, bool) {
	c, ok := v.(*ssa.Call)
	if !ok {
		return nil, false
	}
	return c, inFuncs(calleeOf(c.Common()), fns)
}

// ---------- select / channel receive ----------

// fRecvGuards describes every way fn waits on channel ch: the passing edges of
// "select chose the <-ch case" and the plain blocking receives.
func fRecvWaits(fn *ssa.Function, ch VM) (edges []Edge, recvs map[ssa.Instruction]bool, n int) {
	recvs = map[ssa.Instruction]bool{}
	for _, b := range fn.Blocks {
		for _, in := range b.Instrs {
			switch x := in.(type) {
			case *ssa.UnOp:
				if x.Op == token.ARROW && ch(x.X) {
					recvs[in] = true
					n++
				}
			case *ssa.Select:
				for i, st := range x.States {
					if st.Dir == types.RecvOnly && ch(st.Chan) {
						sel, idx := x, i
						g := Guard{Name: "select chose the receive", Match: func(cond ssa.Value) (bool, bool) {
							bo, ok := cond.(*ssa.BinOp)
							if !ok || (bo.Op != token.EQL && bo.Op != token.NEQ) {
								return false, false
							}
							e, ok := bo.X.(*ssa.Extract)
							if !ok || e.Tuple != ssa.Value(sel) || e.Index != 0 || !IsConstInt(int64(idx))(bo.Y) {
								return false, false
							}
							return true, bo.Op == token.EQL
						}}
						e, m := PassEdges(fn, g)
						edges = append(edges, e...)
						n += m
					}
				}
			}
		}
	}
	return
}

// fReturnsOf lists the Return instructions of fn.
func fReturnsOf(fn *ssa.Function) []*ssa.Return {
	var out []*ssa.Return
	for _, b := range fn.Blocks {
		if len(b.Instrs) == 0 {
			continue
		}
		if r, ok := b.Instrs[len(b.Instrs)-1].(*ssa.Return); ok {
			out = append(out, r)
		}
	}
	return out
}

// fRetInstrs converts.
func fRetInstrs(rs []*ssa.Return) []ssa.Instruction {
	out := make([]ssa.Instruction, len(rs))
	for i, r := range rs {
		out[i] = r
	}
	return out
}

// fCallsIn lists calls to targets in fn (no nested literals) as *ssa.Call.
func fCallsIn(fn *ssa.Function, targets ...*types.Func) []*ssa.Call {
	var out []*ssa.Call
	for _, ci := range CallsTo(fn, false, targets...) {
		if c, ok := ci.(*ssa.Call); ok {
			out = append(out, c)
		}
	}
	return out
}

// fNonNilByTest: error value v is known non-nil in block at because a branch
// `v != nil` (same SSA value) dominates it. (The shared definitelyNonNil does
// not reach its dominance test for values that are results of in-module calls.)
func fNonNilByTest(v ssa.Value, at *ssa.BasicBlock) bool {
	if v == nil || at == nil {
		return false
	}
	nv := fNorm(v)
	if k, isK := nv.(*ssa.Const); isK && k.IsNil() {
		return false
	}
	for _, b := range at.Parent().Blocks {
		if len(b.Instrs) == 0 {
			continue
		}
		iff, ok := b.Instrs[len(b.Instrs)-1].(*ssa.If)
		if !ok {
			continue
		}
		cond, neg := condOf(iff.Cond)
		bo, ok := cond.(*ssa.BinOp)
		if !ok || (bo.Op != token.NEQ && bo.Op != token.EQL) {
			continue
		}
		var other ssa.Value
		if bo.X == v || fNorm(bo.X) == nv {
			other = bo.Y
		} else if bo.Y == v || fNorm(bo.Y) == nv {
			other = bo.X
		} else {
			continue
		}
		if !IsNil(other) {
			continue
		}
		nonNilOnTrue := (bo.Op == token.NEQ) != neg
		succ := b.Succs[1]
		if nonNilOnTrue {
			succ = b.Succs[0]
		}
		if len(succ.Preds) == 1 && succ.Dominates(at) {
			return true
		}
	}
	return false
}

// fSuccessReturns is SuccessReturns minus returns whose error value is tested
// non-nil by a dominating branch.
func fSuccessReturns(fn *ssa.Function) []ssa.Instruction {
	idx := errResultIndex(fn)
	var out []ssa.Instruction
	for _, in := range SuccessReturns(fn) {
		ret := in.(*ssa.Return)
		if !fLiveReturn(fn, ret) {
			continue
		}
		if idx >= 0 && idx < len(ret.Results) {
			v := resolveLocal(ret.Results[idx], ret)
			if fNonNilByTest(v, ret.Block()) {
				continue
			}
		}
		out = append(out, in)
	}
	return out
}

// fNilOnlyIf records one obligation: fn returns a nil error only if the error
// value matched by errVM was nil — every possibly-nil return either returns
// that very error value, or is unreachable once the `err == nil` edges are cut.
func (c *Ctx) fNilOnlyIf(rule string, fn *ssa.Function, gname string, errVM VM) bool {
	idx := errResultIndex(fn)
	name := fnName(fn)
	construct := name + ":return(nil error)<=" + gname
	var eff []ssa.Instruction
	prop := 0
	for _, in := range fSuccessReturns(fn) {
		ret := in.(*ssa.Return)
		if idx >= 0 && errVM(resolveLocal(ret.Results[idx], ret)) {
			prop++
			continue
		}
		eff = append(eff, in)
	}
	g := GErrNil(gname, errVM)
	edges, matched := PassEdges(fn, g)
	if len(eff) == 0 {
		if prop == 0 {
			c.Unk(rule, construct, c.Pos(fn.Pos()), "no possibly-nil return found in "+name)
			return false
		}
		c.Ok(rule, construct, c.Pos(fn.Pos()), itoa(prop)+" return(s) propagate that error value itself")
		return true
	}
	if matched == 0 {
		c.Bad(rule, construct, c.Pos(eff[0].Pos()), "guard \""+gname+"\" not found in "+name+": its error is neither tested nor returned on a path that returns a possibly-nil error")
		return false
	}
	r := fReachFrom(fn, nil, edges, nil)
	for _, e := range eff {
		if r.Reaches(e) {
			c.Bad(rule, construct, c.Pos(e.Pos()), "a possibly-nil error return is reachable without passing guard \""+gname+"\"; path: "+r.PathTo(c.Program, e))
			return false
		}
	}
	c.Ok(rule, construct, c.Pos(eff[0].Pos()), fmt.Sprintf("%d possibly-nil return(s) unreachable when the %d passing edge(s) are cut; %d return(s) propagate the error itself", len(eff), len(edges), prop))
	return true
}

// ---------- disjunctive path obligations ----------

// fUnreachableUnless records one obligation: from `from` (nil = entry), with
// the passing edges of every guard cut and execution stopping at stop
// instructions, no effect is reachable — i.e. every effect is justified by at
// least one of the guards / stop instructions on every path.
func (c *Ctx) fUnreachableUnless(rule, construct string, fn *ssa.Function, from ssa.Instruction, effects []ssa.Instruction, effName string, guards []Guard, stop func(ssa.Instruction) bool, what string) bool {
	c.NoteFn(fnName(fn))
	if len(effects) == 0 {
		c.Unk(rule, construct, c.Pos(fn.Pos()), "effect "+effName+" not found in "+fnName(fn)+": the rule no longer sees its site")
		return false
	}
	var cut []Edge
	names := ""
	for _, g := range guards {
		e, n := PassEdges(fn, g)
		cut = append(cut, e...)
		if n > 0 {
			if names != "" {
				names += ", "
			}
			names += g.Name
		}
	}
	r := fReachFrom(fn, from, cut, stop)
	for _, e := range effects {
		if r.Reaches(e) && !(stop != nil && stop(e)) {
			c.Bad(rule, construct, c.Pos(e.Pos()), fmt.Sprintf("%s in %s is reachable without %s (recognised well-formed guards: %s); path: %s", effName, fnName(fn), what, names, r.PathTo(c.Program, e)))
			return false
		}
	}
	c.Ok(rule, construct, c.Pos(effects[0].Pos()), fmt.Sprintf("%d %s site(s) unreachable once the passing edges of {%s} are cut", len(effects), effName, names))
	c.NoteSites(len(effects))
	return true
}

// ---------- counters and interval guards ----------

// fCounterAdds: v is a counter — its definition tree consists only of phis,
// `x + 1` and the constant 0. Returns the increments.
func fCounterAdds(v ssa.Value) ([]*ssa.BinOp, bool) {
	seen := map[ssa.Value]bool{}
	var adds []*ssa.BinOp
	ok := true
	var rec func(v ssa.Value)
	rec = func(v ssa.Value) {
		if seen[v] || !ok {
			return
		}
		seen[v] = true
		switch x := v.(type) {
		case *ssa.Phi:
			for _, e := range x.Edges {
				rec(e)
			}
		case *ssa.BinOp:
			if x.Op == token.ADD && IsConstInt(1)(x.Y) {
				adds = append(adds, x)
				rec(x.X)
				return
			}
			ok = false
		case *ssa.Const:
			if !IsConstInt(0)(x) {
				ok = false
			}
		default:
			ok = false
		}
	}
	rec(v)
	return adds, ok && len(adds) > 0
}

func fConstIntOf(v ssa.Value) (int64, bool) {
	k, ok := strip(v).(*ssa.Const)
	if !ok || k.Value == nil || k.Value.Kind() != constant.Int {
		return 0, false
	}
	return constant.Int64Val(k.Value)
}

// fGRange: guard "lo <= n <= hi" (hi < 0: unbounded) for a non-negative
// integer n matched by isN, compared against an integer constant in any of
// the six relational forms and either operand order. The passing edge is the
// one on which the comparison implies the range.
func fGRange(name string, isN VM, lo, hi int64) Guard {
	within := func(a, b int64) bool { // [a,b] (b<0 = inf) ⊆ [lo,hi]
		if a < lo {
			return false
		}
		if hi < 0 {
			return true
		}
		return b >= 0 && b <= hi
	}
	return Guard{Name: name, Match: func(cond ssa.Value) (bool, bool) {
		bo, ok := cond.(*ssa.BinOp)
		if !ok {
			return false, false
		}
		op := bo.Op
		var k int64
		if kk, isK := fConstIntOf(bo.Y); isK && isN(bo.X) {
			k = kk
		} else if kk, isK := fConstIntOf(bo.X); isK && isN(bo.Y) {
			k = kk
			op = mirrorOp(op)
		} else {
			return false, false
		}
		var t, f [2]int64 // intervals on the true / false edge over [0,inf)
		all := [2]int64{0, -1}
		switch op {
		case token.EQL:
			t = [2]int64{k, k}
			f = all
			if k == 0 {
				f = [2]int64{1, -1}
			}
		case token.NEQ:
			f = [2]int64{k, k}
			t = all
			if k == 0 {
				t = [2]int64{1, -1}
			}
		case token.LSS:
			t, f = [2]int64{0, k - 1}, [2]int64{k, -1}
		case token.LEQ:
			t, f = [2]int64{0, k}, [2]int64{k + 1, -1}
		case token.GTR:
			t, f = [2]int64{k + 1, -1}, [2]int64{0, k}
		case token.GEQ:
			t, f = [2]int64{k, -1}, [2]int64{0, k - 1}
		default:
			return false, false
		}
		if within(t[0], t[1]) {
			return true, true
		}
		if within(f[0], f[1]) {
			return true, false
		}
		return false, false
	}}
}

// fIsZeroConst: the zero value constant of an aggregate or basic type.
func fIsZeroConst(v ssa.Value) bool {
	k, ok := strip(v).(*ssa.Const)
	if !ok {
		return false
	}
	if k.Value == nil {
		return true
	}
	if n, isInt := fConstIntOf(k); isInt {
		return n == 0
	}
	return false
}

// fLenOf: v is len(x).
func fLenOf(v ssa.Value) (ssa.Value, bool) {
	call, ok := v.(*ssa.Call)
	if !ok {
		return nil, false
	}
	b, ok := call.Common().Value.(*ssa.Builtin)
	if !ok || b.Name() != "len" || len(call.Common().Args) != 1 {
		return nil, false
	}
	return call.Common().Args[0], true
}

// fEdgeIndex: index of succ among b's successors, -1 if absent.
func fEdgeIndex(b, succ *ssa.BasicBlock) int {
	for i, s := range b.Succs {
		if s == succ {
			return i
		}
	}
	return -1
}

// fBranchInto: block b has the single predecessor p, which ends in an If;
// returns the normalised condition and the truth value of it on the edge p->b.
func fBranchInto(b *ssa.BasicBlock) (cond ssa.Value, val bool, ok bool) {
	if len(b.Preds) != 1 {
		return nil, false, false
	}
	p := b.Preds[0]
	iff, isIf := p.Instrs[len(p.Instrs)-1].(*ssa.If)
	if !isIf || p.Succs[0] == p.Succs[1] {
		return nil, false, false
	}
	cnd, neg := condOf(iff.Cond)
	val = fEdgeIndex(p, b) == 0
	if neg {
		val = !val
	}
	return cnd, val, true
}

// fNilResultReturns: returns of fn whose result idx is the nil constant.
func fNilResultReturns(fn *ssa.Function, idx int) []ssa.Instruction {
	var out []ssa.Instruction
	for _, r := range fReturnsOf(fn) {
		if idx < len(r.Results) && IsNil(resolveLocal(r.Results[idx], r)) {
			out = append(out, r)
		}
	}
	return out
}

// fRootPath is fRoot that also reports the struct fields selected on the way.
func fRootPath(v ssa.Value) (ssa.Value, []*types.Var) {
	var path []*types.Var
	for i := 0; i < 14; i++ {
		v = strip(v)
		w := fLocal(v)
		if w != v {
			v = w
			continue
		}
		switch x := v.(type) {
		case *ssa.UnOp:
			if x.Op == token.MUL {
				v = x.X
				continue
			}
		case *ssa.Alloc:
			if st := localStores(x); len(st) == 1 {
				v = st[0]
				continue
			}
		case *ssa.FieldAddr:
			path = append(path, structField(x.X.Type(), x.Field))
			v = x.X
			continue
		case *ssa.Field:
			path = append(path, structField(x.X.Type(), x.Field))
			v = x.X
			continue
		}
		return v, path
	}
	return v, path
}

// fNorm follows loads of locals to the store that reaches them (same block or
// single-predecessor chain), repeatedly, and strips conversions.
func fNorm(v ssa.Value) ssa.Value {
	for i := 0; i < 6; i++ {
		w := strip(resolveLocal(strip(v), nil))
		if w == v {
			return v
		}
		v = w
	}
	return v
}

// fComponents lists the values stored into local a as a whole or field-wise.
func fComponents(a *ssa.Alloc) []ssa.Value {
	var out []ssa.Value
	for _, r := range *a.Referrers() {
		switch x := r.(type) {
		case *ssa.Store:
			if x.Addr == ssa.Value(a) {
				out = append(out, x.Val)
			}
		case *ssa.FieldAddr:
			for _, r2 := range *x.Referrers() {
				if st, ok := r2.(*ssa.Store); ok && st.Addr == ssa.Value(x) {
					out = append(out, st.Val)
				}
			}
		}
	}
	return out
}

// fIsFieldLoad: v is (a conversion of) the plain value of field f — a load of
// &x.f or a Field extraction — with no arithmetic, slicing or call in between.
func fIsFieldLoad(v ssa.Value, f *types.Var) bool {
	v = fLocal(strip(v))
	switch x := v.(type) {
	case *ssa.UnOp:
		if x.Op != token.MUL {
			return false
		}
		fa, ok := x.X.(*ssa.FieldAddr)
		return ok && structField(fa.X.Type(), fa.Field) == f
	case *ssa.Field:
		return structField(x.X.Type(), x.Field) == f
	}
	return false
}

// ---------- loops ----------

// fIndexWalk describes an index that visits 0,1,2,… : idx is phi(0, phi+1), or
// phi+1 with phi(-1, phi+1) (go/ssa's range loops). Returns the phi.
func fIndexWalk(idx ssa.Value) (*ssa.Phi, bool) {
	var phi *ssa.Phi
	first := int64(0)
	switch x := idx.(type) {
	case *ssa.BinOp:
		if x.Op == token.ADD && IsConstInt(1)(x.Y) {
			phi, _ = x.X.(*ssa.Phi)
			first = -1
		}
	case *ssa.Phi:
		phi = x
	}
	if phi == nil || len(phi.Edges) < 2 {
		return nil, false
	}
	nFirst, nStep := 0, 0
	for _, o := range phi.Edges {
		switch {
		case IsConstInt(first)(o):
			nFirst++
		case first == -1 && o == idx:
			nStep++
		default:
			if b2, isB := o.(*ssa.BinOp); isB && b2.Op == token.ADD && b2.X == ssa.Value(phi) && IsConstInt(1)(b2.Y) {
				nStep++
			}
		}
	}
	return phi, nFirst == 1 && nFirst+nStep == len(phi.Edges)
}

// fLoopBound finds the tests that bound the loop of index idx: an If
// `next < B` (B satisfying bound; next = the index value of the coming
// iteration, or the initial constant for the entry test of a rotated loop)
// located in the block of the index phi or in one of its predecessors.
// It returns the edges on which such a test leaves the loop.
func fLoopBound(fn *ssa.Function, idx ssa.Value, phi *ssa.Phi, bound VM) (bool, []Edge) {
	var exits []Edge
	found := false
	blocks := append([]*ssa.BasicBlock{phi.Block()}, phi.Block().Preds...)
	seen := map[*ssa.BasicBlock]bool{}
	isNext := func(v ssa.Value) bool {
		if v == idx && idx != ssa.Value(phi) {
			return true // range loop: idx = phi+1 is what is tested
		}
		if b2, isB := v.(*ssa.BinOp); isB && b2.Op == token.ADD && b2.X == ssa.Value(phi) && IsConstInt(1)(b2.Y) {
			return true
		}
		if idx == ssa.Value(phi) {
			for _, e := range phi.Edges { // entry test of a rotated loop: `init < B`
				if k, isK := e.(*ssa.Const); isK && v == ssa.Value(k) {
					return true
				}
				if _, isK := e.(*ssa.Const); isK {
					if kv, isKv := v.(*ssa.Const); isKv && IsConstInt(0)(kv) && IsConstInt(0)(e) {
						return true
					}
				}
			}
		}
		return false
	}
	for _, b := range blocks {
		if seen[b] {
			continue
		}
		seen[b] = true
		iff, ok := b.Instrs[len(b.Instrs)-1].(*ssa.If)
		if !ok {
			continue
		}
		bo, ok := iff.Cond.(*ssa.BinOp)
		if !ok || bo.Op != token.LSS || !isNext(bo.X) || !bound(bo.Y) {
			continue
		}
		found = true
		exits = append(exits, Edge{b, 1})
	}
	return found, exits
}

// fNoEarlyExit records one obligation: once an iteration has fetched its
// element, none of the exits is reachable except through the loop's own bound
// test (no break / early success out of the middle of the walk).
func (c *Ctx) fNoEarlyExit(rule, construct string, fn *ssa.Function, elem ssa.Instruction, phi *ssa.Phi, boundExits []Edge, exits []ssa.Instruction) bool {
	cut := append([]Edge{}, boundExits...)
	for _, p := range phi.Block().Preds {
		cut = append(cut, Edge{p, fEdgeIndex(p, phi.Block())})
	}
	r := fReachFrom(fn, elem, cut, nil)
	for _, e := range exits {
		if r.Reaches(e) {
			c.Bad(rule, construct, c.Pos(e.Pos()), "in "+fnName(fn)+" the success exit is reachable from inside an iteration without going through the loop's bound test (the remaining elements would be skipped); path: "+r.PathTo(c.Program, e))
			return false
		}
	}
	c.Ok(rule, construct, c.Pos(elem.Pos()), "the walk is left towards the success exit only by its bound test")
	return true
}

// fIteration records one obligation about a loop: from the instruction that
// fetches this iteration's element, with the guards' passing edges cut and
// execution stopping at stop instructions, neither the next iteration (the
// block of the index phi) nor any of the exits is reachable.
func (c *Ctx) fIteration(rule, construct string, fn *ssa.Function, elem ssa.Instruction, phi *ssa.Phi, guards []Guard, stop func(ssa.Instruction) bool, exits []ssa.Instruction, what string) bool {
	var cut []Edge
	names := ""
	for _, g := range guards {
		e, n := PassEdges(fn, g)
		cut = append(cut, e...)
		if n > 0 {
			if names != "" {
				names += ", "
			}
			names += g.Name
		}
	}
	r := fReachFrom(fn, elem, cut, stop)
	if r.ReachesBlockStart(phi.Block()) {
		c.Bad(rule, construct, c.Pos(elem.Pos()), "in "+fnName(fn)+" an iteration can proceed to the next element without "+what+" (recognised: "+names+")")
		return false
	}
	for _, e := range exits {
		if r.Reaches(e) {
			c.Bad(rule, construct, c.Pos(e.Pos()), "in "+fnName(fn)+" an iteration can reach the success exit without "+what+" (recognised: "+names+"); path: "+r.PathTo(c.Program, e))
			return false
		}
	}
	c.Ok(rule, construct, c.Pos(elem.Pos()), "no iteration completes without "+what)
	return true
}

// fRecovers reports whether some deferred call of fn may call recover(), i.e.
// whether fn's synthetic recover block (which returns the zero / named
// results after a recovered panic) is a real exit.
func fRecovers(fn *ssa.Function) bool {
	for _, b := range fn.Blocks {
		for _, in := range b.Instrs {
			d, ok := in.(*ssa.Defer)
			if !ok {
				continue
			}
			var callee *ssa.Function
			switch v := d.Call.Value.(type) {
			case *ssa.MakeClosure:
				callee, _ = v.Fn.(*ssa.Function)
			case *ssa.Function:
				callee = v
			}
			if callee == nil {
				if d.Call.IsInvoke() {
					continue // interface method (Unlock etc.): cannot recover on our behalf
				}
				if sc := d.Call.StaticCallee(); sc != nil {
					callee = sc
				}
			}
			if callee == nil || callee.Blocks == nil {
				continue
			}
			for _, f := range withAnon(callee) {
				for _, cb := range f.Blocks {
					for _, ci := range cb.Instrs {
						if call, isCall := ci.(*ssa.Call); isCall {
							if bi, isB := call.Common().Value.(*ssa.Builtin); isB && bi.Name() == "recover" {
								return true
							}
						}
					}
				}
			}
		}
	}
	return false
}

// fLiveReturn: a return that is not in a dead synthetic recover block.
func fLiveReturn(fn *ssa.Function, ret ssa.Instruction) bool {
	if fn.Recover != nil && ret.Block() == fn.Recover {
		return fRecovers(fn)
	}
	return true
}
