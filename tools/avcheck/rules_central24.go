package main

import (
	"go/token"
	"go/types"

	"golang.org/x/tools/go/ssa"
)

// R31.8 (after seed C31-2): the opcode implementations are not the only readers
// of an instruction's immediates. OpDetails.Cost indexes program[pc+1+i] for
// opcodes whose cost depends on an immediate field, and checkStep's per-opcode
// check functions read them too. The "program ends without immediate value(s)"
// test must therefore come before those readers as well, or a program
// truncated after such an opcode ends in a recovered Go panic.
func init() {
	extend("C31", Extension{
		Run:         ruleImmediatesCheckedBeforeEveryReader,
		Explanation: "R31.8 (immediates are bounds-checked before every reader, not only before the opcode runs): in EvalContext.step and EvalContext.checkStep every call of OpDetails.Cost (which reads program[pc+1+i] for field-priced opcodes) and, in checkStep, the call through OpDetails.check are reachable only past the test cx.pc+Size <= len(cx.program) (Size==0 is the only bypass), and OpDetails.Cost is called from nowhere else.",
		Floor:       map[string]int{"R31.8": 4},
		Patterns:    []string{"./data/transactions/logic"},
	})
}

func ruleImmediatesCheckedBeforeEveryReader(c *Ctx) {
	const rule = "R31.8"
	const lg = "data/transactions/logic."
	costF := c.Func(lg + "OpDetails.Cost")
	fSize := c.Field(lg + "OpDetails.Size")
	fPc := c.Field(lg + "EvalContext.pc")
	fProgram := c.Field(lg + "EvalContext.program")
	fCheck := c.Field(lg + "OpDetails.check")
	sizeTest := GCmp("cx.pc + Size <= len(cx.program)", token.LEQ,
		func(v ssa.Value) bool { return Mentions(v, fPc, 5) && Mentions(v, fSize, 6) },
		func(v ssa.Value) bool {
			x, ok := lenOf(strip(v))
			return ok && Mentions(x, fProgram, 4)
		})
	bypass := GCmp("Size == 0", token.EQL, func(v ssa.Value) bool { return Mentions(v, fSize, 6) }, IsConstInt(0))
	owners := map[string]bool{lg + "EvalContext.step": true, lg + "EvalContext.checkStep": true}
	// wrappers: functions of the package (other than the owners) that call Cost, directly or through one more wrapper;
	// a call of a wrapper is a reader of the immediates just like a call of Cost itself
	readers := []*types.Func{costF}
	wrapper := map[string]bool{}
	for round := 0; round < 2; round++ {
		for _, fn := range c.funcsOf(Mod + "/data/transactions/logic") {
			if owners[fnName(fn)] || wrapper[fnName(fn)] || fn.Object() == nil {
				continue
			}
			if len(CallsTo(fn, false, readers...)) > 0 {
				if fo, ok := fn.Object().(*types.Func); ok {
					wrapper[fnName(fn)] = true
					readers = append(readers, fo)
				}
			}
		}
	}
	for spec := range owners {
		fn := c.Fn(spec)
		var eff []ssa.Instruction
		for _, call := range CallsTo(fn, false, readers...) {
			eff = append(eff, call)
		}
		if spec == lg+"EvalContext.checkStep" {
			for _, b := range fn.Blocks {
				for _, in := range b.Instrs {
					call, ok := in.(*ssa.Call)
					if !ok || call.Common().IsInvoke() || call.Common().StaticCallee() != nil {
						continue
					}
					if Mentions(call.Common().Value, fCheck, 6) {
						eff = append(eff, in)
					}
				}
			}
		}
		c.MustGuard(MustGuardSpec{Rule: rule, Fn: fn, Effects: eff, EffName: "readers of the immediates (OpDetails.Cost, OpDetails.check)", Guards: []Guard{sizeTest}, Bypass: []Guard{bypass}})
	}
	// nobody else prices an instruction
	n := 0
	for _, fn := range c.funcsOf(Mod + "/data/transactions/logic") {
		for _, call := range CallsTo(fn, false, readers...) {
			n++
			c.Check(owners[fnName(fn)] || wrapper[fnName(fn)], rule, fnName(fn)+":call OpDetails.Cost", c.Pos(call.Pos()), "OpDetails.Cost indexes the program at pc+1+i; it is called only where the immediates were bounds-checked")
		}
	}
	if n == 0 {
		c.Unk(rule, lg+"OpDetails.Cost:callers", "-", "no call of OpDetails.Cost found")
	}
}
