package main

import (
	"golang.org/x/tools/go/ssa"
)

// R47.3 (after seed C47-1): the key-value backend emulates SQL's
// "GROUP BY address … max(updround)" by iterating rows newest-first and
// remembering, per address, that it has been decided. Every row that reaches
// the decision point must record its address in one of those per-address maps
// before the next row is fetched — otherwise an older row of the same address
// is examined later and can produce an answer SQLite would never give.
func init() {
	extend("C47", Extension{
		Run:         ruleKvGroupByNewestRowDecides,
		Explanation: "R47.3 (newest row decides, the KV emulation of GROUP BY address / max(updround)): in every generickv reader function that de-duplicates rows through local per-key maps (a map that is both looked up and updated inside a KvIter loop), no path from reading the row's value (iter.Value()) to fetching the next row (iter.Next()) skips recording the key in one of those maps, error returns aside — so an older row of an address whose newest row was already judged can never be reported.",
		Floor:       map[string]int{"R47.3": 1},
	})
}

func ruleKvGroupByNewestRowDecides(c *Ctx) {
	const rule = "R47.3"
	next := c.Func("ledger/store/trackerdb/generickv.KvIter.Next")
	value := c.Func("ledger/store/trackerdb/generickv.KvIter.Value")
	n := 0
	for _, fn := range c.funcsOf(Mod + "/ledger/store/trackerdb/generickv") {
		nexts := CallsTo(fn, false, next)
		values := CallsTo(fn, false, value)
		if len(nexts) == 0 || len(values) == 0 {
			continue
		}
		// local maps that are both looked up and updated: the per-key decision maps
		dedup := map[ssa.Value]bool{}
		for _, b := range fn.Blocks {
			for _, in := range b.Instrs {
				mm, ok := in.(*ssa.MakeMap)
				if !ok {
					continue
				}
				var hasLookup, hasUpdate bool
				for _, r := range *mm.Referrers() {
					switch x := r.(type) {
					case *ssa.Lookup:
						if x.X == ssa.Value(mm) {
							hasLookup = true
						}
					case *ssa.MapUpdate:
						if x.Map == ssa.Value(mm) {
							hasUpdate = true
						}
					}
				}
				if hasLookup && hasUpdate {
					dedup[mm] = true
				}
			}
		}
		// named result maps (e.g. `data`) live in allocs when returned by name: follow loads
		for _, b := range fn.Blocks {
			for _, in := range b.Instrs {
				if mu, ok := in.(*ssa.MapUpdate); ok {
					if u, isLoad := mu.Map.(*ssa.UnOp); isLoad {
						if a, isAlloc := u.X.(*ssa.Alloc); isAlloc {
							looked := false
							for _, r := range *a.Referrers() {
								if ld, ok := r.(*ssa.UnOp); ok {
									for _, r2 := range *ld.Referrers() {
										if lk, ok := r2.(*ssa.Lookup); ok && lk.X == ssa.Value(ld) {
											looked = true
										}
									}
								}
							}
							if looked {
								dedup[a] = true
							}
						}
					}
				}
			}
		}
		if len(dedup) == 0 {
			continue
		}
		isDecision := func(in ssa.Instruction) bool {
			mu, ok := in.(*ssa.MapUpdate)
			if !ok {
				return false
			}
			if dedup[mu.Map] {
				return true
			}
			if u, isLoad := mu.Map.(*ssa.UnOp); isLoad && dedup[u.X] {
				return true
			}
			return false
		}
		n++
		ok := true
		var where ssa.Instruction
		for _, v := range values {
			// from just after the value read
			b := v.Block()
			after, stopped := false, false
			for _, in := range b.Instrs {
				if in == ssa.Instruction(v) {
					after = true
					continue
				}
				if after && (isDecision(in) || noReturnCall(in)) {
					stopped = true
					break
				}
			}
			if stopped {
				continue
			}
			// the key may just as well be recorded BEFORE the value is read, in the same iteration:
			// a decision-map update that dominates the read and is itself dominated by a Next() call
			early := false
			for _, bb := range fn.Blocks {
				for _, in := range bb.Instrs {
					if !isDecision(in) || !Dominates(in, v) {
						continue
					}
					for _, nx := range nexts {
						if Dominates(nx, in) {
							early = true
						}
					}
				}
			}
			if early {
				continue
			}
			for _, s := range b.Succs {
				r := NewReachFromBlock(s, nil, isDecision)
				for _, nx := range nexts {
					if r.Reaches(nx) {
						ok = false
						where = nx
					}
				}
			}
		}
		pos := c.Pos(fn.Pos())
		if where != nil {
			pos = c.Pos(values[0].Pos())
		}
		c.Check(ok, rule, fnName(fn)+":every examined row records its key before the next row", pos,
			"between reading a row's value and fetching the next row the key is always entered into one of the per-key decision maps (the emulation of GROUP BY … max(updround) lets only the newest row of a key decide)")
	}
	if n == 0 {
		c.Unk(rule, "generickv de-duplicating iterators", "-", "no KvIter loop with per-key decision maps found")
	}
}
