package main

// Helpers of contributor E (rules C22, C23, C25, C26, C27). All names carry
// the prefix e/E to avoid collisions with other contributors' helpers.

import (
	"fmt"
	"go/constant"
	"go/token"
	"go/types"
	"os"

	"golang.org/x/tools/go/ssa"
)

// ---------- forward reachability from an instruction ----------

// eFwd is the set of instructions that may execute strictly after a start
// instruction.
type eFwd struct{ seen map[ssa.Instruction]bool }

// eReachFrom computes the instructions reachable strictly after from.
// Instructions satisfying stop are reached but paths end there; calls that
// never return end paths; cut edges are not traversed.
func eReachFrom(from ssa.Instruction, stop func(ssa.Instruction) bool, cut []Edge) *eFwd {
	r := &eFwd{seen: map[ssa.Instruction]bool{}}
	cutSet := map[Edge]bool{}
	for _, e := range cut {
		cutSet[e] = true
	}
	b := from.Block()
	if b == nil {
		return r
	}
	visited := map[*ssa.BasicBlock]bool{}
	var work []*ssa.BasicBlock
	// scan runs the instructions of blk from index i; returns true when the
	// end of the block is reached (successors must be visited).
	scan := func(blk *ssa.BasicBlock, i int) bool {
		for ; i < len(blk.Instrs); i++ {
			in := blk.Instrs[i]
			r.seen[in] = true
			if noReturnCall(in) || (stop != nil && stop(in)) {
				return false
			}
		}
		return true
	}
	push := func(blk *ssa.BasicBlock) {
		for i, s := range blk.Succs {
			if cutSet[Edge{blk, i}] {
				continue
			}
			if !visited[s] {
				visited[s] = true
				work = append(work, s)
			}
		}
	}
	idx := -1
	for i, in := range b.Instrs {
		if in == from {
			idx = i
		}
	}
	if idx < 0 {
		return r
	}
	if scan(b, idx+1) {
		push(b)
	}
	for len(work) > 0 {
		blk := work[0]
		work = work[1:]
		if scan(blk, 0) {
			push(blk)
		}
	}
	return r
}

// Has reports whether in may execute after the start instruction.
func (r *eFwd) Has(in ssa.Instruction) bool { return r.seen[in] }

// eOnlyThrough decides: every path from `from` to any instruction of targets
// passes through one of via (via instructions end the search).
func eOnlyThrough(from ssa.Instruction, targets []ssa.Instruction, via map[ssa.Instruction]bool, cut []Edge) (ok bool, witness ssa.Instruction) {
	r := eReachFrom(from, func(in ssa.Instruction) bool { return via[in] }, cut)
	for _, t := range targets {
		if via[t] {
			continue
		}
		if r.Has(t) {
			return false, t
		}
	}
	return true, nil
}

// ---------- access paths and value equality ----------

// ePath is a memory or value access path: root value plus field indices.
type ePath struct {
	root   ssa.Value
	fields []int
	mem    bool            // the value is loaded from memory rooted at root (an Alloc or a pointer)
	load   ssa.Instruction // the load instruction for mem paths
}

// eAddrPath decomposes an address into root + field chain.
func eAddrPath(a ssa.Value) (ssa.Value, []int) {
	var rev []int
	for {
		fa, ok := a.(*ssa.FieldAddr)
		if !ok {
			break
		}
		rev = append(rev, fa.Field)
		a = fa.X
	}
	out := make([]int, len(rev))
	for i := range rev {
		out[i] = rev[len(rev)-1-i]
	}
	return a, out
}

// ePathOf returns the access path of v when v is a load through field
// addresses or a chain of Field extractions.
func ePathOf(v ssa.Value) (ePath, bool) {
	switch x := v.(type) {
	case *ssa.UnOp:
		if x.Op != token.MUL {
			return ePath{}, false
		}
		root, fields := eAddrPath(x.X)
		return ePath{root: root, fields: fields, mem: true, load: x}, true
	case *ssa.Field:
		var rev []int
		var cur ssa.Value = x
		for {
			f, ok := cur.(*ssa.Field)
			if !ok {
				break
			}
			rev = append(rev, f.Field)
			cur = f.X
		}
		out := make([]int, len(rev))
		for i := range rev {
			out[i] = rev[len(rev)-1-i]
		}
		if p, ok := ePathOf(cur); ok && p.mem {
			p.fields = append(append([]int{}, p.fields...), out...)
			return p, true
		}
		return ePath{root: cur, fields: out}, true
	}
	return ePath{}, false
}

// eAllocWriters returns the instructions that may write memory rooted at the
// Alloc a (stores through derived field addresses, calls receiving a derived
// address). escaped is true when a derived address flows somewhere the
// analysis does not follow (stored, captured, phi, returned): then nothing can
// be concluded.
func eAllocWriters(a *ssa.Alloc) (writers []ssa.Instruction, escaped bool) {
	seen := map[ssa.Value]bool{}
	var visit func(addr ssa.Value)
	visit = func(addr ssa.Value) {
		if seen[addr] {
			return
		}
		seen[addr] = true
		refs := addr.Referrers()
		if refs == nil {
			return
		}
		for _, r := range *refs {
			switch x := r.(type) {
			case *ssa.Store:
				if x.Addr == addr {
					writers = append(writers, x)
				}
				if x.Val == addr {
					escaped = true
				}
			case *ssa.UnOp:
				// load
			case *ssa.FieldAddr:
				visit(x)
			case *ssa.IndexAddr:
				visit(x)
			case *ssa.DebugRef:
			case ssa.CallInstruction:
				writers = append(writers, x)
			default:
				escaped = true
			}
		}
	}
	visit(a)
	return
}

// eStableBetween reports whether memory rooted at root cannot be written
// between the executions of instructions a and b (in either order).
func eStableBetween(root ssa.Value, a, b ssa.Instruction) bool {
	al, ok := root.(*ssa.Alloc)
	if !ok {
		return false
	}
	ws, esc := eAllocWriters(al)
	if esc {
		return false
	}
	between := func(x, y ssa.Instruction) bool {
		fwd := eReachFrom(x, func(in ssa.Instruction) bool { return in == y }, nil)
		for _, w := range ws {
			if !fwd.Has(w) || w == y {
				continue
			}
			// w may run after x (before reaching y): does y follow w?
			if eReachFrom(w, nil, nil).Has(y) {
				return true
			}
		}
		return false
	}
	return !between(a, b) && !between(b, a)
}

// eSameVal decides that two SSA values denote the same runtime value: the
// same SSA value, equal constants, equal conversions of equal values, or loads
// of the same access path of one local with no possible intervening write.
func eSameVal(a, b ssa.Value) bool { return eSameValD(a, b, 0) }

func eSameValD(a, b ssa.Value, d int) bool {
	if a == nil || b == nil || d > 6 {
		return false
	}
	if a == b {
		return true
	}
	switch x := a.(type) {
	case *ssa.Const:
		y, ok := b.(*ssa.Const)
		if !ok || !types.Identical(x.Type(), y.Type()) {
			return false
		}
		if x.Value == nil || y.Value == nil {
			return x.Value == nil && y.Value == nil
		}
		return constant.Compare(x.Value, token.EQL, y.Value)
	case *ssa.ChangeType:
		y, ok := b.(*ssa.ChangeType)
		return ok && types.Identical(x.Type(), y.Type()) && eSameValD(x.X, y.X, d+1)
	case *ssa.Convert:
		y, ok := b.(*ssa.Convert)
		return ok && types.Identical(x.Type(), y.Type()) && eSameValD(x.X, y.X, d+1)
	}
	pa, ok1 := ePathOf(a)
	pb, ok2 := ePathOf(b)
	if !ok1 || !ok2 || pa.mem != pb.mem || len(pa.fields) != len(pb.fields) {
		return false
	}
	for i := range pa.fields {
		if pa.fields[i] != pb.fields[i] {
			return false
		}
	}
	if !pa.mem {
		return eSameValD(pa.root, pb.root, d+1)
	}
	if pa.root != pb.root {
		return false
	}
	return eStableBetween(pa.root, pa.load, pb.load)
}

// eWholeStores returns the values stored into the whole of local a (not into
// its fields).
func eWholeStores(a *ssa.Alloc) []*ssa.Store {
	var out []*ssa.Store
	for _, r := range *a.Referrers() {
		if st, ok := r.(*ssa.Store); ok && st.Addr == ssa.Value(a) {
			out = append(out, st)
		}
	}
	return out
}

// eFieldStores returns the stores into (sub)fields of local a, with the field
// object of the outermost selected field.
func eFieldStores(a *ssa.Alloc) (stores []*ssa.Store, flds []*types.Var) {
	var visit func(addr ssa.Value, top *types.Var)
	visit = func(addr ssa.Value, top *types.Var) {
		for _, r := range *addr.Referrers() {
			switch x := r.(type) {
			case *ssa.FieldAddr:
				t := top
				if t == nil {
					t = structField(x.X.Type(), x.Field)
				}
				visit(x, t)
			case *ssa.Store:
				if x.Addr == addr && top != nil {
					stores = append(stores, x)
					flds = append(flds, top)
				}
			}
		}
	}
	visit(a, nil)
	return
}

// eLoadedLocal returns the Alloc a value is a whole load of (v = *alloc).
func eLoadedLocal(v ssa.Value) (*ssa.Alloc, bool) {
	u, ok := v.(*ssa.UnOp)
	if !ok || u.Op != token.MUL {
		return nil, false
	}
	a, ok := u.X.(*ssa.Alloc)
	return a, ok
}

// eFieldLoadLocal returns (alloc, field) when v loads a direct field of a local.
func eFieldLoadLocal(v ssa.Value) (*ssa.Alloc, *types.Var, bool) {
	u, ok := v.(*ssa.UnOp)
	if !ok || u.Op != token.MUL {
		return nil, nil, false
	}
	fa, ok := u.X.(*ssa.FieldAddr)
	if !ok {
		return nil, nil, false
	}
	a, ok := fa.X.(*ssa.Alloc)
	if !ok {
		return nil, nil, false
	}
	return a, structField(fa.X.Type(), fa.Field), true
}

// eExtractOf reports whether v is result #idx of call.
func eExtractOf(v ssa.Value, call ssa.Value, idx int) bool {
	e, ok := v.(*ssa.Extract)
	return ok && e.Tuple == call && e.Index == idx
}

// eCallOfExtract returns the call whose result #idx v is (v = extract call #idx),
// or, for single-result calls with idx==0, the call itself.
func eCallOfExtract(v ssa.Value, idx int) (*ssa.Call, bool) {
	if e, ok := v.(*ssa.Extract); ok && e.Index == idx {
		c, ok := e.Tuple.(*ssa.Call)
		return c, ok
	}
	if c, ok := v.(*ssa.Call); ok && idx == 0 && c.Common().Signature().Results().Len() == 1 {
		return c, true
	}
	return nil, false
}

// eArgs returns the user-visible arguments of a call (without the receiver for
// statically dispatched methods, as for invoke-mode calls).
func eArgs(cc *ssa.CallCommon) []ssa.Value {
	if cc.IsInvoke() {
		return cc.Args
	}
	if sig := cc.Signature(); sig != nil && sig.Recv() != nil && len(cc.Args) > 0 {
		return cc.Args[1:]
	}
	return cc.Args
}

// eRecv returns the receiver value of a method call, or nil.
func eRecv(cc *ssa.CallCommon) ssa.Value {
	if cc.IsInvoke() {
		return cc.Value
	}
	if sig := cc.Signature(); sig != nil && sig.Recv() != nil && len(cc.Args) > 0 {
		return cc.Args[0]
	}
	return nil
}

// eParam returns the named parameter of fn (aborts the property when missing).
func (c *Ctx) eParam(fn *ssa.Function, name string) *ssa.Parameter {
	for _, p := range fn.Params {
		if p.Name() == name {
			return p
		}
	}
	panic(abortRule("parameter " + name + " of " + fnName(fn) + " not found"))
}

// eParamN returns parameter #i counted without the receiver.
func eParamN(fn *ssa.Function, i int) *ssa.Parameter {
	if fn.Signature.Recv() != nil {
		i++
	}
	if i < len(fn.Params) {
		return fn.Params[i]
	}
	return nil
}

// eIsParamVal reports whether v is parameter p, or a load of the local p was
// spilled into (whose only whole store is p itself and nothing else writes it).
func eIsParamVal(v ssa.Value, p *ssa.Parameter) bool {
	v = strip(v)
	if v == ssa.Value(p) {
		return true
	}
	if a, ok := eLoadedLocal(v); ok {
		ws, esc := eAllocWriters(a)
		if esc || len(ws) != 1 {
			return false
		}
		st, ok := ws[0].(*ssa.Store)
		return ok && st.Addr == ssa.Value(a) && st.Val == ssa.Value(p)
	}
	return false
}

// eBlockEnd returns the last instruction of a block.
func eBlockEnd(b *ssa.BasicBlock) ssa.Instruction { return b.Instrs[len(b.Instrs)-1] }

// eGuardedBlock decides: block b is unreachable from entry when the passing
// edges of g (and of bypass guards) are cut. n is the number of branches g matched.
func eGuardedBlock(fn *ssa.Function, b *ssa.BasicBlock, g Guard, bypass ...Guard) (ok bool, n int) {
	edges, n := PassEdges(fn, g)
	for _, bg := range bypass {
		e, _ := PassEdges(fn, bg)
		edges = append(edges, e...)
	}
	if n == 0 {
		return false, 0
	}
	r := NewReach(fn, edges, nil)
	return !r.Reaches(eBlockEnd(b)), n
}

// eIsZeroCall matches a call to method IsZero/IsEmpty (named mth) whose
// receiver satisfies vm.
func eMethodCallOn(mth *types.Func, vm VM) VM {
	return func(v ssa.Value) bool {
		call, ok := v.(*ssa.Call)
		if !ok || !sameFunc(calleeOf(call.Common()), mth) {
			return false
		}
		r := eRecv(call.Common())
		return r != nil && vm(r)
	}
}

// eAll is the conjunction of value matchers.
func eAll(vms ...VM) VM {
	return func(v ssa.Value) bool {
		for _, m := range vms {
			if !m(v) {
				return false
			}
		}
		return true
	}
}

// eNot negates a value matcher.
func eNot(vm VM) VM { return func(v ssa.Value) bool { return !vm(v) } }

// eReturnsOf lists the Return instructions of fn.
func eReturnsOf(fn *ssa.Function) []*ssa.Return {
	var out []*ssa.Return
	for _, b := range fn.Blocks {
		if len(b.Instrs) == 0 {
			continue
		}
		if r, ok := eBlockEnd(b).(*ssa.Return); ok {
			out = append(out, r)
		}
	}
	return out
}

// eCallsToIn returns the *ssa.Call instructions (not go/defer) to targets in fn.
func eCallsToIn(fn *ssa.Function, nested bool, targets ...*types.Func) []*ssa.Call {
	var out []*ssa.Call
	for _, ci := range CallsTo(fn, nested, targets...) {
		if c, ok := ci.(*ssa.Call); ok {
			out = append(out, c)
		}
	}
	return out
}

// eInstrsOfCalls converts.
func eInstrsOfCalls(cs []*ssa.Call) []ssa.Instruction {
	out := make([]ssa.Instruction, len(cs))
	for i, c := range cs {
		out[i] = c
	}
	return out
}

// eNonNilByTest reports whether error value v is known non-nil in block at
// because a test v != nil (on its passing edge) dominates at.
func eNonNilByTest(v ssa.Value, at *ssa.BasicBlock) bool {
	if at == nil || v == nil {
		return false
	}
	for _, b := range at.Parent().Blocks {
		iff, ok := eBlockEnd(b).(*ssa.If)
		if !ok {
			continue
		}
		cond, neg := condOf(iff.Cond)
		bo, ok := cond.(*ssa.BinOp)
		if !ok || (bo.Op != token.NEQ && bo.Op != token.EQL) {
			continue
		}
		var other ssa.Value
		if bo.X == v {
			other = bo.Y
		} else if bo.Y == v {
			other = bo.X
		} else {
			continue
		}
		if !IsNil(other) {
			continue
		}
		nonNilOnTrue := (bo.Op == token.NEQ) != neg
		succ := b.Succs[1]
		if nonNilOnTrue {
			succ = b.Succs[0]
		}
		if len(succ.Preds) == 1 && succ.Dominates(at) {
			return true
		}
	}
	return false
}

// eSuccessReturns is SuccessReturns with the dominating-test rule applied to
// every kind of value (the shared definitelyNonNil gives up on results of
// calls to functions with a body before trying the dominance test).
func eSuccessReturns(fn *ssa.Function) []ssa.Instruction {
	idx := errResultIndex(fn)
	var out []ssa.Instruction
	for _, ret := range eReturnsOf(fn) {
		if idx >= 0 && idx < len(ret.Results) {
			v := resolveLocal(ret.Results[idx], ret)
			if eNonNilByTest(v, ret.Block()) || definitelyNonNil(v, ret.Block(), 0) {
				continue
			}
		}
		out = append(out, ret)
	}
	return out
}

// eDump prints every obligation recorded so far when AVCHECK_E_DEBUG is set.
func eDump(c *Ctx) {
	if os.Getenv("AVCHECK_E_DEBUG") == "" {
		return
	}
	for _, o := range c.obs {
		fmt.Printf("    [%s] %s@%s at %s: %s\n", o.Verdict, o.Rule, o.Construct, o.Pos, o.Detail)
	}
}

// ---------- stores into locals by field path ----------

// eLeafStore is a store into a (nested) field of a local.
type eLeafStore struct {
	St   *ssa.Store
	Path []*types.Var // field objects from the local down to the stored field
}

// eLeafStores returns every store into a field path of local a.
func eLeafStores(a *ssa.Alloc) []eLeafStore {
	var out []eLeafStore
	var visit func(addr ssa.Value, path []*types.Var)
	visit = func(addr ssa.Value, path []*types.Var) {
		for _, r := range *addr.Referrers() {
			switch x := r.(type) {
			case *ssa.FieldAddr:
				if x.X == addr {
					visit(x, append(append([]*types.Var{}, path...), structField(x.X.Type(), x.Field)))
				}
			case *ssa.Store:
				if x.Addr == addr && len(path) > 0 {
					out = append(out, eLeafStore{x, path})
				}
			}
		}
	}
	visit(a, nil)
	return out
}

// eFieldPathOfAddr returns the field objects of an address chain and its root.
func eFieldPathOfAddr(addr ssa.Value) (root ssa.Value, path []*types.Var) {
	var rev []*types.Var
	for {
		fa, ok := addr.(*ssa.FieldAddr)
		if !ok {
			break
		}
		rev = append(rev, structField(fa.X.Type(), fa.Field))
		addr = fa.X
	}
	for i := len(rev) - 1; i >= 0; i-- {
		path = append(path, rev[i])
	}
	return addr, path
}

// eLoadPath returns root and field path of a load through field addresses.
func eLoadPath(v ssa.Value) (root ssa.Value, path []*types.Var, ok bool) {
	u, isU := v.(*ssa.UnOp)
	if !isU || u.Op != token.MUL {
		return nil, nil, false
	}
	root, path = eFieldPathOfAddr(u.X)
	return root, path, true
}

func eSamePath(a, b []*types.Var) bool {
	if len(a) != len(b) {
		return false
	}
	for i := range a {
		if a[i] != b[i] {
			return false
		}
	}
	return true
}

// eLastStoreBefore resolves a load of local field path to the value of the
// unique store to exactly that path which dominates the load with no other
// write to the local in between. nil when there is none.
func eLastStoreBefore(load ssa.Value) ssa.Value {
	u, ok := load.(*ssa.UnOp)
	if !ok || u.Op != token.MUL {
		return nil
	}
	root, path := eFieldPathOfAddr(u.X)
	al, ok := root.(*ssa.Alloc)
	if !ok {
		return nil
	}
	ws, esc := eAllocWriters(al)
	if esc {
		return nil
	}
	var best *ssa.Store
	for _, w := range ws {
		st, isSt := w.(*ssa.Store)
		if !isSt {
			continue
		}
		_, p := eFieldPathOfAddr(st.Addr)
		if !eSamePath(p, path) || !Dominates(st, u) {
			continue
		}
		clean := true
		fwd := eReachFrom(st, func(in ssa.Instruction) bool { return in == ssa.Instruction(u) }, nil)
		for _, w2 := range ws {
			if w2 == ssa.Instruction(st) || !fwd.Has(w2) {
				continue
			}
			if st2, isSt2 := w2.(*ssa.Store); isSt2 {
				// a store to a disjoint field path does not interfere
				_, p2 := eFieldPathOfAddr(st2.Addr)
				n := len(p2)
				if len(path) < n {
					n = len(path)
				}
				if !eSamePath(p2[:n], path[:n]) {
					continue
				}
			}
			if eReachFrom(w2, nil, nil).Has(u) {
				clean = false
			}
		}
		if clean {
			if best != nil {
				return nil
			}
			best = st
		}
	}
	if best == nil {
		return nil
	}
	return best.Val
}

// eLenTerms decomposes an integer expression built from len(x) terms,
// conversions and additions into the measured values; SSA values that are
// themselves such expressions are expanded. ok is false for anything else.
func eLenTerms(v ssa.Value) (terms []ssa.Value, ok bool) {
	switch x := v.(type) {
	case *ssa.Convert:
		return eLenTerms(x.X)
	case *ssa.ChangeType:
		return eLenTerms(x.X)
	case *ssa.BinOp:
		if x.Op != token.ADD {
			return nil, false
		}
		a, ok1 := eLenTerms(x.X)
		b, ok2 := eLenTerms(x.Y)
		return append(a, b...), ok1 && ok2
	case *ssa.Call:
		if s, isLen := lenOf(x); isLen {
			return []ssa.Value{s}, true
		}
	}
	return nil, false
}

// eIsExtFunc reports whether call resolves to function name of package path
// pkg (used for callees outside the analysed module).
func eIsExtFunc(cc *ssa.CallCommon, pkg, name string) bool {
	f := calleeOf(cc)
	return f != nil && f.Pkg() != nil && f.Pkg().Path() == pkg && f.Name() == name
}

// eStoresThroughField lists, over the given functions, the stores whose
// address chain passes through field f (writes to f itself or any sub-field).
func eStoresThroughField(fns []*ssa.Function, f *types.Var) map[*ssa.Function][]*ssa.Store {
	out := map[*ssa.Function][]*ssa.Store{}
	for _, fn := range fns {
		for _, b := range fn.Blocks {
			for _, in := range b.Instrs {
				st, ok := in.(*ssa.Store)
				if !ok {
					continue
				}
				_, path := eFieldPathOfAddr(st.Addr)
				for _, p := range path {
					if p == f {
						out[fn] = append(out[fn], st)
						break
					}
				}
			}
		}
	}
	return out
}

// eSameShape decides that two values are computed by the same expression:
// identical SSA values, or the same operator / field / callee applied to
// operands of the same shape (loads included). It does NOT prove that memory
// was unchanged between the two evaluations; use eSameVal where that matters.
func eSameShape(a, b ssa.Value) bool { return eSameShapeD(a, b, 0) }

func eSameShapeD(a, b ssa.Value, d int) bool {
	if a == b {
		return true
	}
	if a == nil || b == nil || d > 10 {
		return false
	}
	switch x := a.(type) {
	case *ssa.Const:
		return eSameVal(a, b)
	case *ssa.UnOp:
		y, ok := b.(*ssa.UnOp)
		return ok && x.Op == y.Op && eSameShapeD(x.X, y.X, d+1)
	case *ssa.BinOp:
		y, ok := b.(*ssa.BinOp)
		return ok && x.Op == y.Op && eSameShapeD(x.X, y.X, d+1) && eSameShapeD(x.Y, y.Y, d+1)
	case *ssa.FieldAddr:
		y, ok := b.(*ssa.FieldAddr)
		return ok && x.Field == y.Field && types.Identical(x.X.Type(), y.X.Type()) && eSameShapeD(x.X, y.X, d+1)
	case *ssa.Field:
		y, ok := b.(*ssa.Field)
		return ok && x.Field == y.Field && types.Identical(x.X.Type(), y.X.Type()) && eSameShapeD(x.X, y.X, d+1)
	case *ssa.Convert:
		y, ok := b.(*ssa.Convert)
		return ok && types.Identical(x.Type(), y.Type()) && eSameShapeD(x.X, y.X, d+1)
	case *ssa.ChangeType:
		y, ok := b.(*ssa.ChangeType)
		return ok && types.Identical(x.Type(), y.Type()) && eSameShapeD(x.X, y.X, d+1)
	case *ssa.MakeInterface:
		y, ok := b.(*ssa.MakeInterface)
		return ok && types.Identical(x.X.Type(), y.X.Type()) && eSameShapeD(x.X, y.X, d+1)
	case *ssa.Extract:
		y, ok := b.(*ssa.Extract)
		return ok && x.Index == y.Index && eSameShapeD(x.Tuple, y.Tuple, d+1)
	case *ssa.Call:
		y, ok := b.(*ssa.Call)
		if !ok {
			return false
		}
		fx, fy := calleeOf(x.Common()), calleeOf(y.Common())
		if fx == nil || !sameFunc(fx, fy) {
			return false
		}
		ax, ay := callArgs(x.Common()), callArgs(y.Common())
		if len(ax) != len(ay) {
			return false
		}
		for i := range ax {
			if !eSameShapeD(ax[i], ay[i], d+1) {
				return false
			}
		}
		return true
	}
	return false
}

// ePhiEdgeGuarded decides that incoming edge i of phi is taken only when
// guard g passed: the CFG edge itself is a passing edge of g, or its source
// block is unreachable once the passing edges are cut.
func ePhiEdgeGuarded(phi *ssa.Phi, i int, g Guard) bool {
	fn := phi.Parent()
	pred := phi.Block().Preds[i]
	edges, n := PassEdges(fn, g)
	if n == 0 {
		return false
	}
	for _, e := range edges {
		if e.From == pred && pred.Succs[e.Idx] == phi.Block() {
			// the other successor must not also be the phi block
			return true
		}
	}
	return !NewReach(fn, edges, nil).Reaches(eBlockEnd(pred))
}

// eInstrGuarded decides that instruction in is unreachable when the passing
// edges of g are cut.
func eInstrGuarded(in ssa.Instruction, g Guard) bool {
	fn := in.Parent()
	edges, n := PassEdges(fn, g)
	if n == 0 {
		return false
	}
	return !NewReach(fn, edges, nil).Reaches(in)
}

// eParamFieldLoad matches a read of field path (objects) of parameter p: a
// Field chain on the parameter, or a load through the local it was spilled to.
func eParamFieldLoad(p *ssa.Parameter, path ...*types.Var) VM {
	return func(v ssa.Value) bool {
		v = strip(v)
		// Field chain on a value
		var rev []*types.Var
		cur := v
		for {
			f, ok := cur.(*ssa.Field)
			if !ok {
				break
			}
			rev = append(rev, structField(f.X.Type(), f.Field))
			cur = f.X
		}
		if len(rev) > 0 {
			got := make([]*types.Var, 0, len(rev))
			for i := len(rev) - 1; i >= 0; i-- {
				got = append(got, rev[i])
			}
			if eIsParamVal(cur, p) {
				return eSamePath(got, path)
			}
			// Field chain on a load of a sub-path
			if root, pp, ok := eLoadPath(cur); ok {
				return eIsSpillOf(root, p) && eSamePath(append(append([]*types.Var{}, pp...), got...), path)
			}
			return false
		}
		root, pp, ok := eLoadPath(v)
		if !ok {
			return false
		}
		return eIsSpillOf(root, p) && eSamePath(pp, path)
	}
}

// eIsSpillOf reports whether root is the local that parameter p was spilled
// into and nothing else ever writes it.
func eIsSpillOf(root ssa.Value, p *ssa.Parameter) bool {
	al, ok := root.(*ssa.Alloc)
	if !ok {
		return false
	}
	ws, esc := eAllocWriters(al)
	if esc || len(ws) != 1 {
		return false
	}
	st, ok := ws[0].(*ssa.Store)
	return ok && st.Addr == ssa.Value(al) && st.Val == ssa.Value(p)
}

// eReachFromBlock computes the instructions that may execute once control
// enters block b (b's own instructions included).
func eReachFromBlock(b *ssa.BasicBlock, stop func(ssa.Instruction) bool) *eFwd {
	r := &eFwd{seen: map[ssa.Instruction]bool{}}
	visited := map[*ssa.BasicBlock]bool{b: true}
	work := []*ssa.BasicBlock{b}
	for len(work) > 0 {
		blk := work[0]
		work = work[1:]
		ended := false
		for _, in := range blk.Instrs {
			r.seen[in] = true
			if noReturnCall(in) || (stop != nil && stop(in)) {
				ended = true
				break
			}
		}
		if ended {
			continue
		}
		for _, s := range blk.Succs {
			if !visited[s] {
				visited[s] = true
				work = append(work, s)
			}
		}
	}
	return r
}

// eLoadOf matches a load of exactly the field path (objects) rooted at root.
func eLoadOf(root ssa.Value, path ...*types.Var) VM {
	return func(v ssa.Value) bool {
		r, p, ok := eLoadPath(strip(v))
		return ok && r == root && eSamePath(p, path)
	}
}

// eConvOf matches vm through value-preserving conversions.
func eConvOf(vm VM) VM { return func(v ssa.Value) bool { return vm(v) || vm(strip(v)) } }

// eIsConstString matches the string constant s.
func eIsConstString(s string) VM {
	return func(v ssa.Value) bool {
		k, ok := strip(v).(*ssa.Const)
		return ok && k.Value != nil && k.Value.Kind() == constant.String && constant.StringVal(k.Value) == s
	}
}

// ---------- range loops over a slice ----------

// eRangeLoop describes `for _, x := range s` compiled to an index loop.
type eRangeLoop struct {
	Header *ssa.BasicBlock // block testing idx < len(s)
	Idx    ssa.Value       // the index of the current element
	Slice  ssa.Value       // the ranged slice value
	Body   *ssa.BasicBlock
}

// eRangeLoopsOver finds the index loops of fn whose ranged slice satisfies vm.
func eRangeLoopsOver(fn *ssa.Function, vm VM) []eRangeLoop {
	var out []eRangeLoop
	for _, b := range fn.Blocks {
		iff, ok := eBlockEnd(b).(*ssa.If)
		if !ok {
			continue
		}
		bo, ok := iff.Cond.(*ssa.BinOp)
		if !ok || bo.Op != token.LSS {
			continue
		}
		s, isLen := lenOf(bo.Y)
		if !isLen || !vm(s) {
			continue
		}
		inc, ok := bo.X.(*ssa.BinOp)
		if !ok || inc.Op != token.ADD || !IsConstInt(1)(inc.Y) {
			continue
		}
		phi, ok := inc.X.(*ssa.Phi)
		if !ok || phi.Block() != b {
			continue
		}
		out = append(out, eRangeLoop{Header: b, Idx: inc, Slice: s, Body: b.Succs[0]})
	}
	return out
}

// Elem matches the current element of the loop (a load of &s[idx]).
func (l eRangeLoop) Elem(v ssa.Value) bool {
	u, ok := v.(*ssa.UnOp)
	if !ok || u.Op != token.MUL {
		return false
	}
	ia, ok := u.X.(*ssa.IndexAddr)
	return ok && ia.X == l.Slice && ia.Index == l.Idx
}

// OpenBackEdges returns the back edges of the loop (edges into the header
// from blocks it dominates) that can still be traversed when the cut edges are
// removed from the CFG.
func (l eRangeLoop) OpenBackEdges(cut []Edge, stop func(ssa.Instruction) bool) []Edge {
	fn := l.Header.Parent()
	cutSet := map[Edge]bool{}
	for _, e := range cut {
		cutSet[e] = true
	}
	r := NewReach(fn, cut, stop)
	var out []Edge
	for _, b := range fn.Blocks {
		if !l.Header.Dominates(b) {
			continue
		}
		for i, s := range b.Succs {
			if s != l.Header || cutSet[Edge{b, i}] {
				continue
			}
			end := eBlockEnd(b)
			if !r.Reaches(end) {
				continue
			}
			if stop != nil {
				// a stop instruction inside b before its end blocks the edge
				blocked := false
				for _, in := range b.Instrs {
					if stop(in) {
						blocked = true
					}
				}
				if blocked {
					continue
				}
			}
			out = append(out, Edge{b, i})
		}
	}
	return out
}

// eLoopGuard decides that continuing to the next element of the loop (any
// back edge) requires passing guard g, and records the obligation.
func (c *Ctx) eLoopGuard(rule, site string, l eRangeLoop, g Guard) {
	fn := l.Header.Parent()
	edges, n := PassEdges(fn, g)
	construct := site + ":next element<=" + g.Name
	if n == 0 {
		c.Bad(rule, construct, c.Pos(fn.Pos()), "guard \""+g.Name+"\" not found in "+fnName(fn)+" (no branch tests it)")
		return
	}
	open := l.OpenBackEdges(edges, nil)
	if len(open) > 0 {
		pos := "-"
		if in := eBlockEnd(open[0].From); in != nil {
			pos = c.Pos(in.Pos())
			if pos == "-" {
				for _, x := range open[0].From.Instrs {
					if x.Pos().IsValid() {
						pos = c.Pos(x.Pos())
					}
				}
			}
		}
		c.Bad(rule, construct, pos, "the loop proceeds to the next list element (and finally to `return nil`) without passing guard \""+g.Name+"\" for the current element")
		return
	}
	okPos := "-"
	for _, x := range l.Body.Instrs {
		if x.Pos().IsValid() {
			okPos = c.Pos(x.Pos())
			break
		}
	}
	c.Ok(rule, construct, okPos, "every back edge of the per-element loop is cut when the "+itoa(len(edges))+" passing edge(s) of \""+g.Name+"\" are cut")
}

// eGuardRun converts an unexpected panic inside a rule (index out of range,
// failed type assertion on an SSA shape the rule did not anticipate) into an
// undecided obligation, so that a refactor the rule cannot read fails the
// check instead of crashing the checker. Use: defer eGuardRun(c, "Cnn").
func eGuardRun(c *Ctx, prop string) {
	if r := recover(); r != nil {
		if ab, ok := r.(abortRule); ok {
			panic(ab)
		}
		c.Unk("internal", prop+":rule-crash", "-", fmt.Sprintf("a rule met a code shape it does not understand (%v); the remaining rules were not evaluated", r))
	}
}

// eLeafIs matches a read of exactly field f (through value-preserving
// conversions): a Field extraction of f or a load of a FieldAddr of f. Unlike
// M it does not accept a larger expression that merely mentions f.
func eLeafIs(f *types.Var) VM {
	return func(v ssa.Value) bool {
		v = strip(v)
		switch x := v.(type) {
		case *ssa.Field:
			return structField(x.X.Type(), x.Field) == f
		case *ssa.UnOp:
			if x.Op != token.MUL {
				return false
			}
			fa, ok := x.X.(*ssa.FieldAddr)
			return ok && structField(fa.X.Type(), fa.Field) == f
		}
		return false
	}
}
