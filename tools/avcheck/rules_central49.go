package main

import (
	"golang.org/x/tools/go/ssa"
)

// c07MappingFn returns the function that maps a persisted action type to the
// zero action it is decoded into: the package-level function of agreement that
// decode calls with an element of diskState.ActionTypes. On the pinned tree that
// is zeroAction; after the C41 repair (R41.7) it is makeZeroAction, the
// error-returning variant that zeroAction itself wraps. R07.3 reads the switch
// of whichever function decode really uses, so it follows the code rather than
// a name.
func c07MappingFn(c *Ctx) *ssa.Function {
	dec := c.Fn("agreement.decode")
	fTypes := c.Field("agreement.diskState.ActionTypes")
	for _, b := range dec.Blocks {
		for _, in := range b.Instrs {
			call, ok := in.(*ssa.Call)
			if !ok {
				continue
			}
			sf := call.Common().StaticCallee()
			if sf == nil || sf.Pkg != dec.Pkg || sf.Signature.Recv() != nil || len(call.Call.Args) != 1 || len(sf.Blocks) == 0 {
				continue
			}
			if Mentions(call.Call.Args[0], fTypes, 4) {
				c.NoteFn(fnName(sf))
				return sf
			}
		}
	}
	return c.Fn("agreement.zeroAction")
}
