package main

import (
	"go/token"
	"go/types"

	"golang.org/x/tools/go/ssa"
)

// R08.8: a retry does not change which round the answer is about.
//
// Found by an independent audit of C08 on the pinned tree (a genuine defect,
// repaired by a "fix:" commit, see known_findings.json and DESIGN §7).
// lookupWithoutRewards rewrites its parameter rnd to the latest round when the
// account is not in the deltas (to report the widest validity range) and, when
// the DB turns out to be ahead of the in-memory state (a flush completed while
// the lookup was reading), goes round its retry loop — whose head derives
// rewardsVersion/rewardsLevel from roundOffset(rnd) again, now for the LATEST
// round. Ledger.LookupAccount then credits the account with the rewards of a
// later round: the answer for a fixed round depends on flush timing.
//
// Rule: in every function of package ledger with a retry loop whose head calls
// roundOffset on a loop-carried round that starts as a parameter and is
// rewritten inside the loop, a named result whose value is derived from that
// offset is assigned either from roundOffset(parameter itself) or under a
// once-flag (a bool that is false on entry, tested before the assignment and
// set on the same path), i.e. in the first iteration only.
func init() {
	extend("C08", Extension{
		Run:         ruleRetryKeepsRequestedRound,
		Explanation: "R08.8 (a retry of a lookup still answers for the requested round): for every function of package ledger in which roundOffset is called inside a loop on a round variable that starts as a parameter and is assigned inside the loop, each store into a named result of a value derived from that offset (rewardsVersion, rewardsLevel of lookupWithoutRewards) happens only in the first iteration — it is guarded by a bool flag that is false on entry to the loop and true on every back edge that passed the store — or the offset is taken from the parameter itself; otherwise a flush completing during the DB read makes the retry take the rewards of the latest round and LookupAccount(rnd) returns the balance of another round.",
		Floor:       map[string]int{"R08.8": 2},
	})
}

func ruleRetryKeepsRequestedRound(c *Ctx) {
	const rule = "R08.8"
	offAU := c.Func("ledger.accountUpdates.roundOffset")
	offAO := c.Func("ledger.onlineAccounts.roundOffset")
	n := 0
	for _, fn := range c.funcsOf(Mod + "/ledger") {
		calls := CallsTo(fn, false, offAU, offAO)
		if len(calls) == 0 {
			continue
		}
		loops := naturalLoops(fn)
		// named result cells
		resultCell := map[*ssa.Alloc]string{}
		res := fn.Signature.Results()
		for _, b := range fn.Blocks {
			for _, in := range b.Instrs {
				if al, ok := in.(*ssa.Alloc); ok {
					for i := 0; i < res.Len(); i++ {
						if res.At(i).Name() != "" && al.Comment == res.At(i).Name() && types.Identical(al.Type().(*types.Pointer).Elem(), res.At(i).Type()) {
							resultCell[al] = res.At(i).Name()
						}
					}
				}
			}
		}
		for _, call := range calls {
			a := callArgs(call.Common())
			x := strip(a[len(a)-1])
			phi, isPhi := x.(*ssa.Phi)
			if !isPhi {
				continue // the parameter itself (or a value computed once): nothing to decide
			}
			var loop *natLoop
			for _, l := range loops {
				if l.header == phi.Block() && l.blocks[call.Block()] {
					loop = l
				}
			}
			if loop == nil {
				continue
			}
			fromParam := false
			for i, e := range phi.Edges {
				if !loop.blocks[phi.Block().Preds[i]] {
					if _, isP := strip(e).(*ssa.Parameter); isP {
						fromParam = true
					}
				}
			}
			if !fromParam {
				continue
			}
			// the offset value(s)
			var offs []ssa.Value
			for _, r := range *call.Value().Referrers() {
				if e, ok := r.(*ssa.Extract); ok && e.Index == 0 {
					offs = append(offs, e)
				}
			}
			derives := func(v ssa.Value) bool {
				found := false
				walkDef(v, 8, func(y ssa.Value) bool {
					for _, o := range offs {
						if y == o {
							found = true
						}
					}
					return !found
				})
				return found
			}
			for b := range loop.blocks {
				for _, in := range b.Instrs {
					st, ok := in.(*ssa.Store)
					if !ok {
						continue
					}
					al, ok := st.Addr.(*ssa.Alloc)
					if !ok || resultCell[al] == "" || !derives(st.Val) {
						continue
					}
					// the offset variable itself is scratch state of the walk, not an answer
					if _, isBasic := st.Val.Type().Underlying().(*types.Basic); isBasic && strip(st.Val) == offs[0] {
						continue
					}
					n++
					ok2, why := onceGuarded(loop, st)
					c.Check(ok2, rule, fnName(fn)+":"+resultCell[al]+" derived from roundOffset only for the requested round", c.Pos(st.Pos()),
						"the round handed to roundOffset is rewritten inside the retry loop; the result is assigned in the first iteration only (once-flag)"+sfx(why))
				}
			}
		}
	}
	if n == 0 {
		c.Unk(rule, "ledger:retry loops", "-", "no retry loop deriving a named result from roundOffset of a rewritten round was found: the rule no longer sees lookupWithoutRewards")
	}
}

// onceGuarded: st executes at most once per call of the function: it is dominated
// by the passing edge of a test of a bool flag F that is false when the loop is
// entered and true on every back edge reached through the guarded region.
func onceGuarded(loop *natLoop, st *ssa.Store) (bool, string) {
	h := loop.header
	for _, in := range h.Instrs {
		f, ok := in.(*ssa.Phi)
		if !ok {
			break
		}
		if b, isB := f.Type().Underlying().(*types.Basic); !isB || b.Kind() != types.Bool {
			continue
		}
		// entry edges false
		entryFalse := true
		for i, e := range f.Edges {
			if !loop.blocks[h.Preds[i]] {
				k, isK := e.(*ssa.Const)
				if !isK || k.Value == nil || k.Value.String() != "false" {
					entryFalse = false
				}
			}
		}
		if !entryFalse {
			continue
		}
		// the guard
		for g := range loop.blocks {
			iff, ok := g.Instrs[len(g.Instrs)-1].(*ssa.If)
			if !ok {
				continue
			}
			pass := -1
			switch cnd := iff.Cond.(type) {
			case *ssa.Phi:
				if cnd == f {
					pass = 1
				}
			case *ssa.UnOp:
				if cnd.Op == token.NOT && cnd.X == ssa.Value(f) {
					pass = 0
				}
			}
			if pass < 0 {
				continue
			}
			p := g.Succs[pass]
			if len(p.Preds) != 1 || !p.Dominates(st.Block()) {
				continue
			}
			// every back-edge value of F: true when coming through the guarded region, F itself otherwise
			okBack := true
			for i, e := range f.Edges {
				if !loop.blocks[h.Preds[i]] {
					continue
				}
				seen := map[ssa.Value]bool{}
				var walk func(v ssa.Value, from *ssa.BasicBlock)
				walk = func(v ssa.Value, from *ssa.BasicBlock) {
					if seen[v] {
						return
					}
					seen[v] = true
					switch y := v.(type) {
					case *ssa.Const:
						if y.Value == nil || y.Value.String() != "true" {
							okBack = false
						}
					case *ssa.Phi:
						if y == f {
							// keeping the old value is only sound when the guarded region was skipped
							if p.Dominates(from) {
								okBack = false
							}
							return
						}
						for j, e2 := range y.Edges {
							walk(e2, y.Block().Preds[j])
						}
					default:
						okBack = false
					}
				}
				walk(e, h.Preds[i])
			}
			if okBack {
				return true, ""
			}
		}
	}
	return false, "no once-flag guards the assignment: on a retry it is executed again with the rewritten round"
}
