package main

import (
	"golang.org/x/tools/go/ssa"
)

// R36.7: a key file the node loads is tracked for trimming, restart or not.
//
// Found by an independent audit of C36 on the pinned tree (a genuine defect,
// repaired by a "fix:" commit, see known_findings.json and DESIGN §7). The
// node trims the one-time keys of a participation key FILE only if the file's
// handle sits in AccountManager.partKeys (DeleteOldKeys walks that map). On the
// first start AddParticipation inserts the key into the registry and records
// the handle. On every later start the registry already has the key,
// registry.Insert returns ErrAlreadyInserted and AddParticipation returned
// false BEFORE recording the handle: the file was closed and never trimmed
// again, so it kept secrets that sign valid votes for rounds the node had long
// passed — and once the registry record expired, the stale file was re-imported
// and handed to agreement.
func init() {
	extend("C36", Extension{
		Run:         ruleKeyFileAlwaysTracked,
		Explanation: "R36.7 (a persisted key is either tracked for trimming or already tracked): in AccountManager.AddParticipation every return is reached through the store manager.partKeys[id] = participation, through the already-present edge of the lookup in that same map, or on the ephemeral==true side of a test of the ephemeral parameter; in particular registry.Insert reporting ErrAlreadyInserted — the normal case after a restart — must not end the function before the key file's handle is recorded, or DeleteOldKeys never visits the file again and its old one-time keys survive.",
		Floor:       map[string]int{"R36.7": 1},
		Patterns:    []string{"./data"},
	})
}

func ruleKeyFileAlwaysTracked(c *Ctx) {
	const rule = "R36.7"
	const spec = "data.AccountManager.AddParticipation"
	fn := c.Fn(spec)
	fPartKeys := c.Field("data.AccountManager.partKeys")
	if len(fn.Params) < 3 {
		c.Unk(rule, spec, c.Pos(fn.Pos()), "unexpected signature")
		return
	}
	ephemeral := fn.Params[2]
	// the tracking store
	isTrack := func(in ssa.Instruction) bool {
		mu, ok := in.(*ssa.MapUpdate)
		return ok && Mentions(mu.Map, fPartKeys, 3)
	}
	nTrack := 0
	for _, b := range fn.Blocks {
		for _, in := range b.Instrs {
			if isTrack(in) {
				nTrack++
			}
		}
	}
	if nTrack == 0 {
		c.Bad(rule, spec+":handle recorded in partKeys", c.Pos(fn.Pos()), "AddParticipation never stores into manager.partKeys: no key file is tracked for trimming")
		return
	}
	var cut []Edge
	e1, _ := PassEdges(fn, GBool("ephemeral", IsV(ephemeral), true))
	cut = append(cut, e1...)
	e2, _ := PassEdges(fn, GBool("already present in partKeys", func(v ssa.Value) bool {
		e, ok := v.(*ssa.Extract)
		if !ok || e.Index != 1 {
			return false
		}
		lk, ok := e.Tuple.(*ssa.Lookup)
		return ok && lk.CommaOk && Mentions(lk.X, fPartKeys, 3)
	}, true))
	cut = append(cut, e2...)
	r := NewReach(fn, cut, isTrack)
	ok := true
	where := ""
	for _, b := range fn.Blocks {
		if ret, isRet := b.Instrs[len(b.Instrs)-1].(*ssa.Return); isRet && r.Reaches(ret) {
			ok = false
			where = c.Pos(ret.Pos())
		}
	}
	c.Check(ok, rule, spec+":every return passes the partKeys store (or: already tracked, ephemeral)", c.Pos(fn.Pos()),
		"a key file handed to AddParticipation is recorded for DeleteOldKeys unless it is ephemeral or already recorded"+func() string {
			if !ok {
				return "; the return at " + where + " is reachable for a non-ephemeral key without the handle having been recorded"
			}
			return ""
		}())
}
