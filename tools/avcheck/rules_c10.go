package main

import (
	"fmt"
	"go/token"
	"go/types"

	"golang.org/x/tools/go/ssa"
)

func init() {
	register(&Prop{
		ID:       "C10",
		Patterns: []string{"./ledger"},
		Run:      runC10,
		Explanation: "Thin claim: decides the split-independence and ordering scaffolding of the paginated listings in accountUpdates (lookupAssetResources, lookupApplicationResources, LookupKvPairsByPrefix, lookupKeysByPrefix), not exactly-once. " +
			"R08.1 (path rule, 8 DB-call sites in those four functions): a page is returned without error only on paths where the DB round reported by each DB call was established == the au.cachedDBRound snapshot taken before the call (same engine and tabled variants as C08: relation tracked over {<,==,>}, `no rows && round==0` accepted for LookupLimitedResources), and the snapshot is not re-read after accountsMu was released — so the merged page is built from one consistent (deltas, DB) split. " +
			"R10.1 in the three merging functions every non-nil page returned is the slice that was passed to slices.SortFunc (or a prefix re-slice of it, the re-slice and the return being dominated by the sort), and the comparator orders ascending by the page key (AssetID / AppID / Key: cmp.Compare or strings.Compare of that field of its first and second parameter, in that order). " +
			"R10.2 the row limit given to LookupLimitedResources is `limit + numDeltaDeleted` where the second operand is a counter incremented only under tests of the Deleted flags of the delta records (both the params and the holding/local-state flag), and the query receives the caller's address, the cursor converted to CreatableIndex and the creatable type of the listing; LookupKeysByPrefixCursor receives the caller's (prefix, cursor, limit, maxBytes, includeValues) in order and, as exclusion set, the very delta map that the merge later ranges over. " +
			"R10.3 delta entries enter the merge maps only past the cursor test (`Aidx > idGT`, `key > cursor`), holdings/local states only for the queried address, KV entries only under strings.HasPrefix(key, keyPrefix). " +
			"Does NOT decide: exactly-once across pages, the dbHasMore/cutoff arithmetic, byte caps, next-token computation in the REST handlers, or the SQL of the cursor scan.",
		Assumptions: []string{"the AccountsReader methods return rows in increasing key order and honour their limit/exclusion arguments"},
		Floor:       map[string]int{"R08.1": 16, "R10.1": 9, "R10.2": 12, "R10.3": 7},
	})
}

func bIsStdFunc(f *types.Func, pkg string, names ...string) bool {
	if f == nil || f.Pkg() == nil || f.Pkg().Path() != pkg {
		return false
	}
	for _, n := range names {
		if f.Name() == n {
			return true
		}
	}
	return false
}

func bParamVM(p *ssa.Parameter) VM {
	return func(v ssa.Value) bool { return bCanonParam(v) == ssa.Value(p) }
}

func runC10(c *Ctx) {
	listing := map[string]bool{
		"ledger.accountUpdates.lookupAssetResources":       true,
		"ledger.accountUpdates.lookupApplicationResources": true,
		"ledger.accountUpdates.LookupKvPairsByPrefix":      true,
		"ledger.accountUpdates.lookupKeysByPrefix":         true,
	}
	cfg := bAUCfg(c, "R08.1", "")
	cfg.OnlyFuncs = listing
	if n := c.bRecheck(cfg, c.funcsOf(Mod+"/ledger")); n == 0 {
		c.Unk("R08.1", "ledger.accountUpdates:listing-db-calls", "-", "no DB call found in the listing functions")
	}

	type lst struct {
		fn      string
		keyFld  string // field of the page element that orders the page
		limited bool   // uses LookupLimitedResources
		ctype   string
		recType string // delta record type stored in the holdings/locals map
		delFlds []string
		idFld   string
		addrFld string
	}
	lists := []lst{
		{fn: "ledger.accountUpdates.lookupAssetResources", keyFld: "ledger/ledgercore.AssetResourceWithIDs.AssetID", limited: true, ctype: "data/basics.AssetCreatable",
			recType: "ledger/ledgercore.AssetResourceRecord", delFlds: []string{"ledger/ledgercore.AssetParamsDelta.Deleted", "ledger/ledgercore.AssetHoldingDelta.Deleted"},
			idFld: "ledger/ledgercore.AssetResourceRecord.Aidx", addrFld: "ledger/ledgercore.AssetResourceRecord.Addr"},
		{fn: "ledger.accountUpdates.lookupApplicationResources", keyFld: "ledger/ledgercore.AppResourceWithIDs.AppID", limited: true, ctype: "data/basics.AppCreatable",
			recType: "ledger/ledgercore.AppResourceRecord", delFlds: []string{"ledger/ledgercore.AppParamsDelta.Deleted", "ledger/ledgercore.AppLocalStateDelta.Deleted"},
			idFld: "ledger/ledgercore.AppResourceRecord.Aidx", addrFld: "ledger/ledgercore.AppResourceRecord.Addr"},
		{fn: "ledger.accountUpdates.LookupKvPairsByPrefix", keyFld: "ledger/ledgercore.KvPairResult.Key"},
	}
	limitedQ := c.Func("ledger/store/trackerdb.AccountsReader.LookupLimitedResources")
	cursorQ := c.Func("ledger/store/trackerdb.AccountsReader.LookupKeysByPrefixCursor")

	for _, l := range lists {
		fn := c.Fn(l.fn)
		keyFld := c.Field(l.keyFld)

		// ---- R10.1: sorted before truncation / return ----
		var sorts []*ssa.Call
		for _, b := range fn.Blocks {
			for _, in := range b.Instrs {
				if call, ok := in.(*ssa.Call); ok && bIsStdFunc(calleeOf(call.Common()), "slices", "SortFunc", "SortStableFunc") {
					if len(call.Common().Args) == 2 && types.Identical(call.Common().Args[0].Type(), fn.Signature.Results().At(0).Type()) {
						sorts = append(sorts, call)
					}
				}
			}
		}
		if len(sorts) != 1 {
			c.Bad("R10.1", l.fn+":sort(page)", c.Pos(fn.Pos()), fmt.Sprintf("expected exactly one slices.SortFunc over the page slice, found %d", len(sorts)))
			continue
		}
		sortCall := sorts[0]
		page := sortCall.Common().Args[0]
		// comparator ascending by key
		{
			lit, _ := bClosureArg(sortCall, 1)
			ok := lit != nil && len(lit.Params) == 2
			if ok {
				nret := 0
				for _, b := range lit.Blocks {
					ret, isRet := b.Instrs[len(b.Instrs)-1].(*ssa.Return)
					if !isRet {
						continue
					}
					nret++
					call, isCall := ret.Results[0].(*ssa.Call)
					if !isCall || !(bIsStdFunc(calleeOf(call.Common()), "cmp", "Compare") || bIsStdFunc(calleeOf(call.Common()), "strings", "Compare")) {
						ok = false
						continue
					}
					a := call.Common().Args
					if len(a) != 2 || bFieldOfParam(a[0], keyFld) != lit.Params[0] || bFieldOfParam(a[1], keyFld) != lit.Params[1] {
						ok = false
					}
				}
				ok = ok && nret > 0
			}
			c.Check(ok, "R10.1", l.fn+":comparator=ascending("+keyFld.Name()+")", c.Pos(sortCall.Pos()), "the page is sorted ascending by "+keyFld.Name()+" (Compare(a."+keyFld.Name()+", b."+keyFld.Name()+"))")
		}
		// every re-slice of the page with an upper bound comes after the sort
		nTrunc := 0
		okTrunc := true
		for _, b := range fn.Blocks {
			for _, in := range b.Instrs {
				sl, ok := in.(*ssa.Slice)
				if !ok || sl.High == nil || !types.Identical(sl.Type(), page.Type()) {
					continue
				}
				nTrunc++
				if sl.X != page || !Dominates(sortCall, sl) {
					okTrunc = false
					c.Bad("R10.1", l.fn+":truncate<=sorted", c.Pos(sl.Pos()), "the page is truncated at "+c.Pos(sl.Pos())+" but the truncated slice is not the value that was sorted before (truncating an unsorted merge drops arbitrary entries)")
				}
			}
		}
		if okTrunc {
			c.Check(nTrunc > 0, "R10.1", l.fn+":truncate<=sorted", c.Pos(sortCall.Pos()), fmt.Sprintf("%d truncation(s) of the page, each of the sorted slice and dominated by the sort", nTrunc))
		}
		// what is returned
		okRet, nRet := true, 0
		for _, r := range bSuccessReturns(fn) {
			ret := r.(*ssa.Return)
			var leaves []ssa.Value
			var walk func(v ssa.Value, d int)
			walk = func(v ssa.Value, d int) {
				v = bCanon(v)
				if v == page {
					leaves = append(leaves, v)
					return
				}
				if ph, ok := v.(*ssa.Phi); ok && d < 4 {
					for _, e := range ph.Edges {
						walk(e, d+1)
					}
					return
				}
				leaves = append(leaves, v)
			}
			walk(ret.Results[0], 0)
			for _, lf := range leaves {
				if IsNil(lf) {
					continue
				}
				nRet++
				sl, isSl := lf.(*ssa.Slice)
				if !(lf == page || isSl && sl.X == page) || !Dominates(sortCall, ret) {
					okRet = false
					c.Bad("R10.1", l.fn+":returns(sorted page)", c.Pos(ret.Pos()), "a page is returned that is not the sorted slice (or a prefix of it): "+describe(lf))
				}
			}
		}
		if okRet {
			c.Check(nRet > 0, "R10.1", l.fn+":returns(sorted page)", c.Pos(sortCall.Pos()), fmt.Sprintf("%d returned page value(s), each the sorted slice or a prefix of it", nRet))
		}

		// ---- R10.2 / R10.3 ----
		if l.limited {
			calls := CallsTo(fn, false, limitedQ)
			if len(calls) != 1 {
				c.Unk("R10.2", l.fn+":LookupLimitedResources", c.Pos(fn.Pos()), fmt.Sprintf("expected one LookupLimitedResources call, found %d", len(calls)))
				continue
			}
			q := calls[0]
			a := q.Common().Args // addr, minIdx, maxCreatables, ctype
			pAddr, pGT, pLimit := fn.Params[1], fn.Params[2], fn.Params[3]
			c.Check(len(a) == 4 && bCanonParam(a[0]) == ssa.Value(pAddr) && bCanonParam(strip(a[1])) == ssa.Value(pGT) && valueIs(strip(a[3]), c.Const(l.ctype)),
				"R10.2", l.fn+":LookupLimitedResources(addr,idGT,·,"+c.Const(l.ctype).Name()+")", c.Pos(q.Pos()), "the DB page is requested for the caller's address, after the caller's cursor, for this listing's creatable type")
			leaves, pure := bAddLeaves(a[2], nil)
			var counter *ssa.Phi
			okLim := pure && len(leaves) == 2 && leaves[ssa.Value(pLimit)]
			for lf := range leaves {
				if ph, ok := lf.(*ssa.Phi); ok {
					counter = ph
				}
			}
			okLim = okLim && counter != nil
			c.Check(okLim, "R10.2", l.fn+":dbLimit=limit+numDeltaDeleted", c.Pos(q.Pos()), "the DB row limit is the caller's limit plus a counter (over-request compensating deletions in the deltas); found leaves "+bLeafNames(leaves))
			if counter != nil {
				// increments of the counter and the Deleted flags controlling them
				incs := map[*ssa.BinOp]bool{}
				var collect func(v ssa.Value, d int)
				seen := map[ssa.Value]bool{}
				collect = func(v ssa.Value, d int) {
					if seen[v] || d > 12 {
						return
					}
					seen[v] = true
					switch x := v.(type) {
					case *ssa.Phi:
						for _, e := range x.Edges {
							collect(e, d+1)
						}
					case *ssa.BinOp:
						if x.Op == token.ADD && (IsConstInt(1)(x.Y) || IsConstInt(1)(x.X)) {
							incs[x] = true
							collect(x.X, d+1)
							collect(x.Y, d+1)
						}
					}
				}
				collect(counter, 0)
				for _, df := range l.delFlds {
					fld := c.Field(df)
					pass, _ := PassEdges(fn, GBool(fld.Name(), func(v ssa.Value) bool { return Mentions(v, fld, 4) }, true))
					found := false
					for inc := range incs {
						for _, e := range pass {
							s := e.From.Succs[e.Idx]
							if len(s.Preds) == 1 && s.Dominates(inc.Block()) {
								found = true
							}
						}
					}
					c.Check(found, "R10.2", l.fn+":numDeltaDeleted++<="+df, c.Pos(q.Pos()), "a deletion recorded in the deltas ("+df+") increments the over-request counter")
				}
				allGuarded := true
				for inc := range incs {
					g := false
					for _, df := range l.delFlds {
						fld := c.Field(df)
						pass, _ := PassEdges(fn, GBool(fld.Name(), func(v ssa.Value) bool { return Mentions(v, fld, 4) }, true))
						for _, e := range pass {
							s := e.From.Succs[e.Idx]
							if len(s.Preds) == 1 && s.Dominates(inc.Block()) {
								g = true
							}
						}
					}
					if !g {
						allGuarded = false
					}
				}
				c.Check(allGuarded && len(incs) > 0, "R10.2", l.fn+":numDeltaDeleted counts only deletions", c.Pos(q.Pos()), fmt.Sprintf("%d increment(s), each under a Deleted test", len(incs)))
			}
			// R10.3: delta maps filled only past the cursor, holdings only for addr
			idFld, addrFld := c.Field(l.idFld), c.Field(l.addrFld)
			recT := c.Named(l.recType)
			var allUpd, recUpd []ssa.Instruction
			for _, b := range fn.Blocks {
				for _, in := range b.Instrs {
					mu, ok := in.(*ssa.MapUpdate)
					if !ok {
						continue
					}
					mk, isMk := mu.Map.(*ssa.MakeMap)
					if !isMk || !Dominates(mk, q) {
						continue // only the maps built by the delta walk, before the DB query
					}
					mt, _ := mu.Map.Type().Underlying().(*types.Map)
					if mt == nil {
						continue
					}
					allUpd = append(allUpd, mu)
					if types.Identical(mt.Elem(), recT) {
						recUpd = append(recUpd, mu)
					}
				}
			}
			c.MustGuard(MustGuardSpec{Rule: "R10.3", Fn: fn, Effects: allUpd, EffName: "deltaResults[id]=…",
				Guards: []Guard{GCmp("rec.Aidx>idGT(cursor)", token.GTR, M(idFld), bParamVM(pGT))}})
			c.MustGuard(MustGuardSpec{Rule: "R10.3", Fn: fn, Effects: recUpd, EffName: "deltaHolding/LocalsResults[id]=rec",
				Guards: []Guard{GCmp("rec.Addr==addr", token.EQL, M(addrFld), bParamVM(pAddr))}})
		} else {
			calls := CallsTo(fn, false, cursorQ)
			if len(calls) != 1 {
				c.Unk("R10.2", l.fn+":LookupKeysByPrefixCursor", c.Pos(fn.Pos()), fmt.Sprintf("expected one LookupKeysByPrefixCursor call, found %d", len(calls)))
				continue
			}
			q := calls[0]
			a := q.Common().Args // prefix, cursor, limit, maxBytes, includeValues, exclude
			ok := len(a) == 6
			for i := 0; ok && i < 5; i++ {
				// params: au, round, keyPrefix, cursor, limit, maxBytes, includeValues
				if bCanonParam(a[i]) != ssa.Value(fn.Params[2+i]) {
					ok = false
				}
			}
			c.Check(ok, "R10.2", l.fn+":LookupKeysByPrefixCursor(prefix,cursor,limit,maxBytes,includeValues,·)", c.Pos(q.Pos()), "the DB scan receives the caller's prefix, cursor, limit, byte cap and includeValues in that order")
			mk, isMk := a[5].(*ssa.MakeMap)
			ranged := false
			var upd []ssa.Instruction
			if isMk {
				for _, r := range *mk.Referrers() {
					switch x := r.(type) {
					case *ssa.Range:
						ranged = true
					case *ssa.MapUpdate:
						if x.Map == ssa.Value(mk) {
							upd = append(upd, x)
						}
					}
				}
			}
			c.Check(isMk && ranged && len(upd) > 0, "R10.2", l.fn+":exclude=deltaResults", c.Pos(q.Pos()), "the exclusion set given to the DB scan is the delta map that is filled by the delta walk and later merged into the page (keys changed or deleted in memory are not taken from the DB)")
			pPrefix, pCursor := fn.Params[2], fn.Params[3]
			hasPrefix := Guard{Name: "strings.HasPrefix(key,keyPrefix)", Match: func(cond ssa.Value) (bool, bool) {
				call, ok := cond.(*ssa.Call)
				if !ok || !bIsStdFunc(calleeOf(call.Common()), "strings", "HasPrefix") {
					return false, false
				}
				return bCanonParam(call.Common().Args[1]) == ssa.Value(pPrefix), true
			}}
			c.MustGuard(MustGuardSpec{Rule: "R10.3", Fn: fn, Effects: upd, EffName: "deltaResults[key]=…",
				Guards: []Guard{GCmp("key>cursor", token.GTR, AnyV, bParamVM(pCursor)), hasPrefix}})
		}
	}
	// lookupKeysByPrefix: the prefix filter of its delta walk
	{
		fn := c.Fn("ledger.accountUpdates.lookupKeysByPrefix")
		pPrefix := fn.Params[2]
		var upd []ssa.Instruction
		for _, b := range fn.Blocks {
			for _, in := range b.Instrs {
				if mu, ok := in.(*ssa.MapUpdate); ok {
					upd = append(upd, mu)
				}
			}
		}
		c.MustGuard(MustGuardSpec{Rule: "R10.3", Fn: fn, Effects: upd, EffName: "results[key]=…",
			Guards: []Guard{{Name: "strings.HasPrefix(key,keyPrefix)", Match: func(cond ssa.Value) (bool, bool) {
				call, ok := cond.(*ssa.Call)
				if !ok || !bIsStdFunc(calleeOf(call.Common()), "strings", "HasPrefix") {
					return false, false
				}
				return bCanonParam(call.Common().Args[1]) == ssa.Value(pPrefix), true
			}}}})
	}
}

// bFieldOfParam: v is field fld of a (struct-valued or pointer) parameter of
// the enclosing function, possibly through the parameter's spill slot; returns
// that parameter.
func bFieldOfParam(v ssa.Value, fld *types.Var) *ssa.Parameter {
	v = strip(v)
	var base ssa.Value
	switch x := v.(type) {
	case *ssa.Field:
		if structField(x.X.Type(), x.Field) != fld {
			return nil
		}
		base = x.X
	case *ssa.UnOp:
		fa, ok := x.X.(*ssa.FieldAddr)
		if !ok || x.Op != token.MUL || structField(fa.X.Type(), fa.Field) != fld {
			return nil
		}
		base = fa.X
	default:
		return nil
	}
	if p, ok := base.(*ssa.Parameter); ok {
		return p
	}
	if a, ok := base.(*ssa.Alloc); ok {
		st, partial := bWholeStores(a)
		if !partial && len(st) == 1 {
			if p, ok := st[0].(*ssa.Parameter); ok {
				return p
			}
		}
	}
	if p, ok := bCanonParam(base).(*ssa.Parameter); ok {
		return p
	}
	return nil
}
