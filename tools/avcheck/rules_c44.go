package main

import (
	"go/token"
	"go/types"

	"golang.org/x/tools/go/ssa"
)

func init() {
	register(&Prop{
		ID:       "C44",
		Patterns: []string{"./data/pools"},
		Run:      runC44,
		Explanation: "Decides who may put transactions into the pool's lists and under which guards. " +
			"R44.1 rememberedTxGroups/rememberedTxids are written only by ingest (append / element store), rememberCommit (reset), Reset and the constructor; in ingest those writes are unreachable unless addToPendingBlockEvaluator(txgroup, …) returned nil for the very txgroup that is appended, and unless checkSufficientFee(txgroup) returned nil (only bypass: params.recomputing); every member's ID is recorded in rememberedTxids; pendingTxGroups/pendingTxids are written only by rememberCommit, Reset and the constructor, and rememberCommit stores either the remembered lists (flush) or pending+remembered; " +
			"R44.2 Remember reaches remember()/rememberCommit only if checkPendingQueueSize(txgroup) returned nil; checkPendingQueueSize returns nil only if pendingTxIDsCount()+len(txnGroup) <= txPoolMaxSize or the once-only state-proof exception (len==1, Type==StateProofTx, stateproofOverflowed was false and is set); remember() runs ingest with recomputing=false (fee check active); " +
			"R44.3 the admission chain returns the evaluator's verdict: addToPendingBlockEvaluator returns only errors of addToPendingBlockEvaluatorOnce(txgroup,…), which returns nil only if pendingBlockEvaluator.TransactionGroup(WrapSignedTxnsWithAD(txgroup)…) returned nil and no member's LastValid is below evaluator round + numPendingWholeBlocks; recomputeBlockEvaluator iterates the pendingTxGroups snapshot, re-adds a group (pool.add) only if its first transaction's ID is not in committedTxIDs, and reaches its end only through rememberCommit(true), which replaces the pending lists by what ingest re-admitted; the evaluator it feeds comes from ledger.StartEvaluator, which validates (Validate:true) so BlockEvaluator.transaction's duplicate check cow.checkDup precedes applyTransaction; " +
			"R44.5 OnNewBlock returns without recomputeBlockEvaluator(delta.Txids, …) only if the pool is shut down or block.Round() < pendingBlockEvaluator.Round(). " +
			"Lock discipline (R44.4) is decided by the centrally maintained lockset extension appended below. Does NOT decide: equivalence with a reference ledger, what happens on the early-return paths of recomputeBlockEvaluator when the ledger cannot supply the previous header / protocol (the old pending lists are then kept), nor the fee-threshold arithmetic.",
		Assumptions: []string{"the BlockEvaluator installed in pendingBlockEvaluator is ledger/eval.BlockEvaluator started by ledger.StartEvaluator", "callers hold pool.mu as documented"},
		Floor:       map[string]int{"R44.1": 13, "R44.2": 11, "R44.3": 13, "R44.5": 2},
	})
}

func runC44(c *Ctx) {
	const P = "data/pools.TransactionPool."
	fRemG := c.Field(P + "rememberedTxGroups")
	fRemI := c.Field(P + "rememberedTxids")
	fPenG := c.Field(P + "pendingTxGroups")
	fPenI := c.Field(P + "pendingTxids")
	ingestObj := c.Func(P + "ingest")
	addEval := c.Func(P + "addToPendingBlockEvaluator")
	addOnce := c.Func(P + "addToPendingBlockEvaluatorOnce")
	suffFee := c.Func(P + "checkSufficientFee")
	queueSize := c.Func(P + "checkPendingQueueSize")
	rememberObj := c.Func(P + "remember")
	addObj := c.Func(P + "add")
	commitObj := c.Func(P + "rememberCommit")
	recomputeObj := c.Func(P + "recomputeBlockEvaluator")
	fRecomputing := c.Field("data/pools.poolIngestParams.recomputing")

	// ---------------- R44.1 ----------------
	{
		const rule = "R44.1"
		owners := map[string]string{
			P + "ingest":                     "admission after evaluation",
			P + "rememberCommit":             "moves remembered to pending and resets",
			P + "Reset":                      "clears the pool",
			"data/pools.MakeTransactionPool": "constructor",
		}
		c.OwnerRule(rule, "write(rememberedTxGroups/rememberedTxids)", c.FieldWrites(map[*types.Var]bool{fRemG: true, fRemI: true}, ScanOpts{SkipGenerated: true}), owners)
		pOwners := map[string]string{
			P + "rememberCommit":             "the only publisher of pending lists",
			P + "Reset":                      "clears the pool",
			"data/pools.MakeTransactionPool": "constructor",
		}
		c.OwnerRule(rule, "write(pendingTxGroups/pendingTxids)", c.FieldWrites(map[*types.Var]bool{fPenG: true, fPenI: true}, ScanOpts{SkipGenerated: true}), pOwners)

		ing := c.Fn(P + "ingest")
		pool := ing.Params[0]
		tgP := fParamAt(ing, 0)
		parP := fParamAt(ing, 1)
		onPool := func(f *types.Var) VM {
			return func(v ssa.Value) bool {
				r, p := fRootPath(v)
				return fIsParam(r, pool) && len(p) == 1 && p[0] == f
			}
		}
		var effects []ssa.Instruction
		effects = append(effects, StoresToField(ing, false, map[*types.Var]bool{fRemG: true, fRemI: true})...)
		var mapUps []*ssa.MapUpdate
		for _, in := range Instrs(ing, func(in ssa.Instruction) bool {
			mu, ok := in.(*ssa.MapUpdate)
			return ok && onPool(fRemI)(mu.Map)
		}) {
			effects = append(effects, in)
			mapUps = append(mapUps, in.(*ssa.MapUpdate))
		}
		gEval := GErrNil("addToPendingBlockEvaluator(txgroup,…)==nil", func(v ssa.Value) bool {
			call, _ := fCallOf(v)
			if call == nil || !sameFunc(calleeOf(call.Common()), addEval) {
				return false
			}
			a := call.Common().Args
			return len(a) == 4 && fIsParam(a[0], pool) && fIsParam(a[1], tgP)
		})
		c.fMustGuard(fGuardSpec{Rule: rule, Fn: ing, Effects: effects, EffName: "write(remembered*)", Guard: gEval})
		gFee := GErrNil("checkSufficientFee(txgroup)==nil", func(v ssa.Value) bool {
			call, _ := fCallOf(v)
			if call == nil || !sameFunc(calleeOf(call.Common()), suffFee) {
				return false
			}
			a := call.Common().Args
			return len(a) == 2 && fIsParam(a[0], pool) && fIsParam(a[1], tgP)
		})
		isRecomputing := func(v ssa.Value) bool {
			r, p := fRootPath(v)
			return fIsParam(r, parP) && len(p) == 1 && p[0] == fRecomputing
		}
		c.fMustGuard(fGuardSpec{Rule: rule, Fn: ing, Effects: effects, EffName: "write(remembered*)", Guard: gFee, Bypass: []Guard{GBool("params.recomputing", isRecomputing, true)}})
		// what is appended
		okApp := false
		for _, st := range StoresToField(ing, false, map[*types.Var]bool{fRemG: true}) {
			call, ok := st.(*ssa.Store).Val.(*ssa.Call)
			if !ok {
				continue
			}
			if b, isB := call.Common().Value.(*ssa.Builtin); isB && b.Name() == "append" && onPool(fRemG)(call.Common().Args[0]) {
				if sl, isSl := call.Common().Args[1].(*ssa.Slice); isSl {
					if arr, isArr := sl.X.(*ssa.Alloc); isArr {
						comps := fElemStores(arr)
						okApp = len(comps) == 1 && fIsParam(comps[0], tgP)
					}
				}
			}
		}
		c.Check(okApp, rule, P+"ingest:rememberedTxGroups<-append(…, txgroup)", c.Pos(ing.Pos()), "exactly the evaluated txgroup is appended to rememberedTxGroups")
		// every member's id is recorded
		okIDs := false
		detail := "no rememberedTxids[t.ID()] = t store found"
		idFn := c.Func("data/transactions.SignedTxn.ID")
		for _, mu := range mapUps {
			el, isEl := fRoot(mu.Value).(*ssa.IndexAddr)
			kc, isCall := fIsCallTo(strip(mu.Key), idFn)
			if !isEl || !isCall || !fIsParam(el.X, tgP) {
				detail = "the recorded id/value is not ID() / the element of the txgroup parameter"
				continue
			}
			kel, _ := fRoot(kc.Common().Args[0]).(*ssa.IndexAddr)
			if kel == nil || kel.Index != el.Index || !fIsParam(kel.X, tgP) {
				detail = "the key is not the ID of the stored element"
				continue
			}
			phi, okWalk := fIndexWalk(el.Index)
			var boundExits []Edge
			if okWalk {
				okWalk, boundExits = fLoopBound(ing, el.Index, phi, func(v ssa.Value) bool { x, ok := fLenOf(v); return ok && fIsParam(x, tgP) })
			}
			if !okWalk {
				detail = "the loop recording ids does not walk every member of txgroup"
				continue
			}
			{
				cut := append([]Edge{}, boundExits...)
				for _, p := range phi.Block().Preds {
					cut = append(cut, Edge{p, fEdgeIndex(p, phi.Block())})
				}
				r0 := fReachFrom(ing, el, cut, nil)
				early := false
				for _, ret := range fSuccessReturns(ing) {
					if r0.Reaches(ret) {
						early = true
					}
				}
				if early {
					detail = "the loop recording ids can be left towards the success return from inside an iteration"
					continue
				}
			}
			this := mu
			r := fReachFrom(ing, el, nil, func(in ssa.Instruction) bool { return in == ssa.Instruction(this) })
			if r.ReachesBlockStart(phi.Block()) {
				detail = "an iteration can skip recording the member's id"
				continue
			}
			okIDs = true
			detail = "every member t of txgroup is recorded as rememberedTxids[t.ID()] = t"
		}
		c.Check(okIDs, rule, P+"ingest:rememberedTxids[t.ID()]=t for every member", c.Pos(ing.Pos()), detail)

		// rememberCommit publishes remembered
		rc := c.Fn(P + "rememberCommit")
		rpool := rc.Params[0]
		onR := func(f *types.Var) VM {
			return func(v ssa.Value) bool {
				r, p := fRootPath(v)
				return fIsParam(r, rpool) && len(p) == 1 && p[0] == f && fIsFieldLoad(v, f)
			}
		}
		flushP := fParamAt(rc, 0)
		flushEdges, _ := PassEdges(rc, GBool("flush", func(v ssa.Value) bool { return fIsParam(v, flushP) }, true))
		underFlush := func(b *ssa.BasicBlock) bool {
			for _, e := range flushEdges {
				t := e.From.Succs[e.Idx]
				if len(t.Preds) == 1 && t.Dominates(b) {
					return true
				}
			}
			return false
		}
		okPub := true
		n, nFlush := 0, 0
		pubDetail := "pendingTxGroups is replaced by rememberedTxGroups when flushing, otherwise extended by it, nothing else"
		for _, st := range StoresToField(rc, false, map[*types.Var]bool{fPenG: true}) {
			n++
			val := st.(*ssa.Store).Val
			if underFlush(st.Block()) {
				nFlush++
				if !onR(fRemG)(val) {
					okPub = false
					pubDetail = "with flush=true pendingTxGroups is not replaced by exactly rememberedTxGroups: committed or invalid groups dropped by the re-evaluation would stay pending"
				}
				continue
			}
			if onR(fRemG)(val) {
				continue
			}
			if call, ok := val.(*ssa.Call); ok {
				if b, isB := call.Common().Value.(*ssa.Builtin); isB && b.Name() == "append" && onR(fPenG)(call.Common().Args[0]) && onR(fRemG)(call.Common().Args[1]) {
					continue
				}
			}
			okPub = false
			pubDetail = "pendingTxGroups is assigned something other than rememberedTxGroups / pending+remembered"
		}
		if nFlush == 0 {
			okPub = false
			pubDetail = "no store to pendingTxGroups under flush==true found"
		}
		c.Check(okPub && n > 0, rule, P+"rememberCommit:pendingTxGroups<-remembered (flush) | pending+remembered", c.Pos(rc.Pos()), pubDetail)
		okIdsPub := true
		n = 0
		for _, st := range StoresToField(rc, false, map[*types.Var]bool{fPenI: true}) {
			n++
			if !onR(fRemI)(st.(*ssa.Store).Val) || !underFlush(st.Block()) {
				okIdsPub = false
			}
		}
		c.Check(okIdsPub && n > 0, rule, P+"rememberCommit:pendingTxids<-rememberedTxids", c.Pos(rc.Pos()), "pendingTxids is replaced only by rememberedTxids")
	}

	// ---------------- R44.2 ----------------
	{
		const rule = "R44.2"
		rem := c.Fn(P + "Remember")
		pool := rem.Params[0]
		tgP := fParamAt(rem, 0)
		var effects []ssa.Instruction
		effects = append(effects, asInstrs(CallsTo(rem, false, rememberObj, commitObj, ingestObj))...)
		c.fMustGuard(fGuardSpec{Rule: rule, Fn: rem, Effects: effects, EffName: "remember/rememberCommit", Guard: GErrNil("checkPendingQueueSize(txgroup)==nil", func(v ssa.Value) bool {
			call, _ := fCallOf(v)
			if call == nil || !sameFunc(calleeOf(call.Common()), queueSize) {
				return false
			}
			a := call.Common().Args
			return len(a) == 2 && fIsParam(a[0], pool) && fIsParam(a[1], tgP)
		})})
		// callers of remember / ingest
		c.OwnerRule(rule, "call(TransactionPool.remember)", c.Uses([]*types.Func{rememberObj}, ScanOpts{SkipGenerated: true}), map[string]string{P + "Remember": "after the size check"})
		c.OwnerRule(rule, "call(TransactionPool.ingest)", c.Uses([]*types.Func{ingestObj}, ScanOpts{SkipGenerated: true}), map[string]string{P + "remember": "submission (fee check on)", P + "add": "re-evaluation (fee check off)"})
		c.OwnerRule(rule, "call(TransactionPool.add)", c.Uses([]*types.Func{addObj}, ScanOpts{SkipGenerated: true}), map[string]string{P + "recomputeBlockEvaluator": "re-evaluation of the pending snapshot"})
		// remember passes recomputing=false, its own txgroup
		{
			rf := c.Fn(P + "remember")
			calls := fCallsIn(rf, ingestObj)
			ok := len(calls) == 1
			if ok {
				a := calls[0].Common().Args // pool, txgroup, params
				ok = fIsParam(a[1], fParamAt(rf, 0))
				ld, isLd := a[2].(*ssa.UnOp)
				if isLd {
					if al, isA := ld.X.(*ssa.Alloc); isA {
						for _, r := range *al.Referrers() {
							if fa, isFA := r.(*ssa.FieldAddr); isFA && structField(fa.X.Type(), fa.Field) == fRecomputing {
								for _, r2 := range *fa.Referrers() {
									if st, isSt := r2.(*ssa.Store); isSt && !IsConstBool(false)(st.Val) {
										ok = false
									}
								}
							}
						}
					} else {
						ok = false
					}
				} else if k, isK := a[2].(*ssa.Const); !isK || k.Value != nil {
					ok = false
				}
			}
			c.Check(ok, rule, P+"remember:ingest(txgroup, recomputing=false)", c.Pos(rf.Pos()), "submissions are ingested with the fee check active")
		}
		// checkPendingQueueSize
		{
			q := c.Fn(P + "checkPendingQueueSize")
			qp := q.Params[0]
			tg := fParamAt(q, 0)
			fMax := c.Field(P + "txPoolMaxSize")
			fOver := c.Field(P + "stateproofOverflowed")
			fType := c.Field("data/transactions.Transaction.Type")
			kSP := c.Const("protocol.StateProofTx")
			count := c.Func(P + "pendingTxIDsCount")
			isLenTg := func(v ssa.Value) bool { x, ok := fLenOf(strip(v)); return ok && fIsParam(x, tg) }
			gSize := GCmp("pendingTxIDsCount()+len(txnGroup)<=txPoolMaxSize", token.LEQ, func(v ssa.Value) bool {
				bo, ok := strip(v).(*ssa.BinOp)
				if !ok || bo.Op != token.ADD {
					return false
				}
				isCount := func(x ssa.Value) bool {
					call, ok := fIsCallTo(strip(x), count)
					return ok && fIsParam(call.Common().Args[0], qp)
				}
				return isCount(bo.X) && isLenTg(bo.Y) || isCount(bo.Y) && isLenTg(bo.X)
			}, func(v ssa.Value) bool { return fIsFieldLoad(v, fMax) && fIsParam(fRoot(v), qp) })
			succ := fSuccessReturns(q)
			sizeEdges, nSize := PassEdges(q, gSize)
			if nSize == 0 {
				c.Bad(rule, P+"checkPendingQueueSize:size test", c.Pos(q.Pos()), "the pool size test pendingTxIDsCount()+len(txnGroup) <= txPoolMaxSize is gone")
			} else {
				r := fReachFrom(q, nil, sizeEdges, nil)
				var exc []ssa.Instruction
				for _, s := range succ {
					if r.Reaches(s) {
						exc = append(exc, s)
					}
				}
				c.Ok(rule, P+"checkPendingQueueSize:size test", c.Pos(q.Pos()), itoa(len(succ)-len(exc))+" nil return(s) lie behind the size test; "+itoa(len(exc))+" exceptional")
				if len(exc) > 0 {
					gs := []Guard{
						fGRange("len(txnGroup)==1", isLenTg, 1, 1),
						GCmp("txnGroup[0].Txn.Type==StateProofTx", token.EQL, func(v ssa.Value) bool {
							if !fIsFieldLoad(v, fType) {
								return false
							}
							ia, ok := fRoot(v).(*ssa.IndexAddr)
							return ok && fIsParam(ia.X, tg) && IsConstInt(0)(ia.Index)
						}, func(v ssa.Value) bool { return valueIs(strip(v), kSP) }),
						GBool("!pool.stateproofOverflowed", func(v ssa.Value) bool { return fIsFieldLoad(v, fOver) && fIsParam(fRoot(v), qp) }, false),
					}
					for _, g := range gs {
						c.fMustGuard(fGuardSpec{Rule: rule, Fn: q, Effects: exc, EffName: "return(nil) over the size limit", Guard: g})
					}
					// the flag is set before returning
					sets := Instrs(q, func(in ssa.Instruction) bool {
						st, ok := in.(*ssa.Store)
						if !ok {
							return false
						}
						fa, ok := st.Addr.(*ssa.FieldAddr)
						return ok && structField(fa.X.Type(), fa.Field) == fOver && IsConstBool(true)(st.Val)
					})
					r2 := fReachFrom(q, nil, sizeEdges, func(in ssa.Instruction) bool {
						for _, s := range sets {
							if s == in {
								return true
							}
						}
						return false
					})
					okSet := len(sets) > 0
					for _, e := range exc {
						if r2.Reaches(e) {
							okSet = false
						}
					}
					c.Check(okSet, rule, P+"checkPendingQueueSize:exception sets stateproofOverflowed", c.Pos(q.Pos()), "the over-limit state-proof admission happens once: the flag is set on every path to that return")
				}
			}
		}
	}

	// ---------------- R44.3 ----------------
	{
		const rule = "R44.3"
		// addToPendingBlockEvaluator -> Once -> TransactionGroup
		ae := c.Fn(P + "addToPendingBlockEvaluator")
		onceRes := func(fn *ssa.Function) VM {
			return func(v ssa.Value) bool {
				return fAllLeavesZ(v, func(x ssa.Value) bool {
					call, _ := fCallOf(x)
					if call == nil || !sameFunc(calleeOf(call.Common()), addOnce) {
						return false
					}
					a := call.Common().Args
					return len(a) == 4 && fIsParam(a[1], fParamAt(fn, 0))
				}, false)
			}
		}
		okAE := true
		nr := 0
		for _, ret := range fReturnsOf(ae) {
			nr++
			if !onceRes(ae)(ret.Results[0]) {
				okAE = false
			}
		}
		c.Check(okAE && nr > 0, rule, P+"addToPendingBlockEvaluator:returns(addToPendingBlockEvaluatorOnce(txgroup,…))", c.Pos(ae.Pos()), "every return yields the verdict of an evaluation of the same txgroup")

		once := c.Fn(P + "addToPendingBlockEvaluatorOnce")
		opool := once.Params[0]
		otg := fParamAt(once, 0)
		tgFn := c.Func("data/pools.BlockEvaluator.TransactionGroup")
		wrap := c.Func("data/transactions.WrapSignedTxnsWithAD")
		fEval := c.Field(P + "pendingBlockEvaluator")
		fWhole := c.Field(P + "numPendingWholeBlocks")
		fLastValid := c.Field("data/transactions.Header.LastValid")
		roundFn := c.Func("data/pools.BlockEvaluator.Round")
		var tgCall *ssa.Call
		for _, call := range fCallsIn(once, tgFn) {
			a := callArgs(call.Common())
			if len(a) == 2 && fIsFieldLoad(a[0], fEval) && fIsParam(fRoot(a[0]), opool) {
				if w, _ := fCallOf(a[1]); w != nil && sameFunc(calleeOf(w.Common()), wrap) && fIsParam(w.Common().Args[0], otg) {
					tgCall = call
				}
			}
		}
		if tgCall == nil {
			c.Bad(rule, P+"addToPendingBlockEvaluatorOnce:TransactionGroup(Wrap(txgroup))", c.Pos(once.Pos()), "the group is not evaluated by pool.pendingBlockEvaluator.TransactionGroup(WrapSignedTxnsWithAD(txgroup)...)")
		} else {
			c.fNilOnlyIf(rule, once, "pendingBlockEvaluator.TransactionGroup(Wrap(txgroup)…)==nil", func(v ssa.Value) bool { return fExtractOf(v, tgCall, 0) })
			// LastValid window per member
			var el *ssa.IndexAddr
			for _, in := range Instrs(once, func(in ssa.Instruction) bool {
				ia, ok := in.(*ssa.IndexAddr)
				return ok && fIsParam(ia.X, otg)
			}) {
				el = in.(*ssa.IndexAddr)
			}
			okLV := false
			if el != nil {
				phi, okWalk := fIndexWalk(el.Index)
				var boundExits []Edge
				if okWalk {
					okWalk, boundExits = fLoopBound(once, el.Index, phi, func(v ssa.Value) bool { x, ok := fLenOf(v); return ok && fIsParam(x, otg) })
				}
				if okWalk {
					c.fNoEarlyExit(rule, P+"addToPendingBlockEvaluatorOnce:every member's LastValid is looked at", once, el, phi, boundExits, []ssa.Instruction{tgCall})
					g := GCmp("tx.Txn.LastValid>=eval.Round()+numPendingWholeBlocks", token.GEQ, func(v ssa.Value) bool {
						return fIsFieldLoad(v, fLastValid) && fRoot(v) == ssa.Value(el)
					}, func(v ssa.Value) bool {
						bo, ok := strip(v).(*ssa.BinOp)
						if !ok || bo.Op != token.ADD {
							return false
						}
						isRound := func(x ssa.Value) bool {
							call, ok := fIsCallTo(strip(x), roundFn)
							return ok && fIsFieldLoad(callArgs(call.Common())[0], fEval)
						}
						isWhole := func(x ssa.Value) bool { return fIsFieldLoad(x, fWhole) && fIsParam(fRoot(x), opool) }
						return isRound(bo.X) && isWhole(bo.Y) || isRound(bo.Y) && isWhole(bo.X)
					})
					okLV = c.fIteration(rule, P+"addToPendingBlockEvaluatorOnce:member.LastValid>=round+pendingWholeBlocks", once, el, phi, []Guard{g}, nil, []ssa.Instruction{tgCall}, "its LastValid having been compared with the round it would be placed in")
				}
			}
			if !okLV && el == nil {
				c.Unk(rule, P+"addToPendingBlockEvaluatorOnce:LastValid window", c.Pos(once.Pos()), "no per-member loop over txgroup found before the evaluation")
			}
		}

		// recomputeBlockEvaluator
		rc := c.Fn(P + "recomputeBlockEvaluator")
		rpool := rc.Params[0]
		committed := fParamAt(rc, 0)
		idFn := c.Func("data/transactions.SignedTxn.ID")
		adds := fCallsIn(rc, addObj)
		if len(adds) != 1 {
			c.Unk(rule, P+"recomputeBlockEvaluator:pool.add", c.Pos(rc.Pos()), "expected exactly one pool.add call, found "+itoa(len(adds)))
		} else {
			add := adds[0]
			grp := fLocal(add.Common().Args[1])
			// grp is the loop element *(&txgroups[i])
			ptr, okd := fDeref(grp)
			el, isEl := ptr.(*ssa.IndexAddr)
			okSnap := okd && isEl && fIsFieldLoad(el.X, fPenG) && fIsParam(fRoot(el.X), rpool)
			c.Check(okSnap, rule, P+"recomputeBlockEvaluator:re-adds elements of the pendingTxGroups snapshot", c.Pos(add.Pos()), "pool.add is fed the groups of pool.pendingTxGroups")
			if okSnap {
				phi, okWalk := fIndexWalk(el.Index)
				if okWalk {
					gNot := GBool("!alreadyCommitted", func(v ssa.Value) bool {
						e, ok := strip(v).(*ssa.Extract)
						if !ok || e.Index != 1 {
							return false
						}
						lk, ok := e.Tuple.(*ssa.Lookup)
						if !ok || !lk.CommaOk || !fIsParam(lk.X, committed) {
							return false
						}
						kc, ok := fIsCallTo(strip(lk.Index), idFn)
						if !ok {
							return false
						}
						k0, ok := fRoot(kc.Common().Args[0]).(*ssa.IndexAddr)
						if !ok || !IsConstInt(0)(k0.Index) {
							return false
						}
						gp, okg := fDeref(k0.X)
						return okg && gp == ssa.Value(el)
					}, false)
					c.fMustGuard(fGuardSpec{Rule: rule, Fn: rc, From: el, FromName: "the loop element", Effects: []ssa.Instruction{add}, EffName: "pool.add(txgroup)", Guard: gNot})
					_ = phi
				} else {
					c.Unk(rule, P+"recomputeBlockEvaluator:loop", c.Pos(add.Pos()), "unrecognised loop over the pending snapshot")
				}
			}
			// the function's normal end publishes with flush=true
			commits := fCallsIn(rc, commitObj)
			okC := len(commits) > 0
			for _, cc := range commits {
				if !IsConstBool(true)(cc.Common().Args[1]) {
					okC = false
				}
			}
			// returns reachable after the loop must pass rememberCommit(true)
			if okC {
				r := fReachFrom(rc, add, nil, func(in ssa.Instruction) bool {
					for _, cc := range commits {
						if ssa.Instruction(cc) == in {
							return true
						}
					}
					return false
				})
				for _, ret := range fReturnsOf(rc) {
					if r.Reaches(ret) {
						okC = false
					}
				}
			}
			c.Check(okC, rule, P+"recomputeBlockEvaluator:ends with rememberCommit(true)", c.Pos(rc.Pos()), "after re-evaluating the snapshot the function cannot return without rememberCommit(flush=true)")
			// the evaluator comes from ledger.StartEvaluator
			se := c.Func("ledger.Ledger.StartEvaluator")
			okSE := false
			for _, st := range StoresToField(rc, false, map[*types.Var]bool{fEval: true}) {
				val := st.(*ssa.Store).Val
				if IsNil(val) {
					continue
				}
				if call, _ := fCallOf(val); call != nil && sameFunc(calleeOf(call.Common()), se) {
					okSE = true
				} else if mi, isMI := val.(*ssa.MakeInterface); isMI {
					if call, _ := fCallOf(mi.X); call != nil && sameFunc(calleeOf(call.Common()), se) {
						okSE = true
						continue
					}
					okSE = false
					break
				} else {
					okSE = false
					break
				}
			}
			c.Check(okSE, rule, P+"recomputeBlockEvaluator:pendingBlockEvaluator<-ledger.StartEvaluator", c.Pos(rc.Pos()), "the pool's evaluator is nil or the one started by ledger.StartEvaluator")
		}
		c.OwnerRule(rule, "write(pendingBlockEvaluator)", c.FieldWrites(map[*types.Var]bool{fEval: true}, ScanOpts{SkipGenerated: true}), map[string]string{
			P + "recomputeBlockEvaluator": "restarts on the latest block", P + "Reset": "clears before recompute"})
		// ledger.StartEvaluator validates; the evaluator's duplicate check
		{
			lse := c.Fn("ledger.Ledger.StartEvaluator")
			fVal := c.Field("ledger/eval.EvaluatorOptions.Validate")
			st := StoresToField(lse, false, map[*types.Var]bool{fVal: true})
			ok := len(st) > 0
			for _, s := range st {
				if !IsConstBool(true)(s.(*ssa.Store).Val) {
					ok = false
				}
			}
			c.Check(ok, rule, "ledger.Ledger.StartEvaluator:Validate=true", c.Pos(lse.Pos()), "evaluators handed to the pool validate (duplicate, lifetime and authorizer checks are on)")
			tr := c.Fn("ledger/eval.BlockEvaluator.transaction")
			apply := c.Func("ledger/eval.BlockEvaluator.applyTransaction")
			checkDup := c.Func("ledger/eval.roundCowState.checkDup")
			alive := c.Func("data/bookkeeping.BlockHeader.Alive")
			fValidate := c.Field("ledger/eval.BlockEvaluator.validate")
			bypass := []Guard{GBool("!eval.validate", M(fValidate), false)}
			eff := asInstrs(CallsTo(tr, false, apply))
			c.fMustGuard(fGuardSpec{Rule: rule, Fn: tr, Effects: eff, EffName: "applyTransaction", Guard: GErrNil("cow.checkDup(...)==nil", ResultOf(0, checkDup)), Bypass: bypass})
			c.fMustGuard(fGuardSpec{Rule: rule, Fn: tr, Effects: eff, EffName: "applyTransaction", Guard: GErrNil("eval.block.Alive(txn.Txn.Header)==nil", ResultOf(0, alive)), Bypass: bypass})
		}
	}

	// ---------------- R44.5 ----------------
	{
		const rule = "R44.5"
		onb := c.Fn(P + "OnNewBlock")
		pool := onb.Params[0]
		blockP := fParamAt(onb, 0)
		deltaP := fParamAt(onb, 1)
		fShutdown := c.Field(P + "shutdown")
		fEval := c.Field(P + "pendingBlockEvaluator")
		fTxids := c.Field("ledger/ledgercore.StateDelta.Txids")
		blockRound := c.Func("data/bookkeeping.Block.Round")
		evalRound := c.Func("data/pools.BlockEvaluator.Round")
		calls := fCallsIn(onb, recomputeObj)
		okArg := len(calls) > 0
		for _, call := range calls {
			a := call.Common().Args
			if !(fIsFieldLoad(a[1], fTxids) && fIsParam(fRoot(a[1]), deltaP)) {
				okArg = false
			}
		}
		c.Check(okArg, rule, P+"OnNewBlock:recomputeBlockEvaluator(delta.Txids,…)", c.Pos(onb.Pos()), "the recompute is told exactly the transaction ids committed by the new block")
		var rets []ssa.Instruction
		for _, r := range fReturnsOf(onb) {
			rets = append(rets, r)
		}
		gShut := GBool("pool.shutdown", func(v ssa.Value) bool { return fIsFieldLoad(v, fShutdown) && fIsParam(fRoot(v), pool) }, true)
		gOld := GCmp("block.Round()<pendingBlockEvaluator.Round()", token.LSS, func(v ssa.Value) bool {
			call, ok := fIsCallTo(strip(v), blockRound)
			return ok && fIsParam(fRoot(call.Common().Args[0]), blockP)
		}, func(v ssa.Value) bool {
			call, ok := fIsCallTo(strip(v), evalRound)
			return ok && fIsFieldLoad(callArgs(call.Common())[0], fEval)
		})
		c.fUnreachableUnless(rule, P+"OnNewBlock:return<=recompute | shutdown | stale block", onb, nil, rets, "return", []Guard{gShut, gOld},
			func(in ssa.Instruction) bool {
				for _, call := range calls {
					if ssa.Instruction(call) == in {
						return true
					}
				}
				return false
			}, "recomputeBlockEvaluator having run (or the pool being shut down, or the block being older than the evaluator's round)")
	}
}

// fElemStores lists the values stored into elements of a local array.
func fElemStores(arr *ssa.Alloc) []ssa.Value {
	var vals []ssa.Value
	for _, r := range *arr.Referrers() {
		if ia, isIA := r.(*ssa.IndexAddr); isIA {
			for _, r2 := range *ia.Referrers() {
				if s2, isSt := r2.(*ssa.Store); isSt && s2.Addr == ssa.Value(ia) {
					vals = append(vals, s2.Val)
				}
			}
		}
	}
	return vals
}
