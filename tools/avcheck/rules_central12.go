package main

import (
	"go/token"
	"go/types"

	"golang.org/x/tools/go/ssa"
)

// R42.5 (after seed C42-1) and R33.6 (after seed C33-1).
func init() {
	extend("C42", Extension{
		Run:         ruleVpackKeyOwnHash,
		Explanation: "R42.5 (sender and receiver file a key in the same bucket): in package vpack every lruTable.lookup(k, h) and lruTable.insert(k, h) — encoder and decoder alike — passes as h the result of k's own hash() (the same variable), so an entry is inserted under the hash it is later looked up with and both sides place it in the same slot.",
		Floor:       map[string]int{"R42.5": 9},
	})
	extend("C33", Extension{
		Run:         ruleBranchSizingAgreesWithResolution,
		Explanation: "R33.6 (the assembler's two branch passes agree): findBranchSizes (which sizes the varint placeholder of a v13+ branch) and resolveLabels (which writes the offset) compute the jump from the same two bases — the position after the offset for forward jumps and the opcode position (lr.position-1) for backward jumps — so the placeholder always has exactly the size of the offset written and no stray zero byte (an `err` opcode) is left behind the branch.",
		Floor:       map[string]int{"R33.6": 2},
	})
}

// rootCell returns the local variable (Alloc) or value a key expression stands for.
func rootCell(v ssa.Value) ssa.Value {
	for i := 0; i < 6; i++ {
		switch x := v.(type) {
		case *ssa.UnOp:
			if x.Op == token.MUL {
				v = x.X
				continue
			}
		case *ssa.ChangeType:
			v = x.X
			continue
		case *ssa.Convert:
			v = x.X
			continue
		}
		break
	}
	return v
}

func ruleVpackKeyOwnHash(c *Ctx) {
	const rule = "R42.5"
	n := 0
	for _, fn := range c.funcsOf(Mod + "/network/vpack") {
		for _, b := range fn.Blocks {
			for _, in := range b.Instrs {
				call, ok := in.(*ssa.Call)
				if !ok {
					continue
				}
				cal := calleeOf(call.Common())
				if cal == nil || (cal.Name() != "insert" && cal.Name() != "lookup") {
					continue
				}
				sig := cal.Type().(*types.Signature)
				if sig.Recv() == nil || sig.Params().Len() != 2 {
					continue
				}
				rt := sig.Recv().Type()
				if p, isP := rt.(*types.Pointer); isP {
					rt = p.Elem()
				}
				nt, isN := types.Unalias(rt).(*types.Named)
				if !isN || nt.Obj().Name() != "lruTable" {
					continue
				}
				args := call.Common().Args // recv, k, h
				if len(args) != 3 {
					continue
				}
				n++
				k, h := args[1], args[2]
				hc, isCall := h.(*ssa.Call)
				ok2 := false
				if isCall {
					if hcal := calleeOf(hc.Common()); hcal != nil && hcal.Name() == "hash" && len(hc.Common().Args) >= 1 {
						ok2 = rootCell(hc.Common().Args[0]) == rootCell(k)
					}
				}
				c.Check(ok2, rule, fnName(fn)+":"+cal.Name()+"(k, k.hash())", c.Pos(call.Pos()), "the hash handed to the table with a key is that key's own hash")
			}
		}
	}
	if n == 0 {
		c.Unk(rule, "lruTable.insert/lookup calls", "-", "no lruTable.insert/lookup call found in package vpack")
	}
}

func ruleBranchSizingAgreesWithResolution(c *Ctx) {
	const rule = "R33.6"
	fPos := c.Field("data/transactions/logic.labelReference.position")
	fOff := c.Field("data/transactions/logic.labelReference.offsetPosition")
	classify := func(fn *ssa.Function) (map[string]bool, bool) {
		// jump values that reach binary.PutVarint
		classes := map[string]bool{}
		found := false
		for _, b := range fn.Blocks {
			for _, in := range b.Instrs {
				call, ok := in.(*ssa.Call)
				if !ok {
					continue
				}
				cal := calleeOf(call.Common())
				if cal == nil || cal.Name() != "PutVarint" || cal.Pkg() == nil || cal.Pkg().Path() != "encoding/binary" {
					continue
				}
				found = true
				v := strip(call.Common().Args[1])
				var subs []*ssa.BinOp
				seen := map[ssa.Value]bool{}
				var rec func(x ssa.Value, d int)
				rec = func(x ssa.Value, d int) {
					if x == nil || seen[x] || d < 0 {
						return
					}
					seen[x] = true
					switch y := x.(type) {
					case *ssa.Phi:
						for _, e := range y.Edges {
							rec(e, d-1)
						}
					case *ssa.BinOp:
						if y.Op == token.SUB {
							subs = append(subs, y)
						}
					case *ssa.Convert:
						rec(y.X, d-1)
					case *ssa.UnOp:
						if a, ok := y.X.(*ssa.Alloc); ok {
							for _, s := range localStores(a) {
								rec(s, d-1)
							}
						}
					}
				}
				rec(v, 6)
				for _, s := range subs {
					base := s.Y
					switch {
					case Mentions(base, fOff, 3):
						classes["after-offset"] = true
					case isPosMinusOne(base, fPos):
						classes["opcode"] = true
					default:
						classes["other:"+describe(base)] = true
					}
				}
			}
		}
		return classes, found
	}
	want := map[string]bool{"after-offset": true, "opcode": true}
	for _, spec := range []string{"data/transactions/logic.OpStream.findBranchSizes", "data/transactions/logic.OpStream.resolveLabels"} {
		fn := c.Fn(spec)
		got, found := classify(fn)
		if !found {
			c.Unk(rule, spec+":varint jump bases", c.Pos(fn.Pos()), "no binary.PutVarint of the jump found")
			continue
		}
		ok := len(got) == len(want)
		list := ""
		for k := range got {
			if !want[k] {
				ok = false
			}
			list += " " + k
		}
		c.Check(ok, rule, spec+":varint jump = dest-(after offset) forward, dest-(opcode position) backward", c.Pos(fn.Pos()), "jump bases used:"+list)
	}
}

// isPosMinusOne: v is lr.position - 1 (possibly through a local).
func isPosMinusOne(v ssa.Value, fPos *types.Var) bool {
	v = resolveLocalAny(v)
	bo, ok := v.(*ssa.BinOp)
	if !ok || bo.Op != token.SUB {
		return false
	}
	return Mentions(bo.X, fPos, 3) && IsConstInt(1)(bo.Y)
}
