package main

import (
	"go/constant"
	"go/token"
	"go/types"
	"sort"

	"golang.org/x/tools/go/ssa"
)

func init() {
	register(&Prop{
		ID:       "C29",
		Patterns: []string{"./ledger/eval", "./data/bookkeeping", "./data/transactions", "./data/transactions/verify", "./catchup"},
		Run:      runC29,
		Explanation: "Decides the guard/dataflow shape of the two commitment checks. " +
			"R29.1 ledger/eval BlockEvaluator.TransactionGroup: the evaluation loop walks every index of txgroup; no iteration completes unless the member's Txn.Group equals txgroup[0]'s, unless the member's Group is non-zero or len(txgroup)<=1, and — for a non-zero Group — unless exactly the ID of a copy of that member's Txn with only Group zeroed was appended to the local TxGroup; the commit (append to eval.block.Payset, cow.commitToParent) is unreachable unless txgroup[0].Group == crypto.HashObj(that TxGroup), only bypass: its TxGroupHashes is nil; nothing else writes the TxGroup. " +
			"R29.1b data/transactions.checkTxnGroupID (used by signature verification and proposal validation): same clauses — nil is returned only if n==0, or the first Group is zero and n==1, or every member's Group equals the first one's and the first one's equals hashTxGroup of the IDs of Group-zeroed copies appended once per member in index order; CheckTxnGroup/CheckPaysetGroup hand it the Txn of element i of their argument; verify.txnGroupBatchPrep returns a context only if CheckTxnGroup(stxs)==nil. " +
			"R29.2 bookkeeping.BlockHeader.PreCheck returns nil only if prev.Round+1 == bh.Round and bh.Branch == prev.Hash(); the evaluator's start (ledger/eval.StartEvaluator) returns an evaluator only if eval.block.BlockHeader.PreCheck(eval.prevHeader)==nil, only bypass: evalOpts.Validate==false. " +
			"R29.3 bookkeeping.Block.ContentsMatchHeader returns false or PaysetCommit()==block.TxnCommitments of its receiver, the latter only when PaysetCommit succeeded; PaysetCommit fills NativeSha512_256Commitment from paysetCommit of its receiver (and the SHA256/SHA512 commitments from their own tree roots); BlockEvaluator.endOfBlock returns nil only if eval.block.PaysetCommit()==eval.block.TxnCommitments, only bypass eval.validate==false. " +
			"R29.4 every ToBeHashed method of the loaded packages returns one protocol.HashID constant, and no two distinct types share a HashID except the tabled, reviewed pairs (domain separation of hashed identifiers). " +
			"Does NOT decide: collision resistance or the Merkle tree construction (txn_merkle.go), that Transaction.ID()/BlockHeader.Hash() cover every field of their canonical encodings, nor that the previous header given to PreCheck is the ledger's block r-1 (C03/C30).",
		Assumptions: []string{"msgp encodings of TxGroup/BlockHeader are injective", "crypto.HashObj prefixes the ToBeHashed HashID"},
		Floor:       map[string]int{"R29.1": 9, "R29.1b": 12, "R29.2": 4, "R29.3": 6, "R29.4": 35},
	})
}

// c29GrouplessID: v is (a conversion of) Transaction.ID() of a local copy whose
// only whole store is a value satisfying src and whose only field store zeroes
// Header.Group.
func c29GrouplessID(c *Ctx, v ssa.Value, src VM) (bool, string) {
	idFn := c.Func("data/transactions.Transaction.ID")
	fHeader := c.Field("data/transactions.Transaction.Header")
	fGroup := c.Field("data/transactions.Header.Group")
	call, ok := fIsCallTo(strip(v), idFn)
	if !ok {
		return false, "the appended value is not Transaction.ID() of a copy: " + describe(v)
	}
	ld, ok := call.Common().Args[0].(*ssa.UnOp)
	if !ok || ld.Op != token.MUL {
		return false, "ID() is not taken of a local copy"
	}
	w, ok := ld.X.(*ssa.Alloc)
	if !ok {
		return false, "ID() is not taken of a local copy"
	}
	whole := localStores(w)
	if len(whole) != 1 || !src(whole[0]) {
		return false, "the copy whose ID is appended is not initialised (once) from this iteration's member"
	}
	nField := 0
	for _, r := range *w.Referrers() {
		fa, isFA := r.(*ssa.FieldAddr)
		if !isFA {
			continue
		}
		var visit func(fa *ssa.FieldAddr, path []*types.Var) bool
		okAll := true
		visit = func(fa *ssa.FieldAddr, path []*types.Var) bool {
			path = append(path, structField(fa.X.Type(), fa.Field))
			for _, r2 := range *fa.Referrers() {
				switch x := r2.(type) {
				case *ssa.FieldAddr:
					visit(x, path)
				case *ssa.Store:
					if x.Addr == ssa.Value(fa) {
						nField++
						if !(len(path) == 2 && path[0] == fHeader && path[1] == fGroup && fIsZeroConst(x.Val)) {
							okAll = false
						}
					}
				}
			}
			return okAll
		}
		if !visit(fa, nil) {
			return false, "the copy is modified in a field other than Header.Group (or Group is not set to zero) before its ID is taken"
		}
	}
	if nField != 1 {
		return false, "the copy's Group is not zeroed exactly once before its ID is taken"
	}
	return true, ""
}

// c29AppendStores finds stores `G.TxGroupHashes = append(G.TxGroupHashes, x)`
// into local G and returns them with the single appended value.
func c29AppendStores(c *Ctx, fn *ssa.Function, g *ssa.Alloc) (stores map[ssa.Instruction]ssa.Value, other []ssa.Instruction) {
	fHashes := c.Field("data/transactions.TxGroup.TxGroupHashes")
	stores = map[ssa.Instruction]ssa.Value{}
	for _, in := range Instrs(fn, func(in ssa.Instruction) bool {
		st, ok := in.(*ssa.Store)
		if !ok {
			return false
		}
		fa, ok := st.Addr.(*ssa.FieldAddr)
		return ok && fa.X == ssa.Value(g) && structField(fa.X.Type(), fa.Field) == fHashes
	}) {
		st := in.(*ssa.Store)
		call, ok := st.Val.(*ssa.Call)
		okApp := false
		if ok {
			if b, isB := call.Common().Value.(*ssa.Builtin); isB && b.Name() == "append" && len(call.Common().Args) == 2 {
				base := call.Common().Args[0]
				if ld, isLd := base.(*ssa.UnOp); isLd && ld.Op == token.MUL && func() bool {
					fa, isFA := ld.X.(*ssa.FieldAddr)
					return isFA && fa.X == ssa.Value(g) && structField(fa.X.Type(), fa.Field) == fHashes
				}() {
					// second arg: slice of a fresh [1]T whose element 0 is stored once
					if sl, isSl := call.Common().Args[1].(*ssa.Slice); isSl {
						if arr, isArr := sl.X.(*ssa.Alloc); isArr {
							var vals []ssa.Value
							for _, r := range *arr.Referrers() {
								if ia, isIA := r.(*ssa.IndexAddr); isIA {
									for _, r2 := range *ia.Referrers() {
										if s2, isSt := r2.(*ssa.Store); isSt && s2.Addr == ssa.Value(ia) {
											vals = append(vals, s2.Val)
										}
									}
								}
							}
							if at, isAT := arr.Type().(*types.Pointer).Elem().(*types.Array); isAT && at.Len() == 1 && len(vals) == 1 {
								stores[in] = vals[0]
								okApp = true
							}
						}
					}
				}
			}
		}
		if !okApp {
			other = append(other, in)
		}
	}
	return
}

func runC29(c *Ctx) {
	c29EvalGroup(c)
	c29CheckGroupID(c)
	c29PreCheck(c)
	c29Contents(c)
	c29HashIDs(c)
}

// ---------------- R29.1 ----------------

func c29EvalGroup(c *Ctx) {
	const rule = "R29.1"
	const fname = "ledger/eval.BlockEvaluator.TransactionGroup"
	fn := c.Fn(fname)
	tgP := fParamAt(fn, 0)
	fGroup := c.Field("data/transactions.Header.Group")
	fTxn := c.Field("data/transactions.SignedTxn.Txn")
	fPayset := c.Field("data/bookkeeping.Block.Payset")
	transaction := c.Func("ledger/eval.BlockEvaluator.transaction")
	commit := c.Func("ledger/eval.roundCowState.commitToParent")
	isZero := c.Func("crypto.Digest.IsZero")
	hashObj := c.Func("crypto.HashObj")

	// the evaluation loop: the element access &txgroup[idx] that dominates the call of eval.transaction
	tcalls := CallsTo(fn, false, transaction)
	if len(tcalls) != 1 {
		c.Unk(rule, fname+":eval.transaction", c.Pos(fn.Pos()), "expected exactly one call of eval.transaction, found "+itoa(len(tcalls)))
		return
	}
	var elem *ssa.IndexAddr
	for _, in := range Instrs(fn, func(in ssa.Instruction) bool {
		ia, ok := in.(*ssa.IndexAddr)
		return ok && fIsParam(ia.X, tgP) && Dominates(in, tcalls[0])
	}) {
		ia := in.(*ssa.IndexAddr)
		if _, isK := ia.Index.(*ssa.Const); !isK {
			elem = ia
		}
	}
	if elem == nil {
		c.Unk(rule, fname+":loop", c.Pos(fn.Pos()), "cannot find the loop element &txgroup[i] that is evaluated")
		return
	}
	phi, okWalk := fIndexWalk(elem.Index)
	var boundExits []Edge
	if okWalk {
		okWalk, boundExits = fLoopBound(fn, elem.Index, phi, func(v ssa.Value) bool {
			x, ok := fLenOf(v)
			return ok && fIsParam(x, tgP)
		})
	}
	c.Check(okWalk, rule, fname+":loop walks every index of txgroup", c.Pos(elem.Pos()), "the evaluation loop visits txgroup[0..len) in order")
	if !okWalk {
		return
	}
	isMember := func(v ssa.Value) bool { // rooted at this iteration's element
		r, _ := fRootPath(v)
		return r == ssa.Value(elem)
	}
	memberGroup := func(v ssa.Value) bool { return fIsFieldLoad(v, fGroup) && isMember(v) }
	firstGroup := func(v ssa.Value) bool {
		if !fIsFieldLoad(v, fGroup) {
			return false
		}
		r, _ := fRootPath(v)
		ia, ok := r.(*ssa.IndexAddr)
		return ok && fIsParam(ia.X, tgP) && IsConstInt(0)(ia.Index)
	}
	// effects
	var effects []ssa.Instruction
	effects = append(effects, asInstrs(CallsTo(fn, false, commit))...)
	effects = append(effects, StoresToField(fn, false, map[*types.Var]bool{fPayset: true})...)
	if len(effects) < 2 {
		c.Unk(rule, fname+":commit", c.Pos(fn.Pos()), "commit effects (Payset append, commitToParent) not found")
		return
	}

	c.fIteration(rule, fname+":member.Group==txgroup[0].Group", fn, elem, phi,
		[]Guard{GCmp("member.Group==txgroup[0].Group", token.EQL, memberGroup, firstGroup)}, nil, effects, "its Txn.Group having been compared equal to txgroup[0]'s")
	gZero := func(want bool) Guard {
		return GAnyOf("member.Group.IsZero()=="+fBoolStr(want),
			GBool("IsZero()", func(v ssa.Value) bool {
				call, ok := fIsCallTo(strip(v), isZero)
				return ok && memberGroup(call.Common().Args[0])
			}, want),
			func() Guard {
				op := token.EQL
				if !want {
					op = token.NEQ
				}
				return GCmp("Group==Digest{}", op, memberGroup, fIsZeroConst)
			}())
	}
	c.fIteration(rule, fname+":zero Group only alone", fn, elem, phi,
		[]Guard{gZero(false), fGRange("len(txgroup)<=1", func(v ssa.Value) bool { x, ok := fLenOf(v); return ok && fIsParam(x, tgP) }, 0, 1)},
		nil, effects, "a non-zero Group or len(txgroup)<=1")

	// the local TxGroup and what is appended to it
	var g *ssa.Alloc
	var hashCmp Guard
	for _, call := range fCallsIn(fn, hashObj) {
		if ld, ok := call.Common().Args[0].(*ssa.UnOp); ok && ld.Op == token.MUL {
			if a, isA := ld.X.(*ssa.Alloc); isA && (g == nil || g == a) {
				g = a
			}
		}
	}
	if g == nil {
		c.Bad(rule, fname+":crypto.HashObj(group)", c.Pos(fn.Pos()), "TransactionGroup does not hash a local TxGroup")
		return
	}
	apps, other := c29AppendStores(c, fn, g)
	okG := len(other) == 0 && len(localStores(g)) == 0 && len(apps) > 0
	detail := "the hashed TxGroup is a zero-initialised local written only by single-element appends to its TxGroupHashes"
	for in, val := range apps {
		if ok, why := c29GrouplessID(c, val, func(s ssa.Value) bool {
			_, path := fRootPath(s)
			return isMember(s) && len(path) > 0 && path[0] == fTxn
		}); !ok {
			okG = false
			detail = why
		}
		_ = in
	}
	c.Check(okG, rule, fname+":group.TxGroupHashes<-ID(member.Txn without Group)", c.Pos(g.Pos()), detail)
	if okG {
		c.fIteration(rule, fname+":non-zero Group appends its ID", fn, elem, phi, []Guard{gZero(true)},
			func(in ssa.Instruction) bool { _, ok := apps[in]; return ok }, effects, "appending the member's group-less ID when its Group is non-zero")
	}
	hashCmp = GCmp("txgroup[0].Group==HashObj(group)", token.EQL, firstGroup, func(v ssa.Value) bool {
		call, ok := fIsCallTo(strip(v), hashObj)
		if !ok {
			return false
		}
		ld, isLd := call.Common().Args[0].(*ssa.UnOp)
		return isLd && ld.X == ssa.Value(g)
	})
	fHashes := c.Field("data/transactions.TxGroup.TxGroupHashes")
	c.fMustGuard(fGuardSpec{Rule: rule, Fn: fn, Effects: effects, EffName: "commit", Guard: hashCmp,
		Bypass: []Guard{GCmp("group.TxGroupHashes==nil", token.EQL, func(v ssa.Value) bool { return fIsFieldLoad(v, fHashes) && fRoot(v) == ssa.Value(g) }, IsNil)}})
	c.fNoEarlyExit(rule, fname+":commit only after the whole loop", fn, elem, phi, boundExits, effects)
	c.OwnerRule(rule, "write(Block.Payset) in ledger/eval", c.FieldWrites(map[*types.Var]bool{fPayset: true}, ScanOpts{SkipGenerated: true, OnlyPkgs: []string{"ledger/eval"}}),
		map[string]string{"ledger/eval.BlockEvaluator.TransactionGroup": "appends a whole checked group", "ledger/eval.StartEvaluator": "preallocates an empty payset (capacity hint) before any group is evaluated"})
}

// ---------------- R29.1b ----------------

func c29CheckGroupID(c *Ctx) {
	const rule = "R29.1b"
	const fname = "data/transactions.checkTxnGroupID"
	fn := c.Fn(fname)
	nP, txnP := fParamAt(fn, 0), fParamAt(fn, 1)
	fGroup := c.Field("data/transactions.Header.Group")
	isZero := c.Func("crypto.Digest.IsZero")
	hashFn := c.Func("data/transactions.hashTxGroup")
	isN := func(v ssa.Value) bool { return fIsParam(v, nP) }

	// element fetches: calls of the txn parameter
	var first, elem *ssa.Call
	for _, in := range Instrs(fn, func(in ssa.Instruction) bool {
		call, ok := in.(*ssa.Call)
		return ok && !call.Common().IsInvoke() && fIsParam(call.Common().Value, txnP) && len(call.Common().Args) == 1
	}) {
		call := in.(*ssa.Call)
		if IsConstInt(0)(call.Common().Args[0]) {
			first = call
		} else {
			elem = call
		}
	}
	if first == nil || elem == nil {
		c.Unk(rule, fname+":txn(i)", c.Pos(fn.Pos()), "cannot find txn(0) and the per-member txn(i) calls")
		return
	}
	phi, okWalk := fIndexWalk(elem.Common().Args[0])
	var boundExits []Edge
	if okWalk {
		okWalk, boundExits = fLoopBound(fn, elem.Common().Args[0], phi, isN)
	}
	c.Check(okWalk, rule, fname+":loop walks 0..n", c.Pos(elem.Pos()), "the loop visits txn(0..n) in order")
	if !okWalk {
		return
	}
	groupOf := func(call *ssa.Call) VM {
		return func(v ssa.Value) bool { return fIsFieldLoad(v, fGroup) && fRoot(v) == ssa.Value(call) }
	}
	nilRets := fSuccessReturns(fn)
	// the final nil return (after the loop) vs the early ones
	var early, final []ssa.Instruction
	for _, r := range nilRets {
		if elem.Block().Dominates(r.Block()) || fReachFrom(fn, elem, nil, nil).Reaches(r) {
			final = append(final, r)
		} else {
			early = append(early, r)
		}
	}
	c.fNoEarlyExit(rule, fname+":no early success out of the member loop", fn, elem, phi, boundExits, final)
	c.fIteration(rule, fname+":member.Group==first.Group", fn, elem, phi,
		[]Guard{GCmp("txn(i).Group==txn(0).Group", token.EQL, groupOf(elem), groupOf(first))}, nil, final, "its Group having been compared equal to the first member's")

	// computed TxGroup
	var g *ssa.Alloc
	for _, call := range fCallsIn(fn, hashFn) {
		if ld, ok := call.Common().Args[0].(*ssa.UnOp); ok && ld.Op == token.MUL {
			g, _ = ld.X.(*ssa.Alloc)
		}
	}
	if g == nil {
		c.Bad(rule, fname+":hashTxGroup(computed)", c.Pos(fn.Pos()), "checkTxnGroupID does not hash a local TxGroup")
		return
	}
	apps, other := c29AppendStores(c, fn, g)
	okG := len(other) == 0 && len(apps) > 0
	detail := "the hashed TxGroup is a local written only by single-element appends of group-less member IDs"
	// whole stores must be empty-slice initialisations
	for _, w := range localStores(g) {
		okInit := false
		if ld, isLd := w.(*ssa.UnOp); isLd && ld.Op == token.MUL {
			if lit, isA := ld.X.(*ssa.Alloc); isA {
				comps := fComponents(lit)
				okInit = len(comps) == 1
				for _, cv := range comps {
					ms, isMS := cv.(*ssa.MakeSlice)
					if !isMS || !IsConstInt(0)(ms.Len) {
						okInit = false
					}
				}
			}
		}
		if !okInit {
			okG = false
			detail = "the hashed TxGroup is initialised with something other than an empty TxGroupHashes"
		}
	}
	for _, val := range apps {
		if ok, why := c29GrouplessID(c, val, func(s ssa.Value) bool {
			p, ok := fDeref(s)
			return ok && p == ssa.Value(elem)
		}); !ok {
			okG = false
			detail = why
		}
	}
	c.Check(okG, rule, fname+":computed.TxGroupHashes<-ID(member without Group)", c.Pos(g.Pos()), detail)
	if okG {
		c.fIteration(rule, fname+":every member appends its ID", fn, elem, phi, nil,
			func(in ssa.Instruction) bool { _, ok := apps[in]; return ok }, final, "appending the member's group-less ID")
	}
	gHash := GCmp("txn(0).Group==hashTxGroup(computed)", token.EQL, groupOf(first), func(v ssa.Value) bool {
		call, ok := fIsCallTo(strip(v), hashFn)
		if !ok {
			return false
		}
		ld, isLd := call.Common().Args[0].(*ssa.UnOp)
		return isLd && ld.X == ssa.Value(g)
	})
	c.fMustGuard(fGuardSpec{Rule: rule, Fn: fn, Effects: final, EffName: "return(nil) after the loop", Guard: gHash})
	// early nil returns: n==0, or (first Group zero and n==1)
	gZeroFirst := GBool("txn(0).Group.IsZero()", func(v ssa.Value) bool {
		call, ok := fIsCallTo(strip(v), isZero)
		return ok && groupOf(first)(call.Common().Args[0])
	}, true)
	zeroEdges, _ := PassEdges(fn, gZeroFirst)
	underZero := func(b *ssa.BasicBlock) bool {
		for _, e := range zeroEdges {
			t := e.From.Succs[e.Idx]
			if len(t.Preds) == 1 && t.Dominates(b) {
				return true
			}
		}
		return false
	}
	n0 := fGRange("n==0", isN, 0, 0)
	n1 := fGRange("n==1", isN, 1, 1)
	n1z := Guard{Name: "n==1 under first.Group.IsZero()", Match: func(cond ssa.Value) (bool, bool) {
		m, p := n1.Match(cond)
		if !m {
			return false, false
		}
		in, ok := cond.(ssa.Instruction)
		if !ok || !underZero(in.Block()) {
			return false, false
		}
		return m, p
	}}
	if len(early) > 0 {
		c.fUnreachableUnless(rule, fname+":early return(nil)<=n==0 or (zero Group and n==1)", fn, nil, early, "early return(nil)", []Guard{n0, n1z}, nil, "n==0, or the first Group being zero with n==1")
	} else {
		c.Unk(rule, fname+":early return(nil)", c.Pos(fn.Pos()), "no early nil return found (n==0 / single ungrouped transaction)")
	}
	// the loop is entered whenever the first Group is non-zero or n>1: the final return is not reachable around the loop
	{
		var cut []Edge
		for _, p := range phi.Block().Preds {
			cut = append(cut, Edge{p, fEdgeIndex(p, phi.Block())})
		}
		e0, _ := PassEdges(fn, fGRange("n<=0", isN, 0, 0))
		r := fReachFrom(fn, nil, append(cut, e0...), nil)
		ok := true
		for _, f := range final {
			if r.Reaches(f) {
				ok = false
			}
		}
		c.Check(ok, rule, fname+":final return only through the loop", c.Pos(fn.Pos()), "the hash comparison's success return is reachable only through the member loop (or with n<=0)")
	}

	// the wrappers pass element i's Txn
	for _, w := range []struct{ spec, field string }{{"data/transactions.CheckTxnGroup", ""}, {"data/transactions.CheckPaysetGroup", ""}} {
		wf := c.Fn(w.spec)
		inner := c.Func("data/transactions.checkTxnGroup")
		calls := fCallsIn(wf, inner)
		ok := len(calls) == 1 && len(wf.AnonFuncs) == 1
		if ok {
			a := calls[0].Common().Args
			x, isLen := fLenOf(a[0])
			ok = isLen && fIsParam(x, wf.Params[0])
			cl := wf.AnonFuncs[0]
			fTxn := c.Field("data/transactions.SignedTxn.Txn")
			for _, ret := range fReturnsOf(cl) {
				root, path := fRootPath(ret.Results[0])
				ia, isIA := root.(*ssa.IndexAddr)
				okRet := isIA && len(path) > 0 && path[0] == fTxn && fIsParam(ia.Index, cl.Params[0])
				if okRet {
					// slice is the captured group
					ld, isLd := ia.X.(*ssa.UnOp)
					_, isFV := func() (*ssa.FreeVar, bool) {
						if !isLd {
							return nil, false
						}
						fv, ok := ld.X.(*ssa.FreeVar)
						return fv, ok
					}()
					okRet = isFV
				}
				if !okRet {
					ok = false
				}
			}
		}
		c.Check(ok, rule, w.spec+":checkTxnGroup(len(group), i->&group[i].Txn)", c.Pos(wf.Pos()), "the wrapper checks all len(group) members and hands out the Txn of element i")
	}
	{
		cg := c.Fn("data/transactions.checkTxnGroup")
		c.fNilOnlyIf(rule, cg, "checkTxnGroupID(n,txn)==nil", func(v ssa.Value) bool {
			call, _ := fCallOf(v)
			if call == nil || !sameFunc(calleeOf(call.Common()), c.Func(fname)) {
				return false
			}
			a := call.Common().Args
			return len(a) == 2 && fIsParam(a[0], fParamAt(cg, 0)) && fIsParam(a[1], fParamAt(cg, 1))
		})
	}
	if c.HasPkg("data/transactions/verify") {
		prep := c.Fn("data/transactions/verify.txnGroupBatchPrep")
		chk := c.Func("data/transactions.CheckTxnGroup")
		c.fNilOnlyIf(rule, prep, "transactions.CheckTxnGroup(stxs)==nil", func(v ssa.Value) bool {
			call, _ := fCallOf(v)
			return call != nil && sameFunc(calleeOf(call.Common()), chk) && fIsParam(call.Common().Args[0], fParamAt(prep, 0))
		})
	}
}

// ---------------- R29.2 ----------------

func c29PreCheck(c *Ctx) {
	const rule = "R29.2"
	const fname = "data/bookkeeping.BlockHeader.PreCheck"
	fn := c.Fn(fname)
	recv, prev := fn.Params[0], fn.Params[1]
	fRound := c.Field("data/bookkeeping.BlockHeader.Round")
	fBranch := c.Field("data/bookkeeping.BlockHeader.Branch")
	hash := c.Func("data/bookkeeping.BlockHeader.Hash")
	succ := fSuccessReturns(fn)
	of := func(p *ssa.Parameter, f *types.Var) VM {
		return func(v ssa.Value) bool { return fIsFieldLoad(v, f) && fIsParam(fRoot(v), p) }
	}
	c.fMustGuard(fGuardSpec{Rule: rule, Fn: fn, Effects: succ, EffName: "return(nil)", Guard: GCmp("prev.Round+1==bh.Round", token.EQL, func(v ssa.Value) bool {
		bo, ok := strip(v).(*ssa.BinOp)
		return ok && bo.Op == token.ADD && (of(prev, fRound)(bo.X) && IsConstInt(1)(bo.Y) || of(prev, fRound)(bo.Y) && IsConstInt(1)(bo.X))
	}, of(recv, fRound))})
	c.fMustGuard(fGuardSpec{Rule: rule, Fn: fn, Effects: succ, EffName: "return(nil)", Guard: GCmp("bh.Branch==prev.Hash()", token.EQL, of(recv, fBranch), func(v ssa.Value) bool {
		call, ok := fIsCallTo(strip(v), hash)
		return ok && fIsParam(fRoot(call.Common().Args[0]), prev) && len(func() []*types.Var { _, p := fRootPath(call.Common().Args[0]); return p }()) == 0
	})})

	// the evaluator start
	start := c.Fn("ledger/eval.StartEvaluator")
	pre := c.Func(fname)
	fBlock := c.Field("ledger/eval.BlockEvaluator.block")
	fPrevHdr := c.Field("ledger/eval.BlockEvaluator.prevHeader")
	fHdr := c.Field("data/bookkeeping.Block.BlockHeader")
	fValidate := c.Field("ledger/eval.EvaluatorOptions.Validate")
	var okRets []ssa.Instruction
	for _, r := range fSuccessReturns(start) {
		if !IsNil(r.(*ssa.Return).Results[0]) {
			okRets = append(okRets, r)
		}
	}
	var evalVal ssa.Value
	if len(okRets) > 0 {
		evalVal = fLocal(okRets[0].(*ssa.Return).Results[0])
	}
	c.fMustGuard(fGuardSpec{Rule: rule, Fn: start, Effects: okRets, EffName: "return(eval,nil)", Guard: GErrNil("eval.block.BlockHeader.PreCheck(eval.prevHeader)==nil", func(v ssa.Value) bool {
		call, _ := fCallOf(v)
		if call == nil || !sameFunc(calleeOf(call.Common()), pre) {
			return false
		}
		a := call.Common().Args
		r0, p0 := fRootPath(a[0])
		r1, p1 := fRootPath(a[1])
		has := func(p []*types.Var, f *types.Var) bool {
			for _, x := range p {
				if x == f {
					return true
				}
			}
			return false
		}
		return r0 == evalVal && r1 == evalVal && has(p0, fBlock) && has(p0, fHdr) && has(p1, fPrevHdr)
	}), Bypass: []Guard{GBool("!evalOpts.Validate", func(v ssa.Value) bool { return fIsFieldLoad(v, fValidate) }, false)}})
	c.OwnerRule(rule, "call(BlockHeader.PreCheck)", c.Uses([]*types.Func{pre}, ScanOpts{SkipGenerated: true, OnlyPkgs: []string{"ledger/..."}}),
		map[string]string{"ledger/eval.StartEvaluator": "header link check when validating"})
}

// ---------------- R29.3 ----------------

func c29Contents(c *Ctx) {
	const rule = "R29.3"
	const fname = "data/bookkeeping.Block.ContentsMatchHeader"
	fn := c.Fn(fname)
	recv := fn.Params[0]
	commit := c.Func("data/bookkeeping.Block.PaysetCommit")
	fTC := c.Field("data/bookkeeping.BlockHeader.TxnCommitments")
	calls := fCallsIn(fn, commit)
	if len(calls) != 1 || !fIsParam(fRoot(calls[0].Common().Args[0]), recv) {
		c.Bad(rule, fname+":PaysetCommit()", c.Pos(fn.Pos()), "ContentsMatchHeader does not compute PaysetCommit of its receiver exactly once")
		return
	}
	pc := calls[0]
	var cmpRets []ssa.Instruction
	ok := true
	for _, ret := range fReturnsOf(fn) {
		v := ret.Results[0]
		if IsConstBool(false)(v) {
			continue
		}
		bo, isBo := v.(*ssa.BinOp)
		if isBo && bo.Op == token.EQL {
			l, r := bo.X, bo.Y
			if !fExtractOf(l, pc, 0) {
				l, r = r, l
			}
			if fExtractOf(l, pc, 0) && fIsFieldLoad(r, fTC) && fIsParam(fRoot(r), recv) {
				cmpRets = append(cmpRets, ret)
				continue
			}
		}
		ok = false
	}
	c.Check(ok && len(cmpRets) > 0, rule, fname+":returns(false | PaysetCommit()==block.TxnCommitments)", c.Pos(fn.Pos()), "every return is false or the comparison of the recomputed commitment with the header's, on the receiver")
	if len(cmpRets) > 0 {
		c.fMustGuard(fGuardSpec{Rule: rule, Fn: fn, Effects: cmpRets, EffName: "return(commit==header)", Guard: GErrNil("PaysetCommit err==nil", func(v ssa.Value) bool { return fExtractOf(v, pc, 1) })})
	}

	// PaysetCommit composition
	{
		pcf := c.Fn("data/bookkeeping.Block.PaysetCommit")
		r := pcf.Params[0]
		tc := c.Named("data/bookkeeping.TxnCommitments")
		pairs := []struct {
			field, fn string
		}{
			{"data/bookkeeping.TxnCommitments.NativeSha512_256Commitment", "data/bookkeeping.Block.paysetCommit"},
			{"data/bookkeeping.TxnCommitments.Sha256Commitment", "data/bookkeeping.Block.paysetCommitSHA256"},
			{"data/bookkeeping.TxnCommitments.Sha512Commitment", "data/bookkeeping.Block.paysetCommitSHA512"},
		}
		_ = tc
		for _, p := range pairs {
			f := c.Field(p.field)
			src := c.Func(p.fn)
			stores := StoresToField(pcf, false, map[*types.Var]bool{f: true})
			okS := len(stores) > 0
			for _, s := range stores {
				val := s.(*ssa.Store).Val
				good := fAllLeaves(val, func(x ssa.Value) bool {
					call, idx := fCallOf(x)
					return call != nil && idx == 0 && sameFunc(calleeOf(call.Common()), src) && fIsParam(fRoot(call.Common().Args[0]), r)
				})
				if !good {
					okS = false
				}
			}
			// success returns must come after those stores: the struct returned on success is the one stored into
			c.Check(okS, rule, "data/bookkeeping.Block.PaysetCommit:"+f.Name()+"<-"+src.Name()+"()", c.Pos(pcf.Pos()), "the commitment field is the (zero or) result of "+src.Name()+" on the receiver")
		}
	}

	// endOfBlock
	{
		eob := c.Fn("ledger/eval.BlockEvaluator.endOfBlock")
		fBlock := c.Field("ledger/eval.BlockEvaluator.block")
		fValidate := c.Field("ledger/eval.BlockEvaluator.validate")
		ev := eob.Params[0]
		onBlock := func(v ssa.Value) bool {
			r, p := fRootPath(v)
			if !fIsParam(r, ev) {
				return false
			}
			for _, x := range p {
				if x == fBlock {
					return true
				}
			}
			return false
		}
		g := GCmp("eval.block.PaysetCommit()==eval.block.TxnCommitments", token.EQL, func(v ssa.Value) bool {
			call, idx := fCallOf(v)
			return call != nil && idx == 0 && sameFunc(calleeOf(call.Common()), commit) && onBlock(call.Common().Args[0])
		}, func(v ssa.Value) bool { return fIsFieldLoad(v, fTC) && onBlock(v) })
		c.fMustGuard(fGuardSpec{Rule: rule, Fn: eob, Effects: fSuccessReturns(eob), EffName: "return(nil)", Guard: g,
			Bypass: []Guard{GBool("!eval.validate", func(v ssa.Value) bool { return fIsFieldLoad(v, fValidate) && fIsParam(fRoot(v), ev) }, false)}})
	}
}

// ---------------- R29.4 ----------------

// c29SharedHashIDs: reviewed cases of two types hashing under one HashID.
var c29SharedHashIDs = map[string]string{
	"PS:agreement.proposerSeed,agreement.seedInput": "consensus-frozen: both are non-omitempty msgp maps with disjoint key sets (addr,vrf / alpha,hist), so their pre-images cannot coincide",
}

func c29HashIDs(c *Ctx) {
	const rule = "R29.4"
	hid := c.Named("protocol.HashID")
	byID := map[string][]string{}
	n := 0
	for _, pk := range c.sortedPkgs() {
		rel := relPkg(pk.PkgPath)
		if matchPkg(rel, []string{"test/...", "tools/...", "cmd/...", "libgoal/...", "shared/..."}) {
			continue
		}
		scope := pk.Types.Scope()
		for _, name := range scope.Names() {
			tn, ok := scope.Lookup(name).(*types.TypeName)
			if !ok || tn.IsAlias() {
				continue
			}
			nt, ok := tn.Type().(*types.Named)
			if !ok || nt.TypeParams().Len() > 0 {
				continue
			}
			var m *types.Func
			for i := 0; i < nt.NumMethods(); i++ {
				if nt.Method(i).Name() == "ToBeHashed" {
					m = nt.Method(i)
				}
			}
			if m == nil {
				continue
			}
			sig := m.Type().(*types.Signature)
			if sig.Results().Len() != 2 || !types.Identical(sig.Results().At(0).Type(), hid) {
				continue
			}
			fn := c.SSAOf(m)
			tname := rel + "." + name
			if fn == nil {
				c.Unk(rule, tname+".ToBeHashed", c.Pos(m.Pos()), "no SSA body")
				continue
			}
			n++
			ids := map[string]bool{}
			okConst := true
			for _, ret := range fReturnsOf(fn) {
				k, isK := strip(fLocal(ret.Results[0])).(*ssa.Const)
				if !isK || k.Value == nil || k.Value.Kind() != constant.String {
					okConst = false
					continue
				}
				ids[constant.StringVal(k.Value)] = true
			}
			if !okConst || len(ids) != 1 {
				// types that pick the HashID from a value (e.g. generic wrappers) need review
				c.Bad(rule, tname+".ToBeHashed:constant HashID", c.Pos(m.Pos()), "ToBeHashed does not return exactly one protocol.HashID constant on every path; its domain cannot be decided")
				continue
			}
			for id := range ids {
				byID[id] = append(byID[id], tname)
			}
		}
	}
	ids := make([]string, 0, len(byID))
	for id := range byID {
		ids = append(ids, id)
	}
	sort.Strings(ids)
	for _, id := range ids {
		ts := byID[id]
		sort.Strings(ts)
		if len(ts) == 1 {
			c.Ok(rule, "HashID("+id+")="+ts[0], "-", "unique hashing domain")
			continue
		}
		key := id + ":" + fJoinStrs(ts, ",")
		if why, ok := c29SharedHashIDs[key]; ok {
			c.Ok(rule, "HashID("+id+") shared by "+fJoinStrs(ts, ","), "-", "reviewed: "+why)
		} else {
			c.Bad(rule, "HashID("+id+") shared by "+fJoinStrs(ts, ","), "-", "distinct types are hashed under the same protocol.HashID "+id+": their hashes are not domain separated; table the pair with a reason if their encodings cannot collide")
		}
	}
	if n == 0 {
		c.Unk(rule, "ToBeHashed", "-", "no ToBeHashed implementation found")
	}
}

func fJoinStrs(ss []string, sep string) string {
	out := ""
	for i, s := range ss {
		if i > 0 {
			out += sep
		}
		out += s
	}
	return out
}
