package main

import (
	"go/ast"
	"go/token"
	"go/types"
	"sort"
	"strings"

	"golang.org/x/tools/go/packages"
	"golang.org/x/tools/go/ssa"
)

// T11 determinism: inside the static call closure of a set of entry
// functions, (a) no call to a nondeterminism source and (b) every `range`
// over a map is order-insensitive by construction, or is listed in a
// reviewed table with the reason why iteration order cannot leak into
// consensus-visible state.

// Closure computes the functions reachable from entries through static calls,
// closures created inside reached functions, and interface calls resolved by
// class-hierarchy analysis restricted to module packages matching scope.
func (c *Ctx) Closure(entries []*ssa.Function, scope func(pkgRel string) bool) map[*ssa.Function]bool {
	seen := map[*ssa.Function]bool{}
	var work []*ssa.Function
	push := func(f *ssa.Function) {
		if f == nil || seen[f] || f.Blocks == nil {
			return
		}
		pk := f.Pkg
		if pk == nil && f.Origin() != nil {
			pk = f.Origin().Pkg
		}
		if pk == nil && f.Parent() != nil {
			pk = topFn(f).Pkg
		}
		if pk == nil {
			return
		}
		path := pk.Pkg.Path()
		if path != Mod && !strings.HasPrefix(path, Mod+"/") {
			return
		}
		if scope != nil && !scope(relPkg(path)) {
			return
		}
		seen[f] = true
		work = append(work, f)
	}
	for _, e := range entries {
		push(e)
	}
	for len(work) > 0 {
		f := work[0]
		work = work[1:]
		for _, a := range f.AnonFuncs {
			push(a)
		}
		for _, b := range f.Blocks {
			for _, in := range b.Instrs {
				// function values referenced anywhere (callbacks, method values)
				for _, op := range in.Operands(nil) {
					if fv, ok := (*op).(*ssa.Function); ok {
						push(fv)
					}
				}
				ci, ok := in.(ssa.CallInstruction)
				if !ok {
					continue
				}
				cc := ci.Common()
				if cc.IsInvoke() {
					for _, impl := range c.implementations(cc.Value.Type(), cc.Method) {
						push(impl)
					}
				} else if sc := cc.StaticCallee(); sc != nil {
					push(sc)
				}
			}
		}
	}
	return seen
}

type implKey struct {
	iface types.Type
	name  string
}

var implCache = map[*ssa.Program]map[implKey][]*ssa.Function{}
var namedCache = map[*ssa.Program][]types.Type{}

// implementations resolves an interface method call to the methods of every
// named type declared in a loaded module package that implements the
// interface (class-hierarchy analysis restricted to the module).
func (c *Ctx) implementations(iface types.Type, m *types.Func) []*ssa.Function {
	cache := implCache[c.SSA]
	if cache == nil {
		cache = map[implKey][]*ssa.Function{}
		implCache[c.SSA] = cache
	}
	key := implKey{iface, m.Name()}
	if r, ok := cache[key]; ok {
		return r
	}
	it, ok := iface.Underlying().(*types.Interface)
	if !ok {
		cache[key] = nil
		return nil
	}
	named := namedCache[c.SSA]
	if named == nil {
		for _, sp := range c.SSAPkg {
			for _, mem := range sp.Members {
				if t, ok := mem.(*ssa.Type); ok {
					if _, isIface := t.Type().Underlying().(*types.Interface); isIface {
						continue
					}
					if nt, ok := t.Type().(*types.Named); ok && nt.TypeParams().Len() > 0 {
						continue
					}
					named = append(named, t.Type(), types.NewPointer(t.Type()))
				}
			}
		}
		namedCache[c.SSA] = named
	}
	var out []*ssa.Function
	for _, t := range named {
		if !types.Implements(t, it) {
			continue
		}
		sel := c.SSA.MethodSets.MethodSet(t).Lookup(m.Pkg(), m.Name())
		if sel == nil {
			continue
		}
		if fn := c.SSA.MethodValue(sel); fn != nil {
			if fn.Synthetic != "" {
				if o, ok := sel.Obj().(*types.Func); ok {
					if real := c.SSA.FuncValue(o); real != nil {
						fn = real
					}
				}
			}
			out = append(out, fn)
		}
	}
	cache[key] = out
	return out
}

// NondetCalls lists calls, inside the closure, to sources of nondeterminism.
func (c *Ctx) NondetCalls(closure map[*ssa.Function]bool) []ssa.CallInstruction {
	var out []ssa.CallInstruction
	for f := range closure {
		for _, b := range f.Blocks {
			for _, in := range b.Instrs {
				ci, ok := in.(ssa.CallInstruction)
				if !ok {
					continue
				}
				callee := calleeOf(ci.Common())
				if callee == nil || callee.Pkg() == nil {
					continue
				}
				if isNondetSource(callee) {
					out = append(out, ci)
				}
			}
		}
	}
	sort.Slice(out, func(i, j int) bool { return out[i].Pos() < out[j].Pos() })
	return out
}

func isNondetSource(f *types.Func) bool {
	p := f.Pkg().Path()
	switch p {
	case "time":
		switch f.Name() {
		case "Now", "Since", "Until":
			return true
		}
	case "math/rand", "math/rand/v2", "crypto/rand":
		return true
	case "os":
		switch f.Name() {
		case "Getenv", "LookupEnv", "Environ", "Hostname", "Getpid":
			return true
		}
	case "runtime":
		switch f.Name() {
		case "NumGoroutine", "NumCPU", "GOMAXPROCS":
			return true
		}
	}
	return false
}

// MapRangeSite is one `range` statement over a map.
type MapRangeSite struct {
	Pkg   *packages.Package
	File  *ast.File
	Stmt  *ast.RangeStmt
	Func  string
	Class string // why it is order-insensitive, or "" if not recognised
}

// MapRanges finds the map range statements of the declared functions whose
// SSA functions (or nested literals) are in the closure, and classifies them.
func (c *Ctx) MapRanges(closure map[*ssa.Function]bool) []MapRangeSite {
	// declared functions in the closure, by object
	decl := map[*types.Func]bool{}
	for f := range closure {
		if o, ok := topFn(f).Object().(*types.Func); ok {
			decl[o.Origin()] = true
		}
	}
	var out []MapRangeSite
	for _, pk := range c.sortedPkgs() {
		for _, file := range pk.Syntax {
			if isGenerated(file) {
				continue
			}
			for _, d := range file.Decls {
				fd, ok := d.(*ast.FuncDecl)
				if !ok || fd.Body == nil {
					continue
				}
				o, _ := pk.TypesInfo.Defs[fd.Name].(*types.Func)
				if o == nil || !decl[o.Origin()] {
					continue
				}
				ast.Inspect(fd.Body, func(n ast.Node) bool {
					rs, ok := n.(*ast.RangeStmt)
					if !ok {
						return true
					}
					tv, ok := pk.TypesInfo.Types[rs.X]
					if !ok {
						return true
					}
					if _, isMap := tv.Type.Underlying().(*types.Map); !isMap {
						return true
					}
					out = append(out, MapRangeSite{Pkg: pk, File: file, Stmt: rs, Func: funcObjName(o), Class: classifyMapRange(pk.TypesInfo, fd, rs)})
					return true
				})
			}
		}
	}
	return out
}

// classifyMapRange returns a non-empty reason when the loop body cannot make
// iteration order observable:
//   - "keyed-writes": only writes to maps indexed by the loop key / deletes by key,
//     assignments to variables declared inside the body, and commutative
//     accumulation (+=, |=, ++, &=, max/min idiom) into outer variables;
//   - "collect-then-sort": appends to a slice that is passed to sort.* /
//     slices.Sort* later in the same function before any other use;
//   - early exits allowed: `return <err>` / `return` with constants, `continue`,
//     `break` is NOT allowed (which element stops the loop is order dependent)
//     unless the loop only computes an existence flag.
//
// Calls are allowed only to functions that are pure by a conservative
// syntactic test (no assignment through pointer receivers is visible here), so
// any call other than builtins, conversions, methods on the loop values'
// own copies … is treated as unknown → not recognised.
func classifyMapRange(info *types.Info, fd *ast.FuncDecl, rs *ast.RangeStmt) string {
	keyObj := identObj(info, rs.Key)
	valObj := identObj(info, rs.Value)
	local := map[types.Object]bool{}
	if keyObj != nil {
		local[keyObj] = true
	}
	if valObj != nil {
		local[valObj] = true
	}
	appended := map[types.Object]bool{}
	ok := true
	var checkStmt func(s ast.Stmt)
	isLocalExpr := func(e ast.Expr) bool {
		// x, x.f, x[i] rooted at a variable declared inside the loop
		for {
			switch y := ast.Unparen(e).(type) {
			case *ast.Ident:
				o := info.Uses[y]
				if o == nil {
					o = info.Defs[y]
				}
				return o != nil && local[o] && o != keyObj && o != valObj || y.Name == "_"
			case *ast.SelectorExpr:
				e = y.X
			case *ast.IndexExpr:
				e = y.X
			case *ast.StarExpr:
				return false
			default:
				return false
			}
		}
	}
	keyedByLoopKey := func(e ast.Expr) bool {
		ix, isIx := ast.Unparen(e).(*ast.IndexExpr)
		if !isIx {
			return false
		}
		if t, ok := info.Types[ix.X]; !ok || !isMapType(t.Type) {
			return false
		}
		id, isId := ast.Unparen(ix.Index).(*ast.Ident)
		return isId && keyObj != nil && info.Uses[id] == keyObj
	}
	pureCall := func(call *ast.CallExpr) bool {
		if tv, ok := info.Types[call.Fun]; ok && tv.IsType() {
			return true
		}
		if id, isId := ast.Unparen(call.Fun).(*ast.Ident); isId {
			if _, isB := info.Uses[id].(*types.Builtin); isB {
				switch id.Name {
				case "len", "cap", "min", "max", "make", "new", "copy":
					return true
				}
			}
		}
		return false
	}
	var exprOK func(e ast.Expr) bool
	exprOK = func(e ast.Expr) bool {
		good := true
		ast.Inspect(e, func(n ast.Node) bool {
			switch y := n.(type) {
			case *ast.CallExpr:
				if !pureCall(y) {
					// method calls on values with value receivers and plain
					// functions are unknown: be conservative
					good = false
				}
			case *ast.FuncLit:
				good = false
			case *ast.UnaryExpr:
				if y.Op == token.ARROW {
					good = false
				}
			}
			return good
		})
		return good
	}
	checkStmt = func(s ast.Stmt) {
		if !ok || s == nil {
			return
		}
		switch x := s.(type) {
		case *ast.BlockStmt:
			for _, st := range x.List {
				checkStmt(st)
			}
		case *ast.ExprStmt:
			call, isCall := x.X.(*ast.CallExpr)
			if isCall {
				if id, isId := ast.Unparen(call.Fun).(*ast.Ident); isId && id.Name == "delete" && len(call.Args) == 2 {
					if k, isK := ast.Unparen(call.Args[1]).(*ast.Ident); isK && keyObj != nil && info.Uses[k] == keyObj {
						return
					}
				}
			}
			ok = false
		case *ast.DeclStmt:
			gd, isG := x.Decl.(*ast.GenDecl)
			if !isG {
				ok = false
				return
			}
			for _, sp := range gd.Specs {
				vs, isV := sp.(*ast.ValueSpec)
				if !isV {
					continue
				}
				for _, n := range vs.Names {
					local[info.Defs[n]] = true
				}
				for _, v := range vs.Values {
					if !exprOK(v) {
						ok = false
					}
				}
			}
		case *ast.AssignStmt:
			for _, r := range x.Rhs {
				if !exprOK(r) {
					// the one allowed impure rhs: x = append(x, …)
					if call, isCall := r.(*ast.CallExpr); isCall {
						if id, isId := call.Fun.(*ast.Ident); isId && id.Name == "append" && len(x.Lhs) == 1 {
							allArgs := true
							for _, a := range call.Args {
								if !exprOK(a) {
									allArgs = false
								}
							}
							if allArgs {
								continue
							}
						}
					}
					ok = false
					return
				}
			}
			if x.Tok == token.DEFINE {
				for _, l := range x.Lhs {
					if id, isId := l.(*ast.Ident); isId {
						if o := info.Defs[id]; o != nil {
							local[o] = true
						}
					}
				}
				return
			}
			for i, l := range x.Lhs {
				switch {
				case isLocalExpr(l):
				case keyedByLoopKey(l):
				case x.Tok == token.ADD_ASSIGN || x.Tok == token.OR_ASSIGN || x.Tok == token.AND_ASSIGN || x.Tok == token.XOR_ASSIGN || x.Tok == token.MUL_ASSIGN:
					// commutative accumulation into an outer variable (numeric/bitset only)
					if t, okT := info.Types[l]; !okT || !isNumeric(t.Type) {
						ok = false
					}
				case x.Tok == token.ASSIGN && i < len(x.Rhs):
					// x = append(x, …) into an outer slice: must be sorted later
					if call, isCall := x.Rhs[i].(*ast.CallExpr); isCall {
						if id, isId := call.Fun.(*ast.Ident); isId && id.Name == "append" {
							if lid, isL := ast.Unparen(l).(*ast.Ident); isL {
								if o := info.Uses[lid]; o != nil {
									appended[o] = true
									continue
								}
							}
						}
					}
					// max/min idiom: `if v > m { m = v }` handled in IfStmt
					ok = false
				default:
					ok = false
				}
			}
		case *ast.IncDecStmt:
			if t, okT := info.Types[x.X]; !okT || !isNumeric(t.Type) {
				ok = false
			}
		case *ast.IfStmt:
			if x.Init != nil {
				checkStmt(x.Init)
			}
			if !exprOK(x.Cond) {
				ok = false
				return
			}
			// max/min idiom
			if isMaxMinIdiom(info, x) {
				return
			}
			checkStmt(x.Body)
			if x.Else != nil {
				checkStmt(x.Else)
			}
		case *ast.BranchStmt:
			if x.Tok != token.CONTINUE {
				ok = false
			}
		case *ast.ReturnStmt:
			// returning while iterating: allowed only if every result is a
			// constant, nil, or an error built from the element (which error is
			// reported is not consensus relevant; that an error is reported is
			// order independent because every element is otherwise visited)
			for _, r := range x.Results {
				if tv, okT := info.Types[r]; okT && (tv.Value != nil || tv.IsNil() || isErrorType(tv.Type)) {
					continue
				}
				if id, isId := r.(*ast.Ident); isId && (id.Name == "true" || id.Name == "false") {
					continue
				}
				ok = false
			}
		case *ast.RangeStmt, *ast.ForStmt, *ast.SwitchStmt, *ast.TypeSwitchStmt:
			// nested control flow: check nested bodies
			switch y := x.(type) {
			case *ast.RangeStmt:
				if !exprOK(y.X) {
					ok = false
					return
				}
				if o := identObj(info, y.Key); o != nil {
					local[o] = true
				}
				if o := identObj(info, y.Value); o != nil {
					local[o] = true
				}
				checkStmt(y.Body)
			case *ast.ForStmt:
				ok = false
			case *ast.SwitchStmt:
				if y.Init != nil {
					checkStmt(y.Init)
				}
				if y.Tag != nil && !exprOK(y.Tag) {
					ok = false
					return
				}
				for _, cl := range y.Body.List {
					cc := cl.(*ast.CaseClause)
					for _, e := range cc.List {
						if !exprOK(e) {
							ok = false
						}
					}
					for _, st := range cc.Body {
						checkStmt(st)
					}
				}
			default:
				ok = false
			}
		case *ast.EmptyStmt:
		default:
			ok = false
		}
	}
	checkStmt(rs.Body)
	if !ok {
		return ""
	}
	if len(appended) == 0 {
		return "keyed-writes/commutative"
	}
	// every appended slice must be sorted after the loop and before other use
	for o := range appended {
		if !sortedAfter(info, fd, rs, o) {
			return ""
		}
	}
	return "collect-then-sort"
}

func identObj(info *types.Info, e ast.Expr) types.Object {
	id, ok := e.(*ast.Ident)
	if !ok || id.Name == "_" {
		return nil
	}
	if o := info.Defs[id]; o != nil {
		return o
	}
	return info.Uses[id]
}

func isMapType(t types.Type) bool { _, ok := t.Underlying().(*types.Map); return ok }

func isNumeric(t types.Type) bool {
	b, ok := t.Underlying().(*types.Basic)
	return ok && b.Info()&(types.IsInteger|types.IsUnsigned) != 0
}

func isMaxMinIdiom(info *types.Info, s *ast.IfStmt) bool {
	// if a OP b { b = a } with OP in <,>,<=,>= and single assignment
	be, ok := s.Cond.(*ast.BinaryExpr)
	if !ok || s.Else != nil || len(s.Body.List) != 1 {
		return false
	}
	switch be.Op {
	case token.LSS, token.GTR, token.LEQ, token.GEQ:
	default:
		return false
	}
	as, ok := s.Body.List[0].(*ast.AssignStmt)
	if !ok || as.Tok != token.ASSIGN || len(as.Lhs) != 1 || len(as.Rhs) != 1 {
		return false
	}
	same := func(a, b ast.Expr) bool { return types.ExprString(a) == types.ExprString(b) }
	return (same(as.Lhs[0], be.X) && same(as.Rhs[0], be.Y)) || (same(as.Lhs[0], be.Y) && same(as.Rhs[0], be.X))
}

// sortedAfter reports whether slice variable o is passed to a sort function
// after the range statement, before any other statement uses it.
func sortedAfter(info *types.Info, fd *ast.FuncDecl, rs *ast.RangeStmt, o types.Object) bool {
	found := false
	usedBefore := false
	ast.Inspect(fd.Body, func(n ast.Node) bool {
		if n == nil || found || usedBefore {
			return false
		}
		if n.Pos() < rs.End() {
			return true
		}
		switch x := n.(type) {
		case *ast.CallExpr:
			if f, ok := calleeAST(info, x); ok && f.Pkg() != nil && (f.Pkg().Path() == "sort" || f.Pkg().Path() == "slices") && strings.Contains(f.Name(), "Sort") || ok && f.Pkg() != nil && f.Pkg().Path() == "sort" && (f.Name() == "Slice" || f.Name() == "SliceStable" || f.Name() == "Strings" || f.Name() == "Ints") {
				for _, a := range x.Args {
					if mentionsObj(info, a, o) {
						found = true
						return false
					}
				}
			}
		case *ast.Ident:
			if info.Uses[x] == o {
				usedBefore = true
			}
		}
		return true
	})
	return found
}

func calleeAST(info *types.Info, call *ast.CallExpr) (*types.Func, bool) {
	var id *ast.Ident
	switch f := ast.Unparen(call.Fun).(type) {
	case *ast.Ident:
		id = f
	case *ast.SelectorExpr:
		id = f.Sel
	case *ast.IndexExpr:
		if se, ok := f.X.(*ast.SelectorExpr); ok {
			id = se.Sel
		} else if i2, ok := f.X.(*ast.Ident); ok {
			id = i2
		}
	}
	if id == nil {
		return nil, false
	}
	f, ok := info.Uses[id].(*types.Func)
	return f, ok
}

func mentionsObj(info *types.Info, e ast.Expr, o types.Object) bool {
	found := false
	ast.Inspect(e, func(n ast.Node) bool {
		if id, ok := n.(*ast.Ident); ok && info.Uses[id] == o {
			found = true
		}
		return !found
	})
	return found
}

// MapRangeRule records one obligation per map range in the closure: recognised
// order-insensitive, tabled (reviewed), or violated.
func (c *Ctx) MapRangeRule(rule string, closure map[*ssa.Function]bool, reviewed map[string]string) {
	sites := c.MapRanges(closure)
	perFunc := map[string]int{}
	for _, s := range sites {
		perFunc[s.Func]++
		key := s.Func + ":range(" + types.ExprString(s.Stmt.X) + ")"
		switch {
		case s.Class != "":
			c.Ok(rule, key, c.Pos(s.Stmt.Pos()), "order-insensitive by construction: "+s.Class)
		case reviewed[key] != "":
			c.Ok(rule, key, c.Pos(s.Stmt.Pos()), "reviewed: "+reviewed[key])
		case reviewed[s.Func] != "":
			c.Ok(rule, key, c.Pos(s.Stmt.Pos()), "reviewed (function): "+reviewed[s.Func])
		default:
			c.Bad(rule, key, c.Pos(s.Stmt.Pos()), "map iteration whose body is not recognisably order-insensitive inside the deterministic closure; new instance needs review (iteration order of Go maps is randomised)")
		}
	}
	c.NoteSites(len(sites))
}
