package main

import (
	"fmt"
	"go/token"
	"go/types"
	"sort"
	"strings"

	"golang.org/x/tools/go/ssa"
)

func init() {
	register(&Prop{
		ID:       "C20",
		Patterns: []string{"./ledger/eval/..."},
		Run:      runC20,
		Explanation: "Decides the generate/validate twin structure of the block evaluator and three structural determinism facts. " +
			"R20.1 (a) every write in package ledger/eval to a field of the header of the block under evaluation (eval.block.BlockHeader.F, found by SSA address paths, including map updates and writes through aliases) is to a field listed in the twin table, happens in that field's generator function and is dominated by the generate flag (evalOpts.Generate / eval.generate) — a header field written while validating would be compared with itself; the stored value derives from the tabled producer. " +
			"(b) for each such field the validating path has its twin: StartEvaluator returns an evaluator under Validate only past RewardsState == NextRewardsState(...) (same arguments as the generating call) and, if SupportGenesisHash, GenesisHash == eval.genesisHash; endOfBlock returns nil under eval.validate only past TxnCommitments == PaysetCommit(), TxnCounter == Counter()/0, validateForPayouts()==nil, the three StateProofTracking comparisons against stateProofVotersAndTotal()/GetStateProofNextRound() (exact weight comparison may be bypassed only when !ExcludeExpiredCirculation), and always past validateExpiredOnlineAccounts()==nil and validateAbsentOnlineAccounts()==nil, which return early only when !eval.validate; validateForPayouts returns nil only past FeesCollected == state.feesCollected and ProposerPayout().Raw <= proposerPayout().Raw when payouts are enabled and past the three IsZero tests when disabled; Eval returns a non-empty StateDelta under validate && LoadTracking only past Load == ComputeLoad(blockTxBytes, MaxTxnBytesPerBlock), the same arguments the generator uses. " +
			"R20.2s (static-call subset of the centrally maintained R20.2 described further below; time/rand/env sources only) no function statically reachable from Eval, StartEvaluator, TransactionGroup, endOfBlock and GenerateBlock inside the evaluator/transaction/AVM packages calls time.Now/Since/…, math/rand, crypto/rand, os.Getenv/Environ/Hostname/Getpid. " +
			"R20.4 the same twin structure for the header fields bookkeeping.MakeBlock derives from the previous header: Round (prev.Round+1), Branch (prev.Hash()), Branch512 (prev.Hash512(), both sides only under EnableSha512BlockHash), Bonus (NextBonus) and CongestionTax (NextCongestionTax) are stored by MakeBlock from exactly the expression BlockHeader.PreCheck compares the field with before it can return nil, and the two NextBonus / NextCongestionTax calls take the same fields of prev. " +
			"R20.3 the prefetcher only reads: prefetcher.Ledger has only the five reviewed lookup methods, the package does not import the evaluator or the ledger; Eval prefetches from the same ledger at blk.Round()-1, the round StartEvaluator's roundCowBase reads (hdr.Round-1), and copies prefetched entries into the base caches only when the group's Err is nil. " +
			"Does NOT decide (in this file): order-insensitivity of map iteration and sources reached through interface calls (see the central R20.2/R20.2m/R20.2n text appended below); the remaining MakeBlock fields (seed and proposer are set by agreement; timestamp is a bounded free choice; upgrade state/vote belong to C26; genesis id/hash are copied); that the transaction pool admits exactly what validation accepts; calls through interfaces/function values for R20.2s; numeric equality of the twin computations beyond same callee and same arguments.",
		Assumptions: []string{"values loaded twice from the same local/field between the generating and validating computation are not modified in between (checked structurally: same SSA address path)", "interface-dispatched callees (ledger backends, tracers) are deterministic"},
		Floor:       map[string]int{"R20.1": 47, "R20.2s": 5, "R20.3": 10, "R20.4": 13},
	})
}

type c20Twin struct {
	gens     map[string]bool // functions allowed to write the field
	producer []*types.Func   // the stored value must derive from a call to one of these ...
	prodPath []*types.Var    // ... or from this evaluator-relative path
	zeroOK   bool            // a constant zero store is also fine
}

func runC20(c *Ctx) {
	const P = "ledger/eval."
	const B = "data/bookkeeping."
	pkgFns := c.funcsOf(Mod + "/ledger/eval")
	fBlock := c.Field(P + "BlockEvaluator.block")
	fHdr := c.Field(B + "Block.BlockHeader")
	fGenerate := c.Field(P + "BlockEvaluator.generate")
	fValidate := c.Field(P + "BlockEvaluator.validate")
	fProto := c.Field(P + "BlockEvaluator.proto")
	fState := c.Field(P + "BlockEvaluator.state")
	fOptGen := c.Field(P + "EvaluatorOptions.Generate")
	fOptVal := c.Field(P + "EvaluatorOptions.Validate")
	hf := func(name string) *types.Var { return c.Field(B + "BlockHeader." + name) }
	pf := func(name ...string) []*types.Var {
		out := []*types.Var{fProto}
		spec := "config.ConsensusParams"
		for _, n := range name {
			f := c.Field(spec + "." + n)
			out = append(out, f)
			if nt, ok := types.Unalias(f.Type()).(*types.Named); ok {
				spec = relPkg(nt.Obj().Pkg().Path()) + "." + nt.Obj().Name()
			}
		}
		return out
	}
	hdr := func(tail ...*types.Var) VM { return dPathPS([]*types.Var{fBlock}, tail) }

	startEval := c.Fn(P + "StartEvaluator")
	eob := c.Fn(P + "BlockEvaluator.endOfBlock")
	evalFn := c.Fn(P + "Eval")
	knock := c.Fn(P + "BlockEvaluator.generateKnockOfflineAccountsList")
	vExpired := c.Fn(P + "BlockEvaluator.validateExpiredOnlineAccounts")
	vAbsent := c.Fn(P + "BlockEvaluator.validateAbsentOnlineAccounts")

	nextRewards := c.Func(B + "RewardsState.NextRewardsState")
	paysetCommit := c.Func(B + "Block.PaysetCommit")
	counter := c.Func(P + "roundCowState.Counter")
	propPayout := c.Func(P + "BlockEvaluator.proposerPayout")
	computeLoad := c.Func(P + "ComputeLoad")
	spvt := c.Func(P + "BlockEvaluator.stateProofVotersAndTotal")
	spNext := c.Func(P + "roundCowState.GetStateProofNextRound")
	fFeesCollected := c.Field(P + "roundCowState.feesCollected")
	fGenesisHash := c.Field(P + "BlockEvaluator.genesisHash")

	twins := map[*types.Var]*c20Twin{
		hf("GenesisHash"):          {gens: map[string]bool{P + "StartEvaluator": true}, prodPath: []*types.Var{fGenesisHash}},
		hf("RewardsState"):         {gens: map[string]bool{P + "StartEvaluator": true}, producer: []*types.Func{nextRewards}},
		hf("TxnCommitments"):       {gens: map[string]bool{P + "BlockEvaluator.endOfBlock": true}, producer: []*types.Func{paysetCommit}},
		hf("TxnCounter"):           {gens: map[string]bool{P + "BlockEvaluator.endOfBlock": true}, producer: []*types.Func{counter}, zeroOK: true},
		hf("FeesCollected"):        {gens: map[string]bool{P + "BlockEvaluator.endOfBlock": true}, prodPath: []*types.Var{fState, fFeesCollected}},
		hf("ProposerPayout"):       {gens: map[string]bool{P + "BlockEvaluator.endOfBlock": true}, producer: []*types.Func{propPayout}},
		hf("Load"):                 {gens: map[string]bool{P + "BlockEvaluator.endOfBlock": true}, producer: []*types.Func{computeLoad}},
		hf("StateProofTracking"):   {gens: map[string]bool{P + "BlockEvaluator.endOfBlock": true}, producer: []*types.Func{spvt, spNext}},
		hf("ParticipationUpdates"): {gens: map[string]bool{P + "BlockEvaluator.generateKnockOfflineAccountsList": true}},
	}

	// generate-flag guard of a function: evalOpts.Generate in StartEvaluator, eval.generate in methods
	genGuard := func(fn *ssa.Function) Guard {
		if topFn(fn) == startEval {
			return GBool("evalOpts.Generate", dPath(fOptGen), true)
		}
		return GBool("eval.generate", dPath(fGenerate), true)
	}

	// ---- R20.1 (a): who writes header fields of the block under evaluation, and only when generating ----
	type key struct {
		fn  *ssa.Function
		top *types.Var
	}
	found := map[key][]dWrite{}
	var keys []key
	for _, fn := range pkgFns {
		for _, w := range dWrites(fn) {
			p := w.Fields
			if len(p) < 2 || p[0] != fBlock || p[1] != fHdr {
				continue
			}
			var top *types.Var
			if len(p) >= 3 {
				top = p[2]
			}
			k := key{fn, top}
			if _, ok := found[k]; !ok {
				keys = append(keys, k)
			}
			found[k] = append(found[k], w)
		}
	}
	sort.Slice(keys, func(i, j int) bool {
		if fnName(keys[i].fn) != fnName(keys[j].fn) {
			return fnName(keys[i].fn) < fnName(keys[j].fn)
		}
		ni, nj := "", ""
		if keys[i].top != nil {
			ni = keys[i].top.Name()
		}
		if keys[j].top != nil {
			nj = keys[j].top.Name()
		}
		return ni < nj
	})
	for _, k := range keys {
		ws := found[k]
		if k.top == nil {
			c.Bad("R20.1", "write(BlockHeader)@"+fnName(k.fn), c.Pos(ws[0].Instr.Pos()), fnName(k.fn)+" overwrites the whole header of the block under evaluation; the twin table cannot account for it")
			continue
		}
		construct := "write(BlockHeader." + k.top.Name() + ")@" + fnName(k.fn)
		tw := twins[k.top]
		if tw == nil {
			c.Bad("R20.1", construct, c.Pos(ws[0].Instr.Pos()), fmt.Sprintf("%s sets header field %s of the block being built, but no validation twin is known for that field: a proposer-computed header field that validators do not recompute is either unchecked or makes honest proposals fail; add the twin and review", fnName(k.fn), k.top.Name()))
			continue
		}
		if !tw.gens[fnName(topFn(k.fn))] || k.fn.Parent() != nil {
			c.Bad("R20.1", construct, c.Pos(ws[0].Instr.Pos()), fmt.Sprintf("header field %s is written in %s, outside its generator function; new writer needs review", k.top.Name(), fnName(k.fn)))
			continue
		}
		c.Ok("R20.1", construct, c.Pos(ws[0].Instr.Pos()), itoa(len(ws))+" write(s) in the tabled generator function")
		var ins []ssa.Instruction
		for _, w := range ws {
			ins = append(ins, w.Instr)
		}
		c.dMustGuard(dGuardSpec{Rule: "R20.1", Fn: k.fn, Effects: ins, EffName: "write(BlockHeader." + k.top.Name() + ")", Guards: []Guard{genGuard(k.fn)}})
		// value provenance
		if len(tw.producer) > 0 || len(tw.prodPath) > 0 {
			ok := true
			detail := "every stored value derives from the tabled producer"
			n := 0
			for _, w := range ws {
				var val ssa.Value
				switch x := w.Instr.(type) {
				case *ssa.Store:
					val = x.Val
				case *ssa.MapUpdate:
					val = x.Value
				default:
					continue
				}
				if _, isMake := val.(*ssa.MakeMap); isMake {
					continue
				}
				n++
				if k, isK := val.(*ssa.Const); isK && tw.zeroOK && dZeroConst(k) {
					continue
				}
				good := false
				if len(tw.producer) > 0 && dFlows(val, dCallTo(tw.producer...), 10) {
					good = true
				}
				if len(tw.prodPath) > 0 && dFlows(val, dPath(tw.prodPath...), 6) {
					good = true
				}
				if !good {
					ok = false
					detail = "value stored at " + c.Pos(w.Instr.Pos()) + " (" + describe(val) + ") does not derive from the producer the validator recomputes"
				}
			}
			c.Check(ok && n > 0, "R20.1", construct+":value<=producer", c.Pos(ws[0].Instr.Pos()), detail)
		}
	}
	// every tabled field is still generated somewhere (else the table is stale)
	for f, tw := range twins {
		seen := false
		for _, k := range keys {
			if k.top == f {
				seen = true
			}
		}
		if !seen {
			var g []string
			for n := range tw.gens {
				g = append(g, n)
			}
			c.Unk("R20.1", "write(BlockHeader."+f.Name()+")", "-", "no write of header field "+f.Name()+" found in "+strings.Join(g, ",")+": the twin table no longer matches the generator")
		}
	}

	// ---- R20.1 (b): the validating twins ----
	notOptValidate := GBool("!evalOpts.Validate", dPath(fOptVal), false)
	notValidate := GBool("!eval.validate", dPath(fValidate), false)
	protoFlag := func(want bool, names ...string) Guard {
		n := "proto." + strings.Join(names, ".")
		if !want {
			n = "!" + n
		}
		return GBool(n, dPath(pf(names...)...), want)
	}
	// StartEvaluator
	{
		succ := dSuccessReturns(startEval)
		c.dMustGuard(dGuardSpec{Rule: "R20.1", Fn: startEval, Effects: succ, EffName: "return evaluator", Bypass: []Guard{notOptValidate},
			Guards: []Guard{GCmp("RewardsState==NextRewardsState(...)", token.EQL, hdr(hf("RewardsState")), dResultOf(0, nextRewards))}})
		c.dMustGuard(dGuardSpec{Rule: "R20.1", Fn: startEval, Effects: succ, EffName: "return evaluator", Bypass: []Guard{notOptValidate, protoFlag(false, "SupportGenesisHash")},
			Guards: []Guard{GCmp("GenesisHash==eval.genesisHash", token.EQL, hdr(hf("GenesisHash")), dPath(fGenesisHash))}})
		calls := CallsTo(startEval, false, nextRewards)
		var gen, val []ssa.CallInstruction
		for _, ci := range calls {
			stored := false
			for _, u := range dUsers(ci.Value()) {
				if st, ok := u.(*ssa.Store); ok && hdr(hf("RewardsState"))(st.Addr) {
					stored = true
				}
			}
			if stored {
				gen = append(gen, ci)
			} else {
				val = append(val, ci)
			}
		}
		construct := fnName(startEval) + ":NextRewardsState twin arguments"
		switch {
		case len(gen) == 0:
			c.Unk("R20.1", construct, c.Pos(startEval.Pos()), "no NextRewardsState call whose result is stored into the header found")
		case len(val) == 0:
			c.Ok("R20.1", construct, c.Pos(gen[0].Pos()), "one NextRewardsState computation serves both the generating store and the validating comparison")
		default:
			ok, detail := true, "generating and validating NextRewardsState calls take the same arguments"
			for _, g := range gen {
				for _, v := range val {
					if same, i := dSameArgs(g, v); !same {
						ok = false
						detail = fmt.Sprintf("the NextRewardsState call at %s (generate) and the one at %s (validate) differ in argument %d: a proposer would put a rewards state into its block that validators reject", c.Pos(g.Pos()), c.Pos(v.Pos()), i)
					}
				}
			}
			c.Check(ok, "R20.1", construct, c.Pos(val[0].Pos()), detail)
		}
	}
	// endOfBlock
	{
		succ := dSuccessReturns(eob)
		by := []Guard{notValidate}
		G := func(g Guard, extraBypass ...Guard) {
			c.dMustGuard(dGuardSpec{Rule: "R20.1", Fn: eob, Effects: succ, EffName: "return nil", Bypass: append(append([]Guard{}, by...), extraBypass...), Guards: []Guard{g}})
		}
		G(GCmp("PaysetCommit()==TxnCommitments", token.EQL, dResultOf(0, paysetCommit), hdr(hf("TxnCommitments"))))
		G(GCmp("TxnCounter==Counter()|0", token.EQL, hdr(hf("TxnCounter")), dIs(dCallTo(counter))))
		G(GErrNil("validateForPayouts()==nil", dResultOf(0, c.Func(P+"BlockEvaluator.validateForPayouts"))))
		sptF := func(n string) *types.Var { return c.Field(B + "StateProofTrackingData." + n) }
		isEqual := c.Func("crypto.GenericDigest.IsEqual")
		G(GBool("StateProofVotersCommitment.IsEqual(expected)", func(v ssa.Value) bool {
			call, ok := v.(*ssa.Call)
			if !ok || !sameFunc(calleeOf(call.Common()), isEqual) {
				return false
			}
			a := callArgs(call.Common())
			return len(a) == 2 && hdr(hf("StateProofTracking"), sptF("StateProofVotersCommitment"))(a[0]) && dResultOf(0, spvt)(a[1])
		}, true))
		G(GCmp("StateProofOnlineTotalWeight==expected", token.EQL, hdr(hf("StateProofTracking"), sptF("StateProofOnlineTotalWeight")), dResultVia(1, spvt)),
			protoFlag(false, "ExcludeExpiredCirculation"))
		G(GCmp("StateProofNextRound==GetStateProofNextRound()", token.EQL, hdr(hf("StateProofTracking"), sptF("StateProofNextRound")), dResultOf(0, spNext)))
		// participation updates: validators always run
		c.dMustGuard(dGuardSpec{Rule: "R20.1", Fn: eob, Effects: succ, EffName: "return nil", Guards: []Guard{
			GErrNil("validateExpiredOnlineAccounts()==nil", dResultOf(0, c.Func(P+"BlockEvaluator.validateExpiredOnlineAccounts"))),
			GErrNil("validateAbsentOnlineAccounts()==nil", dResultOf(0, c.Func(P+"BlockEvaluator.validateAbsentOnlineAccounts"))),
		}})
		pcs := CallsTo(eob, false, paysetCommit)
		if len(pcs) != 2 {
			c.Unk("R20.1", fnName(eob)+":PaysetCommit twin arguments", c.Pos(eob.Pos()), "expected two PaysetCommit calls, found "+itoa(len(pcs)))
		} else {
			same, _ := dSameArgs(pcs[0], pcs[1])
			c.dCheck(same, "R20.1", fnName(eob)+":PaysetCommit twin arguments", c.Pos(pcs[1].Pos()), "generator and validator commit to the same eval.block")
		}
	}
	// the two participation-update validators return early only when not validating
	{
		fPU := hf("ParticipationUpdates")
		fExp := c.Field(B + "ParticipationUpdates.ExpiredParticipationAccounts")
		fAbs := c.Field(B + "ParticipationUpdates.AbsentParticipationAccounts")
		lenOfHdr := func(f *types.Var) VM {
			return func(v ssa.Value) bool {
				x, ok := lenOf(v)
				return ok && hdr(fPU, f)(x)
			}
		}
		c.dMustGuard(dGuardSpec{Rule: "R20.1", Fn: vExpired, Effects: dSuccessReturns(vExpired), EffName: "return nil", Bypass: []Guard{notValidate},
			Guards: []Guard{GCmp("len(Expired)<=MaxProposedExpiredOnlineAccounts", token.LEQ, lenOfHdr(fExp), dPath(pf("MaxProposedExpiredOnlineAccounts")...))}})
		c.dMustGuard(dGuardSpec{Rule: "R20.1", Fn: vAbsent, Effects: dSuccessReturns(vAbsent), EffName: "return nil", Bypass: []Guard{notValidate},
			Guards: []Guard{GCmp("len(Absent)<=Payouts.MaxMarkAbsent", token.LEQ, lenOfHdr(fAbs), dPath(pf("Payouts", "MaxMarkAbsent")...))}})
		_ = knock
	}
	// validateForPayouts (shared with C24)
	c24PayoutValidation(c, "R20.1")
	// Eval: Load
	{
		pValidate := dParamNamed(evalFn, "validate")
		if pValidate == nil {
			c.Unk("R20.1", fnName(evalFn)+":Load twin", c.Pos(evalFn.Pos()), "parameter validate not found")
		} else {
			withDeltas := ReturnsWhere(evalFn, 0, func(v ssa.Value) bool {
				k, isK := v.(*ssa.Const)
				return !(isK && k.Value == nil)
			})
			var eff []ssa.Instruction
			for _, r := range withDeltas {
				if evalFn.Recover != r.Block() {
					eff = append(eff, r)
				}
			}
			c.dMustGuard(dGuardSpec{Rule: "R20.1", Fn: evalFn, Effects: eff, EffName: "return non-empty StateDelta",
				Bypass: []Guard{GBool("!validate", IsV(pValidate), false), GBool("!proto.LoadTracking", dPath(pf("LoadTracking")...), false)},
				Guards: []Guard{GCmp("Load==ComputeLoad(...)", token.EQL, dPathPS([]*types.Var{fBlock}, []*types.Var{hf("Load")}), dResultOf(0, computeLoad))}})
			g, v := CallsTo(eob, false, computeLoad), CallsTo(evalFn, false, computeLoad)
			if len(g) != 1 || len(v) != 1 {
				c.Unk("R20.1", "ComputeLoad twin arguments", c.Pos(evalFn.Pos()), fmt.Sprintf("expected one ComputeLoad call in endOfBlock and one in Eval, found %d/%d", len(g), len(v)))
			} else {
				same, i := dSamePaths(g[0], v[0])
				detail := "endOfBlock and Eval compute the load from the same evaluator fields"
				if !same {
					detail = fmt.Sprintf("ComputeLoad is given different evaluator fields by the generator (endOfBlock, %s) and the validator (Eval, %s): argument %d differs, so honest proposals can fail validation", c.Pos(g[0].Pos()), c.Pos(v[0].Pos()), i)
				}
				c.Check(same, "R20.1", "ComputeLoad twin arguments", c.Pos(v[0].Pos()), detail)
			}
		}
	}

	// ---- R20.2: no wall-clock / randomness / environment in the evaluation closure ----
	{
		scope := map[string]bool{}
		for _, p := range []string{"ledger/eval", "ledger/eval/prefetcher", "ledger/apply", "ledger/ledgercore", "data/transactions", "data/transactions/logic", "data/bookkeeping", "data/basics", "data/committee", "data/stateproofmsg", "crypto/stateproof", "crypto/merklearray", "crypto/merklesignature", "protocol", "config"} {
			scope[p] = true
		}
		inScope := func(rel string) bool { return scope[rel] }
		isSource := func(f *types.Func) bool {
			if f == nil || f.Pkg() == nil {
				return false
			}
			switch f.Pkg().Path() {
			case "time":
				switch f.Name() {
				case "Now", "Since", "Until", "After", "AfterFunc", "Tick", "NewTimer", "NewTicker", "Sleep":
					return true
				}
			case "math/rand", "math/rand/v2", "crypto/rand":
				return true
			case "os":
				switch f.Name() {
				case "Getenv", "LookupEnv", "Environ", "Hostname", "Getpid", "Getwd":
					return true
				}
			}
			return false
		}
		roots := []string{P + "Eval", P + "StartEvaluator", P + "BlockEvaluator.TransactionGroup", P + "BlockEvaluator.endOfBlock", P + "BlockEvaluator.GenerateBlock"}
		for _, r := range roots {
			fn := c.Fn(r)
			cl := c.dClosure([]*ssa.Function{fn}, inScope)
			bad := 0
			for _, f := range cl {
				for _, b := range f.Blocks {
					for _, in := range b.Instrs {
						ci, ok := in.(ssa.CallInstruction)
						if !ok {
							continue
						}
						callee := calleeOf(ci.Common())
						if isSource(callee) {
							bad++
							c.Bad("R20.2s", fnName(f)+":call("+callee.Pkg().Path()+"."+callee.Name()+")", c.Pos(in.Pos()), fmt.Sprintf("%s, statically reachable from %s, calls %s.%s: block evaluation would depend on wall-clock time / randomness / process environment and differ between nodes or runs", fnName(f), r, callee.Pkg().Path(), callee.Name()))
						}
					}
				}
			}
			if bad == 0 {
				c.Ok("R20.2s", "closure("+r+"):no time/rand/env source", c.Pos(fn.Pos()), itoa(len(cl))+" functions reachable through static calls inside the evaluation packages, none calls a nondeterminism source")
			}
			c.NoteSites(len(cl))
		}
	}

	// ---- R20.3: the prefetcher only reads, from the round the evaluator reads ----
	{
		pl := c.Named("ledger/eval/prefetcher.Ledger")
		iface, _ := pl.Underlying().(*types.Interface)
		readOnly := map[string]bool{"LookupWithoutRewards": true, "LookupAsset": true, "LookupApplication": true, "GetCreatorForRound": true, "LookupKv": true}
		if iface == nil {
			c.Unk("R20.3", "prefetcher.Ledger:methods", "-", "prefetcher.Ledger is not an interface")
		} else {
			for i := 0; i < iface.NumMethods(); i++ {
				m := iface.Method(i)
				if readOnly[m.Name()] {
					c.Ok("R20.3", "prefetcher.Ledger."+m.Name()+":read-only", c.Pos(m.Pos()), "method "+m.Name()+" of the prefetcher's ledger view is a reviewed lookup")
				} else {
					c.Bad("R20.3", "prefetcher.Ledger."+m.Name()+":read-only", c.Pos(m.Pos()), "prefetcher.Ledger gained method "+m.Name()+", which is not one of the five reviewed lookups: the prefetcher runs concurrently with evaluation and must not be able to write; new method needs review")
				}
			}
		}
		pp := c.Pkg("ledger/eval/prefetcher")
		badImp := ""
		for _, imp := range pp.Types.Imports() {
			switch relPkg(imp.Path()) {
			case "ledger/eval", "ledger", "ledger/store/trackerdb", "data/pools":
				badImp = imp.Path()
			}
		}
		c.Check(badImp == "", "R20.3", "prefetcher:imports", "-", "package prefetcher does not import the evaluator or the ledger (found "+badImp+"): it cannot reach roundCowState or tracker writers")

		blockRefs := c.Func("ledger/eval/prefetcher.BlockReferences")
		brs := CallsTo(evalFn, false, blockRefs)
		mkBase := CallsTo(startEval, false, c.Func(P+"makeRoundCowBase"))
		blockRound := c.Func(B + "Block.Round")
		fRound := hf("Round")
		minus1 := func(v ssa.Value, x VM) bool {
			bo, ok := strip(v).(*ssa.BinOp)
			return ok && bo.Op == token.SUB && IsConstInt(1)(bo.Y) && x(bo.X)
		}
		if len(brs) != 1 || len(mkBase) != 1 {
			c.Unk("R20.3", "prefetch round == evaluation base round", c.Pos(evalFn.Pos()), fmt.Sprintf("expected one BlockReferences call in Eval and one makeRoundCowBase call in StartEvaluator, found %d/%d", len(brs), len(mkBase)))
		} else {
			pBlk := dParamNamed(evalFn, "blk")
			pL := dParamNamed(evalFn, "l")
			pHdr := dParamNamed(startEval, "hdr")
			a := brs[0].Common().Args
			okR := pBlk != nil && len(a) >= 3 && minus1(a[2], func(v ssa.Value) bool {
				call, ok := v.(*ssa.Call)
				return ok && sameFunc(calleeOf(call.Common()), blockRound) && dIsParam(pBlk)(call.Common().Args[0])
			})
			c.dCheck(okR, "R20.3", fnName(evalFn)+":BlockReferences(rnd=blk.Round()-1)", c.Pos(brs[0].Pos()), "the prefetcher loads accounts/resources as of the round before the block")
			okL := pL != nil && len(a) >= 2 && dIsParam(pL)(strip(a[1]))
			if okL {
				ses := CallsTo(evalFn, false, c.Func(P+"StartEvaluator"))
				okL = len(ses) == 1 && dIsParam(pL)(ses[0].Common().Args[0])
				if okL {
					// and the evaluated header is blk's header
					r, p := dAddrPath(ses[0].Common().Args[1])
					okL = dRootIsParam(r, pBlk) && len(p) == 1 && p[0] == fHdr
				}
			}
			c.dCheck(okL, "R20.3", fnName(evalFn)+":prefetcher and evaluator share ledger and block", c.Pos(brs[0].Pos()), "BlockReferences and StartEvaluator are given the same ledger l, and StartEvaluator the header of blk")
			b := mkBase[0].Common().Args
			okB := pHdr != nil && len(b) >= 2 && minus1(b[1], func(v ssa.Value) bool {
				r, p := dAddrPath(v)
				return dRootIsParam(r, pHdr) && len(p) == 1 && p[0] == fRound
			}) && dIsParam(dParamNamed(startEval, "l"))(strip(b[0]))
			c.dCheck(okB, "R20.3", fnName(startEval)+":makeRoundCowBase(l, hdr.Round-1)", c.Pos(mkBase[0].Pos()), "the evaluator's base reads the ledger at the round before the block: the same round the prefetcher loads")
		}
		// prefetched data enters the base caches only when the prefetch succeeded
		baseT := c.Named(P + "roundCowBase")
		fErr := c.Field("ledger/eval/prefetcher.LoadedTransactionGroup.Err")
		var fills []ssa.Instruction
		for _, w := range dWrites(evalFn) {
			if w.Kind != "mapupdate" || len(w.Fields) != 1 {
				continue
			}
			if pt, ok := w.Root.Type().(*types.Pointer); ok {
				if nt, ok := types.Unalias(pt.Elem()).(*types.Named); ok && nt.Origin() == baseT.Origin() {
					fills = append(fills, w.Instr)
				}
			}
		}
		c.dMustGuard(dGuardSpec{Rule: "R20.3", Fn: evalFn, Effects: fills, EffName: "fill roundCowBase cache from prefetch", Guards: []Guard{GCmp("txgroup.Err==nil", token.EQL, dPath(fErr), IsNil)}})
	}
	// ---- R20.4: header fields made by bookkeeping.MakeBlock have their twin in BlockHeader.PreCheck ----
	{
		mb := c.Fn(B + "MakeBlock")
		pc := c.Fn(B + "BlockHeader.PreCheck")
		prevMB, prevPC, bhP := dParamAt(mb, 0), dParamAt(pc, 0), dRecv(pc)
		on := func(p *ssa.Parameter, fields ...*types.Var) VM {
			return func(v ssa.Value) bool {
				r, f := dAddrPath(strip(v))
				if !dRootIsParam(r, p) || len(f) != len(fields) {
					return false
				}
				for i := range f {
					if f[i] != fields[i] {
						return false
					}
				}
				return true
			}
		}
		plus1 := func(x VM) VM {
			return func(v ssa.Value) bool {
				bo, ok := strip(v).(*ssa.BinOp)
				return ok && bo.Op == token.ADD && IsConstInt(1)(bo.Y) && x(bo.X)
			}
		}
		hashOf := func(f *types.Func, p *ssa.Parameter) VM {
			return func(v ssa.Value) bool {
				call, ok := v.(*ssa.Call)
				return ok && sameFunc(calleeOf(call.Common()), f) && on(p)(call.Common().Args[0])
			}
		}
		hash, hash512 := c.Func(B+"BlockHeader.Hash"), c.Func(B+"BlockHeader.Hash512")
		nextBonus, nextCT := c.Func(B+"NextBonus"), c.Func(B+"NextCongestionTax")
		fSha512 := c.Field("config.ConsensusParams.EnableSha512BlockHash")
		type twin struct {
			name    string
			field   *types.Var
			gen     VM // value MakeBlock stores
			val     VM // value PreCheck compares the header field with
			callee  *types.Func
			flagged bool // only under EnableSha512BlockHash
		}
		tw := []twin{
			{"Round", hf("Round"), plus1(on(prevMB, hf("Round"))), plus1(on(prevPC, hf("Round"))), nil, false},
			{"Branch", hf("Branch"), hashOf(hash, prevMB), hashOf(hash, prevPC), nil, false},
			{"Branch512", hf("Branch512"), hashOf(hash512, prevMB), hashOf(hash512, prevPC), nil, true},
			{"Bonus", hf("Bonus"), dResultOf(0, nextBonus), dIs(dResultOf(0, nextBonus)), nextBonus, false},
			{"CongestionTax", hf("CongestionTax"), dResultOf(0, nextCT), dIs(dResultOf(0, nextCT)), nextCT, false},
		}
		succ := dSuccessReturns(pc)
		sha512On := GBool("params.EnableSha512BlockHash", dPath(fSha512), true)
		sha512Off := GBool("!params.EnableSha512BlockHash", dPath(fSha512), false)
		for _, t := range tw {
			// generator side: the store into the new block's header
			var stores []ssa.Instruction
			okVal := true
			for _, w := range dWrites(mb) {
				st, ok := w.Instr.(*ssa.Store)
				if !ok || len(w.Fields) == 0 || w.Fields[len(w.Fields)-1] != t.field {
					continue
				}
				if _, isLocal := w.Root.(*ssa.Alloc); !isLocal {
					continue
				}
				stores = append(stores, st)
				if !t.gen(st.Val) {
					okVal = false
				}
			}
			construct := "MakeBlock/PreCheck twin(BlockHeader." + t.name + ")"
			if len(stores) == 0 {
				c.Unk("R20.4", construct+":generated", c.Pos(mb.Pos()), "MakeBlock no longer stores header field "+t.name+": the twin table is stale")
				continue
			}
			if okVal {
				c.Ok("R20.4", construct+":generated", c.Pos(stores[0].Pos()), "MakeBlock derives "+t.name+" from prev by the tabled computation")
			} else {
				c.Bad("R20.4", construct+":generated", c.Pos(stores[0].Pos()), "MakeBlock stores a "+t.name+" that is not the computation PreCheck recomputes from prev ("+describe(stores[0].(*ssa.Store).Val)+"): every block this node proposes would fail validation, or validators would accept a different value")
			}
			if t.flagged {
				c.dMustGuard(dGuardSpec{Rule: "R20.4", Fn: mb, Effects: stores, EffName: "store(BlockHeader." + t.name + ")", Guards: []Guard{sha512On}})
			}
			// validator side
			g := GCmp("bh."+t.name+"==expected", token.EQL, on(bhP, t.field), t.val)
			spec := dGuardSpec{Rule: "R20.4", Fn: pc, Effects: succ, EffName: "return nil", Guards: []Guard{g}}
			if t.flagged {
				spec.Bypass = []Guard{sha512Off}
			}
			c.dMustGuard(spec)
			if t.callee != nil {
				g1, v1 := CallsTo(mb, false, t.callee), CallsTo(pc, false, t.callee)
				if len(g1) == 0 || len(v1) == 0 {
					c.Unk("R20.4", construct+":same arguments", c.Pos(pc.Pos()), fmt.Sprintf("expected %s calls in both MakeBlock and PreCheck, found %d/%d", t.callee.Name(), len(g1), len(v1)))
				} else {
					same := true
					detail := "MakeBlock and PreCheck call " + t.callee.Name() + " on the same fields of prev / the protocol parameters"
					for _, g := range g1 {
						for _, v := range v1 {
							if ok, i := dSamePaths(g, v); !ok {
								same = false
								detail = fmt.Sprintf("%s is called with different arguments by MakeBlock (%s) and PreCheck (%s): argument %d differs", t.callee.Name(), c.Pos(g.Pos()), c.Pos(v.Pos()), i)
							}
						}
					}
					c.Check(same, "R20.4", construct+":same arguments", c.Pos(v1[0].Pos()), detail)
				}
			}
		}
	}
	dDumpObs(c)
}
