package main

import (
	"golang.org/x/tools/go/ssa"
)

// R20.5 (added after seed C20-1): the block a pool finishes carries the load of
// the bytes it actually holds. ResetTxnBytes zeroes the evaluator's byte
// counter, which endOfBlock turns into the header's Load under GenerateBlock;
// validators recompute Load from the payset. So inside any function of the
// pool, GenerateBlock on the pending evaluator is never reachable after a
// ResetTxnBytes call of that same function.
func init() {
	extend("C20", Extension{
		Run:         ruleNoGenerateAfterByteReset,
		Explanation: "R20.5 (pool-assembled block keeps its measured load): in package data/pools no call to BlockEvaluator.GenerateBlock is reachable, within one function, after a call to BlockEvaluator.ResetTxnBytes — the byte counter that ResetTxnBytes zeroes is what endOfBlock writes into the header's Load, which every validator recomputes from the payset.",
		Floor:       map[string]int{"R20.5": 1},
		Patterns:    []string{"./data/pools"},
	})
}

func ruleNoGenerateAfterByteReset(c *Ctx) {
	const rule = "R20.5"
	if !c.HasPkg("data/pools") {
		c.Unk(rule, "data/pools", "-", "package data/pools is not loaded")
		return
	}
	gen := c.Func("data/pools.BlockEvaluator.GenerateBlock")
	reset := c.Func("data/pools.BlockEvaluator.ResetTxnBytes")
	nGen, nReset := 0, 0
	for _, fn := range c.funcsOf(Mod + "/data/pools") {
		gens := CallsTo(fn, false, gen)
		resets := CallsTo(fn, false, reset)
		nGen += len(gens)
		nReset += len(resets)
		if len(gens) == 0 || len(resets) == 0 {
			continue
		}
		ok := true
		var where ssa.Instruction
		for _, r := range resets {
			// rest of r's block, then everything reachable from its successors
			after := false
			for _, in := range r.Block().Instrs {
				if in == ssa.Instruction(r) {
					after = true
					continue
				}
				if after {
					for _, g := range gens {
						if in == ssa.Instruction(g) {
							ok = false
							where = g
						}
					}
				}
			}
			for _, s := range r.Block().Succs {
				reach := NewReachFromBlock(s, nil, nil)
				for _, g := range gens {
					if reach.Reaches(g) {
						ok = false
						where = g
					}
				}
			}
		}
		pos := c.Pos(fn.Pos())
		if where != nil {
			pos = c.Pos(where.Pos())
		}
		c.Check(ok, rule, fnName(fn)+":GenerateBlock never after ResetTxnBytes", pos, "a block is generated from the evaluator only while its byte counter still measures the block's payset")
	}
	if nGen == 0 || nReset == 0 {
		c.Unk(rule, "data/pools:GenerateBlock/ResetTxnBytes", "-", "the pool no longer calls GenerateBlock ("+itoa(nGen)+") or ResetTxnBytes ("+itoa(nReset)+") on its evaluator: rule cannot see its sites")
		return
	}
	c.Ok(rule, "data/pools:sites", "-", itoa(nGen)+" GenerateBlock and "+itoa(nReset)+" ResetTxnBytes call sites examined; no function contains a reset followed by a generate")
}
