package main

import (
	"go/types"
)

// R40.6: pointer-typed omitempty fields of consensus objects. The generated
// encoder omits a pointer field only when the pointer is nil; go-codec with
// RecursiveEmptyCheck (set on protocol.CodecHandle) also omits it when it
// points to an empty value. A non-nil pointer to an all-zero struct is
// therefore encoded differently by the two encoders. Found from a side note
// of the agent that seeded C40-1 and confirmed on the pinned tree
// (findings/C40/hb_pointer_encoding_test.go).
func init() {
	extend("C40", Extension{
		Run:         rulePointerOmitEmpty,
		Explanation: "R40.6 (pointer fields): among the struct types reachable through encoded fields from the consensus roots (SignedTxn/SignedTxnInBlock, Block, agreement votes/bundles/proposals, Certificate, account and resource records) no omittable field has pointer type — the generated encoder tests such a field with `== nil` while go-codec's RecursiveEmptyCheck also omits a non-nil pointer to an empty value, so the two encoders differ on it (one such field exists on the pinned tree and is a known finding).",
		Floor:       map[string]int{"R40.6": 1},
	})
}

var consensusEncodingRoots = []string{
	"data/transactions.SignedTxn", "data/transactions.SignedTxnInBlock", "data/bookkeeping.Block",
	"agreement.unauthenticatedVote", "agreement.unauthenticatedBundle", "agreement.unauthenticatedProposal", "agreement.Certificate",
	"agreement.transmittedPayload", "data/basics.AccountData", "ledger/store/trackerdb.BaseAccountData", "ledger/store/trackerdb.ResourcesData",
	"ledger/store/trackerdb.BaseOnlineAccountData",
}

func rulePointerOmitEmpty(c *Ctx) {
	const rule = "R40.6"
	seen := map[*types.Named]bool{}
	var work []*types.Named
	for _, r := range consensusEncodingRoots {
		if o := c.TryObj(r); o != nil {
			if nt, ok := o.Type().(*types.Named); ok {
				work = append(work, nt)
			}
		} else {
			c.Unk(rule, "root "+r, "-", "consensus root type not found in the loaded packages")
		}
	}
	var visitType func(t types.Type)
	visitType = func(t types.Type) {
		switch x := types.Unalias(t).(type) {
		case *types.Named:
			if !seen[x] {
				seen[x] = true
				work = append(work, x)
			}
		case *types.Pointer:
			visitType(x.Elem())
		case *types.Slice:
			visitType(x.Elem())
		case *types.Array:
			visitType(x.Elem())
		case *types.Map:
			visitType(x.Key())
			visitType(x.Elem())
		}
	}
	nTypes, nFields, nBad := 0, 0, 0
	for len(work) > 0 {
		nt := work[0]
		work = work[1:]
		seen[nt] = true
		st, ok := nt.Underlying().(*types.Struct)
		if !ok {
			visitType(nt.Underlying())
			continue
		}
		if nt.Obj().Pkg() == nil || len(nt.Obj().Pkg().Path()) < len(Mod) || nt.Obj().Pkg().Path()[:len(Mod)] != Mod {
			continue
		}
		nTypes++
		si := hCodecFields(st)
		for _, f := range si.Fields {
			nFields++
			if _, isPtr := f.Var.Type().Underlying().(*types.Pointer); isPtr && f.Omittable() {
				nBad++
				name := relPkg(nt.Obj().Pkg().Path()) + "." + nt.Obj().Name() + "." + f.Var.Name()
				c.Bad(rule, name, c.Pos(f.Var.Pos()), "omittable field `"+f.Name+"` has pointer type "+f.Var.Type().String()+": the generated encoder omits it only when nil, go-codec (RecursiveEmptyCheck) also when it points to an empty value — a non-nil pointer to an all-zero value has two encodings")
			}
			visitType(f.Var.Type())
		}
	}
	c.Ok(rule, "consensus-reachable encoded struct types", "-", itoa(nTypes)+" struct types, "+itoa(nFields)+" encoded fields examined, "+itoa(nBad)+" pointer-typed omittable")
}
