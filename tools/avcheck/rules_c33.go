package main

import (
	"fmt"
	"go/ast"
	"go/token"
	"go/types"
	"sort"
	"strings"

	"golang.org/x/tools/go/ssa"
)

func init() {
	register(&Prop{
		ID:       "C33",
		Patterns: []string{"./data/transactions/logic"},
		Run:      runC33,
		Explanation: "Thin table agreement between assembler, disassembler and static checker over the statically evaluated OpSpecs / field tables (it does NOT decide the byte-for-byte round trip). " +
			"R33.1 the switch over imm.kind in disassemble has a case for every constant of type immKind (an uncovered kind makes every program using such an opcode undisassemblable). " +
			"R33.2 every OpSpecs entry has a non-nil assembler function, and an entry assembled by asmDefault only has immediates of the kinds asmDefault's switch handles (others need a dedicated assembler, else assembly fails with 'unable to assemble immKind'). " +
			"R33.3 every entry with Size==0 (dynamic length) has a check function: checkStep advances the pc only through it, so without one every assembled program containing the opcode fails the static check ('pc did not advance'); label-kind immediates imply a check function. " +
			"R33.4 for every version 0..LogicVersion, in the tables init builds (latest entry with Version <= v per opcode(.sub) for opsByOpcode, per name for OpsByName; v0 = v1) names and opcodes are in bijection: the name the disassembler prints for a byte assembles back to that byte. " +
			"R33.5 every field table has entry i carrying field constant i, and the name arrays have the same length as their spec tables (the assertions init makes at start-up, decided statically): the disassembler's Names[b] and the assembler's specs[name].Field() are inverse. " +
			"Does NOT decide: encoding of immediates (varuint, labels, varint branches, switch tables), constant-block optimisation, pseudo-op selection, or that assembled programs pass check() beyond R33.3.",
		Floor: map[string]int{"R33.1": 9, "R33.2": 214, "R33.3": 16, "R33.4": 15, "R33.5": 30},
	})
}

// c33SwitchConsts returns the integer constants for which the function has a
// case in a switch statement whose tag reads field f. When the function has no
// such switch (if-chain style) it falls back to the constants compared with ==
// against reads of f in branch conditions.
func c33SwitchConsts(c *Ctx, fn *ssa.Function, f *types.Var) map[int64]bool {
	out := map[int64]bool{}
	found := false
	if obj, ok := fn.Object().(*types.Func); ok {
		if pk, _, decl := c.funcDecl(obj); decl != nil && decl.Body != nil {
			ast.Inspect(decl.Body, func(n ast.Node) bool {
				sw, ok := n.(*ast.SwitchStmt)
				if !ok || sw.Tag == nil || selField(pk.TypesInfo, sw.Tag) != f {
					return true
				}
				found = true
				for _, cs := range sw.Body.List {
					for _, e := range cs.(*ast.CaseClause).List {
						if tv, ok := pk.TypesInfo.Types[e]; ok && tv.Value != nil {
							if n, ok := (gVal{K: gConst, C: tv.Value}).int64(); ok {
								out[n] = true
							}
						}
					}
				}
				return true
			})
		}
	}
	if found {
		return out
	}
	for _, b := range fn.Blocks {
		for _, in := range b.Instrs {
			bo, ok := in.(*ssa.BinOp)
			if !ok || bo.Op != token.EQL {
				continue
			}
			for _, p := range [][2]ssa.Value{{bo.X, bo.Y}, {bo.Y, bo.X}} {
				k, isK := p[1].(*ssa.Const)
				if !isK || !Mentions(p[0], f, 4) {
					continue
				}
				if n, ok := gConstInt(k); ok {
					for _, r := range *bo.Referrers() {
						if _, isIf := r.(*ssa.If); isIf {
							out[n] = true
						}
					}
				}
			}
		}
	}
	return out
}

func runC33(c *Ctx) {
	a := gAvmExtract(c)
	pk := a.pk
	fKind := c.Field(gLogic + ".immediate.kind")
	immKindT := c.Named(gLogic + ".immKind")
	kinds := map[int64]string{}
	for _, n := range pk.Types.Scope().Names() {
		if k, ok := pk.Types.Scope().Lookup(n).(*types.Const); ok && types.Identical(k.Type(), immKindT) {
			if v, ok := constInt64(k); ok {
				kinds[v] = n
			}
		}
	}
	var kv []int64
	for v := range kinds {
		kv = append(kv, v)
	}
	sort.Slice(kv, func(i, j int) bool { return kv[i] < kv[j] })

	// R33.1
	dis := c.Fn(gLogic + ".disassemble")
	disKinds := c33SwitchConsts(c, dis, fKind)
	for _, v := range kv {
		c.Check(disKinds[v], "R33.1", "disassemble:case "+kinds[v], c.Pos(dis.Pos()), "the disassembler's switch over imm.kind handles "+kinds[v]+" (otherwise: 'unknown immKind' for every program using such an immediate)")
	}

	// R33.2 / R33.3
	asmDefault := c.Func(gLogic + ".asmDefault")
	defKinds := c33SwitchConsts(c, c.Fn(gLogic+".asmDefault"), fKind)
	labelKinds := map[int64]bool{}
	for _, n := range []string{"immLabel", "immLabels", "immVarintLabel"} {
		if v, ok := constInt64(c.Const(gLogic + "." + n)); ok {
			labelKinds[v] = true
		}
	}
	for _, o := range a.Ops {
		if o.Need(c, "R33.2", "asm", "Immediates") {
			switch {
			case o.Asm == nil:
				c.Bad("R33.2", o.Key()+":asm", c.Pos(o.Pos), "the entry has no assembler function: the mnemonic cannot be assembled")
			case sameFunc(o.Asm, asmDefault):
				var bad []string
				for _, im := range o.Imms {
					if !defKinds[im.Kind] {
						bad = append(bad, im.Name+":"+kinds[im.Kind])
					}
				}
				c.Check(len(bad) == 0, "R33.2", o.Key()+":asm", c.Pos(o.Pos), "assembled by asmDefault, whose switch only handles byte-sized kinds; unsupported immediates: "+strings.Join(bad, ", "))
			default:
				c.Ok("R33.2", o.Key()+":asm", c.Pos(o.Pos), "dedicated assembler "+o.Asm.Name())
			}
		}
		if !o.Need(c, "R33.3", "Size", "check", "Immediates") {
			continue
		}
		hasLabel := false
		for _, im := range o.Imms {
			if labelKinds[im.Kind] {
				hasLabel = true
			}
		}
		if o.Size == 0 || hasLabel {
			why := "Size==0: checkStep can only advance the pc through the check function"
			if hasLabel && o.Size != 0 {
				why = "a branch-label immediate must be validated by a check function"
			}
			c.Check(o.Check != nil, "R33.3", o.Key()+":check", c.Pos(o.Pos), why)
		}
	}

	// R33.4
	type key struct{ op, sub int64 }
	okAll := true
	for _, o := range a.Ops {
		if !o.Need(c, "R33.4", "Opcode", "SubOpcode", "Name", "Version") {
			okAll = false
		}
	}
	if okAll {
		for v := int64(0); v <= a.LogicVersion; v++ {
			eff := v
			if eff == 0 {
				eff = 1
			}
			byKey := map[key]*GOp{}
			byName := map[string]*GOp{}
			for ver := int64(1); ver <= eff; ver++ {
				for _, o := range a.Ops {
					if o.Version == ver {
						byKey[key{o.Opcode, o.Sub}] = o
						byName[o.Name] = o
					}
				}
			}
			var bad []string
			for k, o := range byKey {
				n := byName[o.Name]
				if n == nil || (key{n.Opcode, n.Sub}) != k {
					bad = append(bad, fmt.Sprintf("byte 0x%02x.%02x disassembles to %q, which assembles to %s", k.op, k.sub, o.Name, n.Key()))
				}
			}
			for name, o := range byName {
				b := byKey[key{o.Opcode, o.Sub}]
				if b == nil || b.Name != name {
					bad = append(bad, fmt.Sprintf("%q assembles to %s, which disassembles to %q", name, o.Key(), b.Name))
				}
			}
			sort.Strings(bad)
			c.Check(len(bad) == 0, "R33.4", fmt.Sprintf("version %d: names <-> opcodes", v), c.Pos(a.Ops[0].Pos), fmt.Sprintf("%d opcodes / %d names; %s", len(byKey), len(byName), strings.Join(bad, "; ")))
		}
	}

	// R33.5
	for _, t := range a.Tables {
		construct := "table " + t.Lookup.Name()
		if t.Und != "" || t.FieldField == nil {
			c.Unk("R33.5", construct, c.Pos(t.Lookup.Pos()), "field table not extracted: "+t.Und)
			continue
		}
		var bad []string
		for i, e := range t.Entries {
			if !e.FieldOK {
				c.Unk("R33.5", fmt.Sprintf("%s[%d]", t.Table.Name(), i), c.Pos(e.Pos), "entry not evaluated: "+e.Why)
				continue
			}
			if e.Field != int64(i) || e.Idx != i {
				bad = append(bad, fmt.Sprintf("entry %d has field %s=%d", i, e.Name, e.Field))
			}
		}
		c.Check(len(bad) == 0, "R33.5", t.Table.Name()+"[i].field == i", c.Pos(t.Lookup.Pos()), "the byte the assembler emits (spec.Field()) is the index the disassembler and the run-time lookup use; "+strings.Join(bad, ", "))
	}
	// the init-time length assertions equal(len(X), len(Y)) over package-level arrays
	for _, f := range pk.Syntax {
		for _, d := range f.Decls {
			fd, ok := d.(*ast.FuncDecl)
			if !ok || fd.Recv != nil || fd.Name.Name != "init" || fd.Body == nil {
				continue
			}
			ast.Inspect(fd.Body, func(n ast.Node) bool {
				call, ok := n.(*ast.CallExpr)
				if !ok || len(call.Args) != 2 {
					return true
				}
				var lens [2]int64
				var names [2]string
				for i, arg := range call.Args {
					lc, ok := arg.(*ast.CallExpr)
					if !ok || len(lc.Args) != 1 {
						return true
					}
					id, ok := lc.Fun.(*ast.Ident)
					if !ok {
						return true
					}
					if b, ok := pk.TypesInfo.Uses[id].(*types.Builtin); !ok || b.Name() != "len" {
						return true
					}
					vid, ok := lc.Args[0].(*ast.Ident)
					if !ok {
						return true
					}
					v, ok := pk.TypesInfo.Uses[vid].(*types.Var)
					if !ok || v.Parent() != pk.Types.Scope() {
						return true
					}
					arr, ok := v.Type().Underlying().(*types.Array)
					if !ok {
						return true
					}
					lens[i], names[i] = arr.Len(), v.Name()
				}
				c.Check(lens[0] == lens[1], "R33.5", fmt.Sprintf("len(%s) == len(%s)", names[0], names[1]), c.Pos(call.Pos()), fmt.Sprintf("%d vs %d: init asserts this at start-up; a mismatch leaves names without specs (or panics)", lens[0], lens[1]))
				return true
			})
		}
	}
}
