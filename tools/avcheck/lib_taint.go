package main

import (
	"go/token"
	"go/types"
	"sort"

	"golang.org/x/tools/go/ssa"
)

// Slice-aliasing taint (T9 variant): byte slices handed out by a *source*
// call (e.g. the ledger's GetBox, whose result aliases the parent state's
// storage) must never be written through. The analysis propagates "may alias
// the source's backing array" through extracts, phis, re-slices, type changes,
// locals, parameters of statically called module functions and their results,
// and reports every in-place write: copy(dst=tainted,…), x[i] = … on a tainted
// slice, and append(tainted, …) (which may write into spare capacity).

type taintSink struct {
	In   ssa.Instruction
	What string
	Via  string
}

// AliasWrites runs the analysis over the functions of pkgs (module-relative).
// isSource returns the tainted result indices of a call (nil if not a source).
func (c *Ctx) AliasWrites(pkgs []string, isSource func(call *ssa.Call) []int) (sinks []taintSink, nSources int) {
	var fns []*ssa.Function
	inScope := map[*ssa.Function]bool{}
	for _, rel := range pkgs {
		for _, f := range c.funcsOf(Mod + "/" + rel) {
			fns = append(fns, f)
			inScope[f] = true
		}
	}
	tainted := map[ssa.Value]string{} // value -> origin description
	type callRes struct {
		fn  *ssa.Function
		idx int
	}
	retTaint := map[callRes]string{}
	var work []ssa.Value
	mark := func(v ssa.Value, why string) {
		if v == nil {
			return
		}
		if _, ok := tainted[v]; ok {
			return
		}
		if !isSliceLike(v.Type()) {
			if _, isTuple := v.Type().(*types.Tuple); !isTuple {
				if _, isPtr := v.Type().Underlying().(*types.Pointer); !isPtr {
					return
				}
			}
		}
		tainted[v] = why
		work = append(work, v)
	}
	// call sites by callee, for return propagation
	callers := map[*ssa.Function][]*ssa.Call{}
	for _, f := range fns {
		for _, b := range f.Blocks {
			for _, in := range b.Instrs {
				call, ok := in.(*ssa.Call)
				if !ok {
					continue
				}
				if idxs := isSource(call); len(idxs) > 0 {
					nSources++
					origin := fnName(f) + ":" + funcObjName(calleeOf(call.Common()))
					if _, isTuple := call.Type().(*types.Tuple); isTuple {
						for _, r := range *call.Referrers() {
							if e, ok := r.(*ssa.Extract); ok {
								for _, i := range idxs {
									if e.Index == i {
										mark(e, origin)
									}
								}
							}
						}
					} else {
						mark(call, origin)
					}
				}
				if sc := call.Common().StaticCallee(); sc != nil && inScope[sc] {
					callers[sc] = append(callers[sc], call)
				}
			}
		}
	}
	seenSink := map[ssa.Instruction]bool{}
	addSink := func(in ssa.Instruction, what, via string) {
		if seenSink[in] {
			return
		}
		seenSink[in] = true
		sinks = append(sinks, taintSink{in, what, via})
	}
	for len(work) > 0 {
		v := work[0]
		work = work[1:]
		why := tainted[v]
		refs := v.Referrers()
		if refs == nil {
			continue
		}
		for _, r := range *refs {
			switch x := r.(type) {
			case *ssa.Slice:
				if x.X == v {
					mark(x, why)
				}
			case *ssa.Phi:
				mark(x, why)
			case *ssa.ChangeType:
				mark(x, why)
			case *ssa.Convert:
				if isSliceLike(x.Type()) {
					mark(x, why)
				}
			case *ssa.Extract:
				// handled at the source; tuples from in-scope calls below
			case *ssa.Store:
				if x.Val == v {
					if a, ok := x.Addr.(*ssa.Alloc); ok {
						// loads of the local become tainted
						for _, ar := range *a.Referrers() {
							if u, ok := ar.(*ssa.UnOp); ok && u.X == ssa.Value(a) {
								mark(u, why)
							}
						}
					}
				}
			case *ssa.IndexAddr:
				if x.X == v {
					for _, ir := range *x.Referrers() {
						if st, ok := ir.(*ssa.Store); ok && st.Addr == ssa.Value(x) {
							addSink(st, "element store into a slice that aliases "+why, why)
						}
					}
				}
			case *ssa.Return:
				f := x.Parent()
				for i, res := range x.Results {
					if res == v {
						k := callRes{f, i}
						if _, ok := retTaint[k]; !ok {
							retTaint[k] = why
							for _, call := range callers[f] {
								if _, isTuple := call.Type().(*types.Tuple); isTuple {
									for _, cr := range *call.Referrers() {
										if e, ok := cr.(*ssa.Extract); ok && e.Index == i {
											mark(e, why)
										}
									}
								} else if i == 0 {
									mark(call, why)
								}
							}
						}
					}
				}
			case ssa.CallInstruction:
				cc := x.Common()
				if b, ok := cc.Value.(*ssa.Builtin); ok {
					switch b.Name() {
					case "copy":
						if len(cc.Args) > 0 && cc.Args[0] == v {
							addSink(x, "copy() into a slice that aliases "+why, why)
						}
					case "append":
						if len(cc.Args) > 0 && cc.Args[0] == v {
							addSink(x, "append() onto a slice that aliases "+why+" (may write into its spare capacity)", why)
						}
					case "clear":
						if len(cc.Args) > 0 && cc.Args[0] == v {
							addSink(x, "clear() of a slice that aliases "+why, why)
						}
					}
					continue
				}
				if sc := cc.StaticCallee(); sc != nil && inScope[sc] {
					for i, a := range cc.Args {
						if a == v && i < len(sc.Params) {
							mark(sc.Params[i], why)
						}
					}
				}
			}
		}
	}
	sort.Slice(sinks, func(i, j int) bool { return sinks[i].In.Pos() < sinks[j].In.Pos() })
	return sinks, nSources
}

func isSliceLike(t types.Type) bool {
	_, ok := t.Underlying().(*types.Slice)
	return ok
}

// ruleBoxContentsImmutable (C19 R19.6, also relevant to C23): the AVM never
// writes through the byte slice returned by LedgerForLogic.GetBox — that
// slice aliases the parent copy-on-write state (or the ledger's read cache),
// so an in-place write would survive the rollback of a failed group.
func ruleBoxContentsImmutable(c *Ctx, rule string) {
	getBox := c.Func("data/transactions/logic.LedgerForLogic.GetBox")
	sinks, n := c.AliasWrites([]string{"data/transactions/logic"}, func(call *ssa.Call) []int {
		if sameFunc(calleeOf(call.Common()), getBox) {
			return []int{0}
		}
		return nil
	})
	if n == 0 {
		c.Unk(rule, "source(LedgerForLogic.GetBox)", "-", "no GetBox call found in package logic: the rule no longer sees its source")
		return
	}
	c.Ok(rule, "sources(LedgerForLogic.GetBox)", "-", itoa(n)+" call site(s) whose result is tracked through extracts, phis, re-slices, locals, parameters and results of logic functions")
	if len(sinks) == 0 {
		c.Ok(rule, "no-write-through(box contents)", "-", "no copy()/element store/append() targets a slice that may alias a box's stored bytes: every modification works on a fresh clone handed to SetBox/NewBox")
	}
	for _, s := range sinks {
		c.Bad(rule, fnName(s.In.Parent())+":write-through(box contents)", c.Pos(s.In.Pos()), s.What+": the write lands in the parent state before the group commits and is not undone when the group fails")
	}
}

// MentionsValue reports whether the definition tree of v contains target.
func MentionsValue(v, target ssa.Value, depth int) bool {
	found := false
	walkDef(v, depth, func(x ssa.Value) bool {
		if x == target {
			found = true
		}
		return !found
	})
	return found
}

// ruleLRUFreshness: in each LRU cache `write` method, stores into an element
// that was found in the cache's map are guarded by cached.Before(new).
func ruleLRUFreshness(c *Ctx, rule string, writeFns ...string) {
	for _, spec := range writeFns {
		fn := c.Fn(spec)
		var found []ssa.Value
		for _, b := range fn.Blocks {
			for _, in := range b.Instrs {
				if lk, ok := in.(*ssa.Lookup); ok {
					if _, isMap := lk.X.Type().Underlying().(*types.Map); isMap {
						found = append(found, lk)
					}
				}
			}
		}
		if len(found) == 0 {
			c.Unk(rule, spec+":lookup", c.Pos(fn.Pos()), "no map lookup of the cached element found: idiom not recognised")
			continue
		}
		effects := Instrs(fn, func(in ssa.Instruction) bool {
			st, ok := in.(*ssa.Store)
			if !ok {
				return false
			}
			for _, el := range found {
				if MentionsValue(st.Addr, el, 6) {
					return true
				}
			}
			return false
		})
		// the Before method called on the cached element
		var before []*types.Func
		var beforeCalls int
		for _, b := range fn.Blocks {
			for _, in := range b.Instrs {
				if call, ok := in.(*ssa.Call); ok {
					if f := calleeOf(call.Common()); f != nil && f.Name() == "Before" {
						args := callArgs(call.Common())
						recvFromCache := false
						for _, el := range found {
							if len(args) > 0 && MentionsValue(args[0], el, 6) {
								recvFromCache = true
							}
						}
						if recvFromCache {
							before = append(before, f)
							beforeCalls++
						}
					}
				}
			}
		}
		if len(effects) == 0 {
			c.Unk(rule, spec+":overwrite", c.Pos(fn.Pos()), "no store into the cached element found: idiom not recognised")
			continue
		}
		if beforeCalls == 0 {
			c.Bad(rule, spec+":overwrite<=cached.Before(new)", c.Pos(effects[0].Pos()), "an existing cache entry is overwritten without comparing rounds: a stale row read before a commit can replace the committed one")
			continue
		}
		c.MustGuard(MustGuardSpec{Rule: rule, Fn: fn, Effects: effects, EffName: "overwrite(cached entry)", Guards: []Guard{GBool("cached.Before(new)", ResultOf(0, before...), true)}})
		for _, bf := range before {
			bfn := c.SSAOf(bf)
			ok := bfn != nil
			n := 0
			if ok {
				for _, b := range bfn.Blocks {
					if ret, isRet := b.Instrs[len(b.Instrs)-1].(*ssa.Return); isRet {
						n++
						bo, isBo := ret.Results[0].(*ssa.BinOp)
						if !isBo || bo.Op != token.LSS || len(bfn.Params) != 2 || !MentionsValue(bo.X, bfn.Params[0], 5) || !MentionsValue(bo.Y, bfn.Params[1], 5) {
							ok = false
						}
					}
				}
			}
			c.Check(ok && n == 1, rule, funcObjName(bf)+":receiver.round<other.round", c.Pos(bf.Pos()), "Before orders rows by their round: true iff the receiver's round is strictly lower than the argument's")
		}
	}
}
