package main

import (
	"go/token"
	"go/types"
	"sort"

	"golang.org/x/tools/go/ssa"
)

func init() {
	register(&Prop{
		ID:       "C16",
		Patterns: []string{"./ledger", "./catchup"},
		Run:      runC16,
		Explanation: "Decides the control- and data-flow skeleton of 'a catchpoint file whose contents do not match its label is rejected before the node adopts it' (and of the restore writing what it verified), not the equality of restored and source state: " +
			"R16.1 catchpointCatchupAccessorImpl.VerifyCatchpoint returns nil only after GetVerifyData succeeded, the stored catchup block round equals blk.Round() and the stored catchup label equals MakeLabel(maker); the maker is always the result of one of the MakeCatchpointLabelMaker* constructors (an unknown version is an error), whose arguments are, by position, the stored block round, blk.Digest() and the balances-root/totals/state-proof/online-accounts/online-round-params results of GetVerifyData; GetVerifyData computes each of them from the STAGING tables (MakeMerkleCommitter(true)+MakeTrie+RootHash, AccountsTotals(ctx,true), GetAllSPContextsFromCatchpointTbl+HashObj, calculateVerificationHash(…MakeOrderedOnlineAccountsIter / MakeOnlineRoundParamsIter…, staging=true)). " +
			"R16.2 CatchpointCatchupService: run() dispatches every CatchpointCatchupState constant to its processStage function; updateStage is called only by those functions and only with the successor stage of a frozen table; in processStageLatestBlockDownload the move to BlocksDownload is reachable only after VerifyCatchpoint, StoreBalancesRound and StoreFirstBlock returned nil for the same block value; in processStageLedgerDownload the move to LatestBlockDownload only after downloadLedger and BuildMerkleTrie returned nil; CompleteCatchup is called only by processStageSwitch and the return to Inactive only after it returned nil; ledgerFetcher.getPeerLedger cannot return nil nor process a further chunk once ProcessStagingBalances failed; BuildMerkleTrie rejects a hash that was not newly added. " +
			"R16.3 every encoded field of CatchpointSnapshotChunkV6 is in the frozen table field→staging writer and processStagingBalances hands exactly that field (Balances through prepareNormalizedBalancesV6) of the chunk decoded from the received bytes to that writer; trie leaf hashes are recomputed by the restoring node: NormalizedAccountBalance.AccountHashes is written only by prepareNormalizedBalancesV5/V6 with results of the trackerdb hash builders applied to the received record, and writeKVs stores KvHashBuilderV6(key[i], value[i]) next to key[i], value[i]. " +
			"R16.4 processStagingBalances accounts a chunk as processed (progress counters, expected-account state) only after all six staging writers returned nil, tested after the WaitGroup barrier that follows every goroutine launch; each stagingWriterImpl method returns the error of its transaction whose body returns the error of the WriteCatchpointStaging* call; ProcessStagingBalances returns its helpers' errors. " +
			"Does NOT decide: that the staging tables hold exactly what the writers were given (SQL), that ApplyCatchpointStagingBalances moves exactly the verified tables, equality of accounts/resources/boxes/totals with the producer, ordering/duplication of chunks beyond the per-account resource counters, or block/certificate validation of the downloaded blocks.",
		Assumptions: []string{"trackerdb staging writers store what they are given and staging readers read it back", "the catchpoint label stored with SetLabel is the one the operator asked for"},
		Floor:       map[string]int{"R16.1": 12, "R16.2": 33, "R16.3": 11, "R16.4": 14},
	})
}

// c16KeyCall matches result idx of an interface call to m whose state-name
// argument is the string constant key.
func c16KeyCall(idx int, m *types.Func, key *types.Const) VM {
	return func(v ssa.Value) bool {
		call, ok := libCCallOfResult(strip(v), idx, m)
		if !ok {
			return false
		}
		for _, a := range call.Common().Args {
			if libCStringConstIs(a, key) {
				return true
			}
		}
		return false
	}
}

// c16CellFrom reports whether every value stored into the local cell addr is
// accepted by pred (there must be at least one).
func c16CellFrom(addr ssa.Value, pred func(ssa.Value) bool) bool {
	a, ok := libCCell(addr).(*ssa.Alloc)
	if !ok {
		return false
	}
	vals, _, _ := libCAllStores(a)
	n := 0
	for _, v := range vals {
		if libCIsZeroConst(v) {
			continue
		}
		if u, isLoad := v.(*ssa.UnOp); isLoad && libCCell(u.X) == ssa.Value(a) {
			continue // self copy of a named result
		}
		n++
		if !pred(v) {
			return false
		}
	}
	return n > 0
}

func c16IsExtract(call ssa.Value, idx int) func(ssa.Value) bool {
	return func(v ssa.Value) bool {
		e, ok := v.(*ssa.Extract)
		return ok && e.Tuple == call && e.Index == idx
	}
}

// c16BoundMethod reports whether v is (a closure over) the bound method m.
func c16MentionsFunc(v ssa.Value, m *types.Func) bool {
	found := false
	libCWalk(v, 10, func(x ssa.Value) bool {
		if f, ok := x.(*ssa.Function); ok {
			if o, ok := f.Object().(*types.Func); ok && sameFunc(o, m) {
				found = true
			}
		}
		if mc, ok := x.(*ssa.MakeClosure); ok {
			if f, ok := mc.Fn.(*ssa.Function); ok {
				if o, ok := f.Object().(*types.Func); ok && sameFunc(o, m) {
					found = true
				}
			}
		}
		return !found
	})
	return found
}

func runC16(c *Ctx) {
	tdb := "ledger/store/trackerdb"
	lc := "ledger/ledgercore"
	acc := "ledger.catchpointCatchupAccessorImpl"

	mkV6 := c.Func(lc + ".MakeCatchpointLabelMakerV6")
	mkV7 := c.Func(lc + ".MakeCatchpointLabelMakerV7")
	mkCur := c.Func(lc + ".MakeCatchpointLabelMakerCurrent")
	ctors := []*types.Func{mkV6, mkV7, mkCur}
	makeLabel := c.Func(lc + ".MakeLabel")
	readStr := c.Func(tdb + ".CatchpointReader.ReadCatchpointStateString")
	readU64 := c.Func(tdb + ".CatchpointReader.ReadCatchpointStateUint64")
	kLabel := c.Const(tdb + ".CatchpointStateCatchupLabel")
	kBlockRound := c.Const(tdb + ".CatchpointStateCatchupBlockRound")
	getVerify := c.Func(acc + ".GetVerifyData")
	blockRoundF := c.Func("data/bookkeeping.Block.Round")
	blockDigestF := c.Func("data/bookkeeping.Block.Digest")

	// ---- R16.1 ----
	{
		fn := c.Fn(acc + ".VerifyCatchpoint")
		name := fnName(fn)
		var blk *ssa.Parameter
		for _, p := range fn.Params {
			if pt, ok := p.Type().(*types.Pointer); ok {
				if nt, ok := pt.Elem().(*types.Named); ok && nt.Obj().Name() == "Block" && nt.Obj().Pkg().Path() == Mod+"/data/bookkeeping" {
					blk = p
				}
			}
		}
		gv := CallsTo(fn, false, getVerify)
		if blk == nil || len(gv) != 1 {
			c.Unk("R16.1", name+":shape", c.Pos(fn.Pos()), "expected a *bookkeeping.Block parameter and exactly one GetVerifyData call")
		} else {
			gvCall := libCCall(gv[0])
			onBlk := func(f *types.Func) VM {
				return func(v ssa.Value) bool {
					call, ok := libCCallOfResult(v, 0, f)
					return ok && libCMentionsValue(call.Common().Args[0], blk)
				}
			}
			storedRound := c16KeyCall(0, readU64, kBlockRound)
			storedLabel := c16KeyCall(0, readStr, kLabel)
			genLabel := func(v ssa.Value) bool { _, ok := libCCallOfResult(v, 0, makeLabel); return ok }
			nErr := gvCall.Type().(*types.Tuple).Len() - 1
			succ := libCSuccessReturns(fn)
			c.MustGuard(MustGuardSpec{Rule: "R16.1", Fn: fn, Effects: succ, EffName: "return nil", Guards: []Guard{
				GErrNil("GetVerifyData err==nil", c16IsExtract(gvCall, nErr)),
				GCmp("stored block round==blk.Round()", token.EQL, storedRound, onBlk(blockRoundF)),
				GCmp("stored label==MakeLabel(maker)", token.EQL, storedLabel, genLabel),
			}})
			// the maker is always a constructor result; unknown versions are errors
			isCtor := func(in ssa.Instruction) bool {
				ci, ok := in.(ssa.CallInstruction)
				return ok && inFuncs(calleeOf(ci.Common()), ctors)
			}
			okChain, detail := true, "every nil return passes one of the label-maker constructors and MakeLabel is applied to a constructor result on every path"
			r := NewReach(fn, nil, isCtor)
			for _, s := range succ {
				if r.Reaches(s) {
					okChain = false
					detail = "a nil return is reachable without constructing a label maker (version chain not exhaustive)"
				}
			}
			mls := CallsTo(fn, false, makeLabel)
			if len(mls) != 1 {
				okChain = false
				detail = "expected one MakeLabel call"
			} else if ok, why := libCAllRoots(mls[0].Common().Args[0], func(v ssa.Value) bool { _, ok := libCCallOfResult(v, 0, ctors...); return ok }); !ok {
				okChain = false
				detail = "MakeLabel argument: " + why
			}
			c.Check(okChain, "R16.1", name+":maker-from-constructor-on-every-path", c.Pos(fn.Pos()), detail)
			// argument roles by constructor parameter position
			roles := []struct {
				what string
				ok   func(ssa.Value) bool
			}{
				{"stored catchup block round", func(v ssa.Value) bool { return storedRound(v) }},
				{"blk.Digest()", func(v ssa.Value) bool { return c16CellFrom(v, onBlk(blockDigestF)) }},
				{"GetVerifyData#0 (balances trie root)", func(v ssa.Value) bool { return c16CellFrom(v, c16IsExtract(gvCall, 0)) }},
				{"GetVerifyData#4 (totals)", func(v ssa.Value) bool { return c16IsExtract(gvCall, 4)(v) }},
				{"GetVerifyData#1 (state proof contexts hash)", func(v ssa.Value) bool { return c16CellFrom(v, c16IsExtract(gvCall, 1)) }},
				{"GetVerifyData#2 (online accounts hash)", func(v ssa.Value) bool { return c16CellFrom(v, c16IsExtract(gvCall, 2)) }},
				{"GetVerifyData#3 (online round params hash)", func(v ssa.Value) bool { return c16CellFrom(v, c16IsExtract(gvCall, 3)) }},
			}
			for _, ci := range CallsTo(fn, false, ctors...) {
				args := ci.Common().Args
				ok, detail := true, "arguments are, in order, the stored block round, blk.Digest() and the GetVerifyData results"
				for i, a := range args {
					if i >= len(roles) || !roles[i].ok(a) {
						ok = false
						detail = "argument #" + itoa(i) + " is not " + roles[min(i, len(roles)-1)].what + ": " + describe(a)
						break
					}
				}
				c.Check(ok, "R16.1", name+":"+calleeOf(ci.Common()).Name()+"(args)", c.Pos(ci.Pos()), detail)
			}
		}

		// GetVerifyData result provenance
		gfn := c.Fn(acc + ".GetVerifyData")
		gname := fnName(gfn)
		rootHash := c.Func("crypto/merkletrie.Trie.RootHash")
		makeTrie := c.Func("crypto/merkletrie.MakeTrie")
		mkCommitter := c.Func(tdb + ".Catchpoint.MakeMerkleCommitter")
		totalsF := c.Func(tdb + ".AccountsReaderExt.AccountsTotals")
		spTbl := c.Func(tdb + ".SpVerificationCtxReader.GetAllSPContextsFromCatchpointTbl")
		hashObj := c.Func("crypto.HashObj")
		calcVH := c.Func("ledger.calculateVerificationHash")
		onlAcctIter := c.Func(tdb + ".Reader.MakeOrderedOnlineAccountsIter")
		onlRPIter := c.Func(tdb + ".Reader.MakeOnlineRoundParamsIter")
		isTrue := IsConstBool(true)
		stagingVH := func(iter *types.Func) func(ssa.Value) bool {
			return func(v ssa.Value) bool {
				call, ok := libCCallOfResult(v, 0, calcVH)
				if !ok {
					return false
				}
				a := call.Common().Args
				return len(a) == 4 && c16MentionsFunc(a[1], iter) && isTrue(a[3]) && IsConstInt(0)(a[2])
			}
		}
		want := []struct {
			idx  int
			what string
			ok   func(ssa.Value) bool
		}{
			{0, "root of the trie over the staging hashes (MakeMerkleCommitter(true))", func(v ssa.Value) bool {
				call, ok := libCCallOfResult(v, 0, rootHash)
				if !ok {
					return false
				}
				mt, ok := libCCallOfResult(strip(call.Common().Args[0]), 0, makeTrie)
				if !ok {
					return false
				}
				mc := libCMentionsCall(mt.Common().Args[0], mkCommitter)
				return mc != nil && isTrue(mc.Common().Args[len(mc.Common().Args)-1])
			}},
			{1, "HashObj of the staged state-proof verification contexts", func(v ssa.Value) bool {
				call, ok := libCCallOfResult(v, 0, hashObj)
				return ok && libCMentionsCall(call.Common().Args[0], spTbl) != nil
			}},
			{2, "calculateVerificationHash(MakeOrderedOnlineAccountsIter, 0, staging=true)", stagingVH(onlAcctIter)},
			{3, "calculateVerificationHash(MakeOnlineRoundParamsIter, 0, staging=true)", stagingVH(onlRPIter)},
			{4, "AccountsTotals(ctx, staging=true)", func(v ssa.Value) bool {
				call, ok := libCCallOfResult(v, 0, totalsF)
				return ok && isTrue(call.Common().Args[len(call.Common().Args)-1])
			}},
		}
		for _, w := range want {
			ok, detail := true, "on every return the result is the zero value (error) or "+w.what
			n := 0
			for _, r := range libCReturns(gfn) {
				if w.idx >= len(r.Results) {
					ok = false
					continue
				}
				roots, rok := libCRoots(r.Results[w.idx])
				if !rok {
					ok = false
					detail = "a local holding the result escapes"
				}
				for _, root := range roots {
					if libCIsZeroConst(root) {
						continue
					}
					n++
					if !w.ok(root) {
						ok = false
						detail = "result may be " + describe(root) + ", expected " + w.what
					}
				}
			}
			c.Check(ok && n > 0, "R16.1", gname+":result#"+itoa(w.idx), c.Pos(gfn.Pos()), detail)
		}
	}

	// ---- R16.2 ----
	svc := "catchup.CatchpointCatchupService"
	if !c.HasPkg("catchup") {
		c.Unk("R16.2", "catchup", "-", "package catchup is not loaded")
	} else {
		updateStage := c.Func(svc + ".updateStage")
		fStage := c.Field(svc + ".stage")
		stateK := func(n string) *types.Const { return c.Const("ledger.CatchpointCatchupState" + n) }
		type stageRow struct {
			name string
			k    *types.Const
			fn   string
			next *types.Const
		}
		table := []stageRow{
			{"Inactive", stateK("Inactive"), "processStageInactive", stateK("LedgerDownload")},
			{"LedgerDownload", stateK("LedgerDownload"), "processStageLedgerDownload", stateK("LatestBlockDownload")},
			{"LatestBlockDownload", stateK("LatestBlockDownload"), "processStageLatestBlockDownload", stateK("BlocksDownload")},
			{"BlocksDownload", stateK("BlocksDownload"), "processStageBlocksDownload", stateK("Switch")},
			{"Switch", stateK("Switch"), "processStageSwitch", stateK("Inactive")},
		}
		// every declared state constant is in the table
		{
			pk := c.Pkg("ledger")
			stT := c.Named("ledger.CatchpointCatchupState")
			inTable := map[int64]bool{}
			for _, r := range table {
				n, _ := constInt64(r.k)
				inTable[n] = true
			}
			last, _ := constInt64(c.Const("ledger.catchpointCatchupStateLast"))
			ok := true
			detail := "the frozen stage table covers Inactive…catchpointCatchupStateLast"
			for n := int64(0); n <= last; n++ {
				if !inTable[n] {
					ok = false
					detail = "stage value " + itoa(int(n)) + " (≤ catchpointCatchupStateLast) is not in the frozen stage table: a new stage needs review"
				}
			}
			_ = pk
			_ = stT
			c.Check(ok && int(last)+1 == len(table), "R16.2", "ledger.CatchpointCatchupState:table-exhaustive", c.Pos(c.Const("ledger.catchpointCatchupStateLast").Pos()), detail)
		}
		run := c.Fn(svc + ".run")
		allowed := map[string]string{}
		for _, row := range table {
			pf := c.Func(svc + "." + row.fn)
			pfn := c.Fn(svc + "." + row.fn)
			allowed["catchup.CatchpointCatchupService."+row.fn] = "stage " + row.name
			// dispatch
			calls := CallsTo(run, false, pf)
			if len(calls) == 0 {
				c.Bad("R16.2", fnName(run)+":dispatch("+row.name+")", c.Pos(run.Pos()), "run() never calls "+row.fn)
			} else {
				c.MustGuard(MustGuardSpec{Rule: "R16.2", Fn: run, Effects: asInstrs(calls), EffName: row.fn + "()", Guards: []Guard{
					GCmp("cs.stage=="+row.name, token.EQL, func(v ssa.Value) bool { return Mentions(v, fStage, 3) }, libCIsConstOf(row.k))}})
			}
			// successor
			us := CallsTo(pfn, true, updateStage)
			ok := len(us) > 0
			detail := "updateStage is called only with the successor stage"
			for _, u := range us {
				if !libCIsConstOf(row.next)(u.Common().Args[1]) {
					ok = false
					detail = "updateStage called with " + describe(u.Common().Args[1])
				}
			}
			c.Check(ok, "R16.2", fnName(pfn)+":updateStage(successor of "+row.name+")", c.Pos(pfn.Pos()), detail)
		}
		c.OwnerRule("R16.2", "call(updateStage)", c.Uses([]*types.Func{updateStage}, ScanOpts{SkipGenerated: true}), allowed)
		// stage field written only by updateStage / loadStateVariables / constructors
		c.OwnerRule("R16.2", "write(CatchpointCatchupService.stage)", c.FieldWrites(map[*types.Var]bool{fStage: true}, ScanOpts{SkipGenerated: true}), map[string]string{
			"catchup.CatchpointCatchupService.updateStage":        "after SetState succeeded",
			"catchup.CatchpointCatchupService.loadStateVariables": "resume: stage read back from the database",
			"catchup.MakeNewCatchpointCatchupService":             "starts Inactive",
			"catchup.MakeResumedCatchpointCatchupService":         "placeholder before loadStateVariables",
		})
		// updateStage itself: field set only after SetState == nil, with the same stage
		{
			us := c.Fn(svc + ".updateStage")
			setState := c.Func("ledger.CatchpointCatchupAccessor.SetState")
			st := StoresToField(us, false, map[*types.Var]bool{fStage: true})
			ok := len(st) == 1 && len(us.Params) == 2 && st[0].(*ssa.Store).Val == ssa.Value(us.Params[1])
			ss := CallsTo(us, false, setState)
			ok = ok && len(ss) == 1 && ss[0].Common().Args[len(ss[0].Common().Args)-1] == ssa.Value(us.Params[1])
			c.Check(ok, "R16.2", fnName(us)+":SetState(newStage);stage=newStage", c.Pos(us.Pos()), "the stage persisted and the stage adopted are the parameter")
			if ok {
				c.MustGuard(MustGuardSpec{Rule: "R16.2", Fn: us, Effects: st, EffName: "store(cs.stage)", Guards: []Guard{GErrNil("SetState err==nil", ResultOf(0, setState))}})
			}
		}
		// latest block stage
		{
			fn := c.Fn(svc + ".processStageLatestBlockDownload")
			verify := c.Func("ledger.CatchpointCatchupAccessor.VerifyCatchpoint")
			storeBR := c.Func("ledger.CatchpointCatchupAccessor.StoreBalancesRound")
			storeFB := c.Func("ledger.CatchpointCatchupAccessor.StoreFirstBlock")
			us := asInstrs(CallsTo(fn, true, updateStage))
			c.MustGuard(MustGuardSpec{Rule: "R16.2", Fn: fn, Effects: us, EffName: "updateStage(BlocksDownload)", Guards: []Guard{
				GErrNil("VerifyCatchpoint err==nil", ResultOf(0, verify)),
				GErrNil("StoreBalancesRound err==nil", ResultOf(0, storeBR)),
				GErrNil("StoreFirstBlock err==nil", ResultOf(0, storeFB)),
			}})
			v, b, f := CallsTo(fn, true, verify), CallsTo(fn, true, storeBR), CallsTo(fn, true, storeFB)
			ok := len(v) == 1 && len(b) == 1 && len(f) == 1
			if ok {
				blkV := v[0].Common().Args[len(v[0].Common().Args)-1]
				ok = b[0].Common().Args[len(b[0].Common().Args)-1] == blkV && f[0].Common().Args[len(f[0].Common().Args)-2] == blkV
			}
			c.Check(ok, "R16.2", fnName(fn)+":same-block-verified-and-stored", c.Pos(fn.Pos()), "the block given to StoreBalancesRound and StoreFirstBlock is the SSA value that VerifyCatchpoint checked")
		}
		// ledger download stage
		{
			fn := c.Fn(svc + ".processStageLedgerDownload")
			dl := c.Func("catchup.ledgerFetcher.downloadLedger")
			bmt := c.Func("ledger.CatchpointCatchupAccessor.BuildMerkleTrie")
			us := asInstrs(CallsTo(fn, true, updateStage))
			c.MustGuard(MustGuardSpec{Rule: "R16.2", Fn: fn, Effects: us, EffName: "updateStage(LatestBlockDownload)", Guards: []Guard{
				GErrNil("downloadLedger err==nil", ResultOf(0, dl)),
				GErrNil("BuildMerkleTrie err==nil", ResultOf(0, bmt)),
			}})
		}
		// switch stage
		{
			fn := c.Fn(svc + ".processStageSwitch")
			cc := c.Func("ledger.CatchpointCatchupAccessor.CompleteCatchup")
			us := asInstrs(CallsTo(fn, true, updateStage))
			c.MustGuard(MustGuardSpec{Rule: "R16.2", Fn: fn, Effects: us, EffName: "updateStage(Inactive)", Guards: []Guard{GErrNil("CompleteCatchup err==nil", ResultOf(0, cc))}})
			only := []string{"catchup", "ledger"}
			if c.Thorough {
				only = nil
			}
			c.OwnerRule("R16.2", "call(CompleteCatchup)", c.Uses([]*types.Func{cc, c.Func(acc + ".CompleteCatchup")}, ScanOpts{SkipGenerated: true, OnlyPkgs: only, SkipPkgs: []string{"test/...", "tools/...", "cmd/..."}}), map[string]string{
				"catchup.CatchpointCatchupService.processStageSwitch": "the last stage",
			})
		}
		// ledger fetcher aborts on a rejected chunk
		{
			fn := c.Fn("catchup.ledgerFetcher.getPeerLedger")
			pbb := c.Func("catchup.ledgerFetcher.processBalancesBlock")
			calls := CallsTo(fn, false, pbb)
			if len(calls) != 1 {
				c.Unk("R16.2", fnName(fn)+":processBalancesBlock", c.Pos(fn.Pos()), "expected one processBalancesBlock call")
			} else {
				call := libCCall(calls[0])
				c.libCAbortsOnError("R16.2", fnName(fn)+":abort-on-rejected-chunk", call, -1, []ssa.Instruction{call}, "processBalancesBlock")
			}
			p := c.Fn("catchup.ledgerFetcher.processBalancesBlock")
			psb := c.Func("ledger.CatchpointCatchupAccessor.ProcessStagingBalances")
			ok := true
			n := 0
			for _, r := range libCReturns(p) {
				n++
				if _, isRes := libCCallOfResult(r.Results[0], 0, psb); !isRes {
					ok = false
				}
			}
			c.Check(ok && n > 0, "R16.2", fnName(p)+":returns(ProcessStagingBalances error)", c.Pos(p.Pos()), "the accessor's verdict on a chunk is returned unchanged")
		}
	}
	// BuildMerkleTrie: a duplicate hash aborts
	{
		fn := c.Fn(acc + ".BuildMerkleTrie")
		trieAdd := c.Func("crypto/merkletrie.Trie.Add")
		n := 0
		for _, f := range withAnon(fn) {
			for _, ci := range CallsTo(f, false, trieAdd) {
				n++
				call := libCCall(ci)
				added := func(v ssa.Value) bool { return c16IsExtract(call, 0)(v) }
				c.libCAbortsUnless("R16.2", fnName(fn)+":trie.Add<=added", call, GBool("trie.Add reported added", added, true), nil)
				c.libCAbortsUnless("R16.2", fnName(fn)+":trie.Add<=err==nil", call, GErrNil("trie.Add err==nil", c16IsExtract(call, 1)), nil)
			}
		}
		if n != 1 {
			c.Unk("R16.2", fnName(fn)+":trie.Add", c.Pos(fn.Pos()), "expected one trie.Add call, found "+itoa(n))
		}
	}

	// ---- R16.3 ----
	psb := c.Fn(acc + ".processStagingBalances")
	psbName := fnName(psb)
	chunkT := c.Named("ledger.CatchpointSnapshotChunkV6")
	{
		writers := map[string][]string{
			"Balances":          {"writeBalances", "writeCreatables", "writeHashes"},
			"KVs":               {"writeKVs"},
			"OnlineAccounts":    {"writeOnlineAccounts"},
			"OnlineRoundParams": {"writeOnlineRoundParams"},
		}
		prepV6 := c.Func("ledger.prepareNormalizedBalancesV6")
		prepV5 := c.Func("ledger.prepareNormalizedBalancesV5")
		decode := c.Func("protocol.Decode")
		st := chunkT.Underlying().(*types.Struct)
		// the chunk is decoded from the bytes parameter
		var chunkCell *ssa.Alloc
		var bytesParam *ssa.Parameter
		for _, p := range psb.Params {
			if sl, ok := p.Type().Underlying().(*types.Slice); ok {
				if b, ok := sl.Elem().(*types.Basic); ok && b.Kind() == types.Byte {
					bytesParam = p
				}
			}
		}
		for _, ci := range CallsTo(psb, false, decode) {
			a := ci.Common().Args
			if len(a) == 2 && a[0] == ssa.Value(bytesParam) {
				if al, ok := strip(a[1]).(*ssa.Alloc); ok {
					if pt, ok := al.Type().(*types.Pointer); ok && types.Identical(pt.Elem(), chunkT) {
						chunkCell = al
					}
				}
			}
		}
		c.Check(chunkCell != nil, "R16.3", psbName+":chunk=Decode(bytes)", c.Pos(psb.Pos()), "the V6 chunk is decoded from the received bytes parameter")
		isChunkField := func(v ssa.Value, f *types.Var) bool {
			u, ok := v.(*ssa.UnOp)
			if !ok {
				return false
			}
			fa, ok := u.X.(*ssa.FieldAddr)
			return ok && fa.X == ssa.Value(chunkCell) && structField(fa.X.Type(), fa.Field) == f
		}
		for i := 0; i < st.NumFields(); i++ {
			f := st.Field(i)
			if !f.Exported() {
				continue // not encoded
			}
			ws, known := writers[f.Name()]
			if !known {
				c.Bad("R16.3", "ledger.CatchpointSnapshotChunkV6."+f.Name()+":verification-mapping", c.Pos(f.Pos()), "encoded chunk field "+f.Name()+" is not in the frozen field→staging-writer→verification table: data restored from it would not be covered by the label")
				continue
			}
			for _, wname := range ws {
				wf := c.Func("ledger.stagingWriter." + wname)
				calls := CallsTo(psb, true, wf)
				ok := len(calls) == 1 && chunkCell != nil
				detail := "the argument is chunk." + f.Name()
				if ok {
					arg := calls[0].Common().Args[len(calls[0].Common().Args)-1]
					if f.Name() == "Balances" {
						detail = "the argument is prepareNormalizedBalancesV6(chunk.Balances) (V5 files: prepareNormalizedBalancesV5)"
						good, why := libCAllRoots(arg, func(v ssa.Value) bool {
							if call, isRes := libCCallOfResult(v, 0, prepV6); isRes {
								return isChunkField(call.Common().Args[0], f)
							}
							_, isV5 := libCCallOfResult(v, 0, prepV5)
							return isV5
						})
						if !good {
							ok = false
							detail = why
						}
					} else {
						good, why := libCAllRoots(arg, func(v ssa.Value) bool { return isChunkField(v, f) })
						if !good {
							ok = false
							detail = why
						}
					}
				} else {
					detail = "expected exactly one call"
				}
				c.Check(ok, "R16.3", psbName+":"+wname+"(chunk."+f.Name()+")", c.Pos(psb.Pos()), detail)
			}
		}
	}
	// hashes are recomputed locally
	{
		fHashes := c.Field(tdb + ".NormalizedAccountBalance.AccountHashes")
		only := []string{"ledger/..."}
		if c.Thorough {
			only = nil
		}
		c.OwnerRule("R16.3", "write(NormalizedAccountBalance.AccountHashes)", c.FieldWrites(map[*types.Var]bool{fHashes: true}, ScanOpts{SkipGenerated: true, OnlyPkgs: only, SkipPkgs: []string{"test/...", "tools/...", "cmd/..."}}), map[string]string{
			"ledger.prepareNormalizedBalancesV5": "recomputed from the received V5 record",
			"ledger.prepareNormalizedBalancesV6": "recomputed from the received V6 record",
		})
		builders := c.Funcs(tdb+".AccountHashBuilderV6", tdb+".ResourcesHashBuilderV6", tdb+".AccountHashBuilder")
		fRecData := c.Field("ledger/encoded.BalanceRecordV6.AccountData")
		fRecRes := c.Field("ledger/encoded.BalanceRecordV6.Resources")
		fRecAddr := c.Field("ledger/encoded.BalanceRecordV6.Address")
		p6 := c.Fn("ledger.prepareNormalizedBalancesV6")
		n, ok := 0, true
		detail := "every element stored into AccountHashes is the result of a trackerdb hash builder applied to the received record's address and encoded bytes"
		for _, in := range Instrs(p6, func(in ssa.Instruction) bool {
			st, isSt := in.(*ssa.Store)
			if !isSt {
				return false
			}
			ia, isIA := st.Addr.(*ssa.IndexAddr)
			return isIA && Mentions(ia.X, fHashes, 3)
		}) {
			n++
			st := in.(*ssa.Store)
			call, isRes := libCCallOfResult(st.Val, 0, builders...)
			if !isRes {
				ok = false
				detail = "an element of AccountHashes is " + describe(st.Val)
				continue
			}
			args := call.Common().Args
			enc := args[len(args)-1]
			usesRec := libCMentions(enc, fRecData) || libCMentions(enc, fRecRes)
			usesAddr := false
			for _, a := range args {
				if libCMentions(a, fRecAddr) {
					usesAddr = true
				}
			}
			if !usesRec || !usesAddr {
				ok = false
				detail = "a hash builder in prepareNormalizedBalancesV6 is not fed from the received record (address/encoded bytes)"
			}
		}
		c.Check(ok && n >= 2, "R16.3", fnName(p6)+":AccountHashes[i]=builder(received record)", c.Pos(p6.Pos()), detail)

		wk := c.Fn("ledger.stagingWriterImpl.writeKVs")
		kvB := c.Func(tdb + ".KvHashBuilderV6")
		wsk := c.Func(tdb + ".CatchpointWriter.WriteCatchpointStagingKVs")
		fKey := c.Field("ledger/encoded.KVRecordV6.Key")
		fVal := c.Field("ledger/encoded.KVRecordV6.Value")
		okKV, detailKV := false, "WriteCatchpointStagingKVs call not found in writeKVs"
		for _, f := range withAnon(wk) {
			for _, ci := range CallsTo(f, false, wsk) {
				a := ci.Common().Args
				if len(a) != 4 {
					continue
				}
				keys, values, hashes := strip(a[1]), strip(a[2]), strip(a[3])
				okKV, detailKV = true, "hashes[i] = KvHashBuilderV6(keys[i], values[i]) with keys[i]=record.Key and values[i]=record.Value, all three passed to WriteCatchpointStagingKVs"
				elemStores := func(sl ssa.Value) []*ssa.Store {
					var out []*ssa.Store
					if refs := sl.Referrers(); refs != nil {
						for _, r := range *refs {
							if ia, isIA := r.(*ssa.IndexAddr); isIA && ia.X == sl {
								for _, u := range *ia.Referrers() {
									if s, isSt := u.(*ssa.Store); isSt && s.Addr == ssa.Value(ia) {
										out = append(out, s)
									}
								}
							}
						}
					}
					return out
				}
				isElemOf := func(v, sl, idx ssa.Value) bool {
					found := false
					libCWalk(v, 6, func(x ssa.Value) bool {
						if ia, isIA := x.(*ssa.IndexAddr); isIA && ia.X == sl && ia.Index == idx {
							found = true
						}
						return !found
					})
					return found
				}
				hs := elemStores(hashes)
				if len(hs) == 0 {
					okKV, detailKV = false, "no store into the hashes slice"
				}
				for _, s := range hs {
					call, isRes := libCCallOfResult(s.Val, 0, kvB)
					idx := s.Addr.(*ssa.IndexAddr).Index
					if !isRes || !isElemOf(call.Common().Args[0], keys, idx) || !isElemOf(call.Common().Args[1], values, idx) {
						okKV, detailKV = false, "hashes[i] is not KvHashBuilderV6(keys[i], values[i]) of the same index"
					}
				}
				for _, s := range elemStores(keys) {
					if !libCMentions(s.Val, fKey) {
						okKV, detailKV = false, "keys[i] is not the received record's Key"
					}
				}
				for _, s := range elemStores(values) {
					if !libCMentions(s.Val, fVal) {
						okKV, detailKV = false, "values[i] is not the received record's Value"
					}
				}
			}
		}
		c.Check(okKV, "R16.3", fnName(wk)+":hashes[i]=KvHashBuilderV6(keys[i],values[i])", c.Pos(wk.Pos()), detailKV)
	}

	// ---- R16.4 ----
	{
		progT := c.Named("ledger.CatchpointCatchupAccessorProgress")
		wnames := []string{"writeBalances", "writeCreatables", "writeHashes", "writeKVs", "writeOnlineAccounts", "writeOnlineRoundParams"}
		// effects: stores to *progress fields and to the accessor's expected-account state, made after the goroutines
		var gos []ssa.Instruction
		for _, b := range psb.Blocks {
			for _, in := range b.Instrs {
				if _, ok := in.(*ssa.Go); ok {
					gos = append(gos, in)
				}
			}
		}
		fExp := c.Fields(acc+".expectingSpecificAccount", acc+".nextExpectedAccount")
		var effects []ssa.Instruction
		for _, in := range Instrs(psb, func(in ssa.Instruction) bool {
			st, ok := in.(*ssa.Store)
			if !ok {
				return false
			}
			fa, ok := st.Addr.(*ssa.FieldAddr)
			if !ok {
				return false
			}
			if fExp[structField(fa.X.Type(), fa.Field)] {
				return true
			}
			if pt, ok := fa.X.Type().(*types.Pointer); ok && types.Identical(pt.Elem(), progT) {
				return true
			}
			return false
		}) {
			// only the accounting done after the writers were started
			after := len(gos) > 0
			for _, g := range gos {
				if !Dominates(g, in) {
					after = false
				}
			}
			if after {
				effects = append(effects, in)
			}
		}
		var guards []Guard
		var cells []*ssa.Alloc
		for _, wn := range wnames {
			wf := c.Func("ledger.stagingWriter." + wn)
			calls := CallsTo(psb, true, wf)
			if len(calls) != 1 {
				c.Unk("R16.4", psbName+":"+wn, c.Pos(psb.Pos()), "expected exactly one call, found "+itoa(len(calls)))
				continue
			}
			call := libCCall(calls[0])
			var cell *ssa.Alloc
			if refs := call.Referrers(); refs != nil {
				for _, r := range *refs {
					if st, ok := r.(*ssa.Store); ok && st.Val == ssa.Value(call) {
						if a, ok := libCCell(st.Addr).(*ssa.Alloc); ok && a.Parent() == psb {
							cell = a
						}
					}
				}
			}
			if cell == nil {
				c.Bad("R16.4", psbName+":"+wn+":error-kept", c.Pos(call.Pos()), "the error returned by "+wn+" is not stored into a variable of processStagingBalances")
				continue
			}
			cells = append(cells, cell)
			a := cell
			guards = append(guards, GErrNil(wn+" err==nil", func(v ssa.Value) bool {
				u, ok := v.(*ssa.UnOp)
				return ok && u.Op == token.MUL && u.X == ssa.Value(a)
			}))
		}
		if len(effects) == 0 {
			c.Unk("R16.4", psbName+":accounting", c.Pos(psb.Pos()), "no progress/expected-account store found after the writer goroutines")
		} else {
			c.MustGuard(MustGuardSpec{Rule: "R16.4", Fn: psb, Effects: effects, EffName: "account chunk as processed", Guards: guards})
		}
		// barrier: a Wait that every go statement dominates and that dominates every error test
		okBar, detailBar := false, "no wg.Wait() found that follows every goroutine launch and precedes every error test"
		for _, w := range Instrs(psb, func(in ssa.Instruction) bool {
			ci, ok := in.(*ssa.Call)
			if !ok {
				return false
			}
			pkg, name := libCCalleePkgName(ci.Common())
			return pkg == "sync" && name == "Wait"
		}) {
			good := len(gos) == len(wnames)
			for _, g := range gos {
				if !Dominates(g, w) {
					good = false
				}
			}
			for _, g := range guards {
				edges, n := PassEdges(psb, g)
				if n == 0 {
					good = false
				}
				for _, e := range edges {
					if !w.Block().Dominates(e.From) {
						good = false
					}
				}
			}
			if good {
				okBar, detailBar = true, "wg.Wait() follows all "+itoa(len(gos))+" goroutine launches and dominates all "+itoa(len(guards))+" error tests"
			}
		}
		c.Check(okBar, "R16.4", psbName+":errors-tested-after-WaitGroup-barrier", c.Pos(psb.Pos()), detailBar)
		// the impl methods propagate
		txF := c.Func(tdb + ".Store.Transaction")
		for _, wn := range wnames {
			impl := c.Fn("ledger.stagingWriterImpl." + wn)
			ok, detail := true, "returns the error of wdb.Transaction whose body returns the error of the WriteCatchpointStaging* call"
			n := 0
			for _, r := range libCReturns(impl) {
				n++
				call, isRes := libCCallOfResult(r.Results[0], 0, txF)
				if !isRes {
					ok, detail = false, "a return is not the result of wdb.Transaction"
					continue
				}
				mc, isMC := strip(call.Common().Args[0]).(*ssa.MakeClosure)
				if !isMC {
					ok, detail = false, "the transaction body is not a function literal"
					continue
				}
				body := mc.Fn.(*ssa.Function)
				m := 0
				for _, br := range libCSuccessReturns(body) {
					m++
					wc, isCall := resolveLocal(br.(*ssa.Return).Results[0], br).(*ssa.Call)
					if !isCall || calleeOf(wc.Common()) == nil || len(calleeOf(wc.Common()).Name()) < 22 || calleeOf(wc.Common()).Name()[:22] != "WriteCatchpointStaging" {
						ok, detail = false, "a possibly-nil return of the transaction body is not the result of a WriteCatchpointStaging* call"
					}
				}
				if m == 0 {
					ok, detail = false, "transaction body has no return"
				}
			}
			c.Check(ok && n > 0, "R16.4", fnName(impl)+":returns(transaction(WriteCatchpointStaging*))", c.Pos(impl.Pos()), detail)
		}
		// the dispatcher returns the helpers' results
		disp := c.Fn(acc + ".ProcessStagingBalances")
		helpers := c.Funcs(acc+".processStagingContent", acc+".processStagingStateProofVerificationContext", acc+".processStagingBalances")
		hc := CallsTo(disp, false, helpers...)
		ok := len(hc) == 3
		for _, h := range hc {
			returned := false
			if refs := h.Value().Referrers(); refs != nil {
				for _, r := range *refs {
					if _, isRet := r.(*ssa.Return); isRet {
						returned = true
					}
				}
			}
			if !returned {
				ok = false
			}
		}
		c.Check(ok, "R16.4", fnName(disp)+":returns(helper error)", c.Pos(disp.Pos()), "the results of processStagingContent / …StateProofVerificationContext / …Balances are returned directly")
		_ = cells
	}
	_ = sort.Strings
}
