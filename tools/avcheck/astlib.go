package main

import (
	"go/ast"
	"go/token"
	"go/types"
	"sort"
	"strings"

	"golang.org/x/tools/go/packages"
	"golang.org/x/tools/go/types/typeutil"
)

// Site is a syntactic site found by an ownership scan.
type Site struct {
	Pkg  *packages.Package
	File *ast.File
	Node ast.Node
	Func string // enclosing declared function, "pkgrel.Type.Method"
	Kind string // assign | incdec | lit | addr | elem | call | value | range
	Obj  types.Object
	Gen  bool // in generated code
}

// ScanOpts limits a scan.
type ScanOpts struct {
	SkipGenerated bool
	OnlyPkgs      []string // package paths relative to the module; prefix match with trailing "/..."
	SkipPkgs      []string // same syntax; e.g. "test/...", "tools/...", "cmd/..."
}

func matchPkg(rel string, pats []string) bool {
	for _, p := range pats {
		if strings.HasSuffix(p, "/...") {
			base := strings.TrimSuffix(p, "/...")
			if rel == base || strings.HasPrefix(rel, base+"/") {
				return true
			}
		} else if rel == p {
			return true
		}
	}
	return false
}

func (c *Ctx) scanFiles(o ScanOpts, fn func(pk *packages.Package, f *ast.File, gen bool)) {
	for _, pk := range c.sortedPkgs() {
		rel := relPkg(pk.PkgPath)
		if len(o.OnlyPkgs) > 0 && !matchPkg(rel, o.OnlyPkgs) {
			continue
		}
		if matchPkg(rel, o.SkipPkgs) {
			continue
		}
		for _, f := range pk.Syntax {
			gen := isGenerated(f)
			if gen && o.SkipGenerated {
				continue
			}
			fn(pk, f, gen)
		}
	}
}

// selField returns the field object an expression selects, if any.
func selField(info *types.Info, e ast.Expr) *types.Var {
	e = ast.Unparen(e)
	switch x := e.(type) {
	case *ast.SelectorExpr:
		if s, ok := info.Selections[x]; ok && s.Kind() == types.FieldVal {
			if v, ok := s.Obj().(*types.Var); ok {
				return v
			}
		}
		if v, ok := info.Uses[x.Sel].(*types.Var); ok && v.IsField() {
			return v
		}
	case *ast.Ident:
		if v, ok := info.Uses[x].(*types.Var); ok && v.IsField() {
			return v
		}
	}
	return nil
}

// FieldWrites finds every syntactic write to one of fields in the loaded
// module packages: assignment / inc-dec / range targets, keyed or positional
// composite-literal elements, address-of (may be written through the
// pointer), and writes to an element of the field (x.F[i] = …, kind "elem").
func (c *Ctx) FieldWrites(fields map[*types.Var]bool, o ScanOpts) []Site {
	var out []Site
	c.scanFiles(o, func(pk *packages.Package, f *ast.File, gen bool) {
		info := pk.TypesInfo
		add := func(n ast.Node, kind string, v *types.Var) {
			out = append(out, Site{Pkg: pk, File: f, Node: n, Func: enclosingFuncName(pk, f, n), Kind: kind, Obj: v, Gen: gen})
		}
		lhs := func(e ast.Expr, n ast.Node, kind string) {
			e = ast.Unparen(e)
			if v := selField(info, e); v != nil && fields[v] {
				add(n, kind, v)
				return
			}
			// element / sub-field writes: x.F[i] = …, x.F.g = … (only elem is reported)
			for {
				switch x := e.(type) {
				case *ast.IndexExpr:
					if v := selField(info, x.X); v != nil && fields[v] {
						add(n, "elem", v)
					}
					e = ast.Unparen(x.X)
					continue
				case *ast.StarExpr:
					e = ast.Unparen(x.X)
					continue
				}
				break
			}
		}
		ast.Inspect(f, func(n ast.Node) bool {
			switch x := n.(type) {
			case *ast.AssignStmt:
				for _, l := range x.Lhs {
					lhs(l, x, "assign")
				}
			case *ast.IncDecStmt:
				lhs(x.X, x, "incdec")
			case *ast.RangeStmt:
				if x.Tok == token.ASSIGN {
					if x.Key != nil {
						lhs(x.Key, x, "range")
					}
					if x.Value != nil {
						lhs(x.Value, x, "range")
					}
				}
			case *ast.UnaryExpr:
				if x.Op == token.AND {
					if v := selField(info, x.X); v != nil && fields[v] {
						add(x, "addr", v)
					}
				}
			case *ast.CompositeLit:
				tv, ok := info.Types[x]
				if !ok {
					return true
				}
				st, ok := derefStruct(tv.Type)
				if !ok {
					return true
				}
				for i, el := range x.Elts {
					if kv, ok := el.(*ast.KeyValueExpr); ok {
						if id, ok := kv.Key.(*ast.Ident); ok {
							if v, ok := info.Uses[id].(*types.Var); ok && fields[v] {
								add(kv, "lit", v)
							}
						}
					} else if i < st.NumFields() && fields[st.Field(i)] {
						add(el, "lit", st.Field(i))
					}
				}
			}
			return true
		})
	})
	return out
}

func derefStruct(t types.Type) (*types.Struct, bool) {
	t = t.Underlying()
	if p, ok := t.(*types.Pointer); ok {
		t = p.Elem().Underlying()
	}
	st, ok := t.(*types.Struct)
	return st, ok
}

// Literals finds every composite literal of the named type (T{…} or &T{…})
// in the loaded module packages. nonZeroOnly skips T{}.
func (c *Ctx) Literals(t *types.Named, nonZeroOnly bool, o ScanOpts) []Site {
	var out []Site
	c.scanFiles(o, func(pk *packages.Package, f *ast.File, gen bool) {
		ast.Inspect(f, func(n ast.Node) bool {
			cl, ok := n.(*ast.CompositeLit)
			if !ok {
				return true
			}
			tv, ok := pk.TypesInfo.Types[cl]
			if !ok {
				return true
			}
			nt, ok := types.Unalias(tv.Type).(*types.Named)
			if !ok || nt.Origin() != t.Origin() {
				return true
			}
			if nonZeroOnly && len(cl.Elts) == 0 {
				return true
			}
			out = append(out, Site{Pkg: pk, File: f, Node: cl, Func: enclosingFuncName(pk, f, cl), Kind: "lit", Obj: t.Obj(), Gen: gen})
			return true
		})
	})
	return out
}

// Conversions finds T(x) conversions to the named type.
func (c *Ctx) Conversions(t *types.Named, o ScanOpts) []Site {
	var out []Site
	c.scanFiles(o, func(pk *packages.Package, f *ast.File, gen bool) {
		ast.Inspect(f, func(n ast.Node) bool {
			call, ok := n.(*ast.CallExpr)
			if !ok || len(call.Args) != 1 {
				return true
			}
			tv, ok := pk.TypesInfo.Types[call.Fun]
			if !ok || !tv.IsType() {
				return true
			}
			nt, ok := types.Unalias(tv.Type).(*types.Named)
			if !ok || nt.Origin() != t.Origin() {
				return true
			}
			out = append(out, Site{Pkg: pk, File: f, Node: call, Func: enclosingFuncName(pk, f, call), Kind: "conv", Obj: t.Obj(), Gen: gen})
			return true
		})
	})
	return out
}

// Uses finds every call to, and every other reference to (function value,
// method value), one of the target functions. Interface-method targets match
// calls through that interface.
func (c *Ctx) Uses(targets []*types.Func, o ScanOpts) []Site {
	set := map[*types.Func]bool{}
	for _, t := range targets {
		set[t.Origin()] = true
	}
	var out []Site
	c.scanFiles(o, func(pk *packages.Package, f *ast.File, gen bool) {
		info := pk.TypesInfo
		inCall := map[*ast.Ident]bool{}
		ast.Inspect(f, func(n ast.Node) bool {
			switch x := n.(type) {
			case *ast.CallExpr:
				if fn, ok := typeutil.Callee(info, x).(*types.Func); ok && set[fn.Origin()] {
					out = append(out, Site{Pkg: pk, File: f, Node: x, Func: enclosingFuncName(pk, f, x), Kind: "call", Obj: fn.Origin(), Gen: gen})
					switch fx := ast.Unparen(x.Fun).(type) {
					case *ast.Ident:
						inCall[fx] = true
					case *ast.SelectorExpr:
						inCall[fx.Sel] = true
					case *ast.IndexExpr:
						if id, ok := fx.X.(*ast.Ident); ok {
							inCall[id] = true
						}
						if se, ok := fx.X.(*ast.SelectorExpr); ok {
							inCall[se.Sel] = true
						}
					}
				}
			}
			return true
		})
		for id, obj := range info.Uses {
			fn, ok := obj.(*types.Func)
			if !ok || !set[fn.Origin()] || inCall[id] {
				continue
			}
			if id.Pos() < f.Pos() || id.End() > f.End() {
				continue
			}
			out = append(out, Site{Pkg: pk, File: f, Node: id, Func: enclosingFuncName(pk, f, id), Kind: "value", Obj: fn.Origin(), Gen: gen})
		}
	})
	sort.SliceStable(out, func(i, j int) bool {
		if out[i].Pkg.PkgPath != out[j].Pkg.PkgPath {
			return out[i].Pkg.PkgPath < out[j].Pkg.PkgPath
		}
		return out[i].Node.Pos() < out[j].Node.Pos()
	})
	return out
}

// OwnerRule checks that every site's enclosing function is in allowed and
// records one obligation per (function, kind) plus a summary.
func (c *Ctx) OwnerRule(rule, what string, sites []Site, allowed map[string]string, ignoreKinds ...string) {
	ign := map[string]bool{}
	for _, k := range ignoreKinds {
		ign[k] = true
	}
	byFunc := map[string][]Site{}
	var order []string
	for _, s := range sites {
		if ign[s.Kind] {
			continue
		}
		if _, ok := byFunc[s.Func]; !ok {
			order = append(order, s.Func)
		}
		byFunc[s.Func] = append(byFunc[s.Func], s)
	}
	sort.Strings(order)
	for _, fn := range order {
		ss := byFunc[fn]
		if reason, ok := allowed[fn]; ok {
			c.Ok(rule, what+"@"+fn, c.Pos(ss[0].Node.Pos()), "allowed owner ("+reason+"), "+itoa(len(ss))+" site(s)")
		} else {
			c.Bad(rule, what+"@"+fn, c.Pos(ss[0].Node.Pos()), what+" ("+ss[0].Kind+") outside its owners: "+fn+" is not in the owner table; new instance needs review")
		}
	}
	c.NoteSites(len(sites))
}

func itoa(n int) string {
	if n == 0 {
		return "0"
	}
	neg := n < 0
	if neg {
		n = -n
	}
	var b []byte
	for n > 0 {
		b = append([]byte{byte('0' + n%10)}, b...)
		n /= 10
	}
	if neg {
		b = append([]byte{'-'}, b...)
	}
	return string(b)
}

// funcDecl finds the syntax of a declared function.
func (c *Ctx) funcDecl(f *types.Func) (*packages.Package, *ast.File, *ast.FuncDecl) {
	if f == nil || f.Pkg() == nil {
		return nil, nil, nil
	}
	pk := c.ByPath[f.Pkg().Path()]
	if pk == nil {
		return nil, nil, nil
	}
	for _, file := range pk.Syntax {
		if f.Pos() < file.Pos() || f.Pos() > file.End() {
			continue
		}
		for _, d := range file.Decls {
			if fd, ok := d.(*ast.FuncDecl); ok && pk.TypesInfo.Defs[fd.Name] == types.Object(f) {
				return pk, file, fd
			}
		}
	}
	return nil, nil, nil
}
