package main

import (
	"go/token"
	"go/types"

	"golang.org/x/tools/go/ssa"
)

// R36.6 (after seed C36-2): deletion and signing must map a round to the same
// (batch, offset) identifier, so both have to use the key's EFFECTIVE dilution:
// the record's own KeyDilution when it is non-zero and the consensus default
// only when it is zero. Any other combination (max, min, default-first …) makes
// the deleter skip batches the signer can still use.
func init() {
	extend("C36", Extension{
		Run:         ruleEffectiveKeyDilution,
		Explanation: "R36.6 (keys are deleted with the dilution they are used with): the dilution handed to OneTimeSignatureSecrets.DeleteBeforeFineGrained (PersistedParticipation.DeleteOldKeys, participationDB.DeleteExpired) — the same value that feeds OneTimeIDForRound for that call — is the key's effective dilution: a value V tested against 0, V itself on the V!=0 side and ConsensusParams.DefaultKeyDilution only on the V==0 side; the two helpers the signing and verifying sides use (crypto.OneTimeSigner.KeyDilution, config.ConsensusParams.EffectiveKeyDilution) have that same shape, agreement's signing site takes its identifier from OneTimeSigner.KeyDilution(proto.DefaultKeyDilution) and its verifying site from EffectiveKeyDilution. With any other formula, whole batches between the deleter's and the signer's idea of 'current' keep their keys and earlier rounds stay signable.",
		Floor:       map[string]int{"R36.6": 6},
		Patterns:    []string{"./agreement", "./config"},
	})
}

type kdLeaf struct {
	v   ssa.Value
	blk *ssa.BasicBlock // block the value arrives from (phi predecessor or return block)
	to  *ssa.BasicBlock // phi block (nil for returns)
}

// effectiveShape checks that the leaves are {V, D}: V compared with 0 by an If,
// V arriving only from the V!=0 side, D only from the V==0 side.
func effectiveShape(fn *ssa.Function, leaves []kdLeaf, isDefault func(ssa.Value) bool) (bool, string) {
	if len(leaves) < 2 {
		return false, "the dilution is not chosen between the key's own value and the default: " + describeLeaves(leaves)
	}
	// the test against zero
	var ifb *ssa.BasicBlock
	var v ssa.Value
	zeroIdx := -1
	for _, b := range fn.Blocks {
		iff, ok := b.Instrs[len(b.Instrs)-1].(*ssa.If)
		if !ok {
			continue
		}
		bo, ok := iff.Cond.(*ssa.BinOp)
		if !ok || (bo.Op != token.EQL && bo.Op != token.NEQ) {
			continue
		}
		var x ssa.Value
		switch {
		case IsConstInt(0)(bo.Y):
			x = bo.X
		case IsConstInt(0)(bo.X):
			x = bo.Y
		default:
			continue
		}
		for _, l := range leaves {
			if eSameVal(strip(l.v), strip(x)) {
				ifb, v = b, x
				if bo.Op == token.EQL {
					zeroIdx = 0
				} else {
					zeroIdx = 1
				}
			}
		}
	}
	if ifb == nil {
		return false, "no test of the key's own dilution against 0 selects between the candidates " + describeLeaves(leaves)
	}
	arrivesVia := func(k int, l kdLeaf) bool {
		s := ifb.Succs[k]
		if l.blk == ifb {
			return l.to != nil && s == l.to
		}
		if s == l.blk {
			return true
		}
		// reachability from s to l.blk without going back through ifb
		seen := map[*ssa.BasicBlock]bool{ifb: true}
		work := []*ssa.BasicBlock{s}
		for len(work) > 0 {
			x := work[0]
			work = work[1:]
			if seen[x] {
				continue
			}
			seen[x] = true
			if x == l.blk {
				return true
			}
			work = append(work, x.Succs...)
		}
		return false
	}
	for _, l := range leaves {
		switch {
		case eSameVal(strip(l.v), strip(v)):
			if arrivesVia(zeroIdx, l) {
				return false, "the key's own dilution is used on the side where it is 0"
			}
		case isDefault(l.v):
			if arrivesVia(1-zeroIdx, l) {
				return false, "the default dilution is used although the key's own dilution is non-zero"
			}
		default:
			return false, "a third candidate value " + describe(l.v)
		}
	}
	return true, ""
}

func describeLeaves(ls []kdLeaf) string {
	s := "{"
	for i, l := range ls {
		if i > 0 {
			s += ", "
		}
		s += describe(l.v)
	}
	return s + "}"
}

func phiLeaves(v ssa.Value, at *ssa.BasicBlock) []kdLeaf {
	var out []kdLeaf
	seen := map[ssa.Value]bool{}
	var walk func(v ssa.Value, from, to *ssa.BasicBlock)
	walk = func(v ssa.Value, from, to *ssa.BasicBlock) {
		v = strip(v)
		if p, ok := v.(*ssa.Phi); ok {
			if seen[p] {
				return
			}
			seen[p] = true
			for i, e := range p.Edges {
				walk(e, p.Block().Preds[i], p.Block())
			}
			return
		}
		out = append(out, kdLeaf{v, from, to})
	}
	walk(v, at, nil)
	return out
}

func ruleEffectiveKeyDilution(c *Ctx) {
	const rule = "R36.6"
	del := c.Func("crypto.OneTimeSignatureSecrets.DeleteBeforeFineGrained")
	idFor := c.Func("data/basics.OneTimeIDForRound")
	hSigner := c.Func("crypto.OneTimeSigner.KeyDilution")
	hProto := c.Func("config.ConsensusParams.EffectiveKeyDilution")
	fDefault := c.Field("config.ConsensusParams.DefaultKeyDilution")
	isDefaultField := func(v ssa.Value) bool { return Mentions(v, fDefault, 4) }

	// the two helpers
	for _, h := range []*types.Func{hSigner, hProto} {
		fn := c.SSAOf(h)
		if fn == nil || len(fn.Blocks) == 0 {
			c.Unk(rule, funcObjName(h)+":shape", "-", "no SSA body")
			continue
		}
		var leaves []kdLeaf
		for _, b := range fn.Blocks {
			if ret, ok := b.Instrs[len(b.Instrs)-1].(*ssa.Return); ok && len(ret.Results) == 1 {
				for _, l := range phiLeaves(ret.Results[0], b) {
					leaves = append(leaves, l)
				}
			}
		}
		isD := isDefaultField
		if h == hSigner {
			// the default is the helper's parameter; its call sites must pass proto.DefaultKeyDilution (checked below)
			isD = func(v ssa.Value) bool { _, ok := strip(v).(*ssa.Parameter); return ok && len(fn.Params) == 2 && strip(v) == ssa.Value(fn.Params[1]) }
		}
		ok, why := effectiveShape(fn, leaves, isD)
		c.Check(ok, rule, funcObjName(h)+":returns own dilution if non-zero, else the default", c.Pos(fn.Pos()), "helper has the effective-dilution shape"+sfx(why))
	}
	// call sites of the signer helper pass the consensus default
	nSigner := 0
	for _, fn := range c.AllFuncs() {
		for _, call := range CallsTo(fn, true, hSigner) {
			nSigner++
			a := callArgs(call.Common())
			c.Check(isDefaultField(a[len(a)-1]), rule, fnName(fn)+":OneTimeSigner.KeyDilution(proto.DefaultKeyDilution)", c.Pos(call.Pos()), "the default handed to the helper is the consensus DefaultKeyDilution")
		}
	}
	if nSigner == 0 {
		c.Unk(rule, "crypto.OneTimeSigner.KeyDilution:callers", "-", "no call site of OneTimeSigner.KeyDilution in the loaded packages")
	}

	// deletion sites
	nDel := 0
	for _, fn := range c.AllFuncs() {
		for _, call := range CallsTo(fn, true, del) {
			nDel++
			a := callArgs(call.Common())
			d := a[len(a)-1]
			site := fnName(fn) + ":DeleteBeforeFineGrained(OneTimeIDForRound(r, kd), kd)"
			// same value feeds OneTimeIDForRound
			same := false
			walkDef(a[len(a)-2], 6, func(x ssa.Value) bool {
				if ic, ok := x.(*ssa.Call); ok && sameFunc(calleeOf(ic.Common()), idFor) {
					ia := callArgs(ic.Common())
					if strip(ia[len(ia)-1]) == strip(d) {
						same = true
					}
				}
				return !same
			})
			if !same {
				c.Bad(rule, site, c.Pos(call.Pos()), "the identifier and the keys-per-batch argument are not computed from one and the same dilution value")
				continue
			}
			if hc, ok := strip(d).(*ssa.Call); ok && (sameFunc(calleeOf(hc.Common()), hSigner) || sameFunc(calleeOf(hc.Common()), hProto)) {
				c.Ok(rule, site, c.Pos(call.Pos()), "dilution comes from an effective-dilution helper")
				continue
			}
			ok, why := effectiveShape(fn, phiLeaves(d, call.Block()), isDefaultField)
			c.Check(ok, rule, site, c.Pos(call.Pos()), "the dilution is the key's own value when non-zero and the consensus default otherwise"+sfx(why))
		}
	}
	if nDel == 0 {
		c.Unk(rule, "crypto.OneTimeSignatureSecrets.DeleteBeforeFineGrained:callers", "-", "no call site found")
	}

	// agreement: the signing and verifying identifiers use the helpers
	for _, spec := range []struct {
		fn     string
		helper *types.Func
	}{{"agreement.makeVote", hSigner}, {"agreement.unauthenticatedVote.verify", hProto}} {
		fn := c.Fn(spec.fn)
		calls := CallsTo(fn, false, idFor)
		if len(calls) == 0 {
			c.Unk(rule, spec.fn+":OneTimeIDForRound", c.Pos(fn.Pos()), "no OneTimeIDForRound call found")
			continue
		}
		for _, call := range calls {
			a := callArgs(call.Common())
			hc, ok := strip(a[len(a)-1]).(*ssa.Call)
			c.Check(ok && sameFunc(calleeOf(hc.Common()), spec.helper), rule, spec.fn+":OneTimeIDForRound(round, "+spec.helper.Name()+"(…))", c.Pos(call.Pos()), "the vote's ephemeral identifier is computed with the effective dilution helper")
		}
	}
}

func sfx(why string) string {
	if why == "" {
		return ""
	}
	return "; " + why
}
