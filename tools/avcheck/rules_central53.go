package main

import (
	"go/token"

	"golang.org/x/tools/go/ssa"
)

// R14.9: the trie entry of an account goes whenever its ROW goes or changes.
//
// Found by a second independent audit of C14 (a genuine defect, repaired by a
// "fix:" commit, see known_findings.json and DESIGN §7). The balances trie holds
// one leaf per row of the accounts table — that is what initializeHashes and
// catchpoint catchup put into it — and a fresh tracker DB has a row for every
// genesis allocation, including an account listed with nothing in it.
// accountsUpdateBalances deleted the old leaf only `if
// !delta.oldAcct.AccountData.IsEmpty()`, using "empty data" as shorthand for "no
// row", whereas accountsNewRoundImpl decides on oldAcct.Ref. When such an empty
// genesis account is funded, a node that has tracked the trie since round 0
// keeps the stale leaf H(addr, empty) for ever, while a node whose trie is
// rebuilt from the tables (tracking switched on later, fast catchup,
// ResetAccountHashes) does not have it: same history, different labels.
func init() {
	extend("C14", Extension{
		Run:         ruleTrieDeleteFollowsRowExistence,
		Explanation: "R14.9 (the trie and the accounts table agree on when an account had an entry): in catchpointTracker.accountsUpdateBalances the deletion of the old account leaf (balancesTrie.Delete of an AccountHashBuilderV6 hash) is reachable from the non-nil side of a test of delta.oldAcct.Ref — the row-existence criterion accountsNewRoundImpl uses — without having to pass the AccountData.IsEmpty() test; with IsEmpty() alone, an account that has an all-empty row (a genesis allocation of 0 algos) keeps its stale leaf when it is first funded, and the label then depends on whether the node built its trie before or after that.",
		Floor:       map[string]int{"R14.9": 1},
	})
}

func ruleTrieDeleteFollowsRowExistence(c *Ctx) {
	const rule = "R14.9"
	const spec = "ledger.catchpointTracker.accountsUpdateBalances"
	fn := c.Fn(spec)
	del := c.Func("crypto/merkletrie.Trie.Delete")
	acctHash := c.Func("ledger/store/trackerdb.AccountHashBuilderV6")
	fRef := c.Field("ledger/store/trackerdb.PersistedAccountData.Ref")
	// the Delete of an account leaf
	var target *ssa.Call
	for _, call := range CallsTo(fn, false, del) {
		a := callArgs(call.Common())
		isAcct := false
		walkDef(a[len(a)-1], 6, func(x ssa.Value) bool {
			if cl, ok := x.(*ssa.Call); ok && sameFunc(calleeOf(cl.Common()), acctHash) {
				isAcct = true
			}
			return !isAcct
		})
		if cv, isCall := call.(*ssa.Call); isAcct && isCall {
			target = cv
		}
	}
	if target == nil {
		c.Unk(rule, spec+":Delete(account leaf)", c.Pos(fn.Pos()), "no balancesTrie.Delete of an AccountHashBuilderV6 hash found")
		return
	}
	// a nil test of oldAcct.Ref whose non-nil side reaches the Delete directly
	ok := false
	for _, b := range fn.Blocks {
		iff, isIf := b.Instrs[len(b.Instrs)-1].(*ssa.If)
		if !isIf {
			continue
		}
		bo, isBo := iff.Cond.(*ssa.BinOp)
		if !isBo || (bo.Op != token.NEQ && bo.Op != token.EQL) {
			continue
		}
		var x ssa.Value
		switch {
		case IsNil(bo.Y):
			x = bo.X
		case IsNil(bo.X):
			x = bo.Y
		default:
			continue
		}
		if !Mentions(x, fRef, 5) {
			continue
		}
		nonNil := 0
		if bo.Op == token.EQL {
			nonNil = 1
		}
		s := b.Succs[nonNil]
		// reachable without another conditional in between (the body of the if)
		for hops := 0; s != nil && hops < 4; hops++ {
			if s == target.Block() || s.Dominates(target.Block()) && len(s.Preds) <= 2 {
				ok = true
				break
			}
			if len(s.Succs) == 1 {
				s = s.Succs[0]
			} else {
				break
			}
		}
	}
	c.Check(ok, rule, spec+":Delete(old account leaf)<=oldAcct.Ref != nil", c.Pos(target.Pos()),
		"the old leaf is deleted whenever the account had a row (oldAcct.Ref != nil), the criterion accountsNewRoundImpl uses, not only when the row had data")
}
