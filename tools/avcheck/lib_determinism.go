package main

import "golang.org/x/tools/go/ssa"

// Reviewed map iterations (T11). Key: "<declared function>:range(<ranged
// expression>)". Every entry was read on the pinned tree; the reason says why
// Go's randomised iteration order cannot reach consensus-visible state. A map
// range that appears in the closure and is neither recognised as
// order-insensitive by construction nor listed here fails the check.

var reviewedMapRangesEval = map[string]string{
	"data/basics.SError.AttributesAsString:range(e.Attrs)":                          "builds the text of an error message only (doc comment: 'in no guaranteed order'); error strings are not part of blocks or deltas",
	"data/basics.TealKeyValue.ToStateSchema:range(tk)":                              "counts value types (commutative ++); the early return is an error for an unknown type, independent of order of the other entries",
	"data/transactions.checkStateProofReveals:range(sp.Reveals)":                    "pure per-element validation; returns an error iff some element is malformed",
	"data/transactions/logic.addPseudoDocTags:range(pseudoOps)":                     "assembler documentation table built at init; not on the evaluation path",
	"data/transactions/logic.addPseudoDocTags:range(specs)":                         "assembler documentation table built at init; not on the evaluation path",
	"data/transactions/logic.EvalContract:range(cx.available.sharedApps)":           "sums extra program bytes with a saturating add (commutative); lookup errors only skip the element",
	"data/transactions/logic.EvalContract:range(cx.available.boxes)":                "sums box sizes into the I/O budget (commutative); an error aborts evaluation whatever the order",
	"data/transactions/logic.EvalContext.availableAccount:range(cx.available.createdApps)": "existence test: returns true iff some created app has that address",
	"data/transactions/logic.parseJSON:range(parsed)":                               "copies entries into another map keyed by the same key; error iff some key is not a string",
	"data/transactions/logic.init:range(txnTypeLongNames)":                          "package initialisation of a lookup map keyed by the element",
	"data/transactions/logic.init:range(OpsByName[v])":                              "package initialisation of a set keyed by field name",
	"data/transactions/logic.EvalContext.allowsHolding:range(r.createdApps)":        "existence test over created apps; at most one app has a given address",
	"data/transactions/logic.EvalContext.allowsLocals:range(r.createdApps)":         "existence test over created apps; at most one app has a given address",
	"ledger/eval.stateDelta.serialize:range(sd)":                                    "copies entries into a map keyed by the same key",
	"ledger/eval.roundCowState.buildEvalDelta:range(cb.sdeltas)":                    "fills maps keyed by account index / key; the errors are consistency checks that fail for every order",
	"ledger/eval.roundCowState.buildEvalDelta:range(smod)":                          "fills maps keyed by account index / key; at most one global delta may exist, checked for every order",
	"ledger/eval.roundCowState.deltas:range(cb.mods.KvMods)":                        "rewrites the entry under the same key (OldData fill-in)",
	"ledger/eval.roundCowState.commitToParent:range(cb.mods.Txleases)":              "AddTxLease stores into the parent's map under the same key",
	"ledger/eval.roundCowState.commitToParent:range(cb.mods.Creatables)":            "AddCreatable stores into the parent's map under the same key",
	"ledger/eval.roundCowState.commitToParent:range(cb.sdeltas)":                    "merges each (address, app) delta into the parent's entry of the same key",
	"ledger/eval.roundCowState.commitToParent:range(smod)":                          "merges each (address, app) delta into the parent's entry of the same key",
	"ledger/eval.roundCowState.commitToParent:range(cb.mods.KvMods)":                "AddKvMod stores into the parent's map under the same key",
	"ledger/eval.BlockEvaluator.generateKnockOfflineAccountsList:range(candidates)": "proposer-local choice of which accounts to knock offline (bounded by the header caps); validators only check that each listed account qualifies (C27), they do not recompute the list",
	"ledger/ledgercore.AccountDeltas.ModifiedAccounts:range(ad.appResourcesCache)":   "consistency assertions only (panic iff some entry is inconsistent)",
	"ledger/ledgercore.AccountDeltas.ModifiedAccounts:range(ad.assetResourcesCache)": "consistency assertions only (panic iff some entry is inconsistent)",
}

func evalScope(rel string) bool {
	switch rel {
	case "ledger/eval", "ledger/apply", "data/transactions/logic", "data/bookkeeping", "data/transactions", "data/basics",
		"ledger/ledgercore", "data/committee", "data/transactions/verify":
		return true
	}
	return false
}

// determinismEval: C20 R20.2 — over the call closure of block evaluation.
func determinismEval(c *Ctx, rule string) {
	entries := []*ssa.Function{
		c.Fn("ledger/eval.BlockEvaluator.TransactionGroup"), c.Fn("ledger/eval.BlockEvaluator.endOfBlock"),
		c.Fn("ledger/eval.BlockEvaluator.GenerateBlock"), c.Fn("ledger/eval.Eval"), c.Fn("ledger/eval.StartEvaluator"),
	}
	cl := c.Closure(entries, evalScope)
	c.Check(len(cl) >= 500, rule, "closure(block evaluation)", "-", itoa(len(cl))+" functions reachable from StartEvaluator/TransactionGroup/endOfBlock/GenerateBlock/Eval through static and CHA-resolved calls inside the evaluator packages")
	nd := c.NondetCalls(cl)
	for _, ci := range nd {
		key := fnName(ci.Parent()) + "->" + calleeOf(ci.Common()).FullName()
		if why, ok := reviewedNondetEval[key]; ok {
			c.Ok(rule+"n", key, c.Pos(ci.Pos()), "reviewed: "+why)
			continue
		}
		c.Bad(rule+"n", key, c.Pos(ci.Pos()), "call to a nondeterminism source inside the block-evaluation closure")
	}
	if len(nd) == 0 {
		c.Ok(rule+"n", "no-nondeterminism-source", "-", "no call to time.Now/Since, math/rand, crypto/rand, os.Getenv, runtime.NumCPU… in the closure")
	}
	c.MapRangeRule(rule+"m", cl, reviewedMapRangesEval)
}

var reviewedNondetEval = map[string]string{}

// determinismCatchpoint: C14 R14.5 — map iteration order inside the call
// closure of the catchpoint tracker's commit path and of the merkle trie.
func determinismCatchpoint(c *Ctx, rule string) {
	scope := func(rel string) bool {
		switch rel {
		case "ledger", "ledger/ledgercore", "ledger/store/trackerdb", "crypto/merkletrie", "ledger/store/trackerdb/sqlitedriver":
			return true
		}
		return false
	}
	var entries []*ssa.Function
	for _, n := range []string{"prepareCommit", "commitRound", "postCommit", "accountsUpdateBalances", "finishFirstStage", "finishCatchpoint",
		"createCatchpoint", "generateCatchpointData", "recordFirstStageInfo", "initializeHashes"} {
		entries = append(entries, c.Fn("ledger.catchpointTracker."+n))
	}
	cl := c.Closure(entries, scope)
	c.Check(len(cl) >= 100, rule, "closure(catchpoint commit path)", "-", itoa(len(cl))+" functions reachable from the catchpoint tracker's commit/first-stage/label methods inside ledger, ledgercore, trackerdb, sqlitedriver and merkletrie")
	c.MapRangeRule(rule, cl, reviewedMapRangesCatchpoint)
}

var reviewedMapRangesCatchpoint = map[string]string{
	"ledger.catchpointTracker.accountsUpdateBalances:range(kvDeltas)":             "each key deletes its old leaf and adds its new leaf; the trie root depends only on the resulting set of leaves (C17), and distinct keys give distinct leaves except for the C15 known finding",
	"ledger.catchpointTracker.recordCatchpointFile:range(filesToDelete)":           "removes obsolete catchpoint files from disk; no hashed value depends on it",
	"crypto/merkletrie.merkleTrieCache.commitTransaction:range(mtc.txCreatedNodeIDs)": "moves per-transaction bookkeeping into sets keyed by node id",
	"crypto/merkletrie.merkleTrieCache.commitTransaction:range(mtc.txDeletedNodeIDs)": "moves per-transaction bookkeeping into sets keyed by node id",
	"crypto/merkletrie.merkleTrieCache.rollbackTransaction:range(mtc.txCreatedNodeIDs)": "drops every node created in the aborted transaction, keyed by node id",
	"crypto/merkletrie.merkleTrieCache.commit:range(pagesToDelete)":                 "deletes each page by its own key in the committer",
	"crypto/merkletrie.merkleTrieCache.commit:range(pagesToUpdate)":                 "stores each page under its own key in the committer",
	"crypto/merkletrie.merkleTrieCache.reallocatePendingPages:range(mtc.pendingCreatedNID)": "collects the set of touched pages keyed by page number (sorted before use)",
	"crypto/merkletrie.merkleTrieCache.reallocatePendingPages:range(createdPages)":   "remaps child identifiers of every node through the same reallocation map; node hashes do not include storage identifiers",
	"crypto/merkletrie.merkleTrieCache.reallocatePendingPages:range(nodeIDs)":        "remaps child identifiers of every node through the same reallocation map; node hashes do not include storage identifiers",
	"crypto/merkletrie.merkleTrieCache.reallocatePage:range(mtc.pageToNIDsPtr[page])": "assigns fresh storage identifiers; identifiers are local storage addresses and are not hashed",
	"crypto/merkletrie.merkleTrieCache.encodePage:range(nodeIDs)":                    "serialises a page for the local database; page bytes are never hashed or compared across nodes",
}
