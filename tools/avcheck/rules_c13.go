package main

import (
	"fmt"
	"go/token"
	"go/types"

	"golang.org/x/tools/go/ssa"
)

func init() {
	register(&Prop{
		ID:       "C13",
		Patterns: []string{"./ledger"},
		Run:      runC13,
		Explanation: "Decides the structural conditions that make the online-stake view served to consensus a function of the block history rather than of flush timing. " +
			"R08.1 (path rule, instantiated for onlineAccounts/cachedDBRoundOnline; every DB read of the tracker in package ledger is enumerated): " +
			"(i) lookupOnlineAccountData: after accountsq.LookupOnlineHistory answered, a possibly-successful return and every write of onlineAccountsCache (clear/writeFront, rule R08.5) is reached only with validThrough established == the pre-call snapshot of cachedDBRoundOnline, or by the tabled variant `snapshot >= cachedDBRoundOnline && len snapshot == len(deltas)` (commitRound done, postCommit not yet run), or with no history rows (returns the zero value); " +
			"(ii) TopOnlineAccounts and onlineAcctsExpiredByRound: the Snapshot transaction that reads the rows also stores AccountsRound() into a variable of the caller, and after it no possibly-successful return is reachable unless that variable was established == the pre-call snapshot (tracked over {<,==,>}: `>`→wait+retry, `<`→StaleDatabaseRoundError); TopOnlineAccounts additionally accepts `dbRound==0` (tabled: no query was made); " +
			"(iii) LookupOnline and LookupOnlineRoundParams are exempt by table (answers keyed by the requested round, not by the DB round). Per site a second obligation: the snapshot is not re-read after accountsMu was released. " +
			"R13.1 onlineCirculation returns without error only after expiredOnlineCirculation(rnd, voteRnd) succeeded and its result was subtracted from onlineTotals' stake (OverflowTracker.SubA(total, expired)), unless ExcludeExpiredCirculation is false or rnd==0; TopOnlineAccounts likewise calls expiredOnlineCirculation on the ExcludeExpiredCirculation edge; Ledger.OnlineCirculation → onlineCirculation → expiredOnlineCirculation → onlineAcctsExpiredByRound → ExpiredOnlineAccountsForRound pass (rnd, voteRnd) in that order. " +
			"R13.2 cachedDBRoundOnline, deltas, deltasAccum and onlineRoundParamsData are assigned only in loadFromDisk/initializeFromDisk, newBlockImpl and postCommit; postCommit trims deltas and deltasAccum by the same dcc.offset and sets cachedDBRoundOnline = dcc.newBase() in one critical section; newBlockImpl appends to deltas and onlineRoundParamsData only past the duplicate-round test, with OnlineSupply/RewardsLevel/CurrentProtocol taken from delta.Totals.Online.Money, delta.Totals.RewardsLevel and the block's CurrentProtocol. " +
			"R13.3 initializeFromDisk accepts the persisted round-params history only if its end round equals cachedDBRoundOnline. " +
			"Does NOT decide: stake arithmetic, the contents of onlineAccountsCache/voters trees, SQL, or lock discipline of the guarded fields (lockset rule provided separately).",
		Assumptions: []string{
			"a trackerdb Snapshot transaction and every OnlineAccountsReader method read a single consistent DB state",
			"the per-method exemption/variant table in rules_c13.go",
		},
		Floor: map[string]int{"R08.1": 10, "R08.5": 1, "R13.1": 9, "R13.2": 20, "R13.3": 1},
	})
}

func runC13(c *Ctx) {
	ledgerFns := c.funcsOf(Mod + "/ledger")
	rd := func(m string) *types.Func {
		return c.Func("ledger/store/trackerdb.OnlineAccountsReader." + m).Origin()
	}
	fSnap := c.Field("ledger.onlineAccounts.cachedDBRoundOnline")
	fDeltas := c.Field("ledger.onlineAccounts.deltas")
	cfg := bRecheckCfg{
		Rule: "R08.1", CacheRule: "R08.5", TrackerName: "onlineAccounts",
		Reader:   c.Field("ledger.onlineAccounts.accountsq"),
		Snapshot: fSnap,
		Mutex:    c.Field("ledger.onlineAccounts.accountsMu"),
		Carriers: map[*types.Func]bRoundCarrier{
			rd("LookupOnline"):            {Exempt: "LookupOnline(addr, rnd) selects the row valid at the requested round rnd; rows are append-only per (addr, updRound) so the answer does not depend on the DB round"},
			rd("LookupOnlineRoundParams"): {Exempt: "LookupOnlineRoundParams(rnd) is keyed by the requested round"},
			rd("LookupOnlineHistory"):     {Res: 1},
			rd("Close"):                   {Exempt: "-"},
		},
		EmptyRows: map[*types.Func]string{
			rd("LookupOnlineHistory"): "an address without history rows has no online data; the zero value is returned and nothing is cached",
		},
		CacheWrites: c.Funcs("ledger.onlineAccountsCache.writeFront", "ledger.onlineAccountsCache.clear", "ledger.onlineAccountsCache.writeFrontIfExist"),
		ZeroRound: map[string]string{
			"ledger.onlineAccounts.TopOnlineAccounts": "dbRound stays zero when everything was found in the deltas and no DB query was made (source comment)",
		},
		AltAccept: func(fn *ssa.Function, call ssa.CallInstruction, isB VM) ([]Edge, string) {
			if fnName(fn) != "ledger.onlineAccounts.lookupOnlineAccountData" {
				return nil, ""
			}
			// `snapshot >= fresh cachedDBRoundOnline` (true edge, single pred) then `lenSnapshot == len(fresh deltas)` true edge
			var out []Edge
			for _, b := range fn.Blocks {
				iff, ok := b.Instrs[len(b.Instrs)-1].(*ssa.If)
				if !ok {
					continue
				}
				cond, neg := condOf(iff.Cond)
				bo, ok := cond.(*ssa.BinOp)
				// `validThrough >= fresh cachedDBRoundOnline` (or ==), the form after the C13 repair: the
				// history is at least as recent as the last postCommit; freshness under the lock is R13.8's.
				if ok && !neg && (bo.Op == token.GEQ || bo.Op == token.EQL) {
					if e, isE := strip(bo.X).(*ssa.Extract); isE && e.Tuple == ssa.Value(call.Value()) && e.Index == 1 {
						if l, isL := bFieldLoad(bo.Y, fSnap); isL && !Dominates(l, call) {
							out = append(out, Edge{b, 0})
							continue
						}
					}
				}
				if !ok || neg || bo.Op != token.GEQ || !isB(bo.X) {
					continue
				}
				if l, ok := bFieldLoad(bo.Y, fSnap); !ok || Dominates(l, call) {
					continue
				}
				inner := b.Succs[0]
				if len(inner.Preds) != 1 {
					continue
				}
				iff2, ok := inner.Instrs[len(inner.Instrs)-1].(*ssa.If)
				if !ok {
					continue
				}
				c2, neg2 := condOf(iff2.Cond)
				bo2, ok := c2.(*ssa.BinOp)
				if !ok || neg2 || bo2.Op != token.EQL {
					continue
				}
				isLenDeltas := func(v ssa.Value, pre bool) bool {
					x, ok := lenOf(strip(v))
					if !ok {
						return false
					}
					l, ok := bFieldLoad(x, fDeltas)
					return ok && Dominates(l, call) == pre
				}
				if isLenDeltas(bo2.X, true) && isLenDeltas(bo2.Y, false) || isLenDeltas(bo2.Y, true) && isLenDeltas(bo2.X, false) {
					out = append(out, Edge{inner, 0})
				}
			}
			return out, "commitRound finished but postCommit has not run: the cache is filled and postCommit adds the newest entry (source comment cases 3.1/3.2)"
		},
	}
	n := c.bRecheck(cfg, ledgerFns)
	n += c.bRecheckSnapshotSites(cfg, ledgerFns, c.Field("ledger.onlineAccounts.dbs"),
		c.Func("ledger/store/trackerdb.Store.Snapshot"), c.Func("ledger/store/trackerdb.AccountsReaderExt.AccountsRound"),
		map[string]string{"ledger.onlineAccounts.initializeFromDisk": "start-up load under the write lock, decided by R13.3"})
	if n == 0 {
		c.Unk("R08.1", "ledger.onlineAccounts:db-reads", "-", "no DB read site found")
	}

	// ---- R13.3 ----
	{
		init := c.Fn("ledger.onlineAccounts.initializeFromDisk")
		rp := c.Func("ledger/store/trackerdb.AccountsReaderExt.AccountsOnlineRoundParams")
		done := false
		for _, lit := range init.AnonFuncs {
			calls := CallsTo(lit, false, rp)
			if len(calls) == 0 {
				continue
			}
			done = true
			c.MustGuard(MustGuardSpec{Rule: "R13.3", Fn: lit, Effects: bSuccessReturns(lit), EffName: "return nil",
				Guards: []Guard{GCmp("endRound==cachedDBRoundOnline", token.EQL, ResultOf(1, rp), M(fSnap))}})
		}
		if !done {
			c.Unk("R13.3", "ledger.onlineAccounts.initializeFromDisk:AccountsOnlineRoundParams", c.Pos(init.Pos()), "no transaction literal reading AccountsOnlineRoundParams found")
		}
	}

	// ---- R13.1 ----
	{
		oc := c.Fn("ledger.onlineAccounts.onlineCirculation")
		expired := c.Func("ledger.onlineAccounts.expiredOnlineCirculation")
		totals := c.Func("ledger.onlineAccounts.onlineTotals")
		fExclude := c.Field("config.ConsensusParams.ExcludeExpiredCirculation")
		subA := c.Func("data/basics.OverflowTracker.SubA")
		name := "ledger.onlineAccounts.onlineCirculation"
		isRnd := func(v ssa.Value) bool { p, ok := strip(v).(*ssa.Parameter); return ok && p == oc.Params[1] }
		c.MustGuard(MustGuardSpec{Rule: "R13.1", Fn: oc, Effects: bSuccessReturns(oc), EffName: "return stake,nil",
			Guards: []Guard{GErrNil("expiredOnlineCirculation()==nil", ResultOf(1, expired))},
			Bypass: []Guard{GBool("!ExcludeExpiredCirculation", M(fExclude), false), GCmp("rnd==0", token.EQL, isRnd, IsConstInt(0))}})
		// the subtraction
		ec := CallsTo(oc, false, expired)
		sc := CallsTo(oc, false, subA)
		okSub := len(ec) == 1 && len(sc) >= 1
		var sub *ssa.Call
		if okSub {
			okSub = false
			for _, s := range sc {
				a := s.Common().Args // recv, a, b
				if len(a) == 3 && Mentions(a[1], totals, 6) && isExtractOf(a[2], ec[0].(*ssa.Call), 0) {
					okSub = true
					sub, _ = s.(*ssa.Call)
				}
			}
		}
		c.Check(okSub, "R13.1", name+":SubA(onlineTotals,expired)", c.Pos(oc.Pos()), "the expired stake is subtracted from the total online stake as ot.SubA(totalStake, expiredStake)")
		if sub != nil {
			// the value returned after the guarded region is that difference
			ok := false
			for _, r := range bSuccessReturns(oc) {
				ret := r.(*ssa.Return)
				if Dominates(sub, ret) {
					continue
				}
				v := resolveLocal(ret.Results[0], ret)
				if ph, isPhi := v.(*ssa.Phi); isPhi {
					for _, e := range ph.Edges {
						if e == ssa.Value(sub) {
							ok = true
						}
					}
				}
			}
			for _, r := range bSuccessReturns(oc) {
				if Dominates(sub, r) && resolveLocal(r.(*ssa.Return).Results[0], r) == ssa.Value(sub) {
					ok = true
				}
			}
			c.Check(ok, "R13.1", name+":returns(SubA result)", c.Pos(sub.Pos()), "the stake returned after the subtraction is the result of SubA")
			// overflow flag tested before the success return
			fOv := c.Field("data/basics.OverflowTracker.Overflowed")
			fr := bReachFrom(sub, func() []Edge { e, _ := PassEdges(oc, GBool("!ot.Overflowed", M(fOv), false)); return e }(), nil)
			bad := false
			for _, r := range bSuccessReturns(oc) {
				if fr.Reaches(r) {
					bad = true
				}
			}
			c.Check(!bad, "R13.1", name+":SubA<=!Overflowed", c.Pos(sub.Pos()), "no successful return after the subtraction unless ot.Overflowed was tested false")
		}
		// arguments: (rnd, voteRnd) in order along the chain
		chain := []struct {
			caller string
			callee *types.Func
		}{
			{"ledger.Ledger.OnlineCirculation", c.Func("ledger.onlineAccounts.onlineCirculation")},
			{"ledger.onlineAccounts.onlineCirculation", expired},
			{"ledger.onlineAccounts.expiredOnlineCirculation", c.Func("ledger.onlineAccounts.onlineAcctsExpiredByRound")},
		}
		for _, ch := range chain {
			fn := c.Fn(ch.caller)
			calls := CallsTo(fn, false, ch.callee)
			ok := len(calls) > 0
			for _, cl := range calls {
				a := cl.Common().Args
				// receiver, rnd, voteRnd  <- params[1], params[2]
				if len(a) < 3 || bCanonParam(a[1]) != fn.Params[1] || bCanonParam(a[2]) != fn.Params[2] {
					ok = false
				}
			}
			c.Check(ok, "R13.1", ch.caller+":"+ch.callee.Name()+"(rnd,voteRnd)", c.Pos(fn.Pos()), "passes its (rnd, voteRnd) parameters in that order")
		}
		{
			fn := c.Fn("ledger.onlineAccounts.onlineAcctsExpiredByRound")
			q := c.Func("ledger/store/trackerdb.AccountsReaderExt.ExpiredOnlineAccountsForRound")
			ok := false
			for _, lit := range fn.AnonFuncs {
				for _, cl := range CallsTo(lit, false, q) {
					a := cl.Common().Args
					ok = len(a) >= 2 && bIsFreeVarOfParam(a[0], fn, 1) && bIsFreeVarOfParam(a[1], fn, 2)
				}
			}
			c.Check(ok, "R13.1", "ledger.onlineAccounts.onlineAcctsExpiredByRound:ExpiredOnlineAccountsForRound(rnd,voteRnd)", c.Pos(fn.Pos()), "the DB query receives (rnd, voteRnd) in that order")
		}
		// TopOnlineAccounts
		top := c.Fn("ledger.onlineAccounts.TopOnlineAccounts")
		c.MustGuard(MustGuardSpec{Rule: "R13.1", Fn: top, Effects: bSuccessReturns(top), EffName: "return top,stake,nil",
			Guards: []Guard{GErrNil("expiredOnlineCirculation()==nil", ResultOf(1, expired))},
			Bypass: []Guard{GBool("!ExcludeExpiredCirculation", M(fExclude), false)}})
	}

	// ---- R13.2 ----
	{
		owners := map[string]string{
			"ledger.onlineAccounts.loadFromDisk":       "tracker DB round read at load",
			"ledger.onlineAccounts.initializeFromDisk": "state loaded from the DB at start-up",
			"ledger.onlineAccounts.newBlockImpl":       "one entry appended per new round",
			"ledger.onlineAccounts.postCommit":         "trimmed when rounds are flushed",
		}
		for _, f := range []string{"deltas", "deltasAccum", "onlineRoundParamsData"} {
			c.OwnerRule("R13.2", "write(ledger.onlineAccounts."+f+")", c.FieldWrites(c.Fields("ledger.onlineAccounts."+f), ScanOpts{SkipGenerated: true}), owners, "elem")
		}
		bPostCommitRule(c, "R13.2", "ledger.onlineAccounts", "cachedDBRoundOnline", "accountsMu", []string{"deltas", "deltasAccum"},
			map[string]string{
				"ledger.onlineAccounts.loadFromDisk": "initial value: the tracker DB round read at load",
				"ledger.onlineAccounts.postCommit":   "advanced together with the trimming of the deltas",
			})
		nb := c.Fn("ledger.onlineAccounts.newBlockImpl")
		stores := StoresToField(nb, false, c.Fields("ledger.onlineAccounts.deltas", "ledger.onlineAccounts.onlineRoundParamsData", "ledger.onlineAccounts.deltasAccum"))
		c.MustGuard(MustGuardSpec{Rule: "R13.2", Fn: nb, Effects: stores, EffName: "append(deltas/onlineRoundParamsData)",
			Guards: []Guard{GCmp("blk.Round()>ao.latest()", token.GTR, ResultOf(0, c.Func("data/bookkeeping.Block.Round")), M(c.Func("ledger.onlineAccounts.latest")))}})
		seen := map[*types.Var]bool{}
		for _, s := range stores {
			seen[bStoreField(s)] = true
		}
		c.Check(len(seen) == 3, "R13.2", "ledger.onlineAccounts.newBlockImpl:appends(deltas,deltasAccum,onlineRoundParamsData)", c.Pos(nb.Pos()), "each new round extends all three per-round sequences (the last onlineRoundParamsData entry is always for latest())")
		// provenance of the appended round params
		src := []struct {
			dst  string
			from []types.Object
			desc string
		}{
			{"ledger/ledgercore.OnlineRoundParamsData.OnlineSupply", []types.Object{c.Field("ledger/ledgercore.StateDelta.Totals"), c.Field("ledger/ledgercore.AccountTotals.Online"), c.Field("ledger/ledgercore.AlgoCount.Money")}, "delta.Totals.Online.Money"},
			{"ledger/ledgercore.OnlineRoundParamsData.RewardsLevel", []types.Object{c.Field("ledger/ledgercore.StateDelta.Totals"), c.Field("ledger/ledgercore.AccountTotals.RewardsLevel")}, "delta.Totals.RewardsLevel"},
			{"ledger/ledgercore.OnlineRoundParamsData.CurrentProtocol", []types.Object{c.Field("data/bookkeeping.UpgradeState.CurrentProtocol")}, "blk.CurrentProtocol"},
		}
		for _, s := range src {
			st := StoresToField(nb, false, c.Fields(s.dst))
			ok := len(st) > 0
			for _, x := range st {
				if !M(s.from...)(x.(*ssa.Store).Val) {
					ok = false
				}
			}
			c.Check(ok, "R13.2", "ledger.onlineAccounts.newBlockImpl:"+s.dst+"<-"+s.desc, c.Pos(nb.Pos()), fmt.Sprintf("the appended round parameters take %s from %s", s.dst, s.desc))
		}
	}
}

// bCanonParam resolves a value to the parameter it is a copy of (through the
// spill slot SSA creates for parameters captured by closures).
func bCanonParam(v ssa.Value) ssa.Value {
	v = strip(v)
	if u, ok := v.(*ssa.UnOp); ok && u.Op == token.MUL {
		if a, ok := u.X.(*ssa.Alloc); ok {
			st := localStores(a)
			if len(st) == 1 {
				return strip(st[0])
			}
		}
	}
	return v
}

// bIsFreeVarOfParam: v (inside a literal of fn) is a load of the free variable
// bound to the spill slot of fn's parameter #idx, or that parameter itself.
func bIsFreeVarOfParam(v ssa.Value, fn *ssa.Function, idx int) bool {
	v = strip(v)
	u, ok := v.(*ssa.UnOp)
	if !ok || u.Op != token.MUL {
		return false
	}
	fv, ok := u.X.(*ssa.FreeVar)
	if !ok {
		return false
	}
	lit := fv.Parent()
	// find the MakeClosure of lit in fn
	for _, b := range fn.Blocks {
		for _, in := range b.Instrs {
			mc, ok := in.(*ssa.MakeClosure)
			if !ok || mc.Fn != ssa.Value(lit) {
				continue
			}
			cell := bFreeVarCell(mc, fv)
			a, ok := cell.(*ssa.Alloc)
			if !ok {
				return false
			}
			st := localStores(a)
			return len(st) == 1 && strip(st[0]) == ssa.Value(fn.Params[idx])
		}
	}
	return false
}
