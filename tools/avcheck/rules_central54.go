package main

import (
	"golang.org/x/tools/go/ssa"
)

// R47.8 / R13.9: the key-value backend's top-online-accounts query orders its
// candidates by balance.
//
// One of the backend differences demonstrated by the C47 audit, turned into a
// C13 violation by a second audit of C13 and repaired by a "fix:" commit (see
// known_findings.json and DESIGN §7 item 18). SQLite answers AccountsOnlineTop
// with `… ORDER BY normalizedonlinebalance DESC, address DESC LIMIT ? OFFSET ?`
// over the latest row per address. generickv walked its secondary index
// xf-<updround>-<normbalance>-<addr> backwards from rnd and returned the first n
// entries: that index is ordered by update round FIRST, so it returned the most
// recently updated accounts, counted superseded rows of the same address and
// offline markers against n, and applied the offset to rows, not addresses. On a
// pebbledb node with 3 very large and 1100 small online accounts,
// VotersForStateProof returned three small accounts as soon as a round touching
// every small account was flushed.
func init() {
	run := func(rule string) func(c *Ctx) {
		return func(c *Ctx) { ruleKvOnlineTopSorts(c, rule) }
	}
	extend("C47", Extension{
		Run:         run("R47.8"),
		Explanation: "R47.8 (the top-N query of the key-value backend orders by balance like SQLite's ORDER BY): generickv.accountsReader.AccountsOnlineTop passes its candidates to a sort routine (package slices or sort) whose comparison reads the normalized online balance — the only index it can scan is ordered by update round before balance, so returning entries in scan order yields the most recently updated accounts, not the largest.",
		Floor:       map[string]int{"R47.8": 1},
	})
	extend("C13", Extension{
		Run:         run("R13.9"),
		Explanation: "R13.9 (the online stake seen by state proofs does not depend on the storage engine or on flush timing): same obligation as C47 R47.8, decided by the same code — generickv's AccountsOnlineTop orders its candidates by normalized balance; without it TopOnlineAccounts/VotersForStateProof on a pebbledb node answers with the most recently updated accounts once a round is flushed from the deltas to the database.",
		Floor:       map[string]int{"R13.9": 1},
		Patterns:    []string{"./ledger/store/trackerdb/generickv"},
	})
}

func ruleKvOnlineTopSorts(c *Ctx, rule string) {
	const spec = "ledger/store/trackerdb/generickv.accountsReader.AccountsOnlineTop"
	fn := c.Fn(spec)
	sorted := false
	for _, f := range withAnon(fn) {
		for _, b := range f.Blocks {
			for _, in := range b.Instrs {
				call, ok := in.(*ssa.Call)
				if !ok {
					continue
				}
				cal := calleeOf(call.Common())
				if cal == nil || cal.Pkg() == nil || (cal.Pkg().Path() != "slices" && cal.Pkg().Path() != "sort") {
					continue
				}
				// the comparison closure (or Less method) looks at a normalized balance
				for _, a := range call.Call.Args {
					mc, isMC := a.(*ssa.MakeClosure)
					var cf *ssa.Function
					if isMC {
						cf, _ = mc.Fn.(*ssa.Function)
					} else if f2, isF := a.(*ssa.Function); isF {
						cf = f2
					}
					if cf == nil {
						continue
					}
					for _, cb := range cf.Blocks {
						for _, ci := range cb.Instrs {
							switch x := ci.(type) {
							case *ssa.Field:
								if fld := structField(x.X.Type(), x.Field); fld != nil && containsFold(fld.Name(), "balance") {
									sorted = true
								}
							case *ssa.FieldAddr:
								if fld := structField(x.X.Type(), x.Field); fld != nil && containsFold(fld.Name(), "balance") {
									sorted = true
								}
							}
						}
					}
				}
			}
		}
	}
	c.Check(sorted, rule, spec+":candidates sorted by normalized balance", c.Pos(fn.Pos()),
		"the candidates are re-ordered by balance before offset and limit are applied (SQLite: ORDER BY normalizedonlinebalance DESC, address DESC)")
}

func containsFold(s, sub string) bool {
	ls, lsub := []byte(s), []byte(sub)
	for i := range ls {
		if ls[i] >= 'A' && ls[i] <= 'Z' {
			ls[i] += 'a' - 'A'
		}
	}
	for i := 0; i+len(lsub) <= len(ls); i++ {
		if string(ls[i:i+len(lsub)]) == string(lsub) {
			return true
		}
	}
	return false
}
