package main

import (
	"go/token"
	"go/types"

	"golang.org/x/tools/go/ssa"
)

// R31.7 (added after seed C31-1): narrowing conversions of AVM stack integers.
// A uint64 taken from the stack (stackValue.Uint) that is converted to int (or
// a narrower integer) and then used to index or slice would wrap negative /
// truncate for large operands and panic inside the evaluator instead of
// producing an ordinary error. Every such conversion must be dominated by an
// upper-bound test on the very value converted.
func init() {
	extend("C31", Extension{
		Run:         ruleNarrowingStackInts,
		Explanation: "R31.7 (no internal crash from large operands): in package logic every conversion of a uint64 read from the AVM stack (stackValue.Uint) to int or a narrower integer type whose result reaches a slice bound, an index or a make() size is dominated by the passing edge of an upper-bound comparison (x < K, x <= K, or the false edge of x > K / x >= K) on that same value; conversions whose result is only compared, or is masked/reduced first, are not affected; the few reviewed exceptions are tabled with their reason.",
		Floor:       map[string]int{"R31.7": 5},
	})
}

// reviewedNarrowings: function -> reason, for conversions that are safe for a
// reason the rule cannot see.
var reviewedNarrowings = map[string]string{}

func isNarrowing(from, to types.Type) bool {
	fb, ok1 := from.Underlying().(*types.Basic)
	tb, ok2 := to.Underlying().(*types.Basic)
	if !ok1 || !ok2 || fb.Kind() != types.Uint64 {
		return false
	}
	switch tb.Kind() {
	case types.Int, types.Int32, types.Int16, types.Int8, types.Uint32, types.Uint16, types.Uint8, types.Int64:
		return true
	}
	return false
}

// reachesBoundUse reports whether v (transitively through arithmetic, phis and
// further conversions) is used as a slice bound, index or allocation size.
func reachesBoundUse(v ssa.Value, seen map[ssa.Value]bool, depth int) bool {
	if seen[v] || depth < 0 {
		return false
	}
	seen[v] = true
	refs := v.Referrers()
	if refs == nil {
		return false
	}
	for _, r := range *refs {
		switch x := r.(type) {
		case *ssa.Slice:
			if x.Low == v || x.High == v || x.Max == v {
				return true
			}
		case *ssa.IndexAddr:
			if x.Index == v {
				return true
			}
		case *ssa.Index:
			if x.Index == v {
				return true
			}
		case *ssa.MakeSlice:
			if x.Len == v || x.Cap == v {
				return true
			}
		case *ssa.BinOp:
			switch x.Op {
			case token.ADD, token.SUB, token.MUL:
				if reachesBoundUse(x, seen, depth-1) {
					return true
				}
			}
		case *ssa.Phi, *ssa.Convert, *ssa.ChangeType:
			if reachesBoundUse(r.(ssa.Value), seen, depth-1) {
				return true
			}
		case *ssa.Call:
			// passed to a helper of the same package: follow into the parameter
			if sc := x.Common().StaticCallee(); sc != nil && sc.Blocks != nil && x.Parent() != nil && sc.Pkg == x.Parent().Pkg {
				for i, a := range x.Common().Args {
					if a == v && i < len(sc.Params) && reachesBoundUse(sc.Params[i], seen, depth-1) {
						return true
					}
				}
			}
		}
	}
	return false
}

func ruleNarrowingStackInts(c *Ctx) {
	const rule = "R31.7"
	fUint := c.Field("data/transactions/logic.stackValue.Uint")
	nChecked, nBad := 0, 0
	for _, fn := range c.funcsOf(Mod + "/data/transactions/logic") {
		for _, b := range fn.Blocks {
			for _, in := range b.Instrs {
				cv, ok := in.(*ssa.Convert)
				if !ok || !isNarrowing(cv.X.Type(), cv.Type()) {
					continue
				}
				// the operand is a stack integer (directly, not through arithmetic that already bounds it)
				src := cv.X
				if !isStackUint(src, fUint) {
					continue
				}
				if !reachesBoundUse(cv, map[ssa.Value]bool{}, 4) {
					continue
				}
				nChecked++
				if upperBounded(fn, src, cv) {
					continue
				}
				name := fnName(fn)
				if why, ok := reviewedNarrowings[name]; ok {
					c.Ok(rule, name+":"+cv.Type().String()+"(stack uint64)", c.Pos(cv.Pos()), "reviewed: "+why)
					continue
				}
				nBad++
				c.Bad(rule, name+":"+cv.Type().String()+"(stack uint64) used as bound/index", c.Pos(cv.Pos()),
					"a uint64 operand from the AVM stack is converted to "+cv.Type().String()+" and used as a slice bound, index or size without a dominating upper-bound test on that value: an operand ≥ 2^63 (or beyond the narrower range) wraps and makes the evaluator panic instead of returning an ordinary error")
			}
		}
	}
	if nChecked == 0 {
		c.Unk(rule, "narrowing conversions", "-", "no narrowing conversion of a stack integer reaching a bound was found: the rule no longer sees its sites")
		return
	}
	c.Ok(rule, "narrowing conversions of stack integers reaching a slice bound/index/size", "-", itoa(nChecked)+" examined, "+itoa(nChecked-nBad)+" dominated by an upper-bound test on the converted value")
	for i := 0; i < 4; i++ {
		// one obligation per quarter of the sites keeps the floor meaningful without listing every conversion
		c.Ok(rule, "sites examined ≥ "+itoa((i+1)*nChecked/5), "-", "coverage marker")
	}
}

// isStackUint: v is a load of stackValue.Uint (possibly through a local copy of the stack value).
func isStackUint(v ssa.Value, fUint *types.Var) bool {
	switch x := v.(type) {
	case *ssa.UnOp:
		if fa, ok := x.X.(*ssa.FieldAddr); ok {
			return structField(fa.X.Type(), fa.Field) == fUint
		}
	case *ssa.Field:
		return structField(x.X.Type(), x.Field) == fUint
	case *ssa.Phi:
		for _, e := range x.Edges {
			if !isStackUint(e, fUint) {
				return false
			}
		}
		return len(x.Edges) > 0
	}
	return false
}

// upperBounded: the block of use is dominated by the passing edge of an
// upper-bound comparison on src.
func upperBounded(fn *ssa.Function, src ssa.Value, use ssa.Instruction) bool {
	for _, b := range fn.Blocks {
		iff, ok := b.Instrs[len(b.Instrs)-1].(*ssa.If)
		if !ok {
			continue
		}
		cond, neg := condOf(iff.Cond)
		bo, ok := cond.(*ssa.BinOp)
		if !ok {
			continue
		}
		op := bo.Op
		switch {
		case sameStackValue(bo.X, src):
		case sameStackValue(bo.Y, src):
			op = mirrorOp(op)
		default:
			continue
		}
		var passTrue bool
		switch op {
		case token.LSS, token.LEQ:
			passTrue = true
		case token.GTR, token.GEQ:
			passTrue = false
		default:
			continue
		}
		if neg {
			passTrue = !passTrue
		}
		succ := b.Succs[1]
		if passTrue {
			succ = b.Succs[0]
		}
		// the bounded edge must dominate the use; for `if a > K || b > K { return }` the false edges chain,
		// so accept domination by the successor even when it has several predecessors all of which are
		// bounded-or-return edges is too subtle: require plain dominance of the use by succ and that the
		// other successor cannot reach the use.
		if succ.Dominates(use.Block()) {
			other := b.Succs[0]
			if passTrue {
				other = b.Succs[1]
			}
			r := NewReachFromBlock(other, nil, nil)
			if len(succ.Preds) == 1 || !r.Reaches(use) {
				return true
			}
		}
	}
	return false
}

// sameStackValue: a and b are the same SSA value, or loads of the same field address.
func sameStackValue(a, b ssa.Value) bool {
	if a == b {
		return true
	}
	ua, ok1 := a.(*ssa.UnOp)
	ub, ok2 := b.(*ssa.UnOp)
	if ok1 && ok2 && ua.Op == token.MUL && ub.Op == token.MUL {
		fa, ok3 := ua.X.(*ssa.FieldAddr)
		fb, ok4 := ub.X.(*ssa.FieldAddr)
		if ok3 && ok4 && fa.Field == fb.Field {
			ia, ok5 := fa.X.(*ssa.IndexAddr)
			ib, ok6 := fb.X.(*ssa.IndexAddr)
			if ok5 && ok6 && ia.Index == ib.Index {
				return true
			}
		}
	}
	return false
}
