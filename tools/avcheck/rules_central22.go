package main

import (
	"golang.org/x/tools/go/ssa"
)

// R21.4 (after seed C21-2): the minimum balance implied by an account's boxes is
// computed from its TotalBoxes/TotalBoxBytes counters, so the counters must be
// charged to the account of the app that OWNS the box. Same obligation as C23's
// R23.3, attached to C21 because a mis-charged counter is exactly how an app
// account ends a transaction below the minimum balance its boxes imply.
func init() {
	extend("C21", Extension{
		Run:         ruleBoxCountersChargedToOwner,
		Explanation: "R21.4 (box minimum balance is charged to the owning app): in the AVM box opcodes every LedgerForLogic.NewBox/DelBox call passes, as the account whose TotalBoxes/TotalBoxBytes change, GetApplicationAddress(appID) of the same appID value that names the box's app — with app_box_* opcodes the owning app can differ from the executing app, and a counter charged to the wrong account lets the owner's minimum-balance check pass while it holds boxes it does not pay for.",
		Floor:       map[string]int{"R21.4": 4},
		Patterns:    []string{"./data/transactions/logic"},
	})
}

func ruleBoxCountersChargedToOwner(c *Ctx) {
	const rule = "R21.4"
	const lg = "data/transactions/logic."
	newBox, delBox := c.Func(lg+"LedgerForLogic.NewBox"), c.Func(lg+"LedgerForLogic.DelBox")
	getAddr := c.Func(lg + "EvalParams.GetApplicationAddress")
	n := 0
	for _, fn := range c.funcsOf(Mod + "/data/transactions/logic") {
		for _, call := range eCallsToIn(fn, true, newBox, delBox) {
			n++
			a := eArgs(call.Common())
			addr := a[len(a)-1]
			site := fnName(fn) + ":" + calleeOf(call.Common()).Name() + "(appID,…,GetApplicationAddress(appID))"
			ga, ok := addr.(*ssa.Call)
			if !ok || !sameFunc(calleeOf(ga.Common()), getAddr) {
				c.Bad(rule, site, c.Pos(call.Pos()), "the charged account is not cx.GetApplicationAddress(…): "+describe(addr))
				continue
			}
			c.Check(eSameVal(eArgs(ga.Common())[0], a[0]), rule, site, c.Pos(call.Pos()), "the box counters (and so the minimum balance) are charged to the account of the app that owns the box")
		}
	}
	if n == 0 {
		c.Unk(rule, lg+"box opcodes", "-", "no NewBox/DelBox call found in package logic")
	}
}
