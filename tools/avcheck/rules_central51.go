package main

import (
	"go/types"

	"golang.org/x/tools/go/ssa"
)

// R33.7: the assembler's type tracker does not index its scratch-space model
// with an unbounded constant from the source.
//
// Found by an independent audit of C33 on the pinned tree (repaired by a "fix:"
// commit, see known_findings.json and DESIGN §7). typeLoads and typeStores
// refine the tracked types of `loads`/`stores` when the slot number is a
// constant on the tracked stack, and index the 256-entry
// ProgramKnowledge.scratchSpace array with that constant:
// `#pragma version 5; int 256; loads` made AssembleString panic with "index out
// of range [256] with length 256" — a well-formed program (its bytecode passes
// the static check) that the assembler neither accepted nor rejected.
func init() {
	extend("C33", Extension{
		Run:         ruleScratchModelIndexBounded,
		Explanation: "R33.7 (the assembler neither accepts nor crashes on a well-formed program): in package logic every element access of ProgramKnowledge.scratchSpace (a [256]StackType array) with an index that is neither a constant nor of a byte-sized type is dominated by a comparison of that index with the array's length (len(scratchSpace) or the constant 256) — typeLoads/typeStores take the index from a constant on the tracked stack, which the source can make as large as it likes.",
		Floor:       map[string]int{"R33.7": 2},
	})
}

func ruleScratchModelIndexBounded(c *Ctx) {
	const rule = "R33.7"
	const lg = "data/transactions/logic."
	fScratch := c.Field(lg + "ProgramKnowledge.scratchSpace")
	n := 0
	for _, fn := range c.funcsOf(Mod + "/data/transactions/logic") {
		for _, f := range withAnon(fn) {
			for _, b := range f.Blocks {
				for _, in := range b.Instrs {
					ia, ok := in.(*ssa.IndexAddr)
					if !ok {
						continue
					}
					fa, ok := ia.X.(*ssa.FieldAddr)
					if !ok || structField(fa.X.Type(), fa.Field) != fScratch {
						continue
					}
					if _, isK := ia.Index.(*ssa.Const); isK {
						continue
					}
					if bt, isB := ia.Index.Type().Underlying().(*types.Basic); isB && (bt.Kind() == types.Uint8 || bt.Kind() == types.Int8) {
						continue
					}
					// the loop variable of `for i := range pgm.scratchSpace` is bounded by construction
					if _, isPhi := strip(ia.Index).(*ssa.Phi); isPhi {
						continue
					}
					n++
					guarded := false
					// an immediate parsed by getImm(args, k, false) lies in 0..255 whenever ok is true
					// (getImm returns false outside that range; the range test is in its unsigned branch)
					if ex, isEx := strip(ia.Index).(*ssa.Extract); isEx && ex.Index == 0 {
						if call, isCall := ex.Tuple.(*ssa.Call); isCall && sameFunc(calleeOf(call.Common()), c.Func(lg+"getImm")) && len(call.Call.Args) == 3 {
							if k, isK := call.Call.Args[2].(*ssa.Const); isK && k.Value != nil && k.Value.String() == "false" {
								guarded = true
							}
						}
					}
					for _, g := range f.Blocks {
						iff, ok := g.Instrs[len(g.Instrs)-1].(*ssa.If)
						if !ok || !g.Dominates(b) || g == b {
							continue
						}
						bo, isBo := iff.Cond.(*ssa.BinOp)
						if !isBo {
							continue
						}
						for _, pr := range [][2]ssa.Value{{bo.X, bo.Y}, {bo.Y, bo.X}} {
							sameIdx := strip(pr[0]) == strip(ia.Index)
							if cv, isCv := strip(ia.Index).(*ssa.Convert); isCv && strip(pr[0]) == strip(cv.X) {
								sameIdx = true
							}
							if !sameIdx {
								continue
							}
							bound := false
							walkDef(pr[1], 3, func(y ssa.Value) bool {
								if k, isK := y.(*ssa.Const); isK && k.Value != nil && (k.Int64() == 256 || k.Int64() == 255) {
									bound = true
								}
								if l, isLen := lenOf(strip(y)); isLen && Mentions(l, fScratch, 3) {
									bound = true
								}
								return !bound
							})
							if bound {
								guarded = true
							}
						}
					}
					c.Check(guarded, rule, fnName(f)+":scratchSpace[index] behind a bound test", c.Pos(ia.Pos()),
						"the index into the 256-entry scratch model is compared with the array's length before use")
				}
			}
		}
	}
	if n == 0 {
		c.Unk(rule, lg+"ProgramKnowledge.scratchSpace:dynamic accesses", "-", "no dynamically indexed access of the scratch model found")
	}
}
