package main

import (
	"go/token"
	"go/types"

	"golang.org/x/tools/go/ssa"
)

// R41.6 (after seed C41-2): the hand-written decoder of topic messages (TS, UE,
// MI — called on peer bytes outside any recover()) reads its lengths with
// binary.Uvarint. A length >= 2^63 becomes a negative int, passes every signed
// comparison and panics in the slice expression or in make. Every use of a wire
// length as a slice bound or allocation size must therefore sit behind an
// UNSIGNED upper-bound test of the raw uint64.
func init() {
	extend("C41", Extension{
		Run:         ruleWireLengthsBoundedUnsigned,
		Explanation: "R41.6 (lengths read off the wire are bounded as unsigned numbers before they size anything): in network.UnmarshallTopics every slice expression and make() whose bound derives (within the same loop iteration) from a length read with binary.Uvarint — directly or through a helper of the package that returns such a value — is reachable only past a comparison of that raw uint64 value (no conversion to a signed type in between) with a constant upper bound; a length of 2^63 or more converted to int first is negative, passes signed tests and panics the reader goroutine, which has no recover().",
		Floor:       map[string]int{"R41.6": 3},
		Patterns:    []string{"./network"},
	})
}

// deriveNoPhi reports whether v is computed from w without passing through a phi
// (i.e. within one loop iteration), following arithmetic and conversions.
func deriveNoPhi(v, w ssa.Value, depth int) bool {
	if v == nil || depth < 0 {
		return false
	}
	if v == w {
		return true
	}
	switch x := v.(type) {
	case *ssa.BinOp:
		return deriveNoPhi(x.X, w, depth-1) || deriveNoPhi(x.Y, w, depth-1)
	case *ssa.Convert:
		return deriveNoPhi(x.X, w, depth-1)
	case *ssa.ChangeType:
		return deriveNoPhi(x.X, w, depth-1)
	case *ssa.UnOp:
		if x.Op != token.MUL {
			return deriveNoPhi(x.X, w, depth-1)
		}
	}
	return false
}

func isUnsigned(t types.Type) bool {
	b, ok := t.Underlying().(*types.Basic)
	return ok && b.Info()&types.IsUnsigned != 0
}

// rawUnsigned: x is w itself or w converted between unsigned types only.
func rawUnsigned(x, w ssa.Value) bool {
	for i := 0; i < 4; i++ {
		if !isUnsigned(x.Type()) {
			return false
		}
		if x == w {
			return true
		}
		switch y := x.(type) {
		case *ssa.Convert:
			x = y.X
		case *ssa.ChangeType:
			x = y.X
		default:
			return false
		}
	}
	return false
}

func ruleWireLengthsBoundedUnsigned(c *Ctx) {
	const rule = "R41.6"
	const spec = "network.UnmarshallTopics"
	fn := c.Fn(spec)
	isUvarint := func(f *types.Func) bool {
		return f != nil && f.Pkg() != nil && f.Pkg().Path() == "encoding/binary" && f.Name() == "Uvarint"
	}
	// wire values: result #0 of Uvarint, or result #i of a package helper returning one
	returnsWire := func(g *ssa.Function) map[int]bool {
		out := map[int]bool{}
		if g == nil || g.Pkg != fn.Pkg {
			return out
		}
		var ws []ssa.Value
		for _, b := range g.Blocks {
			for _, in := range b.Instrs {
				call, ok := in.(*ssa.Call)
				if !ok || !isUvarint(calleeOf(call.Common())) {
					continue
				}
				for _, r := range *call.Referrers() {
					if e, ok := r.(*ssa.Extract); ok && e.Index == 0 {
						ws = append(ws, e)
					}
				}
			}
		}
		for _, b := range g.Blocks {
			if ret, ok := b.Instrs[len(b.Instrs)-1].(*ssa.Return); ok {
				for i, r := range ret.Results {
					for _, w := range ws {
						if deriveNoPhi(r, w, 6) {
							out[i] = true
						}
					}
				}
			}
		}
		return out
	}
	type wire struct {
		v    ssa.Value
		what string
	}
	var wires []wire
	for _, b := range fn.Blocks {
		for _, in := range b.Instrs {
			call, ok := in.(*ssa.Call)
			if !ok {
				continue
			}
			callee := calleeOf(call.Common())
			if callee == nil {
				continue
			}
			var idxs map[int]bool
			if isUvarint(callee) {
				idxs = map[int]bool{0: true}
			} else if sc := call.Common().StaticCallee(); sc != nil {
				idxs = returnsWire(sc)
			}
			if len(idxs) == 0 {
				continue
			}
			if call.Type().(*types.Tuple) == nil {
				continue
			}
			for _, r := range *call.Referrers() {
				if e, ok := r.(*ssa.Extract); ok && idxs[e.Index] {
					wires = append(wires, wire{e, "length #" + itoa(len(wires)+1) + " read by " + callee.Name()})
				}
			}
		}
	}
	if len(wires) == 0 {
		c.Unk(rule, spec+":wire lengths", c.Pos(fn.Pos()), "no length read with binary.Uvarint found")
		return
	}
	for _, w := range wires {
		var sinks []ssa.Instruction
		for _, b := range fn.Blocks {
			for _, in := range b.Instrs {
				switch x := in.(type) {
				case *ssa.Slice:
					if deriveNoPhi(x.Low, w.v, 6) || deriveNoPhi(x.High, w.v, 6) || deriveNoPhi(x.Max, w.v, 6) {
						sinks = append(sinks, in)
					}
				case *ssa.MakeSlice:
					if deriveNoPhi(x.Len, w.v, 6) || deriveNoPhi(x.Cap, w.v, 6) {
						sinks = append(sinks, in)
					}
				}
			}
		}
		if len(sinks) == 0 {
			continue
		}
		wv := w.v
		g := Guard{Name: "raw uint64 length <= constant bound", Match: func(cond ssa.Value) (bool, bool) {
			bo, ok := cond.(*ssa.BinOp)
			if !ok {
				return false, false
			}
			op := bo.Op
			var other ssa.Value
			switch {
			case rawUnsigned(bo.X, wv):
				other = bo.Y
			case rawUnsigned(bo.Y, wv):
				other = bo.X
				op = mirrorOp(op)
			default:
				return false, false
			}
			if _, isK := strip(other).(*ssa.Const); !isK {
				return false, false
			}
			switch op {
			case token.GTR, token.GEQ:
				return true, false
			case token.LSS, token.LEQ:
				return true, true
			}
			return false, false
		}}
		c.fMustGuard(fGuardSpec{Rule: rule, Fn: fn, Effects: sinks, EffName: "slice/make sized by the " + w.what, Guard: g})
	}
}
