package main

import (
	"go/token"
	"go/types"

	"golang.org/x/tools/go/ssa"
)

func init() {
	register(&Prop{
		ID:       "C06",
		Patterns: []string{"./agreement"},
		Run:      runC06,
		Explanation: "Decides the bookkeeping shape of voteTracker.handle that makes the threshold signal edge-triggered and duplicate-free. " +
			"R06.1 the tally (voteTracker.Counts/Voters/Equivocators/EquivocatorsCount, proposalVoteCounter.Count/Votes) is written (assignment, map update, delete, address-of) only in voteTracker.handle. " +
			"R06.2 in handle, both membership lookups use the accepted vote's sender; `Count += Vote.Cred.Weight` is reachable only when the sender is neither in Equivocators nor in Voters (a duplicate adds nothing); `EquivocatorsCount += weight` and `Count -= oldWeight` are reachable only when the sender has an earlier vote whose proposal differs; after the EquivocatorsCount increment every path to a return passes the removal of the old vote from Counts (delete or Count-=), the insertion into Equivocators[sender] and delete(Voters, sender). " +
			"R06.3 every non-zero thresholdEvent kind is stored only past overBefore==false and overAfter==true, where overBefore is the ok of an overThreshold call that dominates every tally mutation of handle and overAfter the ok of a second call after which no tally mutation is reachable; overThreshold reports ok only for a range key k of Counts with step.reachesQuorum(proto, count(k)) and returns that k; count(p) is Counts[p].Count + EquivocatorsCount (each equivocator counted once for every value). " +
			"R06.4 the event kind is chosen by the accepted vote's own step (soft->softThreshold, cert->certThreshold, otherwise nextThreshold), Round/Period/Step are that vote's, Proposal is the value returned by the after-call, Bundle is genBundle(proto, Counts[that value]); makeBundle returns only past reachesQuorum for the packed votes (shared with C03 R03.2). " +
			"Does NOT decide: the numeric counts, that at most one value can be over threshold (stake assumption; the code panics), nor the order-independence of the resulting bundle.",
		Assumptions: []string{"maps are not aliased outside voteTracker (no pointer analysis)", "logging Panicf does not return"},
		Floor:       map[string]int{"R06.1": 2, "R06.2": 14, "R06.3": 6, "R06.4": 22},
	})
}

// aTally describes voteTracker's tally fields and finds their mutations.
type aTally struct {
	fCounts, fVoters, fEquivs, fEqCount, fCount, fVotes *types.Var
	all                                                 map[*types.Var]bool
}

func aMakeTally(c *Ctx) aTally {
	t := aTally{
		fCounts:  c.Field("agreement.voteTracker.Counts"),
		fVoters:  c.Field("agreement.voteTracker.Voters"),
		fEquivs:  c.Field("agreement.voteTracker.Equivocators"),
		fEqCount: c.Field("agreement.voteTracker.EquivocatorsCount"),
		fCount:   c.Field("agreement.proposalVoteCounter.Count"),
		fVotes:   c.Field("agreement.proposalVoteCounter.Votes"),
	}
	t.all = map[*types.Var]bool{t.fCounts: true, t.fVoters: true, t.fEquivs: true, t.fEqCount: true, t.fCount: true, t.fVotes: true}
	return t
}

// mutation classifies an instruction as a tally mutation and returns the field.
// Stores of a freshly made (empty) map are initialisations, not mutations.
func (t aTally) mutation(in ssa.Instruction) (*types.Var, string) {
	switch x := in.(type) {
	case *ssa.Store:
		if fa, ok := x.Addr.(*ssa.FieldAddr); ok {
			if f := structField(fa.X.Type(), fa.Field); t.all[f] {
				if _, fresh := x.Val.(*ssa.MakeMap); fresh {
					return f, "init"
				}
				return f, "store"
			}
		}
	case *ssa.MapUpdate:
		if f := aRootPath(x.Map).last(); t.all[f] {
			return f, "mapupdate"
		}
	default:
		if cc, ok := isBuiltinCall(in, "delete"); ok {
			if f := aRootPath(cc.Args[0]).last(); t.all[f] {
				return f, "delete"
			}
		}
	}
	return nil, ""
}

func runC06(c *Ctx) {
	defer aDebug(c)
	t := aMakeTally(c)
	h := c.Fn("agreement.voteTracker.handle")

	// ---- R06.1: who writes the tally ----
	{
		c.OwnerRule("R06.1", "write(voteTracker tally)", c.FieldWrites(t.all, ScanOpts{SkipGenerated: true}), map[string]string{"agreement.voteTracker.handle": "the vote counter"})
		byFn := map[string]int{}
		var firstPos = map[string]token.Pos{}
		for _, fn := range aPkgFuncs(c, "agreement") {
			if aGeneratedFn(c, fn) {
				continue
			}
			for _, b := range fn.Blocks {
				for _, in := range b.Instrs {
					if f, _ := t.mutation(in); f != nil {
						n := fnName(topFn(fn))
						if byFn[n] == 0 {
							firstPos[n] = in.Pos()
						}
						byFn[n]++
					}
				}
			}
		}
		if len(byFn) == 0 {
			c.Unk("R06.1", "mutate(voteTracker tally)", "-", "no tally mutation found in package agreement")
		}
		for n, k := range byFn {
			c.Check(n == "agreement.voteTracker.handle", "R06.1", "mutate(voteTracker tally)@"+n, c.Pos(firstPos[n]), itoa(k)+" store/map-update/delete instruction(s) on the tally; only voteTracker.handle may mutate it")
		}
	}

	// collect the instructions of handle
	var muts, countAdds, countSubs, eqAdds, delVoters, setEquiv, delCounts []ssa.Instruction
	for _, b := range h.Blocks {
		for _, in := range b.Instrs {
			f, kind := t.mutation(in)
			if f == nil {
				continue
			}
			if kind != "init" {
				muts = append(muts, in)
			}
			switch {
			case kind == "store" && (f == t.fCount || f == t.fEqCount):
				bo, _ := in.(*ssa.Store).Val.(*ssa.BinOp)
				switch {
				case bo != nil && bo.Op == token.ADD && f == t.fCount:
					countAdds = append(countAdds, in)
				case bo != nil && bo.Op == token.SUB && f == t.fCount:
					countSubs = append(countSubs, in)
				case bo != nil && bo.Op == token.ADD && f == t.fEqCount:
					eqAdds = append(eqAdds, in)
				default:
					c.Unk("R06.2", "agreement.voteTracker.handle:store("+f.Name()+")", c.Pos(in.Pos()), "a store to "+f.Name()+" that is neither += nor -=: "+describe(in.(*ssa.Store).Val))
				}
			case kind == "delete" && f == t.fVoters:
				delVoters = append(delVoters, in)
			case kind == "delete" && f == t.fCounts:
				delCounts = append(delCounts, in)
			case kind == "mapupdate" && f == t.fEquivs:
				setEquiv = append(setEquiv, in)
			}
		}
	}

	fVote := c.Field("agreement.voteAcceptedEvent.Vote")
	fR := c.Field("agreement.vote.R")
	fSender := c.Field("agreement.rawVote.Sender")
	fProposal := c.Field("agreement.rawVote.Proposal")
	fCred := c.Field("agreement.vote.Cred")
	fWeight := c.Field("data/committee.Credential.Weight")
	isVoteField := func(fields ...*types.Var) VM {
		want := append([]*types.Var{fVote}, fields...)
		return func(v ssa.Value) bool {
			p := aRootPath(v)
			if _, ok := p.Root.(*ssa.TypeAssert); !ok || len(p.Fields) != len(want) {
				return false
			}
			for i := range want {
				if p.Fields[i] != want[i] {
					return false
				}
			}
			return true
		}
	}

	// ---- R06.2 ----
	{
		// both lookups are keyed by the vote's sender
		for _, mf := range []*types.Var{t.fEquivs, t.fVoters} {
			n, ok := 0, true
			for _, in := range Instrs(h, func(in ssa.Instruction) bool {
				l, isL := in.(*ssa.Lookup)
				if !isL || !l.CommaOk || aRootPath(l.X).last() != mf {
					return false
				}
				// only the lookups of the voteAccepted case: those whose ok result guards a tally mutation are found below; here all comma-ok lookups keyed by a vote sender
				return true
			}) {
				l := in.(*ssa.Lookup)
				if isVoteField(fR, fSender)(l.Index) {
					n++
				} else if len(aReachFromInstr(in, nil, muts)) > 0 {
					ok = false
				}
			}
			c.Check(ok && n > 0, "R06.2", "agreement.voteTracker.handle:lookup("+mf.Name()+")[Vote.R.Sender]", c.Pos(h.Pos()), "every membership lookup that precedes a tally mutation is keyed by the accepted vote's sender")
		}
		notEquivocator := GBool("!equivocator(sender)", aLookupExtract(t.fEquivs, 1), false)
		notVoted := GBool("!voted(sender)", aLookupExtract(t.fVoters, 1), false)
		voted := GBool("voted(sender)", aLookupExtract(t.fVoters, 1), true)
		oldDiffers := GCmp("oldVote.R.Proposal!=Vote.R.Proposal", token.NEQ, func(v ssa.Value) bool {
			p := aRootPath(v)
			return aLookupExtract(t.fVoters, 0)(p.Root) && len(p.Fields) == 2 && p.Fields[0] == fR && p.Fields[1] == fProposal
		}, isVoteField(fR, fProposal))
		c.MustGuard(MustGuardSpec{Rule: "R06.2", Fn: h, Effects: countAdds, EffName: "Count+=weight", Guards: []Guard{notEquivocator, notVoted}})
		// the added weight is the vote's own credential weight
		okW := len(countAdds) > 0
		for _, in := range append(append([]ssa.Instruction{}, countAdds...), eqAdds...) {
			bo := in.(*ssa.Store).Val.(*ssa.BinOp)
			if !isVoteField(fCred, fWeight)(bo.Y) && !isVoteField(fCred, fWeight)(bo.X) {
				okW = false
			}
		}
		c.Check(okW, "R06.2", "agreement.voteTracker.handle:weight=Vote.Cred.Weight", c.Pos(h.Pos()), "the weight added to Count / EquivocatorsCount is the accepted vote's credential weight")
		c.MustGuard(MustGuardSpec{Rule: "R06.2", Fn: h, Effects: eqAdds, EffName: "EquivocatorsCount+=weight", Guards: []Guard{notEquivocator, voted, oldDiffers}})
		c.MustGuard(MustGuardSpec{Rule: "R06.2", Fn: h, Effects: append(append([]ssa.Instruction{}, countSubs...), delCounts...), EffName: "Counts[old]-=oldWeight", Guards: []Guard{voted, oldDiffers}})
		// pairing: after the equivocator increment the old vote is moved
		rets := aRetInstrs(aReturns(h))
		in := func(set []ssa.Instruction) func(ssa.Instruction) bool {
			m := map[ssa.Instruction]bool{}
			for _, x := range set {
				m[x] = true
			}
			return func(i ssa.Instruction) bool { return m[i] }
		}
		for _, pr := range []struct {
			name string
			set  []ssa.Instruction
		}{
			{"delete(Voters,sender)", delVoters},
			{"Equivocators[sender]=pair", setEquiv},
			{"Counts[old] removal (delete or Count-=)", append(append([]ssa.Instruction{}, countSubs...), delCounts...)},
		} {
			ok := len(eqAdds) > 0 && len(pr.set) > 0
			for _, a := range eqAdds {
				if len(aReachFromInstr(a, in(pr.set), rets)) > 0 {
					ok = false
				}
			}
			pos := h.Pos()
			if len(eqAdds) > 0 {
				pos = eqAdds[0].Pos()
			}
			c.Check(ok, "R06.2", "agreement.voteTracker.handle:EquivocatorsCount+= => "+pr.name, c.Pos(pos), "after counting a sender as equivocator no return is reachable without "+pr.name)
		}
		// the keys of the moves are the sender
		okKeys := true
		for _, i := range delVoters {
			cc, _ := isBuiltinCall(i, "delete")
			if !isVoteField(fR, fSender)(cc.Args[1]) {
				okKeys = false
			}
		}
		for _, i := range setEquiv {
			if !isVoteField(fR, fSender)(i.(*ssa.MapUpdate).Key) {
				okKeys = false
			}
		}
		c.Check(okKeys && len(delVoters) > 0 && len(setEquiv) > 0, "R06.2", "agreement.voteTracker.handle:moves keyed by Vote.R.Sender", c.Pos(h.Pos()), "delete(Voters, k) and Equivocators[k]= use the accepted vote's sender")
	}

	// ---- R06.3: edge trigger ----
	overF := c.Func("agreement.voteTracker.overThreshold")
	var before, after *ssa.Call
	{
		calls := CallsTo(h, false, overF)
		for _, ci := range calls {
			call, ok := ci.(*ssa.Call)
			if !ok {
				continue
			}
			domAll := len(muts) > 0
			for _, m := range muts {
				if !Dominates(call, m) {
					domAll = false
				}
			}
			noneAfter := len(aReachFromInstr(call, nil, muts)) == 0
			switch {
			case domAll && !noneAfter && before == nil:
				before = call
			case noneAfter && !domAll && after == nil:
				after = call
			default:
				c.Unk("R06.3", "agreement.voteTracker.handle:overThreshold", c.Pos(call.Pos()), "an overThreshold call that is neither before every tally mutation nor after all of them")
			}
		}
		if before == nil || after == nil || !Dominates(before, after) {
			c.Bad("R06.3", "agreement.voteTracker.handle:overThreshold(before/after)", c.Pos(h.Pos()), "expected one overThreshold call dominating every tally mutation and a second one after which no mutation is reachable; found "+itoa(len(calls))+" call(s)")
		} else {
			c.Ok("R06.3", "agreement.voteTracker.handle:overThreshold(before/after)", c.Pos(before.Pos()), "the before-call dominates "+itoa(len(muts))+" tally mutation(s); no mutation is reachable after the after-call")
			// same step argument: the accepted vote's step
			fStep := c.Field("agreement.rawVote.Step")
			okStep := true
			for _, call := range []*ssa.Call{before, after} {
				a := call.Common().Args
				if len(a) != 4 || !isVoteField(fR, fStep)(a[2]) {
					okStep = false
				}
			}
			c.Check(okStep, "R06.3", "agreement.voteTracker.handle:overThreshold(step=Vote.R.Step)", c.Pos(before.Pos()), "both threshold tests use the accepted vote's step")
			kinds := aThresholdKindStores(c, h)
			var eff []ssa.Instruction
			for _, k := range kinds {
				eff = append(eff, k.store)
			}
			isOk := func(call *ssa.Call) VM {
				return func(v ssa.Value) bool {
					e, ok := v.(*ssa.Extract)
					return ok && e.Tuple == ssa.Value(call) && e.Index == 1
				}
			}
			c.MustGuard(MustGuardSpec{Rule: "R06.3", Fn: h, Effects: eff, EffName: "store(thresholdEvent.T=threshold)", Guards: []Guard{
				GBool("!overBefore", isOk(before), false),
				GBool("overAfter", isOk(after), true),
			}})
		}
		aOverThresholdShape(c, "R06.3", t)
	}

	// ---- R06.4: what the event says ----
	aThresholdKindByStep(c, "R06.4", false)
	if after != nil {
		kinds := aThresholdKindStores(c, h)
		fProp := c.Field("agreement.thresholdEvent.Proposal")
		isRes := func(v ssa.Value) bool {
			e, ok := v.(*ssa.Extract)
			return ok && e.Tuple == ssa.Value(after) && e.Index == 0
		}
		ok := len(kinds) > 0
		for _, k := range kinds {
			found := false
			for _, s := range StoresToField(h, false, map[*types.Var]bool{fProp: true}) {
				st := s.(*ssa.Store)
				if st.Addr.(*ssa.FieldAddr).X == k.base {
					found = isRes(st.Val)
				}
			}
			if !found {
				ok = false
			}
		}
		c.Check(ok, "R06.4", "agreement.voteTracker.handle:thresholdEvent.Proposal<=overThreshold(after).res", c.Pos(after.Pos()), "the announced value is the one the after-call found over threshold")
		genF := c.Func("agreement.voteTracker.genBundle")
		gcalls := CallsTo(h, false, genF)
		okG := len(gcalls) > 0
		for _, g := range gcalls {
			a := g.Common().Args
			if len(a) != 3 {
				okG = false
				continue
			}
			l, isL := aRootPath(a[2]).Root.(*ssa.Lookup)
			if !isL || aRootPath(l.X).last() != t.fCounts || !isRes(l.Index) || len(aRootPath(a[2]).Fields) != 0 {
				okG = false
			}
		}
		c.Check(okG, "R06.4", "agreement.voteTracker.handle:genBundle(Counts[res])", c.Pos(after.Pos()), "the bundle is generated from the votes counted for the announced value")
		fBundle := c.Fields("agreement.thresholdEvent.Bundle")
		st := StoresToField(h, true, fBundle)
		okB := len(st) > 0
		for _, s := range st {
			if _, isR := asResultOf(s.(*ssa.Store).Val, -1, genF); !isR {
				okB = false
			}
		}
		c.Check(okB, "R06.4", "agreement.voteTracker.handle:thresholdEvent.Bundle<=genBundle()", c.Pos(h.Pos()), "the event carries the generated bundle")
	}
	aMakeBundleShape(c, "R06.4")
}

type aKindStore struct {
	store *ssa.Store
	base  ssa.Value // the literal's alloc
	kind  int64
}

// aThresholdKindStores finds stores of a non-zero constant into thresholdEvent.T.
func aThresholdKindStores(c *Ctx, h *ssa.Function) []aKindStore {
	fT := c.Field("agreement.thresholdEvent.T")
	var out []aKindStore
	for _, s := range StoresToField(h, true, map[*types.Var]bool{fT: true}) {
		st := s.(*ssa.Store)
		k, isK := aConstOf(st.Val)
		if isK && k == 0 {
			continue
		}
		if !isK {
			k = -1
		}
		out = append(out, aKindStore{st, st.Addr.(*ssa.FieldAddr).X, k})
	}
	return out
}

// aThresholdKindByStep checks in voteTracker.handle that the kind of an emitted
// threshold event follows the accepted vote's own step and that the event's
// Round/Period/Step are that vote's.
func aThresholdKindByStep(c *Ctx, rule string, certOnly bool) {
	h := c.Fn("agreement.voteTracker.handle")
	fVote := c.Field("agreement.voteAcceptedEvent.Vote")
	fR := c.Field("agreement.vote.R")
	fStep := c.Field("agreement.rawVote.Step")
	stepVM := func(v ssa.Value) bool {
		p := aRootPath(v)
		_, isTA := p.Root.(*ssa.TypeAssert)
		return isTA && len(p.Fields) == 3 && p.Fields[0] == fVote && p.Fields[1] == fR && p.Fields[2] == fStep
	}
	kSoftT, _ := constInt64(c.Const("agreement.softThreshold"))
	kCertT, _ := constInt64(c.Const("agreement.certThreshold"))
	kNextT, _ := constInt64(c.Const("agreement.nextThreshold"))
	kSoft := c.Const("agreement.soft")
	kCert := c.Const("agreement.cert")
	kinds := aThresholdKindStores(c, h)
	if len(kinds) == 0 {
		c.Unk(rule, "agreement.voteTracker.handle:thresholdEvent.T", c.Pos(h.Pos()), "no store of a threshold kind found")
		return
	}
	seen := map[int64]bool{}
	kindName := map[int64]string{kSoftT: "softThreshold", kCertT: "certThreshold", kNextT: "nextThreshold"}
	for _, k := range kinds {
		seen[k.kind] = true
		eff := []ssa.Instruction{k.store}
		switch k.kind {
		case kCertT:
			c.MustGuard(MustGuardSpec{Rule: rule, Fn: h, Effects: eff, EffName: "store(T=certThreshold)", Guards: []Guard{GCmp("Vote.R.Step==cert", token.EQL, stepVM, aConst(kCert))}})
		case kSoftT:
			if certOnly {
				continue
			}
			c.MustGuard(MustGuardSpec{Rule: rule, Fn: h, Effects: eff, EffName: "store(T=softThreshold)", Guards: []Guard{GCmp("Vote.R.Step==soft", token.EQL, stepVM, aConst(kSoft))}})
		case kNextT:
			if certOnly {
				continue
			}
			c.MustGuard(MustGuardSpec{Rule: rule, Fn: h, Effects: eff, EffName: "store(T=nextThreshold)", Guards: []Guard{
				GCmp("Vote.R.Step!=soft", token.NEQ, stepVM, aConst(kSoft)),
				GCmp("Vote.R.Step!=cert", token.NEQ, stepVM, aConst(kCert)),
			}})
		default:
			c.Bad(rule, "agreement.voteTracker.handle:store(thresholdEvent.T=?)", c.Pos(k.store.Pos()), "thresholdEvent.T receives a value that is not one of the three threshold kinds: "+describe(k.store.Val))
			continue
		}
		// header fields of the same literal
		for _, pair := range [][2]string{{"Round", "Round"}, {"Period", "Period"}, {"Step", "Step"}} {
			if certOnly && pair[0] != "Step" && pair[0] != "Round" {
				continue
			}
			want := c.Field("agreement.rawVote." + pair[1])
			ok := false
			for _, s := range StoresToField(h, true, c.Fields("agreement.thresholdEvent."+pair[0])) {
				st := s.(*ssa.Store)
				if st.Addr.(*ssa.FieldAddr).X != k.base {
					continue
				}
				p := aRootPath(st.Val)
				_, isTA := p.Root.(*ssa.TypeAssert)
				ok = isTA && len(p.Fields) == 3 && p.Fields[0] == fVote && p.Fields[1] == fR && p.Fields[2] == want
			}
			c.Check(ok, rule, "agreement.voteTracker.handle:thresholdEvent(T="+kindName[k.kind]+")."+pair[0]+"<=Vote.R."+pair[1], c.Pos(k.store.Pos()), "the event's "+pair[0]+" is the accepted vote's")
		}
	}
	if !seen[kCertT] || (!certOnly && (!seen[kSoftT] || !seen[kNextT])) {
		c.Unk(rule, "agreement.voteTracker.handle:threshold kinds", c.Pos(h.Pos()), "not all threshold kinds are produced any more")
	}
}

// aOverThresholdShape checks overThreshold and count.
func aOverThresholdShape(c *Ctx, rule string, t aTally) {
	ot := c.Fn("agreement.voteTracker.overThreshold")
	countF := c.Func("agreement.voteTracker.count")
	reaches := c.Func("agreement.step.reachesQuorum")
	var stepP *ssa.Parameter
	for _, p := range ot.Params {
		if types.Identical(p.Type(), c.Named("agreement.step")) {
			stepP = p
		}
	}
	// the quorum tests of the function: reachesQuorum(stepParam, proto, count(tracker, K))
	type qtest struct {
		blk *ssa.BasicBlock
		key ssa.Value
	}
	var tests []qtest
	for _, b := range ot.Blocks {
		iff, ok := b.Instrs[len(b.Instrs)-1].(*ssa.If)
		if !ok {
			continue
		}
		call, ok := iff.Cond.(*ssa.Call)
		if !ok || !sameFunc(calleeOf(call.Common()), reaches) {
			continue
		}
		a := call.Common().Args
		if len(a) != 3 || stepP == nil || a[0] != ssa.Value(stepP) {
			continue
		}
		cc, ok := a[2].(*ssa.Call)
		if !ok || !sameFunc(calleeOf(cc.Common()), countF) || len(cc.Common().Args) != 2 {
			continue
		}
		tests = append(tests, qtest{b, cc.Common().Args[1]})
	}
	okAll, n := len(tests) > 0, 0
	for _, ret := range aReturns(ot) {
		if len(ret.Results) != 2 {
			okAll = false
			continue
		}
		type src struct {
			blk     *ssa.BasicBlock
			ok, res ssa.Value
		}
		var srcs []src
		if ph, isPhi := ret.Results[1].(*ssa.Phi); isPhi {
			rph, _ := ret.Results[0].(*ssa.Phi)
			for i, e := range ph.Edges {
				if e == ssa.Value(ph) {
					continue
				}
				r := ret.Results[0]
				if rph != nil && rph.Block() == ph.Block() {
					r = rph.Edges[i]
				}
				srcs = append(srcs, src{ph.Block().Preds[i], e, r})
			}
		} else {
			srcs = append(srcs, src{ret.Block(), ret.Results[1], ret.Results[0]})
		}
		for _, s := range srcs {
			if IsConstBool(false)(s.ok) {
				continue
			}
			if !IsConstBool(true)(s.ok) {
				okAll = false
				continue
			}
			n++
			good := false
			for _, q := range tests {
				pass := q.blk.Succs[0]
				if len(pass.Preds) == 1 && (pass == s.blk || pass.Dominates(s.blk)) && s.res == q.key {
					// the key must be a range key over tracker.Counts
					if ex, isEx := q.key.(*ssa.Extract); isEx && ex.Index == 1 {
						if nx, isNext := ex.Tuple.(*ssa.Next); isNext {
							if rg, isRange := nx.Iter.(*ssa.Range); isRange && aRootPath(rg.X).last() == t.fCounts {
								good = true
							}
						}
					}
				}
			}
			if !good {
				okAll = false
			}
		}
	}
	c.Check(okAll && n > 0, rule, "agreement.voteTracker.overThreshold:ok<=reachesQuorum(step,count(k)),res=k", c.Pos(ot.Pos()), "ok is reported only for a key k of Counts whose count reaches the step's quorum, and that k is returned")

	cnt := c.Fn("agreement.voteTracker.count")
	okC := false
	rets := aReturns(cnt)
	if len(rets) == 1 && len(rets[0].Results) == 1 && len(cnt.Params) == 2 {
		if bo, ok := rets[0].Results[0].(*ssa.BinOp); ok && bo.Op == token.ADD {
			isCount := func(v ssa.Value) bool {
				p := aRootPath(v)
				l, isL := p.Root.(*ssa.Lookup)
				return isL && len(p.Fields) == 1 && p.Fields[0] == t.fCount && aRootPath(l.X).last() == t.fCounts && l.Index == ssa.Value(cnt.Params[1])
			}
			isEq := func(v ssa.Value) bool {
				p := aRootPath(v)
				return p.last() == t.fEqCount && p.Root == ssa.Value(cnt.Params[0])
			}
			okC = isCount(bo.X) && isEq(bo.Y) || isCount(bo.Y) && isEq(bo.X)
		}
	}
	c.Check(okC, rule, "agreement.voteTracker.count:Counts[p].Count+EquivocatorsCount", c.Pos(cnt.Pos()), "every equivocator's weight counts once towards every value")
}
