package main

import (
	"go/types"

	"golang.org/x/tools/go/ssa"
)

// R37.7: an internal node's pre-image has a fixed layout.
//
// Noted as a side remark by an independent seeding agent, then reproduced by me
// (findings/C37-hintlen): Verify never checks the length of the sibling digests
// of a proof, and pair.ToBeHashed writes the right child at buf[len(p.l):]. For
// a 32-byte hash a 64-byte "left sibling" L‖R fills the whole buffer, the right
// child — the hash of the element being verified — lands behind it and is
// ignored, and H(L‖R) is the genuine parent: a junk element verifies at an odd
// leaf under the genuine root. Recorded as a KNOWN FINDING (not repaired: every
// candidate repair changes which malformed proofs a node accepts — e.g. a digest
// with its trailing zero byte dropped — and merklearray.Verify is consensus code
// for state proofs, see DESIGN §7).
//
// Rule: in pair.ToBeHashed the two children are copied to offsets that depend
// only on the hash size, or the digests' lengths are validated: the offset of a
// copy's destination must not be len() of a child digest, unless verifyPath /
// siblings.get compares the hint length with the hash size.
func init() {
	extend("C37", Extension{
		Run:         ruleNodePreimageFixedLayout,
		Explanation: "R37.7 (an internal node is the hash of exactly two digests at fixed offsets): in pair.ToBeHashed no copy into the pre-image buffer starts at an offset computed from the length of a child digest (only from hashDigestSize or constants). Sibling digests come from the proof unvalidated; with the right child placed at len(left), an oversized left sibling pushes the right child — the leaf being verified — out of the buffer, and a junk element verifies under the genuine root (KNOWN FINDING on the pinned tree, demonstrated in findings/C37-hintlen).",
		Floor:       map[string]int{"R37.7": 2},
	})
}

func ruleNodePreimageFixedLayout(c *Ctx) {
	const rule = "R37.7"
	const spec = "crypto/merklearray.pair.ToBeHashed"
	fn := c.Fn(spec)
	fL := c.Field("crypto/merklearray.pair.l")
	fR := c.Field("crypto/merklearray.pair.r")
	// alternative discharge: the verifier validates the length of the digests it takes from the proof
	validated := ""
	for _, vs := range []string{"crypto/merklearray.Verify", "crypto/merklearray.verifyPath", "crypto/merklearray.siblings.get", "crypto/merklearray.partialLayer.up"} {
		vf := c.Fn(vs)
		for _, b := range vf.Blocks {
			for _, in := range b.Instrs {
				bo, ok := in.(*ssa.BinOp)
				if !ok {
					continue
				}
				for _, side := range []ssa.Value{bo.X, bo.Y} {
					if y, isLen := lenOf(strip(side)); isLen {
						if nt, isNamed := y.Type().(interface{ Obj() *types.TypeName }); isNamed && nt.Obj().Name() == "GenericDigest" {
							validated = vs
						}
					}
				}
			}
		}
	}
	n := 0
	for _, b := range fn.Blocks {
		for _, in := range b.Instrs {
			cc, ok := isBuiltinCall(in, "copy")
			if !ok || len(cc.Args) != 2 {
				continue
			}
			n++
			src := "left"
			if Mentions(cc.Args[1], fR, 4) && !Mentions(cc.Args[1], fL, 4) {
				src = "right"
			}
			construct := spec + ":copy(buf[fixed offset:], " + src + " child)"
			dst, isSlice := strip(cc.Args[0]).(*ssa.Slice)
			if !isSlice {
				c.Ok(rule, construct, c.Pos(in.Pos()), "the destination is the buffer itself (offset 0)")
				continue
			}
			bad := ""
			for _, bound := range []ssa.Value{dst.Low, dst.High} {
				if bound == nil {
					continue
				}
				walkDef(bound, 5, func(x ssa.Value) bool {
					if y, isLen := lenOf(strip(x)); isLen && (Mentions(y, fL, 4) || Mentions(y, fR, 4)) {
						bad = "the destination bound is " + describe(bound) + ", the length of a child digest"
					}
					return bad == ""
				})
			}
			if bad != "" && validated != "" {
				c.Ok(rule, construct, c.Pos(in.Pos()), "the offset depends on a digest length, but "+validated+" compares the length of the digests it takes from the proof")
				continue
			}
			c.Check(bad == "", rule, construct, c.Pos(in.Pos()), "the child is written at an offset that depends only on the hash size"+sfx(bad))
		}
	}
	if n == 0 {
		c.Unk(rule, spec+":copies", c.Pos(fn.Pos()), "no copy into the pre-image buffer found")
	}
}
