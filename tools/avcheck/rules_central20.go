package main

import (
	"go/token"
	"go/types"

	"golang.org/x/tools/go/ssa"
)

// R09.10 (after seed C09-3), R34.6 (after seed C34-2), R07.6 (after seed C07-2).
func init() {
	extend("C09", Extension{
		Run:         ruleRecoveredErrorIsTheResult,
		Explanation: "R09.10 (a panic inside a write transaction aborts it): in util/db Accessor.AtomicContext the closure that runs the transaction function converts a panic into an error by a deferred recover(); the variable that deferred function assigns is a NAMED RESULT of the closure (so the assignment is what the closure returns) — with an ordinary local the closure would return nil after a panic and AtomicContext would commit the half-finished transaction and report success.",
		Floor:       map[string]int{"R09.10": 1},
		Patterns:    []string{"./util/db"},
	})
	extend("C34", Extension{
		Run:         ruleNoNarrowArithmeticOnProgramBytes,
		Explanation: "R34.6 (the checker and the evaluator measure instructions alike): in package logic no multiplication, addition or shift is carried out in an 8-bit type on a value read from the program bytes (cx.program[...]) — sizes such as 2*numOffsets must be computed after widening, otherwise a switch/match with ≥128 labels makes check() resume inside the label table and accept jump targets in the middle of an instruction.",
		Floor:       map[string]int{"R34.6": 1},
	})
	extend("C07", Extension{
		Run:         ruleNoDecisionOnUnpersistedSeekerState,
		Explanation: "R07.6 (decisions use persisted state only): in proposalSeeker.accept a branch whose condition reads the non-persisted late-credential tracking fields (lowestIncludingLate, hasLowestIncludingLate) controls neither an error return nor a store to a persisted field (Lowest, Filled, Frozen): both of its outcomes reach the same such instructions — so whether a proposal-vote is accepted, ignored or replaces the lowest credential is the same on a node restored from its crash state as on the node that never crashed.",
		Floor:       map[string]int{"R07.6": 1},
	})
}

// namedResultCells returns the Allocs that hold the named results of fn.
func namedResultCells(fn *ssa.Function) map[*ssa.Alloc]bool {
	out := map[*ssa.Alloc]bool{}
	res := fn.Signature.Results()
	names := map[string]types.Type{}
	for i := 0; i < res.Len(); i++ {
		if n := res.At(i).Name(); n != "" && n != "_" {
			names[n] = res.At(i).Type()
		}
	}
	if len(names) == 0 {
		return out
	}
	consider := func(a *ssa.Alloc) {
		if t, ok := names[a.Comment]; ok {
			if pt, isP := a.Type().(*types.Pointer); isP && types.Identical(pt.Elem(), t) {
				out[a] = true
			}
		}
	}
	for _, a := range fn.Locals {
		consider(a)
	}
	for _, b := range fn.Blocks {
		for _, in := range b.Instrs {
			if a, ok := in.(*ssa.Alloc); ok {
				consider(a)
			}
		}
	}
	return out
}

func ruleRecoveredErrorIsTheResult(c *Ctx) {
	const rule = "R09.10"
	if !c.HasPkg("util/db") {
		c.Unk(rule, "util/db", "-", "package not loaded")
		return
	}
	ac := c.Fn("util/db.Accessor.AtomicContext")
	n := 0
	for _, guarded := range ac.AnonFuncs {
		// a closure with a deferred function literal that calls recover()
		for _, def := range guarded.AnonFuncs {
			callsRecover := false
			for _, b := range def.Blocks {
				for _, in := range b.Instrs {
					if _, ok := isBuiltinCall(in, "recover"); ok {
						callsRecover = true
					}
				}
			}
			if !callsRecover {
				continue
			}
			n++
			named := namedResultCells(guarded)
			// error-typed captured variables the deferred function stores into
			ok := true
			stored := 0
			for i, fv := range def.FreeVars {
				pt, isP := fv.Type().(*types.Pointer)
				if !isP || !isErrorType(pt.Elem()) {
					continue
				}
				writes := false
				for _, r := range *fv.Referrers() {
					if st, isSt := r.(*ssa.Store); isSt && st.Addr == ssa.Value(fv) {
						writes = true
					}
				}
				if !writes {
					continue
				}
				stored++
				// the binding of this free variable at the closure's creation in `guarded`
				bound := false
				for _, b := range guarded.Blocks {
					for _, in := range b.Instrs {
						if mc, isMC := in.(*ssa.MakeClosure); isMC && mc.Fn == ssa.Value(def) && i < len(mc.Bindings) {
							if a, isA := mc.Bindings[i].(*ssa.Alloc); isA && named[a] {
								bound = true
							}
						}
					}
				}
				if !bound {
					ok = false
				}
			}
			c.Check(ok && stored > 0, rule, fnName(guarded)+":recover() assigns the closure's named error result", c.Pos(def.Pos()),
				"the error produced from a recovered panic is stored into the named result of the transaction wrapper, so the wrapper returns it and the transaction is rolled back")
		}
	}
	if n == 0 {
		c.Unk(rule, "util/db.Accessor.AtomicContext:deferred recover", c.Pos(ac.Pos()), "no deferred recover() found in AtomicContext's closures")
	}
}

func ruleNoNarrowArithmeticOnProgramBytes(c *Ctx) {
	const rule = "R34.6"
	fProgram := c.Field("data/transactions/logic.EvalContext.program")
	n, bad := 0, 0
	for _, fn := range c.funcsOf(Mod + "/data/transactions/logic") {
		for _, b := range fn.Blocks {
			for _, in := range b.Instrs {
				bo, ok := in.(*ssa.BinOp)
				if !ok {
					continue
				}
				switch bo.Op {
				case token.MUL, token.ADD, token.SHL:
				default:
					continue
				}
				bt, isB := bo.Type().Underlying().(*types.Basic)
				if !isB || (bt.Kind() != types.Uint8 && bt.Kind() != types.Int8) {
					continue
				}
				fromProgram := func(v ssa.Value) bool {
					found := false
					walkDef(v, 3, func(x ssa.Value) bool {
						if ia, isIA := x.(*ssa.IndexAddr); isIA && Mentions(ia.X, fProgram, 3) {
							found = true
						}
						return !found
					})
					return found
				}
				if !fromProgram(bo.X) && !fromProgram(bo.Y) {
					continue
				}
				n++
				bad++
				c.Bad(rule, fnName(fn)+":8-bit "+bo.Op.String()+" on a program byte", c.Pos(bo.Pos()), "a value read from the program bytes is multiplied/added/shifted in an 8-bit type and can wrap (e.g. 2*numOffsets for ≥128 labels): widen before the arithmetic")
			}
		}
	}
	if bad == 0 {
		c.Ok(rule, "no 8-bit arithmetic on program bytes", "-", "package logic: no MUL/ADD/SHL with an 8-bit result on a value read from cx.program")
	}
	_ = n
}

func ruleNoDecisionOnUnpersistedSeekerState(c *Ctx) {
	const rule = "R07.6"
	fn := c.Fn("agreement.proposalSeeker.accept")
	name := "agreement.proposalSeeker.accept"
	np := []*types.Var{c.Field("agreement.proposalSeeker.lowestIncludingLate"), c.Field("agreement.proposalSeeker.hasLowestIncludingLate")}
	persisted := c.Fields("agreement.proposalSeeker.Lowest", "agreement.proposalSeeker.Filled", "agreement.proposalSeeker.Frozen")
	// sensitive instructions: error returns with their error class, and stores to persisted fields
	type sens struct {
		in  ssa.Instruction
		key string
	}
	var sensitive []sens
	errIdx := errResultIndex(fn)
	for _, b := range fn.Blocks {
		for _, in := range b.Instrs {
			switch x := in.(type) {
			case *ssa.Return:
				if errIdx >= 0 && errIdx < len(x.Results) {
					v := x.Results[errIdx]
					key := "return:nil"
					if !IsNil(v) {
						key = "return:" + strip(v).Type().String()
					}
					sensitive = append(sensitive, sens{x, key})
				}
			case *ssa.Store:
				if fa, ok := x.Addr.(*ssa.FieldAddr); ok && persisted[structField(fa.X.Type(), fa.Field)] {
					sensitive = append(sensitive, sens{x, "store:" + structField(fa.X.Type(), fa.Field).Name()})
				}
			}
		}
	}
	ok := true
	why := ""
	nCond := 0
	for _, b := range fn.Blocks {
		iff, isIf := b.Instrs[len(b.Instrs)-1].(*ssa.If)
		if !isIf {
			continue
		}
		mentions := false
		for _, f := range np {
			if Mentions(iff.Cond, f, 6) {
				mentions = true
			}
		}
		if !mentions {
			continue
		}
		nCond++
		r0 := NewReachFromBlock(b.Succs[0], nil, nil)
		r1 := NewReachFromBlock(b.Succs[1], nil, nil)
		k0, k1 := map[string]bool{}, map[string]bool{}
		for _, s := range sensitive {
			if r0.Reaches(s.in) {
				k0[s.key] = true
			}
			if r1.Reaches(s.in) {
				k1[s.key] = true
			}
		}
		for k := range k0 {
			if !k1[k] {
				ok, why = false, k
			}
		}
		for k := range k1 {
			if !k0[k] {
				ok, why = false, k
			}
		}
	}
	detail := itoa(nCond) + " branch(es) read the non-persisted late-credential fields; each leads to the same error class and the same persisted-field stores on both outcomes"
	if !ok {
		detail = "a branch on lowestIncludingLate/hasLowestIncludingLate (not written to the crash database) decides `" + why + "`: a node restored from its crash state takes the other outcome than the node that never crashed"
	}
	c.Check(ok, rule, name+":no decision on non-persisted fields", c.Pos(fn.Pos()), detail)
}
