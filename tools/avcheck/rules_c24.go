package main

import (
	"fmt"
	"go/token"
	"go/types"

	"golang.org/x/tools/go/ssa"
)

func init() {
	register(&Prop{
		ID:       "C24",
		Patterns: []string{"./ledger/eval"},
		Run:      runC24,
		Explanation: "Decides the fee gate of a group and the bound/validation chain of the proposer payout. " +
			"R24.1 in TransactionGroup every persistent effect (Payset append, blockTxBytes, commitToParent) is dominated by CheckGroupFees(...)==nil, whose arguments are the two results of transactions.SummarizeFees(txgroup, eval.proto) on the very group being evaluated (paid -> feesPaid, usage -> usage) and eval.proto.MinFee(); CheckGroupFees returns nil only past !overflow and !feesPaid.LessThan(feeNeeded) with feeNeeded/overflow the results of minFee.FeeForUsage(usage, 1e6, 0) on its own parameters. " +
			"R24.2 validateForPayouts returns nil, when payouts are enabled, only past FeesCollected == state.feesCollected and ProposerPayout().Raw <= proposerPayout().Raw, and when disabled only past the three IsZero tests; endOfBlock returns nil under eval.validate only past validateForPayouts()==nil. " +
			"R24.3 proposerPayout returns MinA(total, available) where total is the unflagged result of OAddA(DivvyAlgos(NewPercent(proto.Payouts.Percent), block.FeesCollected).first, block.Bonus), the overflow flag is tested, and available is AvailableBalance(&eval.proto) of eval.state.lookup(block.FeeSink) after its err==nil; AvailableBalance returns the OSubA(MicroAlgos, MinBalance(proto)) difference only when it did not underflow (else zero), so a payout within the bound never takes the sink below its minimum balance. " +
			"R24.4 performPayout moves exactly block.ProposerPayout() from block.FeeSink to block.Proposer() through roundCowState.Move, can skip the move only when the proposer or the payout is zero, and propagates Move's error; endOfBlock returns nil only past performPayout()==nil; takeFee moves tx.Fee from tx.Sender to the FeeSink and adds the same tx.Fee to feesCollected only after Move succeeded and never for the FeeSink's own transactions. " +
			"Does NOT decide: the arithmetic of FeeForUsage/SummarizeFees/DivvyAlgos/MinBalance (numeric), fee sufficiency of inner transactions (AVM fee credit), or agreement's zeroing of the payout for ineligible proposers.",
		Assumptions: []string{"basics.MinA returns the smaller operand", "config.ConsensusParams.MinFee is the protocol's base fee"},
		Floor:       map[string]int{"R24.1": 8, "R24.2": 6, "R24.3": 8, "R24.4": 8},
	})
}

// c24PayoutValidation decides the validateForPayouts obligations (shared by C20's twin rule and C24).
func c24PayoutValidation(c *Ctx, rule string) {
	const P = "ledger/eval."
	const B = "data/bookkeeping."
	vfp := c.Fn(P + "BlockEvaluator.validateForPayouts")
	fBlock := c.Field(P + "BlockEvaluator.block")
	fProto := c.Field(P + "BlockEvaluator.proto")
	fState := c.Field(P + "BlockEvaluator.state")
	fFeesCollected := c.Field(P + "roundCowState.feesCollected")
	fHdrFees := c.Field(B + "BlockHeader.FeesCollected")
	fPayouts := c.Field("config.ConsensusParams.Payouts")
	fEnabled := c.Field("config.ProposerPayoutRules.Enabled")
	propPayout := c.Func(P + "BlockEvaluator.proposerPayout")
	blockPayout := c.Func(B + "Block.ProposerPayout")
	blockProposer := c.Func(B + "Block.Proposer")
	isZero := c.Func("data/basics.MicroAlgos.IsZero")
	addrIsZero := c.Func("data/basics.Address.IsZero")
	hdrFees := dPathPS([]*types.Var{fBlock}, []*types.Var{fHdrFees})
	onBlock := func(f *types.Func) VM { // call of a Block method on eval.block
		return func(v ssa.Value) bool {
			call, ok := v.(*ssa.Call)
			if !ok || !sameFunc(calleeOf(call.Common()), f) {
				return false
			}
			return dPath(fBlock)(call.Common().Args[0])
		}
	}
	succ := dSuccessReturns(vfp)
	enabled := GBool("proto.Payouts.Enabled", dPath(fProto, fPayouts, fEnabled), true)
	disabled := GBool("!proto.Payouts.Enabled", dPath(fProto, fPayouts, fEnabled), false)
	c.dMustGuard(dGuardSpec{Rule: rule, Fn: vfp, Effects: succ, EffName: "return nil", Bypass: []Guard{disabled}, Guards: []Guard{
		GCmp("FeesCollected==state.feesCollected", token.EQL, hdrFees, dPath(fState, fFeesCollected)),
		GCmp("ProposerPayout().Raw<=proposerPayout().Raw", token.LEQ, dIs(onBlock(blockPayout)), dIs(func(v ssa.Value) bool {
			if !dResultOf(0, propPayout)(v) {
				return false
			}
			e, ok := v.(*ssa.Extract)
			return ok && dIsParam(dRecv(vfp))(e.Tuple.(*ssa.Call).Common().Args[0])
		})),
	}})
	c.dMustGuard(dGuardSpec{Rule: rule, Fn: vfp, Effects: succ, EffName: "return nil", Bypass: []Guard{enabled}, Guards: []Guard{
		GBool("FeesCollected.IsZero()", dCallOn(isZero, hdrFees), true),
		GBool("Proposer().IsZero()", dCallOn(addrIsZero, onBlock(blockProposer)), true),
		GBool("ProposerPayout().IsZero()", dCallOn(isZero, onBlock(blockPayout)), true),
	}})
}

func runC24(c *Ctx) {
	const P = "ledger/eval."
	const B = "data/bookkeeping."
	fBlock := c.Field(P + "BlockEvaluator.block")
	fProto := c.Field(P + "BlockEvaluator.proto")
	fState := c.Field(P + "BlockEvaluator.state")
	fValidate := c.Field(P + "BlockEvaluator.validate")
	fFeeSink := c.Field(B + "RewardsState.FeeSink")
	hdrPath := func(tail ...*types.Var) VM { return dPathPS([]*types.Var{fBlock}, tail) }

	// ---- R24.1: the group fee gate ----
	tg := c.Fn(P + "BlockEvaluator.TransactionGroup")
	cgfF := c.Func(P + "CheckGroupFees")
	cgf := c.Fn(P + "CheckGroupFees")
	{
		eff := &c19Effects{c: c, evalT: c.Named(P + "BlockEvaluator"), commit: c.Func(P + "roundCowState.commitToParent"), fCorrupted: c.Field(P + "BlockEvaluator.corruptedState"), memo: map[*ssa.Function][]ssa.Instruction{}, busy: map[*ssa.Function]bool{}}
		effects := eff.own(tg)
		c.dMustGuard(dGuardSpec{Rule: "R24.1", Fn: tg, Effects: effects, EffName: "persistent effect (Payset/blockTxBytes/commitToParent)", Guards: []Guard{GErrNil("CheckGroupFees()==nil", dResultOf(0, cgfF))}})
		c.dAfterFailNever("R24.1", tg, GErrNil("CheckGroupFees()==nil", dResultOf(0, cgfF)), effects, "persistent effect")
		calls := CallsTo(tg, false, cgfF)
		summarize := c.Func("data/transactions.SummarizeFees")
		minFee := c.Func("config.ConsensusParams.MinFee")
		if len(calls) != 1 {
			c.Unk("R24.1", fnName(tg)+":CheckGroupFees arguments", c.Pos(tg.Pos()), "expected one CheckGroupFees call, found "+itoa(len(calls)))
		} else {
			a := calls[0].Common().Args
			var sum *ssa.Call
			if e, ok := a[0].(*ssa.Extract); ok {
				sum, _ = e.Tuple.(*ssa.Call)
			}
			okPaid := len(a) == 3 && dResultOf(1, summarize)(a[0])
			okUsage := len(a) == 3 && dResultOf(0, summarize)(a[1])
			if okPaid && okUsage {
				e2, _ := a[1].(*ssa.Extract)
				okUsage = e2 != nil && sum != nil && e2.Tuple == ssa.Value(sum)
			}
			c.dCheck(okPaid, "R24.1", fnName(tg)+":CheckGroupFees(feesPaid=SummarizeFees().paid)", c.Pos(calls[0].Pos()), "the fees compared are the group's summed fees (second result of SummarizeFees)")
			c.dCheck(okUsage, "R24.1", fnName(tg)+":CheckGroupFees(usage=SummarizeFees().usage)", c.Pos(calls[0].Pos()), "the requirement is the group's usage (first result of the same SummarizeFees call)")
			okGroup := false
			if sum != nil {
				sa := sum.Common().Args
				var tgParam *ssa.Parameter
				if len(tg.Params) >= 2 {
					tgParam = tg.Params[1]
				}
				okGroup = len(sa) == 2 && dIsParam(tgParam)(sa[0]) && dPath(fProto)(sa[1])
			}
			c.dCheck(okGroup, "R24.1", fnName(tg)+":SummarizeFees(txgroup, eval.proto)", c.Pos(calls[0].Pos()), "the fee summary is computed over the group being evaluated under the evaluator's protocol")
			okMin := len(a) == 3 && func() bool {
				call, ok := a[2].(*ssa.Call)
				return ok && sameFunc(calleeOf(call.Common()), minFee) && dPath(fProto)(call.Common().Args[0])
			}()
			c.dCheck(okMin, "R24.1", fnName(tg)+":CheckGroupFees(minFee=eval.proto.MinFee())", c.Pos(calls[0].Pos()), "the base fee is the protocol's MinFee()")
		}
		// CheckGroupFees itself
		ffu := c.Func("data/basics.MicroAlgos.FeeForUsage")
		lessThan := c.Func("data/basics.MicroAlgos.LessThan")
		pPaid, pUsage, pMin := dParamAt(cgf, 0), dParamAt(cgf, 1), dParamAt(cgf, 2)
		ffuOK := func(v ssa.Value, idx int) bool {
			e, ok := v.(*ssa.Extract)
			if !ok || e.Index != idx {
				return false
			}
			call, ok := e.Tuple.(*ssa.Call)
			if !ok || !sameFunc(calleeOf(call.Common()), ffu) {
				return false
			}
			a := call.Common().Args
			return len(a) == 4 && dIsParam(pMin)(a[0]) && dIsParam(pUsage)(a[1]) && IsConstInt(1000000)(a[2]) && IsConstInt(0)(a[3])
		}
		c.dMustGuard(dGuardSpec{Rule: "R24.1", Fn: cgf, Effects: dSuccessReturns(cgf), EffName: "return nil", Guards: []Guard{
			GBool("!overflow of minFee.FeeForUsage(usage,1e6,0)", func(v ssa.Value) bool { return ffuOK(v, 2) }, false),
			GBool("!feesPaid.LessThan(feeNeeded)", func(v ssa.Value) bool {
				call, ok := v.(*ssa.Call)
				if !ok || !sameFunc(calleeOf(call.Common()), lessThan) {
					return false
				}
				a := call.Common().Args
				return len(a) == 2 && dIsParam(pPaid)(a[0]) && ffuOK(a[1], 0)
			}, false),
		}})
	}

	// ---- R24.2: claimed payout is validated ----
	eob := c.Fn(P + "BlockEvaluator.endOfBlock")
	notValidate := GBool("!eval.validate", dPath(fValidate), false)
	{
		c24PayoutValidation(c, "R24.2")
		c.dMustGuard(dGuardSpec{Rule: "R24.2", Fn: eob, Effects: dSuccessReturns(eob), EffName: "return nil", Bypass: []Guard{notValidate},
			Guards: []Guard{GErrNil("validateForPayouts()==nil", dResultOf(0, c.Func(P+"BlockEvaluator.validateForPayouts")))}})
	}

	// ---- R24.3: the bound ----
	{
		pp := c.Fn(P + "BlockEvaluator.proposerPayout")
		oadda := c.Func("data/basics.OAddA")
		osuba := c.Func("data/basics.OSubA")
		minA := c.Func("data/basics.MinA")
		divvy := c.Func("data/basics.Fraction.DivvyAlgos")
		newPct := c.Func("data/basics.NewPercent")
		lookup := c.Func(P + "roundCowState.lookup")
		avail := c.Func("ledger/ledgercore.AccountData.AvailableBalance")
		fPayouts := c.Field("config.ConsensusParams.Payouts")
		fPercent := c.Field("config.ProposerPayoutRules.Percent")
		fBonus := c.Field(B + "BlockHeader.Bonus")
		fHdrFees := c.Field(B + "BlockHeader.FeesCollected")

		var total, available ssa.Value
		okRet := false
		for _, r := range dSuccessReturns(pp) {
			ret := r.(*ssa.Return)
			call, ok := ret.Results[0].(*ssa.Call)
			if !ok || !sameFunc(calleeOf(call.Common()), minA) {
				okRet = false
				total = nil
				break
			}
			okRet = true
			total, available = call.Common().Args[0], call.Common().Args[1]
		}
		c.dCheck(okRet, "R24.3", fnName(pp)+":returns MinA(total, available)", c.Pos(pp.Pos()), "every nil-error return yields basics.MinA of two operands")
		if okRet {
			// identify which operand is the sink's available balance
			isAvail := func(v ssa.Value) bool {
				call, ok := v.(*ssa.Call)
				if !ok || !sameFunc(calleeOf(call.Common()), avail) {
					return false
				}
				a := call.Common().Args
				if len(a) != 2 || !dPath(fProto)(a[1]) {
					return false
				}
				e, ok := a[0].(*ssa.Extract)
				if !ok || e.Index != 0 {
					return false
				}
				lc, ok := e.Tuple.(*ssa.Call)
				if !ok || !sameFunc(calleeOf(lc.Common()), lookup) {
					return false
				}
				la := lc.Common().Args
				return len(la) == 2 && dPath(fState)(la[0]) && hdrPath(fFeeSink)(la[1])
			}
			if isAvail(total) {
				total, available = available, total
			}
			c.dCheck(isAvail(available), "R24.3", fnName(pp)+":available=lookup(FeeSink).AvailableBalance(&eval.proto)", c.Pos(pp.Pos()), "the cap is the fee sink's balance above its minimum balance, read from the evaluator's current state")
			var addCall *ssa.Call
			if e, ok := total.(*ssa.Extract); ok && e.Index == 0 {
				if call, ok := e.Tuple.(*ssa.Call); ok && sameFunc(calleeOf(call.Common()), oadda) {
					addCall = call
				}
			}
			okTotal := addCall != nil
			detail := "total = OAddA(share of FeesCollected, Bonus)"
			if addCall != nil {
				a := addCall.Common().Args
				share := func(v ssa.Value) bool {
					e, ok := v.(*ssa.Extract)
					if !ok || e.Index != 0 {
						return false
					}
					dc, ok := e.Tuple.(*ssa.Call)
					if !ok || !sameFunc(calleeOf(dc.Common()), divvy) {
						return false
					}
					da := dc.Common().Args
					if len(da) != 2 || !hdrPath(fHdrFees)(da[1]) {
						return false
					}
					pc, ok := da[0].(*ssa.Call)
					return ok && sameFunc(calleeOf(pc.Common()), newPct) && dPath(fProto, fPayouts, fPercent)(pc.Common().Args[0])
				}
				bonus := hdrPath(fBonus)
				okTotal = (share(a[0]) && bonus(a[1])) || (share(a[1]) && bonus(a[0]))
				if !okTotal {
					detail = "OAddA operands are not {NewPercent(proto.Payouts.Percent).DivvyAlgos(block.FeesCollected) first result, block.Bonus}: " + describe(a[0]) + ", " + describe(a[1])
				}
			} else {
				detail = "the first MinA operand is not the sum result of basics.OAddA: " + describe(total)
			}
			c.Check(okTotal, "R24.3", fnName(pp)+":total=OAddA(Percent share of FeesCollected, Bonus)", c.Pos(pp.Pos()), detail)
			if addCall != nil {
				c.dMustGuard(dGuardSpec{Rule: "R24.3", Fn: pp, Effects: dSuccessReturns(pp), EffName: "return payout", Guards: []Guard{
					GBool("!overflow of OAddA", func(v ssa.Value) bool {
						e, ok := v.(*ssa.Extract)
						return ok && e.Index == 1 && e.Tuple == ssa.Value(addCall)
					}, false),
					GErrNil("lookup(FeeSink) err==nil", dResultOf(1, lookup)),
				}})
			}
		}
		// AvailableBalance never reports more than balance - minbalance
		ab := c.Fn("ledger/ledgercore.AccountData.AvailableBalance")
		fMicro := c.Field("ledger/ledgercore.AccountBaseData.MicroAlgos")
		minBal := c.Func("ledger/ledgercore.AccountData.MinBalance")
		var sub *ssa.Call
		for _, ci := range CallsTo(ab, false, osuba) {
			sub, _ = ci.(*ssa.Call)
		}
		okSub := sub != nil && len(CallsTo(ab, false, osuba)) == 1
		if okSub {
			a := sub.Common().Args
			_, f := dAddrPath(strip(a[0]))
			okSub = len(f) >= 1 && f[len(f)-1] == fMicro && dCallTo(minBal)(a[1])
		}
		c.dCheck(okSub, "R24.3", fnName(ab)+":OSubA(u.MicroAlgos, u.MinBalance(proto))", c.Pos(ab.Pos()), "the available balance is the checked difference of balance and minimum balance")
		if sub != nil {
			nonZero := ReturnsWhere(ab, 0, func(v ssa.Value) bool {
				k, isK := v.(*ssa.Const)
				return !(isK && dZeroConst(k))
			})
			allDiff := len(nonZero) > 0
			for _, r := range nonZero {
				e, ok := r.(*ssa.Return).Results[0].(*ssa.Extract)
				if !ok || e.Index != 0 || e.Tuple != ssa.Value(sub) {
					allDiff = false
				}
			}
			c.dCheck(allDiff, "R24.3", fnName(ab)+":returns the difference or zero", c.Pos(ab.Pos()), "every non-zero return is the OSubA difference")
			c.dMustGuard(dGuardSpec{Rule: "R24.3", Fn: ab, Effects: nonZero, EffName: "return difference", Guards: []Guard{
				GBool("!underflow of OSubA", func(v ssa.Value) bool {
					e, ok := v.(*ssa.Extract)
					return ok && e.Index == 1 && e.Tuple == ssa.Value(sub)
				}, false)}})
		}
	}

	// ---- R24.4: the payout and the fees are moved, exactly ----
	{
		perf := c.Fn(P + "BlockEvaluator.performPayout")
		move := c.Func(P + "roundCowState.Move")
		blockPayout := c.Func(B + "Block.ProposerPayout")
		blockProposer := c.Func(B + "Block.Proposer")
		isZero := c.Func("data/basics.MicroAlgos.IsZero")
		addrIsZero := c.Func("data/basics.Address.IsZero")
		onBlock := func(f *types.Func) VM {
			return func(v ssa.Value) bool {
				call, ok := v.(*ssa.Call)
				return ok && sameFunc(calleeOf(call.Common()), f) && dPath(fBlock)(call.Common().Args[0])
			}
		}
		moves := CallsTo(perf, false, move)
		okMove := len(moves) == 1
		detail := "eval.state.Move(block.FeeSink, block.Proposer(), block.ProposerPayout(), nil, nil)"
		if okMove {
			a := moves[0].Common().Args
			okMove = len(a) == 6 && dPath(fState)(a[0]) && hdrPath(fFeeSink)(a[1]) && dIs(onBlock(blockProposer))(a[2]) && dIs(onBlock(blockPayout))(a[3]) && IsNil(a[4]) && IsNil(a[5])
			if !okMove {
				detail = fmt.Sprintf("Move is called with (%s, %s, %s, …): expected from=block.FeeSink, to=block.Proposer(), amount=block.ProposerPayout() on eval.state", describe(a[1]), describe(a[2]), describe(a[3]))
			}
		} else {
			detail = "expected exactly one Move call, found " + itoa(len(moves))
		}
		c.Check(okMove, "R24.4", fnName(perf)+":Move(FeeSink -> Proposer(), ProposerPayout())", c.Pos(perf.Pos()), detail)
		if len(moves) == 1 {
			stop := func(in ssa.Instruction) bool { return in == ssa.Instruction(moves[0].(*ssa.Call)) }
			// nil without moving only for a zero proposer or a zero payout
			c.dMustGuard(dGuardSpec{Rule: "R24.4", Fn: perf, Effects: dSuccessReturns(perf), EffName: "return nil without Move", Stop: stop,
				Guards: []Guard{GAnyOf("Proposer().IsZero() || ProposerPayout().IsZero()",
					GBool("Proposer().IsZero()", dCallOn(addrIsZero, dIs(onBlock(blockProposer))), true),
					GBool("ProposerPayout().IsZero()", dCallOn(isZero, dIs(onBlock(blockPayout))), true))}})
			// Move's error reaches the caller: returned as is, or tested with the failing branch never reaching a nil return
			direct := true
			for _, u := range dUsers(moves[0].Value()) {
				if r, ok := u.(*ssa.Return); !ok || r.Results[errResultIndex(perf)] != moves[0].Value() {
					direct = false
				}
			}
			if direct && len(dUsers(moves[0].Value())) > 0 {
				c.Ok("R24.4", fnName(perf)+":Move error propagated", c.Pos(moves[0].Pos()), "the result of Move is returned unchanged")
			} else {
				c.dAfterFailNever("R24.4", perf, GErrNil("Move()==nil", dResultOf(0, move)), dSuccessReturns(perf), "return nil")
			}
		}
		c.dMustGuard(dGuardSpec{Rule: "R24.4", Fn: eob, Effects: dSuccessReturns(eob), EffName: "return nil",
			Guards: []Guard{GErrNil("performPayout()==nil", dResultOf(0, c.Func(P+"BlockEvaluator.performPayout")))}})

		// takeFee
		tf := c.Fn(P + "roundCowState.takeFee")
		fFC := c.Field(P + "roundCowState.feesCollected")
		fFee := c.Field("data/transactions.Header.Fee")
		fSender := c.Field("data/transactions.Header.Sender")
		fSpecials := c.Field("data/transactions/logic.EvalParams.Specials")
		fSink := c.Field("data/transactions.SpecialAddresses.FeeSink")
		oadda := c.Func("data/basics.OAddA")
		txP, epP := dParamAt(tf, 0), dParamAt(tf, 2)
		onTx := func(f *types.Var) VM {
			return func(v ssa.Value) bool {
				r, p := dAddrPath(strip(v))
				return r == ssa.Value(txP) && len(p) >= 1 && p[len(p)-1] == f
			}
		}
		sink := func(v ssa.Value) bool {
			r, p := dAddrPath(strip(v))
			return r == ssa.Value(epP) && len(p) == 2 && p[0] == fSpecials && p[1] == fSink
		}
		tm := CallsTo(tf, false, move)
		okTF := len(tm) == 1
		if okTF {
			a := tm[0].Common().Args
			okTF = len(a) == 6 && dIsParam(dRecv(tf))(a[0]) && onTx(fSender)(a[1]) && sink(a[2]) && onTx(fFee)(a[3])
		}
		c.dCheck(okTF, "R24.4", fnName(tf)+":Move(tx.Sender -> FeeSink, tx.Fee)", c.Pos(tf.Pos()), "the fee is moved from the sender to the fee sink through Move")
		stores := StoresToField(tf, false, map[*types.Var]bool{fFC: true})
		okAcc := len(stores) > 0
		for _, s := range stores {
			v := s.(*ssa.Store).Val
			e, ok := v.(*ssa.Extract)
			if !ok || e.Index != 0 {
				okAcc = false
				continue
			}
			call, ok := e.Tuple.(*ssa.Call)
			if !ok || !sameFunc(calleeOf(call.Common()), oadda) {
				okAcc = false
				continue
			}
			a := call.Common().Args
			cur := func(v ssa.Value) bool {
				r, p := dAddrPath(strip(v))
				return r == ssa.Value(dRecv(tf)) && len(p) == 1 && p[0] == fFC
			}
			if !((cur(a[0]) && onTx(fFee)(a[1])) || (cur(a[1]) && onTx(fFee)(a[0]))) {
				okAcc = false
			}
		}
		c.dCheck(okAcc, "R24.4", fnName(tf)+":feesCollected=OAddA(feesCollected, tx.Fee)", c.Pos(tf.Pos()), "fees collected accumulate exactly the fee that was moved")
		if len(stores) > 0 {
			c.dMustGuard(dGuardSpec{Rule: "R24.4", Fn: tf, Effects: stores, EffName: "feesCollected+=tx.Fee", Guards: []Guard{
				GErrNil("Move()==nil", dResultOf(0, move)),
				GCmp("tx.Sender!=FeeSink", token.NEQ, onTx(fSender), sink),
			}})
		}
	}
	dDumpObs(c)
}
