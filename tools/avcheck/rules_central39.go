package main

import (
	"go/token"
	"go/types"
	"sort"
	"strings"

	"golang.org/x/tools/go/ssa"
)

// R40.7 (after seed C40-2): the generated marshalers order map keys with the
// Sort* helper types named in //msgp:sort directives, while the reflection
// codec (and every other implementation) orders integer keys numerically and
// strings bytewise. The two encoders produce the same bytes only if Less is
// that order exactly — `a[i] < a[j]` on the key type, not a subtraction cast
// to int, which flips for keys 2^63 apart.
func init() {
	extend("C40", Extension{
		Run:         ruleSortersAreTheCanonicalOrder,
		Explanation: "R40.7 (the map-key sorters are the canonical order): for every slice type of the module named Sort… that has Len/Less/Swap and whose elements are integers or strings, Less(i, j) returns exactly the comparison a[i] < a[j] of the two elements in their own type (for byte-array elements: bytes.Compare(a[i][:], a[j][:]) < 0); these are the types the generated marshalers sort map keys with, and canonical msgpack orders unsigned keys numerically, so a comparison through subtraction or a signed conversion writes maps with keys 2^63 apart in an order protocol.EncodeReflect and other implementations do not produce. Sorters over struct elements are not decided.",
		Floor:       map[string]int{"R40.7": 9},
	})
}

func ruleSortersAreTheCanonicalOrder(c *Ctx) {
	const rule = "R40.7"
	type sorter struct {
		name string
		less *ssa.Function
		elem types.Type
	}
	var sorters []sorter
	for _, sp := range c.SSAPkg {
		if sp == nil || sp.Pkg == nil || !inModule(sp.Pkg.Path()) {
			continue
		}
		for name, mem := range sp.Members {
			t, ok := mem.(*ssa.Type)
			if !ok || !strings.HasPrefix(name, "Sort") {
				continue
			}
			sl, ok := t.Type().Underlying().(*types.Slice)
			if !ok {
				continue
			}
			ms := c.SSA.MethodSets.MethodSet(t.Type())
			var less *ssa.Function
			has := 0
			for i := 0; i < ms.Len(); i++ {
				switch ms.At(i).Obj().Name() {
				case "Len", "Swap":
					has++
				case "Less":
					has++
					less = c.SSA.MethodValue(ms.At(i))
				}
			}
			if has != 3 || less == nil || len(less.Blocks) == 0 {
				continue
			}
			sorters = append(sorters, sorter{strings.TrimPrefix(sp.Pkg.Path(), Mod+"/") + "." + name, less, sl.Elem()})
		}
	}
	sort.Slice(sorters, func(i, j int) bool { return sorters[i].name < sorters[j].name })
	n := 0
	for _, s := range sorters {
		fn := s.less
		elemOf := func(v ssa.Value, idx *ssa.Parameter) bool {
			ld, ok := strip(v).(*ssa.UnOp)
			if !ok || ld.Op != token.MUL {
				return false
			}
			ia, ok := ld.X.(*ssa.IndexAddr)
			return ok && strip(ia.X) == ssa.Value(fn.Params[0]) && strip(ia.Index) == ssa.Value(idx)
		}
		var ret *ssa.Return
		nret := 0
		for _, b := range fn.Blocks {
			if r, ok := b.Instrs[len(b.Instrs)-1].(*ssa.Return); ok {
				ret = r
				nret++
			}
		}
		switch u := s.elem.Underlying().(type) {
		case *types.Basic:
			if u.Info()&(types.IsInteger|types.IsString) == 0 {
				continue
			}
			n++
			ok := false
			if nret == 1 && len(fn.Params) == 3 && len(ret.Results) == 1 {
				if bo, isBo := ret.Results[0].(*ssa.BinOp); isBo {
					ok = (bo.Op == token.LSS && elemOf(bo.X, fn.Params[1]) && elemOf(bo.Y, fn.Params[2])) ||
						(bo.Op == token.GTR && elemOf(bo.X, fn.Params[2]) && elemOf(bo.Y, fn.Params[1]))
				}
			}
			c.Check(ok, rule, s.name+".Less:a[i] < a[j]", c.Pos(fn.Pos()), "Less is the comparison of the two elements in their own ("+u.Name()+") type")
		case *types.Array:
			n++
			ok := false
			if nret == 1 && len(ret.Results) == 1 {
				if bo, isBo := ret.Results[0].(*ssa.BinOp); isBo && bo.Op == token.LSS && IsConstInt(0)(bo.Y) {
					if call, isCall := bo.X.(*ssa.Call); isCall {
						cal := calleeOf(call.Common())
						if cal != nil && cal.Pkg() != nil && cal.Pkg().Path() == "bytes" && cal.Name() == "Compare" && len(call.Call.Args) == 2 {
							fromElem := func(v ssa.Value, idx *ssa.Parameter) bool {
								sl, isS := strip(v).(*ssa.Slice)
								if !isS {
									return false
								}
								ia, isIA := sl.X.(*ssa.IndexAddr)
								return isIA && strip(ia.X) == ssa.Value(fn.Params[0]) && strip(ia.Index) == ssa.Value(idx)
							}
							ok = fromElem(call.Call.Args[0], fn.Params[1]) && fromElem(call.Call.Args[1], fn.Params[2])
						}
					}
				}
			}
			c.Check(ok, rule, s.name+".Less:bytes.Compare(a[i][:], a[j][:]) < 0", c.Pos(fn.Pos()), "Less is the bytewise comparison of the two elements")
		}
	}
	if n == 0 {
		c.Unk(rule, "Sort* helpers", "-", "no map-key sorter found in the loaded packages")
	}
}
