package main

import (
	"go/token"
	"go/types"
	"sort"
	"strings"

	"golang.org/x/tools/go/ssa"
)

func init() {
	register(&Prop{
		ID:       "C14",
		Patterns: []string{"./ledger"},
		Run:      runC14,
		Explanation: "Decides that the catchpoint label is computed only from values that are functions of the ledger history (block header, persisted account tables, the balances trie), never from a node-local source: " +
			"R14.1 (pure closure) for each function of the label computation proper — ledgercore.MakeLabel, every MakeCatchpointLabelMaker* constructor and every buffer/round/message method of a CatchpointLabelMaker implementation, every trackerdb function that calls finishV6 (the trie-leaf builders), merkletrie.Trie.Add/Delete/RootHash, the instantiations of calculateVerificationHash used by the tracker and the verifier, and catchpointTracker.getSPVerificationData — the static call closure inside the module (static callees, function literals, function values, CatchpointLabelMaker methods resolved to all implementations; other interface calls are not followed) contains no call to time.Now/Since/Until, math/rand, crypto/rand, os.Getenv/LookupEnv/Environ/Hostname/Getpid, runtime.NumCPU/NumGoroutine/GOMAXPROCS, no go statement and no read of a config.Local field. " +
			"R14.2 (provenance) in catchpointTracker.createCatchpoint every argument of every label-maker constructor is the catchpoint-round parameter, the block-hash parameter or a field of the first-stage record parameter (TrieBalancesHash, Totals, StateProofVerificationHash, OnlineAccountsHash, OnlineRoundParamsHash, by constructor position); finishCatchpoint passes its own round and block hash and the record returned by SelectCatchpointFirstStageInfo(round-lookback) on that call's found/nil-error edge; recordFirstStageInfo fills the record's Totals from AccountsTotals(ctx,false), TrieBalancesHash from balancesTrie.RootHash() and the three digests from its parameters; finishFirstStage feeds those parameters only from getSPVerificationData and from calculateVerificationHash over MakeOrderedOnlineAccountsIter / MakeOnlineRoundParamsIter of the live tables (staging=false); the record type is constructed only there (and by the database decoder). " +
			"R14.3 (one version table) createCatchpoint pairs constructor and file version (Current↔V8, V7↔V7, V6↔V6) under the consensus flags EnableCatchpointsWithOnlineAccounts / EnableCatchpointsWithSPContexts only, and VerifyCatchpoint selects the same constructor for the same version number (==, or <= for the oldest). " +
			"R14.4 (trie follows the tables) in catchpointTracker.accountsUpdateBalances every balancesTrie.Delete is given the leaf built from the old record (oldAcct / oldResource / oldData) and every Add the leaf built from the new one (newAcct / newResource / data), with the encoded bytes taken from the same record as the data pointer. " +
			"Does NOT decide: order-sensitivity of map iterations in the closure (separate T11 engine), interface calls out of the closure (database drivers, logging, crypto.Hashable implementations), canonicity of the trie root for a leaf set (C17) or of msgpack encodings, that flush/restart schedules leave the same rows in the tables (C08/C09), nor the KV-leaf ambiguity of C15 (which also lets restart-time trie rebuilds differ from incremental maintenance when two boxes collide).",
		Assumptions: []string{"interface calls leaving the closure (trackerdb readers, merkle committer, logging) return the persisted data unchanged", "crypto.Hash/HashObj and protocol.Encode are deterministic"},
		Floor:       map[string]int{"R14.1": 22, "R14.2": 16, "R14.3": 10, "R14.4": 6},
	})
}

// c14Nondet classifies an instruction as a nondeterminism source.
func c14Nondet(in ssa.Instruction, cfgLocal *types.Named) string {
	switch x := in.(type) {
	case *ssa.Go:
		return "go statement"
	case ssa.CallInstruction:
		pkg, name := libCCalleePkgName(x.Common())
		switch pkg {
		case "time":
			switch name {
			case "Now", "Since", "Until":
				return "time." + name
			}
		case "math/rand", "math/rand/v2", "crypto/rand":
			return pkg + "." + name
		case "os":
			switch name {
			case "Getenv", "LookupEnv", "Environ", "Hostname", "Getpid":
				return "os." + name
			}
		case "runtime":
			switch name {
			case "NumCPU", "NumGoroutine", "GOMAXPROCS":
				return "runtime." + name
			}
		}
	}
	isLocal := func(t types.Type) bool {
		if p, ok := t.Underlying().(*types.Pointer); ok {
			t = p.Elem()
		}
		nt, ok := types.Unalias(t).(*types.Named)
		return ok && cfgLocal != nil && nt.Origin() == cfgLocal.Origin()
	}
	switch x := in.(type) {
	case *ssa.FieldAddr:
		if isLocal(x.X.Type()) {
			return "read of config.Local." + structField(x.X.Type(), x.Field).Name()
		}
	case *ssa.Field:
		if isLocal(x.X.Type()) {
			return "read of config.Local." + structField(x.X.Type(), x.Field).Name()
		}
	}
	return ""
}

func runC14(c *Ctx) {
	tdb := "ledger/store/trackerdb"
	lc := "ledger/ledgercore"
	ct := "ledger.catchpointTracker"

	mkV6 := c.Func(lc + ".MakeCatchpointLabelMakerV6")
	mkV7 := c.Func(lc + ".MakeCatchpointLabelMakerV7")
	mkCur := c.Func(lc + ".MakeCatchpointLabelMakerCurrent")
	ctors := []*types.Func{mkV6, mkV7, mkCur}
	calcVH := c.Func("ledger.calculateVerificationHash")
	getSP := c.Func(ct + ".getSPVerificationData")
	onlAcctIter := c.Func(tdb + ".Reader.MakeOrderedOnlineAccountsIter")
	onlRPIter := c.Func(tdb + ".Reader.MakeOnlineRoundParamsIter")
	infoT := c.Named(tdb + ".CatchpointFirstStageInfo")
	fTrie := c.Field(tdb + ".CatchpointFirstStageInfo.TrieBalancesHash")
	fTot := c.Field(tdb + ".CatchpointFirstStageInfo.Totals")
	fSP := c.Field(tdb + ".CatchpointFirstStageInfo.StateProofVerificationHash")
	fOA := c.Field(tdb + ".CatchpointFirstStageInfo.OnlineAccountsHash")
	fORP := c.Field(tdb + ".CatchpointFirstStageInfo.OnlineRoundParamsHash")
	cfgLocal := c.Named("config.Local")

	// ---- R14.1 ----
	{
		ifaceNamed := c.Named(lc + ".CatchpointLabelMaker")
		iface, _ := ifaceNamed.Underlying().(*types.Interface)
		makers := c.libCImplementors(lc, iface)
		ifaceMethods := map[*types.Func][]*ssa.Function{}
		var entries []*ssa.Function
		add := func(f *ssa.Function) {
			if f != nil {
				entries = append(entries, f)
			}
		}
		add(c.Fn(lc + ".MakeLabel"))
		for _, f := range ctors {
			add(c.SSAOf(f))
		}
		for i := 0; iface != nil && i < iface.NumMethods(); i++ {
			m := iface.Method(i)
			for _, nt := range makers {
				if impl := c.SSAOf(libCMethod(nt, m.Name())); impl != nil {
					ifaceMethods[m] = append(ifaceMethods[m], impl)
					add(impl)
				}
			}
		}
		finish := c.Func(tdb + ".finishV6")
		seen := map[*ssa.Function]bool{}
		for _, s := range c.Uses([]*types.Func{finish}, ScanOpts{SkipGenerated: true}) {
			if f, ok := c.TryObj(s.Func).(*types.Func); ok {
				if fn := c.SSAOf(f); fn != nil && !seen[fn] {
					seen[fn] = true
					add(fn)
				}
			}
		}
		add(c.Fn("crypto/merkletrie.Trie.Add"))
		add(c.Fn("crypto/merkletrie.Trie.Delete"))
		add(c.Fn("crypto/merkletrie.Trie.RootHash"))
		add(c.Fn(ct + ".getSPVerificationData"))
		// instantiations of calculateVerificationHash in use
		inst := map[*ssa.Function]bool{}
		for _, host := range []*ssa.Function{c.Fn(ct + ".finishFirstStage"), c.Fn("ledger.catchpointCatchupAccessorImpl.GetVerifyData")} {
			for _, ci := range CallsTo(host, true, calcVH) {
				if sf := ci.Common().StaticCallee(); sf != nil && sf.Blocks != nil && !inst[sf] {
					inst[sf] = true
					add(sf)
				}
			}
		}
		if len(inst) < 2 {
			c.Unk("R14.1", "ledger.calculateVerificationHash:instantiations", "-", "expected the online-accounts and online-round-params instantiations, found "+itoa(len(inst)))
		}
		invoke := func(cc *ssa.CallCommon) []*ssa.Function {
			for m, impls := range ifaceMethods {
				if sameFunc(cc.Method, m) {
					return impls
				}
			}
			return nil
		}
		keyN := map[string]int{}
		for _, e := range entries {
			order, pred := c.libCClosure([]*ssa.Function{e}, invoke)
			bad := ""
			var pos token.Pos
			for _, f := range order {
				c.NoteFn(fnName(f))
				for _, b := range f.Blocks {
					for _, in := range b.Instrs {
						if why := c14Nondet(in, cfgLocal); why != "" && bad == "" {
							bad = why + " in " + fnName(f) + " (reached: " + libCChain(pred, f) + ")"
							pos = in.Pos()
						}
					}
				}
			}
			name := fnName(e)
			if e.Origin() != nil && len(e.TypeArgs()) > 0 {
				name = fnName(e.Origin()) + "[" + types.TypeString(e.TypeArgs()[0], func(p *types.Package) string { return relPkg(p.Path()) }) + "]"
			}
			keyN[name]++
			if bad != "" {
				c.Bad("R14.1", "closure("+name+")", c.Pos(pos), "nondeterminism source in the label computation: "+bad)
			} else {
				c.Ok("R14.1", "closure("+name+")", c.Pos(e.Pos()), itoa(len(order))+" module function(s) in the static closure, none calls a clock/random/environment source, starts a goroutine or reads config.Local")
			}
		}
	}

	// ---- R14.2 ----
	create := c.Fn(ct + ".createCatchpoint")
	createName := fnName(create)
	roundT := c.Named("data/basics.Round")
	digestT := c.Named("crypto.Digest")
	var pInfo, pHash *ssa.Parameter
	for _, p := range create.Params {
		if types.Identical(p.Type(), infoT) {
			pInfo = p
		}
		if types.Identical(p.Type(), digestT) {
			pHash = p
		}
	}
	paramCell := func(addr ssa.Value, p *ssa.Parameter) bool {
		a, ok := addr.(*ssa.Alloc)
		if !ok || p == nil {
			return false
		}
		st := localStores(a)
		return len(st) == 1 && st[0] == ssa.Value(p)
	}
	infoFieldAddr := func(v ssa.Value, f *types.Var) bool {
		fa, ok := v.(*ssa.FieldAddr)
		return ok && structField(fa.X.Type(), fa.Field) == f && paramCell(fa.X, pInfo)
	}
	var roundParam *ssa.Parameter
	{
		roles := []struct {
			what string
			ok   func(ssa.Value) bool
		}{
			{"the catchpoint round parameter", func(v ssa.Value) bool {
				roots, ok := libCRoots(v)
				if !ok || len(roots) != 1 {
					return false
				}
				p, isP := roots[0].(*ssa.Parameter)
				if !isP || !types.Identical(p.Type(), roundT) {
					return false
				}
				if roundParam != nil && roundParam != p {
					return false
				}
				roundParam = p
				return true
			}},
			{"&blockHash (parameter)", func(v ssa.Value) bool { return paramCell(v, pHash) }},
			{"&dataInfo.TrieBalancesHash", func(v ssa.Value) bool { return infoFieldAddr(v, fTrie) }},
			{"dataInfo.Totals", func(v ssa.Value) bool { u, ok := v.(*ssa.UnOp); return ok && infoFieldAddr(u.X, fTot) }},
			{"&dataInfo.StateProofVerificationHash", func(v ssa.Value) bool { return infoFieldAddr(v, fSP) }},
			{"&dataInfo.OnlineAccountsHash", func(v ssa.Value) bool { return infoFieldAddr(v, fOA) }},
			{"&dataInfo.OnlineRoundParamsHash", func(v ssa.Value) bool { return infoFieldAddr(v, fORP) }},
		}
		calls := CallsTo(create, true, ctors...)
		if pInfo == nil || pHash == nil || len(calls) == 0 {
			c.Unk("R14.2", createName+":shape", c.Pos(create.Pos()), "expected CatchpointFirstStageInfo and Digest parameters and label-maker constructor calls")
		}
		for _, ci := range calls {
			ok, detail := true, "arguments are (round, &blockHash, &dataInfo.TrieBalancesHash, dataInfo.Totals, &dataInfo.StateProofVerificationHash, &dataInfo.OnlineAccountsHash, &dataInfo.OnlineRoundParamsHash) as far as the constructor takes them"
			for i, a := range ci.Common().Args {
				if i >= len(roles) || !roles[i].ok(a) {
					ok = false
					detail = "argument #" + itoa(i) + " is not " + roles[min(i, len(roles)-1)].what + ": " + describe(a)
					break
				}
			}
			c.Check(ok, "R14.2", createName+":"+calleeOf(ci.Common()).Name()+"(args)", c.Pos(ci.Pos()), detail)
		}
	}
	// finishCatchpoint
	{
		fn := c.Fn(ct + ".finishCatchpoint")
		name := fnName(fn)
		sel := c.Func(tdb + ".CatchpointReader.SelectCatchpointFirstStageInfo")
		createF := c.Func(ct + ".createCatchpoint")
		cc := CallsTo(fn, true, createF)
		sc := CallsTo(fn, true, sel)
		if len(cc) != 1 || len(sc) != 1 {
			c.Unk("R14.2", name+":shape", c.Pos(fn.Pos()), "expected one createCatchpoint and one SelectCatchpointFirstStageInfo call")
		} else {
			call, scall := libCCall(cc[0]), libCCall(sc[0])
			args := call.Common().Args
			ok, detail := true, "createCatchpoint gets finishCatchpoint's own round and block hash and the record selected for round-lookback"
			ip, ih, ir := libCParamIndex(create, pInfo), libCParamIndex(create, pHash), libCParamIndex(create, roundParam)
			if ip < 0 || ih < 0 || ir < 0 || ip >= len(args) {
				ok, detail = false, "cannot identify createCatchpoint's parameters"
			} else {
				if !c16IsExtract(scall, 0)(args[ip]) {
					ok, detail = false, "the first-stage record is not the result of SelectCatchpointFirstStageInfo: "+describe(args[ip])
				}
				if p, isP := args[ih].(*ssa.Parameter); !isP || !types.Identical(p.Type(), digestT) {
					ok, detail = false, "the block hash is not finishCatchpoint's parameter"
				}
				rp, isP := args[ir].(*ssa.Parameter)
				if !isP || !types.Identical(rp.Type(), roundT) {
					ok, detail = false, "the label round is not finishCatchpoint's round parameter"
				} else {
					// the record is selected for round - lookback
					sa := scall.Common().Args
					bo, isBo := sa[len(sa)-1].(*ssa.BinOp)
					if !isBo || bo.Op != token.SUB || bo.X != ssa.Value(rp) {
						ok, detail = false, "the first-stage record is not selected for round - catchpointLookback"
					}
				}
			}
			c.Check(ok, "R14.2", name+":createCatchpoint(round,blockHash,SelectCatchpointFirstStageInfo(round-lookback))", c.Pos(call.Pos()), detail)
			c.MustGuard(MustGuardSpec{Rule: "R14.2", Fn: fn, Effects: []ssa.Instruction{call}, EffName: "createCatchpoint", Guards: []Guard{
				GErrNil("Select… err==nil", c16IsExtract(scall, 2)), GBool("record exists", c16IsExtract(scall, 1), true)}})
		}
	}
	// recordFirstStageInfo and finishFirstStage
	{
		rec := c.Fn(ct + ".recordFirstStageInfo")
		rname := fnName(rec)
		totalsF := c.Func(tdb + ".AccountsReaderExt.AccountsTotals")
		rootHash := c.Func("crypto/merkletrie.Trie.RootHash")
		fBT := c.Field(ct + ".balancesTrie")
		insert := c.Func(tdb + ".CatchpointWriter.InsertOrReplaceCatchpointFirstStageInfo")
		ins := CallsTo(rec, true, insert)
		var infoCell ssa.Value
		if len(ins) == 1 {
			a := ins[0].Common().Args
			infoCell = strip(a[len(a)-1])
		}
		if _, ok := infoCell.(*ssa.Alloc); !ok {
			c.Unk("R14.2", rname+":info", c.Pos(rec.Pos()), "the record passed to InsertOrReplaceCatchpointFirstStageInfo is not a local composite")
		} else {
			// the record cell and the composite-literal temporaries copied into it
			cells := []ssa.Value{infoCell}
			for i := 0; i < len(cells) && i < 4; i++ {
				for _, v := range localStores(cells[i].(*ssa.Alloc)) {
					if u, ok := v.(*ssa.UnOp); ok && u.Op == token.MUL {
						if a, ok := u.X.(*ssa.Alloc); ok {
							cells = append(cells, a)
						}
					}
				}
			}
			fieldVals := func(f *types.Var) []ssa.Value {
				var out []ssa.Value
				for _, cell := range cells {
					for _, r := range *cell.Referrers() {
						if fa, ok := r.(*ssa.FieldAddr); ok && structField(fa.X.Type(), fa.Field) == f {
							for _, u := range *fa.Referrers() {
								if st, ok := u.(*ssa.Store); ok && st.Addr == ssa.Value(fa) {
									out = append(out, st.Val)
								}
							}
						}
					}
				}
				return out
			}
			one := func(f *types.Var, what string, pred func(ssa.Value) bool) ssa.Value {
				vs := fieldVals(f)
				ok := len(vs) == 1 && pred(vs[0])
				detail := what
				if len(vs) != 1 {
					detail = "expected one store to the field, found " + itoa(len(vs))
				} else if !ok {
					detail = "field is " + describe(vs[0]) + ", expected " + what
				}
				c.Check(ok, "R14.2", rname+":info."+f.Name(), c.Pos(rec.Pos()), detail)
				if ok {
					return vs[0]
				}
				return nil
			}
			one(fTot, "AccountsTotals(ctx, false) of the live tables", func(v ssa.Value) bool {
				call, ok := libCCallOfResult(v, 0, totalsF)
				return ok && IsConstBool(false)(call.Common().Args[len(call.Common().Args)-1])
			})
			one(fTrie, "ct.balancesTrie.RootHash()", func(v ssa.Value) bool {
				ok, _ := libCAllRootsLoose(v, func(r ssa.Value) bool {
					call, ok := libCCallOfResult(r, 0, rootHash)
					return ok && Mentions(call.Common().Args[0], fBT, 4)
				})
				return ok
			})
			asDigestParam := func(v ssa.Value) *ssa.Parameter {
				if v == nil {
					return nil
				}
				roots, _ := libCRoots(v)
				if len(roots) != 1 {
					return nil
				}
				p, ok := roots[0].(*ssa.Parameter)
				if !ok || !types.Identical(p.Type(), digestT) {
					return nil
				}
				return p
			}
			isDigestParam := func(v ssa.Value) bool { return asDigestParam(v) != nil }
			pSP := asDigestParam(one(fSP, "a digest parameter", isDigestParam))
			pOA := asDigestParam(one(fOA, "a digest parameter", isDigestParam))
			pORP := asDigestParam(one(fORP, "a digest parameter", isDigestParam))
			distinct := pSP != nil && pOA != nil && pORP != nil && pSP != pOA && pOA != pORP && pSP != pORP
			c.Check(distinct, "R14.2", rname+":three-distinct-digest-parameters", c.Pos(rec.Pos()), "the three digests of the record come from three different parameters")

			ffs := c.Fn(ct + ".finishFirstStage")
			fname := fnName(ffs)
			recF := c.Func(ct + ".recordFirstStageInfo")
			rc := CallsTo(ffs, true, recF)
			if len(rc) != 1 || !distinct {
				c.Unk("R14.2", fname+":recordFirstStageInfo", c.Pos(ffs.Pos()), "expected one recordFirstStageInfo call")
			} else {
				args := rc[0].Common().Args
				liveVH := func(iter *types.Func) func(ssa.Value) bool {
					return func(v ssa.Value) bool {
						call, ok := libCCallOfResult(v, 0, calcVH)
						if !ok {
							return false
						}
						a := call.Common().Args
						return len(a) == 4 && c16MentionsFunc(a[1], iter) && IsConstBool(false)(a[3])
					}
				}
				for _, w := range []struct {
					p    *ssa.Parameter
					what string
					pred func(ssa.Value) bool
				}{
					{pSP, "getSPVerificationData()#1", func(v ssa.Value) bool { _, ok := libCCallOfResult(v, 1, getSP); return ok }},
					{pOA, "calculateVerificationHash(MakeOrderedOnlineAccountsIter…, staging=false)#0", liveVH(onlAcctIter)},
					{pORP, "calculateVerificationHash(MakeOnlineRoundParamsIter, staging=false)#0", liveVH(onlRPIter)},
				} {
					i := libCParamIndex(rec, w.p)
					ok, why := false, "parameter not found"
					if i >= 0 && i < len(args) {
						ok, why = libCAllRootsLoose(args[i], w.pred)
					}
					detail := "every value that can reach the argument is " + w.what + " (or the zero digest when the feature is off)"
					if !ok {
						detail = why + "; expected " + w.what
					}
					c.Check(ok, "R14.2", fname+":recordFirstStageInfo("+w.p.Name()+")", c.Pos(rc[0].Pos()), detail)
				}
			}
		}
		only := []string{"ledger/..."}
		if c.Thorough {
			only = nil
		}
		c.OwnerRule("R14.2", "literal(CatchpointFirstStageInfo)", c.Literals(infoT, true, ScanOpts{SkipGenerated: true, OnlyPkgs: only, SkipPkgs: []string{"test/...", "tools/...", "cmd/..."}}), map[string]string{
			"ledger.catchpointTracker.recordFirstStageInfo": "the producer of the first-stage record",
		})
	}

	// ---- R14.3 ----
	{
		fEnableOA := c.Field("config.ConsensusParams.EnableCatchpointsWithOnlineAccounts")
		fEnableSP := c.Field("config.ConsensusParams.EnableCatchpointsWithSPContexts")
		verK := map[*types.Func]*types.Const{mkV6: c.Const("ledger.CatchpointFileVersionV6"), mkV7: c.Const("ledger.CatchpointFileVersionV7"), mkCur: c.Const("ledger.CatchpointFileVersionV8")}
		// producer: phi(labelMaker) and phi(version) over the same predecessors
		prod := map[*types.Func]int64{}
		var lmPhi *ssa.Phi
		mls := CallsTo(create, false, c.Func(lc+".MakeLabel"))
		if len(mls) == 1 {
			lmPhi, _ = mls[0].Common().Args[0].(*ssa.Phi)
		}
		okProd, detailProd := lmPhi != nil, "MakeLabel's argument is not a phi over the constructor results"
		if lmPhi != nil {
			var verPhi *ssa.Phi
			for _, in := range lmPhi.Block().Instrs {
				p, ok := in.(*ssa.Phi)
				if !ok || p == lmPhi {
					continue
				}
				all := true
				for _, e := range p.Edges {
					if _, isK := libCConstVal(e); !isK {
						all = false
					}
				}
				if all && types.Identical(p.Type(), types.Typ[types.Uint64]) {
					verPhi = p
				}
			}
			if verPhi == nil {
				okProd, detailProd = false, "no version phi of constants next to the label-maker phi"
			} else {
				detailProd = "file version paired with each constructor: "
				for i, e := range lmPhi.Edges {
					call, isRes := libCCallOfResult(strip(e), 0, ctors...)
					n, _ := libCConstVal(verPhi.Edges[i])
					if !isRes {
						okProd, detailProd = false, "a label maker is not a constructor result"
						break
					}
					f := calleeOf(call.Common())
					prod[f.Origin()] = n
					want, _ := constInt64(verK[f.Origin()])
					if n != want {
						okProd = false
					}
					detailProd += f.Name() + "↔" + itoa(int(n)) + " "
				}
			}
		}
		c.Check(okProd && len(prod) == 3, "R14.3", createName+":constructor↔version(Current↔V8,V7↔V7,V6↔V6)", c.Pos(create.Pos()), detailProd)
		// producer conditions are consensus flags
		flag := func(f *types.Var, want bool) Guard {
			return GBool(f.Name()+"=="+map[bool]string{true: "true", false: "false"}[want], func(v ssa.Value) bool { return Mentions(v, f, 3) }, want)
		}
		for _, w := range []struct {
			f  *types.Func
			gs []Guard
		}{
			{mkCur, []Guard{flag(fEnableOA, true), flag(fEnableSP, true)}},
			{mkV7, []Guard{flag(fEnableOA, false), flag(fEnableSP, true)}},
			{mkV6, []Guard{flag(fEnableOA, false), flag(fEnableSP, false)}},
		} {
			// after the C16 repair (R16.9) a catchpoint whose first stage ran before the online-accounts switch
			// is labelled V7/V6 although the flag is set at the catchpoint round: the false side of a test
			// derived from IsZero() of the first-stage record's online hashes legitimately skips the flag guard
			firstStageNoOnline := GBool("first stage recorded online hashes == false", func(v ssa.Value) bool {
				found := false
				walkDef(v, 6, func(x ssa.Value) bool {
					if z, ok := x.(*ssa.Call); ok {
						if cal := calleeOf(z.Common()); cal != nil && cal.Name() == "IsZero" {
							a := callArgs(z.Common())
							if len(a) == 1 && (Mentions(a[0], c.Field("ledger/store/trackerdb.CatchpointFirstStageInfo.OnlineAccountsHash"), 4) || Mentions(a[0], c.Field("ledger/store/trackerdb.CatchpointFirstStageInfo.OnlineRoundParamsHash"), 4)) {
								found = true
							}
						}
					}
					return !found
				})
				return found
			}, false)
			c.MustGuard(MustGuardSpec{Rule: "R14.3", Fn: create, Effects: asInstrs(CallsTo(create, false, w.f)), EffName: w.f.Name(), Guards: w.gs, Bypass: []Guard{firstStageNoOnline}})
		}
		// verifier
		ver := c.Fn("ledger.catchpointCatchupAccessorImpl.VerifyCatchpoint")
		readU64 := c.Func(tdb + ".CatchpointReader.ReadCatchpointStateUint64")
		kVersion := c.Const(tdb + ".CatchpointStateCatchupVersion")
		version := c16KeyCall(0, readU64, kVersion)
		type kf struct {
			f *types.Func
			n int64
		}
		var ks []kf
		for f, n := range prod {
			ks = append(ks, kf{f, n})
		}
		sort.Slice(ks, func(i, j int) bool { return ks[i].n < ks[j].n })
		for i, k := range ks {
			alts := []Guard{GCmp("version=="+itoa(int(k.n)), token.EQL, version, IsConstInt(k.n))}
			if i == 0 {
				alts = append(alts, GCmp("version<="+itoa(int(k.n)), token.LEQ, version, IsConstInt(k.n)), GCmp("version<"+itoa(int(k.n)+1), token.LSS, version, IsConstInt(k.n+1)))
			}
			g := GAnyOf("version selects "+k.f.Name()+" ("+itoa(int(k.n))+")", alts...)
			c.MustGuard(MustGuardSpec{Rule: "R14.3", Fn: ver, Effects: asInstrs(CallsTo(ver, false, k.f)), EffName: k.f.Name(), Guards: []Guard{g}})
		}
	}

	// ---- R14.4 ----
	{
		fn := c.Fn(ct + ".accountsUpdateBalances")
		name := fnName(fn)
		trieAdd, trieDel := c.Func("crypto/merkletrie.Trie.Add"), c.Func("crypto/merkletrie.Trie.Delete")
		bAcct, bRes, bKv := c.Func(tdb+".AccountHashBuilderV6"), c.Func(tdb+".ResourcesHashBuilderV6"), c.Func(tdb+".KvHashBuilderV6")
		encode := c.Func("protocol.Encode")
		oldF := []*types.Var{c.Field("ledger.accountDelta.oldAcct"), c.Field("ledger.resourceDelta.oldResource"), c.Field("ledger.modifiedKvValue.oldData")}
		newF := []*types.Var{c.Field("ledger.accountDelta.newAcct"), c.Field("ledger.resourceDelta.newResource"), c.Field("ledger.modifiedKvValue.data")}
		mentionsAny := func(v ssa.Value, fs []*types.Var) bool {
			for _, f := range fs {
				if libCMentions(v, f) {
					return true
				}
			}
			return false
		}
		n := map[string]int{}
		for _, side := range []struct {
			op         *types.Func
			must, none []*types.Var
			word       string
		}{{trieDel, oldF, newF, "old"}, {trieAdd, newF, oldF, "new"}} {
			for _, ci := range CallsTo(fn, false, side.op) {
				arg := ci.Common().Args[1]
				call, isRes := libCCallOfResult(resolveLocalAny(resolveLocal(arg, nil)), 0, bAcct, bRes, bKv)
				b := "?"
				ok, detail := isRes, "the leaf is not the direct result of a trackerdb hash builder: "+describe(arg)
				if isRes {
					b = calleeOf(call.Common()).Name()
					args := call.Common().Args
					payload := args[len(args)-1]
					ok = mentionsAny(payload, side.must) && !mentionsAny(payload, side.none)
					detail = "balancesTrie." + side.op.Name() + " is given " + b + " over the " + side.word + " record"
					if !ok {
						detail = "balancesTrie." + side.op.Name() + " must be given the leaf of the " + side.word + " record, but the hashed bytes are " + describe(payload)
					}
					if ok && !sameFunc(calleeOf(call.Common()), bKv) {
						// encoded bytes = protocol.Encode(same record as the data pointer)
						enc := libCMentionsCall(payload, encode)
						var dataPtr ssa.Value
						for _, a := range args {
							if _, isPtr := a.Type().Underlying().(*types.Pointer); isPtr {
								dataPtr = a
							}
						}
						if enc == nil || dataPtr == nil || strip(enc.Common().Args[0]) != dataPtr && !c14SameAddr(strip(enc.Common().Args[0]), dataPtr) {
							ok = false
							detail = b + ": the encoded bytes are not protocol.Encode of the record passed as data pointer"
						}
					}
				}
				n[side.op.Name()+":"+b]++
				c.Check(ok, "R14.4", name+":"+side.op.Name()+"("+b+" of "+side.word+")", c.Pos(ci.Pos()), detail)
			}
		}
		for _, want := range []string{"Delete:AccountHashBuilderV6", "Delete:ResourcesHashBuilderV6", "Delete:KvHashBuilderV6", "Add:AccountHashBuilderV6", "Add:ResourcesHashBuilderV6", "Add:KvHashBuilderV6"} {
			if n[want] == 0 {
				c.Bad("R14.4", name+":"+strings.Replace(want, ":", "(", 1)+")-missing", c.Pos(fn.Pos()), "accountsUpdateBalances no longer performs "+want+": the trie would not follow that table")
			}
		}
	}
}

// c14SameAddr: two address expressions denote the same field path on the same base.
func c14SameAddr(a, b ssa.Value) bool {
	for i := 0; i < 6; i++ {
		if a == b {
			return true
		}
		fa, ok1 := a.(*ssa.FieldAddr)
		fb, ok2 := b.(*ssa.FieldAddr)
		if !ok1 || !ok2 || fa.Field != fb.Field || !types.Identical(fa.X.Type(), fb.X.Type()) {
			return false
		}
		a, b = fa.X, fb.X
	}
	return false
}
