package main

import (
	"go/token"
	"go/types"

	"golang.org/x/tools/go/ssa"
)

// Rules added after the second wave of independently seeded changes
// (C03-2, C20-2, C22-2, C14-2, C11-2, C23-2).
func init() {
	extend("C03", Extension{
		Run:         ruleEventVersionFromOwnRound,
		Explanation: "R03.5 (a vote is judged under the consensus parameters of its own round): wherever package agreement stamps an event with a consensus version (AttachConsensusVersion), the version is LedgerReader.ConsensusVersion(ParamsRound(x)) with x the result of that event's own ConsensusRound() — never the node's current round — so cert votes pipelined for the next round are counted against the next round's threshold and the certificate built from them reaches it.",
		Floor:       map[string]int{"R03.5": 2},
	})
	extend("C20", Extension{
		Run:         func(c *Ctx) { ruleVotersReloadInclusiveAs(c, "R20.6") },
		Explanation: "R20.6 (block validity does not depend on restart history): same obligation as R13.6 — the voters trees are rebuilt on load for every voters round up to and including the tracker DB round; a missing tree makes the evaluator use an empty state-proof voters commitment, so a restarted node would assemble a block every other node rejects.",
		Floor:       map[string]int{"R20.6": 2},
		Patterns:    []string{"./ledger"},
	})
	extend("C22", Extension{
		Run:         ruleCloseOutRecheckAfterCredit,
		Explanation: "R22.8 (close-out re-reads the holding after crediting the close-to address): in AssetTransfer the GetAssetHolding whose Amount must be zero before DeleteAssetHolding comes after the putIn that credits AssetCloseTo — the re-read is the only thing that rejects a close-out to the sender itself, where the credit lands in the very holding about to be deleted.",
		Floor:       map[string]int{"R22.8": 1},
	})
	extend("C14", Extension{
		Run:         ruleCrashRecoveryUsesFullHorizonFilter,
		Explanation: "R14.7 (a first stage redone after a crash hashes the same rows): finishFirstStageAfterCrash calls finishFirstStage with onlineAccountsForgetBefore = 0, which makes finishFirstStage compute the 320-round horizon itself and filter older rows — any other value assumes how far the interrupted commit pruned the online tables, which depends on the voters tracker's history at the time, and yields different online hashes (and label) than on a node that did not crash.",
		Floor:       map[string]int{"R14.7": 1},
	})
	extend("C11", Extension{
		Run:         ruleNoCopyIntoEmptySlice,
		Explanation: "R11.7 (the reloaded tail keeps every entry): in package ledger no copy() has as destination a slice freshly made with length 0 (make(T, 0, n)) — such a copy moves nothing, which in txTail.loadFromDisk's buffer growth silently drops the transaction ids collected so far, so after a restart committed transactions are no longer recognised as duplicates.",
		Floor:       map[string]int{"R11.7": 1},
	})
	extend("C23", Extension{
		Run:         ruleCompactKvKeepsFirstOldData,
		Explanation: "R23.7 (a flushed span is judged against what is on disk): in compactKvDeltas the oldData of a merged KV entry is taken from the FIRST round of the span only (the store is reachable only when the key was not yet in the output map) — accountsNewRoundImpl and the catchpoint trie treat oldData as the value currently on disk to skip unchanged writes and to pick the leaf to delete; taking it from a later round loses or corrupts a box on disk while the account's box counters stay unchanged.",
		Floor:       map[string]int{"R23.7": 1},
		Patterns:    []string{"./ledger"},
	})
}

func ruleEventVersionFromOwnRound(c *Ctx) {
	const rule = "R03.5"
	paramsRound := c.Func("agreement.ParamsRound")
	n := 0
	for _, fn := range c.funcsOf(Mod + "/agreement") {
		for _, b := range fn.Blocks {
			for _, in := range b.Instrs {
				call, ok := in.(*ssa.Call)
				if !ok {
					continue
				}
				cal := calleeOf(call.Common())
				if cal == nil || cal.Name() != "ConsensusVersion" {
					continue
				}
				args := callArgs(call.Common())
				if len(args) != 2 {
					continue
				}
				pr, isPR := asResultOf(args[1], -1, paramsRound)
				if !isPR {
					continue
				}
				// only version lookups that feed AttachConsensusVersion
				feeds := false
				for _, b2 := range fn.Blocks {
					for _, in2 := range b2.Instrs {
						if c2, ok := in2.(*ssa.Call); ok {
							if cal2 := calleeOf(c2.Common()); cal2 != nil && cal2.Name() == "AttachConsensusVersion" {
								// the version view is a struct literal filled from this lookup; it is enough that
								// the stamping happens in the same function as the lookup
								feeds = true
							}
						}
					}
				}
				if !feeds {
					continue
				}
				n++
				x := strip(pr.Common().Args[0])
				okx := false
				if xc, isCall := x.(*ssa.Call); isCall {
					if xcal := calleeOf(xc.Common()); xcal != nil && xcal.Name() == "ConsensusRound" {
						okx = true
					}
				}
				c.Check(okx, rule, fnName(fn)+":ConsensusVersion(ParamsRound(e.ConsensusRound()))", c.Pos(call.Pos()), "the version attached to an event is looked up for that event's own consensus round")
			}
		}
	}
	if n == 0 {
		c.Unk(rule, "agreement:version stamps", "-", "no ConsensusVersion(ParamsRound(…)) feeding AttachConsensusVersion found")
	}
}

func ruleCloseOutRecheckAfterCredit(c *Ctx) {
	const rule = "R22.8"
	fn := c.Fn("ledger/apply.AssetTransfer")
	name := "ledger/apply.AssetTransfer"
	del := c.Func("ledger/apply.Balances.DeleteAssetHolding")
	get := c.Func("ledger/apply.Balances.GetAssetHolding")
	putIn := c.Func("ledger/apply.putIn")
	fAmount := c.Field("data/basics.AssetHolding.Amount")
	dels := CallsTo(fn, false, del)
	if len(dels) == 0 {
		c.Unk(rule, name+":DeleteAssetHolding", c.Pos(fn.Pos()), "no DeleteAssetHolding call found")
		return
	}
	for _, d := range dels {
		// the zero test that guards d: a comparison on Amount of a GetAssetHolding result
		var reads []*ssa.Call
		for _, b := range fn.Blocks {
			iff, isIf := b.Instrs[len(b.Instrs)-1].(*ssa.If)
			if !isIf {
				continue
			}
			cond, _ := condOf(iff.Cond)
			bo, isBo := cond.(*ssa.BinOp)
			if !isBo || (bo.Op != token.NEQ && bo.Op != token.EQL) {
				continue
			}
			var side ssa.Value
			switch {
			case IsConstInt(0)(bo.Y):
				side = bo.X
			case IsConstInt(0)(bo.X):
				side = bo.Y
			default:
				continue
			}
			if !Mentions(side, fAmount, 5) {
				continue
			}
			if !(b.Succs[0].Dominates(d.Block()) || b.Succs[1].Dominates(d.Block())) {
				continue
			}
			walkDef(side, 8, func(v ssa.Value) bool {
				if call, ok := v.(*ssa.Call); ok && sameFunc(calleeOf(call.Common()), get) {
					reads = append(reads, call)
				}
				return true
			})
		}
		if len(reads) == 0 {
			c.Bad(rule, name+":DeleteAssetHolding<=re-read holding is zero", c.Pos(d.Pos()), "no zero test on a re-read holding guards the deletion")
			continue
		}
		ok := false
		for _, g := range reads {
			for _, p := range CallsTo(fn, false, putIn) {
				// the credit of the close-to address (not the ordinary transfer to AssetReceiver)
				if len(p.Common().Args) < 2 || !Mentions(p.Common().Args[1], c.Field("data/transactions.AssetTransferTxnFields.AssetCloseTo"), 5) {
					continue
				}
				if Dominates(p, g) && Dominates(g, d) {
					ok = true
				}
			}
		}
		c.Check(ok, rule, name+":holding re-read after putIn(AssetCloseTo) and before DeleteAssetHolding", c.Pos(d.Pos()), "the holding whose emptiness allows the deletion is read after the close-to address was credited")
	}
}

func ruleCrashRecoveryUsesFullHorizonFilter(c *Ctx) {
	const rule = "R14.7"
	fn := c.Fn("ledger.catchpointTracker.finishFirstStageAfterCrash")
	ffs := c.Func("ledger.catchpointTracker.finishFirstStage")
	calls := CallsTo(fn, false, ffs)
	if len(calls) == 0 {
		c.Unk(rule, "ledger.catchpointTracker.finishFirstStageAfterCrash:finishFirstStage", c.Pos(fn.Pos()), "no call to finishFirstStage found")
		return
	}
	sig := ffs.Type().(*types.Signature)
	idx := -1
	for i := 0; i < sig.Params().Len(); i++ {
		if sig.Params().At(i).Name() == "onlineAccountsForgetBefore" {
			idx = i + 1 // + receiver
		}
	}
	if idx < 0 {
		// by type: the second Round-typed parameter
		seen := 0
		for i := 0; i < sig.Params().Len(); i++ {
			if nt, ok := sig.Params().At(i).Type().(*types.Named); ok && nt.Obj().Name() == "Round" {
				seen++
				if seen == 2 {
					idx = i + 1
				}
			}
		}
	}
	for _, ci := range calls {
		args := ci.Common().Args
		ok := idx >= 0 && idx < len(args) && IsConstInt(0)(resolveLocalAny(args[idx]))
		c.Check(ok, rule, "ledger.catchpointTracker.finishFirstStageAfterCrash:finishFirstStage(onlineAccountsForgetBefore=0)", c.Pos(ci.Pos()), "crash recovery asks finishFirstStage to compute the horizon and filter older rows itself")
	}
}

func ruleNoCopyIntoEmptySlice(c *Ctx) {
	const rule = "R11.7"
	n, bad := 0, 0
	for _, fn := range c.funcsOf(Mod + "/ledger") {
		for _, b := range fn.Blocks {
			for _, in := range b.Instrs {
				cc, ok := isBuiltinCall(in, "copy")
				if !ok || len(cc.Args) != 2 {
					continue
				}
				n++
				if ms, isMS := resolveLocalAny(cc.Args[0]).(*ssa.MakeSlice); isMS && IsConstInt(0)(ms.Len) {
					bad++
					c.Bad(rule, fnName(fn)+":copy(make(T, 0, n), src)", c.Pos(in.Pos()), "the destination was made with length 0, so copy() moves nothing and the elements of the source are lost")
				}
			}
		}
	}
	if n == 0 {
		c.Unk(rule, "ledger:copy calls", "-", "no copy() call found in package ledger")
		return
	}
	if bad == 0 {
		c.Ok(rule, "ledger:no copy into a zero-length destination", "-", itoa(n)+" copy() calls examined")
	}
}

func ruleCompactKvKeepsFirstOldData(c *Ctx) {
	const rule = "R23.7"
	fn := c.Fn("ledger.compactKvDeltas")
	name := "ledger.compactKvDeltas"
	fOld := c.Field("ledger.modifiedKvValue.oldData")
	stores := StoresToField(fn, false, map[*types.Var]bool{fOld: true})
	if len(stores) == 0 {
		c.Unk(rule, name+":store(oldData)", c.Pos(fn.Pos()), "no store to modifiedKvValue.oldData found")
		return
	}
	// the "already in the output map" flag: comma-ok of a lookup on a local map
	found := GBool("key not yet in the output map", func(v ssa.Value) bool {
		e, ok := v.(*ssa.Extract)
		if !ok || e.Index != 1 {
			return false
		}
		lk, ok := e.Tuple.(*ssa.Lookup)
		if !ok || !lk.CommaOk {
			return false
		}
		_, isLocal := lk.X.(*ssa.MakeMap)
		return isLocal
	}, false)
	edges, matched := PassEdges(fn, found)
	if matched == 0 {
		c.Bad(rule, name+":oldData only from the first round", c.Pos(stores[0].Pos()), "oldData is assigned without testing whether the key was already collected from an earlier round of the span")
		return
	}
	// within one iteration: the store must not be reachable from the lookup without the passing edge
	ok := true
	for _, e := range edges {
		r := NewReachFromBlock(e.From, edges, nil)
		for _, s := range stores {
			if r.Reaches(s) && s.Block() != e.From {
				ok = false
			}
		}
	}
	c.Check(ok, rule, name+":oldData only from the first round", c.Pos(stores[0].Pos()), "the merged entry keeps the OldData of the first round of the span (the value on disk)")
}
