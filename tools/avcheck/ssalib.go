package main

import (
	"fmt"
	"go/constant"
	"go/token"
	"go/types"
	"strings"

	"golang.org/x/tools/go/ssa"
)

// ---------- callee resolution ----------

// calleeOf returns the types.Func a call resolves to: the static callee's
// object, or the interface method for invoke-mode calls. nil for calls
// through function values.
func calleeOf(cc *ssa.CallCommon) *types.Func {
	if cc.IsInvoke() {
		return cc.Method
	}
	if f := cc.StaticCallee(); f != nil {
		if o, ok := f.Object().(*types.Func); ok {
			return o.Origin()
		}
		// instantiated generic or wrapper
		if f.Origin() != nil {
			if o, ok := f.Origin().Object().(*types.Func); ok {
				return o
			}
		}
	}
	return nil
}

func sameFunc(a, b *types.Func) bool {
	if a == nil || b == nil {
		return false
	}
	return a.Origin() == b.Origin()
}

func inFuncs(f *types.Func, set []*types.Func) bool {
	for _, g := range set {
		if sameFunc(f, g) {
			return true
		}
	}
	return false
}

// callInstr views an instruction as a call (Call, Go or Defer).
func callInstr(in ssa.Instruction) (ssa.CallInstruction, bool) {
	ci, ok := in.(ssa.CallInstruction)
	return ci, ok
}

// CallsTo returns the call instructions in fn (optionally with nested
// function literals) whose callee is one of targets.
func CallsTo(fn *ssa.Function, nested bool, targets ...*types.Func) []ssa.CallInstruction {
	var out []ssa.CallInstruction
	fns := []*ssa.Function{fn}
	if nested {
		fns = withAnon(fn)
	}
	for _, f := range fns {
		for _, b := range f.Blocks {
			for _, in := range b.Instrs {
				if ci, ok := callInstr(in); ok {
					if inFuncs(calleeOf(ci.Common()), targets) {
						out = append(out, ci)
					}
				}
			}
		}
	}
	return out
}

// callArgs returns the arguments of a call including the receiver first for
// method calls (both static and invoke mode).
func callArgs(cc *ssa.CallCommon) []ssa.Value {
	if cc.IsInvoke() {
		return append([]ssa.Value{cc.Value}, cc.Args...)
	}
	return cc.Args
}

// ---------- value walking ----------

// strip removes conversions and interface boxing.
func strip(v ssa.Value) ssa.Value {
	for {
		switch x := v.(type) {
		case *ssa.ChangeType:
			v = x.X
		case *ssa.Convert:
			v = x.X
		case *ssa.MakeInterface:
			v = x.X
		case *ssa.ChangeInterface:
			v = x.X
		default:
			return v
		}
	}
}

// localStores returns the values stored into a local Alloc anywhere in fn.
func localStores(a *ssa.Alloc) []ssa.Value {
	var out []ssa.Value
	for _, r := range *a.Referrers() {
		if st, ok := r.(*ssa.Store); ok && st.Addr == a {
			out = append(out, st.Val)
		}
	}
	return out
}

// walkDef visits the definition tree of v (operands of operands) up to depth,
// crossing phis, loads of locals (to their stores) and extracts. visit returns
// false to stop descending below a node.
func walkDef(v ssa.Value, depth int, visit func(ssa.Value) bool) {
	seen := map[ssa.Value]bool{}
	var rec func(v ssa.Value, d int)
	rec = func(v ssa.Value, d int) {
		if v == nil || seen[v] || d < 0 {
			return
		}
		seen[v] = true
		if !visit(v) {
			return
		}
		switch x := v.(type) {
		case *ssa.UnOp:
			if x.Op == token.MUL {
				if a, ok := x.X.(*ssa.Alloc); ok {
					for _, s := range localStores(a) {
						rec(s, d-1)
					}
					return
				}
			}
			rec(x.X, d-1)
		case *ssa.Alloc:
			// a spilled parameter / local: what was stored into it
			for _, s := range localStores(x) {
				rec(s, d-1)
			}
		case *ssa.Call:
			// do not descend into arguments by default: the value is "result of call"
			for _, a := range callArgs(x.Common()) {
				rec(a, d-1)
			}
			if !x.Common().IsInvoke() {
				rec(x.Common().Value, d-1)
			}
		default:
			if in, ok := v.(ssa.Instruction); ok {
				for _, op := range in.Operands(nil) {
					if *op != nil {
						rec(*op, d-1)
					}
				}
			}
		}
	}
	rec(v, depth)
}

// Mentions reports whether the definition tree of v refers to obj (a struct
// field, a function, a global, a parameter or a named constant's value).
func Mentions(v ssa.Value, obj types.Object, depth int) bool {
	found := false
	walkDef(v, depth, func(x ssa.Value) bool {
		if found {
			return false
		}
		if valueIs(x, obj) {
			found = true
			return false
		}
		return true
	})
	return found
}

// valueIs reports whether the single SSA node x denotes obj.
func valueIs(x ssa.Value, obj types.Object) bool {
	switch y := x.(type) {
	case *ssa.FieldAddr:
		return structField(y.X.Type(), y.Field) == obj
	case *ssa.Field:
		return structField(y.X.Type(), y.Field) == obj
	case *ssa.Call:
		if f, ok := obj.(*types.Func); ok {
			return sameFunc(calleeOf(y.Common()), f)
		}
	case *ssa.Function:
		if f, ok := obj.(*types.Func); ok {
			if o, ok := y.Object().(*types.Func); ok {
				return sameFunc(o, f)
			}
		}
	case *ssa.Global:
		return y.Object() == obj
	case *ssa.Parameter:
		return y.Object() == obj
	case *ssa.Const:
		if k, ok := obj.(*types.Const); ok && y.Value != nil {
			return types.Identical(y.Type(), k.Type()) && constant.Compare(y.Value, token.EQL, k.Val())
		}
	}
	return false
}

// structField returns the field object selected by index on a (pointer to)
// struct type.
func structField(t types.Type, idx int) *types.Var {
	t = t.Underlying()
	if p, ok := t.(*types.Pointer); ok {
		t = p.Elem().Underlying()
	}
	if st, ok := t.(*types.Struct); ok && idx < st.NumFields() {
		return st.Field(idx)
	}
	return nil
}

// VM is a predicate over SSA values.
type VM func(v ssa.Value) bool

// M builds a matcher: the definition tree of the value mentions every one of objs.
func M(objs ...types.Object) VM {
	return func(v ssa.Value) bool {
		for _, o := range objs {
			if !Mentions(v, o, 8) {
				return false
			}
		}
		return true
	}
}

// MAny matches when any of objs is mentioned.
func MAny(objs ...types.Object) VM {
	return func(v ssa.Value) bool {
		for _, o := range objs {
			if Mentions(v, o, 8) {
				return true
			}
		}
		return false
	}
}

// AnyV matches any value.
func AnyV(ssa.Value) bool { return true }

// IsNil matches the nil constant.
func IsNil(v ssa.Value) bool {
	k, ok := v.(*ssa.Const)
	return ok && k.IsNil()
}

// IsConstInt matches an integer constant of the given value.
func IsConstInt(n int64) VM {
	return func(v ssa.Value) bool {
		k, ok := strip(v).(*ssa.Const)
		if !ok || k.Value == nil || k.Value.Kind() != constant.Int {
			return false
		}
		x, ok := constant.Int64Val(k.Value)
		return ok && x == n
	}
}

// IsV matches a specific SSA value (after stripping conversions).
func IsV(target ssa.Value) VM {
	return func(v ssa.Value) bool { return v == target || strip(v) == strip(target) }
}

// ResultOf matches a value that is (an extract of) a call to one of fns.
// idx < 0 accepts any result.
func ResultOf(idx int, fns ...*types.Func) VM {
	return func(v ssa.Value) bool {
		_, ok := asResultOf(v, idx, fns...)
		return ok
	}
}

func asResultOf(v ssa.Value, idx int, fns ...*types.Func) (*ssa.Call, bool) {
	return asResultOfRec(v, idx, map[ssa.Value]bool{}, fns...)
}

// asResultOfRec carries the set of values being resolved: a local whose
// stores include a load of itself (`err = err` on a named result) or a phi
// cycle would otherwise recurse forever; a value met again contributes nothing.
func asResultOfRec(v ssa.Value, idx int, busy map[ssa.Value]bool, fns ...*types.Func) (*ssa.Call, bool) {
	v = strip(v)
	if busy[v] {
		return nil, false
	}
	busy[v] = true
	defer delete(busy, v)
	if e, ok := v.(*ssa.Extract); ok {
		if call, ok := e.Tuple.(*ssa.Call); ok && inFuncs(calleeOf(call.Common()), fns) && (idx < 0 || e.Index == idx) {
			return call, true
		}
		return nil, false
	}
	if call, ok := v.(*ssa.Call); ok && inFuncs(calleeOf(call.Common()), fns) {
		return call, true
	}
	// through a local variable (named result / address-taken local)
	if u, ok := v.(*ssa.UnOp); ok && u.Op == token.MUL {
		if a, ok := u.X.(*ssa.Alloc); ok {
			st := localStores(a)
			if len(st) == 0 {
				return nil, false
			}
			var first *ssa.Call
			for _, s := range st {
				c, ok := asResultOfRec(s, idx, busy, fns...)
				if !ok {
					return nil, false
				}
				if first == nil {
					first = c
				}
			}
			return first, true
		}
	}
	if p, ok := v.(*ssa.Phi); ok {
		var first *ssa.Call
		for _, e := range p.Edges {
			c, ok := asResultOfRec(e, idx, busy, fns...)
			if !ok {
				return nil, false
			}
			if first == nil {
				first = c
			}
		}
		return first, first != nil
	}
	return nil, false
}

// ---------- guards over the CFG ----------

// Edge is a CFG edge: successor index idx of block From.
type Edge struct {
	From *ssa.BasicBlock
	Idx  int
}

// Guard recognises a branch condition and says which edge is the passing one.
type Guard struct {
	Name  string
	Match func(cond ssa.Value) (matched bool, passOnTrue bool)
}

func negOp(op token.Token) token.Token {
	switch op {
	case token.EQL:
		return token.NEQ
	case token.NEQ:
		return token.EQL
	case token.LSS:
		return token.GEQ
	case token.GEQ:
		return token.LSS
	case token.GTR:
		return token.LEQ
	case token.LEQ:
		return token.GTR
	}
	return token.ILLEGAL
}

func mirrorOp(op token.Token) token.Token {
	switch op {
	case token.LSS:
		return token.GTR
	case token.GTR:
		return token.LSS
	case token.LEQ:
		return token.GEQ
	case token.GEQ:
		return token.LEQ
	}
	return op
}

// GCmp is the guard "a op b holds on the passing edge". It recognises the
// comparison written either way round and either polarity.
func GCmp(name string, op token.Token, a, b VM) Guard {
	return Guard{Name: name, Match: func(cond ssa.Value) (bool, bool) {
		bo, ok := cond.(*ssa.BinOp)
		if !ok {
			return false, false
		}
		try := func(x, y ssa.Value, o token.Token) (bool, bool) {
			if !a(x) || !b(y) {
				return false, false
			}
			if o == op {
				return true, true
			}
			if o == negOp(op) {
				return true, false
			}
			// implication: want a<=b, have a<b true ⇒ passes; handled conservatively: no
			return false, false
		}
		if m, p := try(bo.X, bo.Y, bo.Op); m {
			return m, p
		}
		return try(bo.Y, bo.X, mirrorOp(bo.Op))
	}}
}

// GBool is the guard "the boolean value matched by vm equals want".
func GBool(name string, vm VM, want bool) Guard {
	return Guard{Name: name, Match: func(cond ssa.Value) (bool, bool) {
		if _, isCmp := cond.(*ssa.BinOp); isCmp {
			// comparisons against a bool constant: x == true etc.
			bo := cond.(*ssa.BinOp)
			if bo.Op == token.EQL || bo.Op == token.NEQ {
				for _, pair := range [][2]ssa.Value{{bo.X, bo.Y}, {bo.Y, bo.X}} {
					if k, ok := pair[1].(*ssa.Const); ok && k.Value != nil && k.Value.Kind() == constant.Bool && vm(pair[0]) {
						kb := constant.BoolVal(k.Value)
						eq := bo.Op == token.EQL
						// cond true means x == kb (if eq) or x != kb
						xTrueWhenCond := kb == eq
						return true, xTrueWhenCond == want
					}
				}
			}
			return false, false
		}
		if vm(cond) {
			return true, want
		}
		return false, false
	}}
}

// GErrNil is the guard "the error value matched by vm is nil".
func GErrNil(name string, vm VM) Guard { return GCmp(name, token.EQL, vm, IsNil) }

// condOf normalises an If condition through negations.
func condOf(v ssa.Value) (ssa.Value, bool) {
	neg := false
	for {
		u, ok := v.(*ssa.UnOp)
		if !ok || u.Op != token.NOT {
			return v, neg
		}
		neg = !neg
		v = u.X
	}
}

// PassEdges returns the passing edges of guard g in fn and the number of
// branch conditions it matched.
func PassEdges(fn *ssa.Function, g Guard) (edges []Edge, matched int) {
	for _, b := range fn.Blocks {
		if len(b.Instrs) == 0 {
			continue
		}
		iff, ok := b.Instrs[len(b.Instrs)-1].(*ssa.If)
		if !ok {
			continue
		}
		cond, neg := condOf(iff.Cond)
		m, passTrue := g.Match(cond)
		if !m {
			continue
		}
		matched++
		if neg {
			passTrue = !passTrue
		}
		if passTrue {
			edges = append(edges, Edge{b, 0})
		} else {
			edges = append(edges, Edge{b, 1})
		}
	}
	return
}

// noReturnCall reports calls that never return (panics and fatal logging),
// which SSA does not model as block terminators.
func noReturnCall(in ssa.Instruction) bool {
	ci, ok := in.(*ssa.Call)
	if !ok {
		return false
	}
	f := calleeOf(ci.Common())
	if f == nil {
		if b, ok := ci.Common().Value.(*ssa.Builtin); ok && b.Name() == "panic" {
			return true
		}
		return false
	}
	switch f.Name() {
	case "Panic", "Panicf", "Panicln", "Fatal", "Fatalf", "Fatalln":
		return true
	case "Exit":
		return f.Pkg() != nil && f.Pkg().Path() == "os"
	}
	return false
}

// Reach computes which instructions of fn are reachable from entry when the
// cut edges may not be traversed and execution stops at stop instructions
// (and at calls that never return).
type Reach struct {
	fn      *ssa.Function
	visited map[*ssa.BasicBlock]bool
	cutAt   map[*ssa.BasicBlock]int // index of first stop instruction in a visited block
	pred    map[*ssa.BasicBlock]*ssa.BasicBlock
}

// NewReach runs the reachability query.
func NewReach(fn *ssa.Function, cut []Edge, stop func(ssa.Instruction) bool) *Reach {
	r := &Reach{fn: fn, visited: map[*ssa.BasicBlock]bool{}, cutAt: map[*ssa.BasicBlock]int{}, pred: map[*ssa.BasicBlock]*ssa.BasicBlock{}}
	cutSet := map[Edge]bool{}
	for _, e := range cut {
		cutSet[e] = true
	}
	if len(fn.Blocks) == 0 {
		return r
	}
	work := []*ssa.BasicBlock{fn.Blocks[0]}
	r.visited[fn.Blocks[0]] = true
	for len(work) > 0 {
		b := work[0]
		work = work[1:]
		stopped := false
		for i, in := range b.Instrs {
			if noReturnCall(in) || (stop != nil && stop(in)) {
				r.cutAt[b] = i
				stopped = true
				break
			}
		}
		if stopped {
			continue
		}
		for i, s := range b.Succs {
			if cutSet[Edge{b, i}] {
				continue
			}
			if !r.visited[s] {
				r.visited[s] = true
				r.pred[s] = b
				work = append(work, s)
			}
		}
	}
	return r
}

// Reaches reports whether instruction in is reached (a stop instruction itself
// counts as reached; instructions after it in the block do not).
func (r *Reach) Reaches(in ssa.Instruction) bool {
	b := in.Block()
	if b == nil || !r.visited[b] {
		return false
	}
	if cut, ok := r.cutAt[b]; ok {
		for i, x := range b.Instrs {
			if x == in {
				return i <= cut
			}
		}
		return false
	}
	return true
}

// PathTo renders the block path from entry to in's block as source lines.
func (r *Reach) PathTo(p *Program, in ssa.Instruction) string {
	var blocks []*ssa.BasicBlock
	for b := in.Block(); b != nil; b = r.pred[b] {
		blocks = append(blocks, b)
		if len(blocks) > 200 {
			break
		}
	}
	var parts []string
	last := ""
	for i := len(blocks) - 1; i >= 0; i-- {
		s := ""
		for _, x := range blocks[i].Instrs {
			if x.Pos().IsValid() {
				s = p.Pos(x.Pos())
				break
			}
		}
		if s != "" && s != last {
			if j := strings.LastIndex(s, ":"); j >= 0 && last != "" {
				parts = append(parts, s[j+1:])
			} else {
				parts = append(parts, s)
			}
			last = s
		}
	}
	if len(parts) > 14 {
		parts = append(parts[:6], append([]string{"…"}, parts[len(parts)-6:]...)...)
	}
	return strings.Join(parts, "→")
}

// MustGuard decides: every path from the entry of fn to each effect
// instruction crosses a passing edge of every guard (or a bypass edge). It
// records one obligation per (effect, guard).
type MustGuardSpec struct {
	Rule    string
	Fn      *ssa.Function
	Effects []ssa.Instruction
	EffName string
	Guards  []Guard
	Bypass  []Guard // edges that legitimately skip the guard (e.g. validate == false)
	Stop    func(ssa.Instruction) bool
}

func (c *Ctx) MustGuard(s MustGuardSpec) {
	name := fnName(s.Fn)
	c.NoteFn(name)
	if len(s.Effects) == 0 {
		c.Unk(s.Rule, name+":"+s.EffName, c.Pos(s.Fn.Pos()), "effect "+s.EffName+" not found in function: the rule no longer sees its site")
		return
	}
	var bypass []Edge
	for _, bg := range s.Bypass {
		e, n := PassEdges(s.Fn, bg)
		if n == 0 {
			// a bypass that no longer exists is fine: the guard is then unconditional
			continue
		}
		bypass = append(bypass, e...)
	}
	for _, g := range s.Guards {
		edges, matched := PassEdges(s.Fn, g)
		construct := name + ":" + s.EffName + "<=" + g.Name
		if matched == 0 {
			c.Bad(s.Rule, construct, c.Pos(s.Fn.Pos()), fmt.Sprintf("guard %q not found in %s (no branch tests it)", g.Name, name))
			continue
		}
		r := NewReach(s.Fn, append(append([]Edge{}, edges...), bypass...), s.Stop)
		ok := true
		for _, e := range s.Effects {
			if r.Reaches(e) {
				ok = false
				c.Bad(s.Rule, construct, c.Pos(e.Pos()), fmt.Sprintf("%s is reachable without passing guard %q; path (lines): %s", s.EffName, g.Name, r.PathTo(c.Program, e)))
				break
			}
		}
		if ok {
			c.Ok(s.Rule, construct, c.Pos(s.Effects[0].Pos()), fmt.Sprintf("%d effect site(s) unreachable when the %d passing edge(s) of %q are cut", len(s.Effects), len(edges), g.Name))
		}
	}
	c.NoteSites(len(s.Effects))
}

// ---------- return classification ----------

var errorType = types.Universe.Lookup("error").Type()

func isErrorType(t types.Type) bool { return types.Identical(t, errorType) }

// errResultIndex returns the index of the last result of type error, or -1.
func errResultIndex(fn *ssa.Function) int {
	res := fn.Signature.Results()
	for i := res.Len() - 1; i >= 0; i-- {
		if isErrorType(res.At(i).Type()) {
			return i
		}
	}
	return -1
}

// resolveLocal follows a load of a local (named result) back to the value
// stored last in the same block before at; nil if unknown.
func resolveLocal(v ssa.Value, at ssa.Instruction) ssa.Value {
	u, ok := v.(*ssa.UnOp)
	if !ok || u.Op != token.MUL {
		return v
	}
	a, ok := u.X.(*ssa.Alloc)
	if !ok {
		return v
	}
	// search backwards through single-predecessor chains for the last store
	b := u.Block()
	idx := -1
	for i, in := range b.Instrs {
		if in == ssa.Instruction(u) {
			idx = i
		}
	}
	for hops := 0; b != nil && hops < 6; hops++ {
		for i := idx - 1; i >= 0; i-- {
			if st, ok := b.Instrs[i].(*ssa.Store); ok && st.Addr == a {
				return st.Val
			}
		}
		if len(b.Preds) != 1 {
			break
		}
		b = b.Preds[0]
		idx = len(b.Instrs)
	}
	_ = at
	return v
}

// definitelyNonNil reports whether error value v is certainly non-nil when
// control is in block at.
func definitelyNonNil(v ssa.Value, at *ssa.BasicBlock, depth int) bool {
	if depth > 4 || v == nil {
		return false
	}
	switch x := v.(type) {
	case *ssa.Const:
		return !x.IsNil()
	case *ssa.MakeInterface:
		// a typed nil pointer boxed in an interface is still a non-nil error
		return true
	case *ssa.ChangeInterface:
		return definitelyNonNil(x.X, at, depth+1)
	case *ssa.Call:
		f := calleeOf(x.Common())
		if f != nil && f.Pkg() != nil {
			switch f.Pkg().Path() + "." + f.Name() {
			case "fmt.Errorf", "errors.New":
				return true
			}
		}
		if sf := x.Common().StaticCallee(); sf != nil && sf.Blocks != nil && depth < 3 {
			// helper that only ever returns non-nil errors
			idx := errResultIndex(sf)
			if idx >= 0 && sf.Signature.Results().Len() == 1 {
				all := true
				n := 0
				for _, b := range sf.Blocks {
					if ret, ok := b.Instrs[len(b.Instrs)-1].(*ssa.Return); ok {
						n++
						if !definitelyNonNil(ret.Results[idx], b, depth+1) {
							all = false
						}
					}
				}
				if all && n > 0 {
					return true
				}
			}
		}
		// otherwise fall through to the dominance test on this value
	case *ssa.UnOp:
		if x.Op == token.MUL {
			if g, ok := x.X.(*ssa.Global); ok {
				// package-level sentinel error variables
				return strings.HasPrefix(strings.ToLower(g.Name()), "err") || strings.Contains(g.Name(), "Err")
			}
			if r := resolveLocal(x, nil); r != ssa.Value(x) {
				return definitelyNonNil(r, at, depth+1)
			}
		}
	case *ssa.Phi:
		allNonNil := len(x.Edges) > 0
		for i, e := range x.Edges {
			if !definitelyNonNil(e, x.Block().Preds[i], depth+1) {
				allNonNil = false
				break
			}
		}
		if allNonNil {
			return true
		}
		// otherwise fall through to the dominance test on the phi itself
	case *ssa.TypeAssert, *ssa.Extract:
		// fall through to dominance test
	}
	// dominance by a non-nil test on this same value
	if at == nil {
		return false
	}
	fn := at.Parent()
	for _, b := range fn.Blocks {
		iff, ok := b.Instrs[len(b.Instrs)-1].(*ssa.If)
		if !ok {
			continue
		}
		cond, neg := condOf(iff.Cond)
		bo, ok := cond.(*ssa.BinOp)
		if !ok || (bo.Op != token.NEQ && bo.Op != token.EQL) {
			continue
		}
		var other ssa.Value
		if bo.X == v {
			other = bo.Y
		} else if bo.Y == v {
			other = bo.X
		} else {
			continue
		}
		if !IsNil(other) {
			continue
		}
		nonNilOnTrue := (bo.Op == token.NEQ) != neg
		succ := b.Succs[1]
		if nonNilOnTrue {
			succ = b.Succs[0]
		}
		// the edge b->succ must be the only way into succ for dominance of the edge
		if len(succ.Preds) == 1 && succ.Dominates(at) {
			return true
		}
	}
	return false
}

// SuccessReturns returns the Return instructions of fn that may return a nil
// error (all returns if fn has no error result).
func SuccessReturns(fn *ssa.Function) []ssa.Instruction {
	idx := errResultIndex(fn)
	var out []ssa.Instruction
	for _, b := range fn.Blocks {
		ret, ok := b.Instrs[len(b.Instrs)-1].(*ssa.Return)
		if !ok {
			continue
		}
		if idx >= 0 && idx < len(ret.Results) {
			v := resolveLocal(ret.Results[idx], ret)
			if definitelyNonNil(v, b, 0) {
				continue
			}
		}
		out = append(out, ret)
	}
	return out
}

// ErrorReturns returns the Return instructions that certainly carry an error.
func ErrorReturns(fn *ssa.Function) []ssa.Instruction {
	idx := errResultIndex(fn)
	var out []ssa.Instruction
	if idx < 0 {
		return nil
	}
	for _, b := range fn.Blocks {
		ret, ok := b.Instrs[len(b.Instrs)-1].(*ssa.Return)
		if !ok {
			continue
		}
		v := resolveLocal(ret.Results[idx], ret)
		if definitelyNonNil(v, b, 0) {
			out = append(out, ret)
		}
	}
	return out
}

// ReturnsWhere returns Return instructions whose result idx satisfies pred.
func ReturnsWhere(fn *ssa.Function, idx int, pred func(ssa.Value) bool) []ssa.Instruction {
	var out []ssa.Instruction
	for _, b := range fn.Blocks {
		ret, ok := b.Instrs[len(b.Instrs)-1].(*ssa.Return)
		if !ok || idx >= len(ret.Results) {
			continue
		}
		if pred(resolveLocal(ret.Results[idx], ret)) {
			out = append(out, ret)
		}
	}
	return out
}

// IsConstBool matches the boolean constant b.
func IsConstBool(b bool) VM {
	return func(v ssa.Value) bool {
		k, ok := v.(*ssa.Const)
		return ok && k.Value != nil && k.Value.Kind() == constant.Bool && constant.BoolVal(k.Value) == b
	}
}

// Instrs returns all instructions of fn satisfying pred.
func Instrs(fn *ssa.Function, pred func(ssa.Instruction) bool) []ssa.Instruction {
	var out []ssa.Instruction
	for _, b := range fn.Blocks {
		for _, in := range b.Instrs {
			if pred(in) {
				out = append(out, in)
			}
		}
	}
	return out
}

// asInstrs converts call instructions to instructions.
func asInstrs(cs []ssa.CallInstruction) []ssa.Instruction {
	out := make([]ssa.Instruction, len(cs))
	for i, c := range cs {
		out[i] = c
	}
	return out
}

// StoresToField returns the Store instructions in fn (and nested literals if
// nested) whose address is a FieldAddr of one of the given fields.
func StoresToField(fn *ssa.Function, nested bool, fields map[*types.Var]bool) []ssa.Instruction {
	var out []ssa.Instruction
	fns := []*ssa.Function{fn}
	if nested {
		fns = withAnon(fn)
	}
	for _, f := range fns {
		for _, b := range f.Blocks {
			for _, in := range b.Instrs {
				st, ok := in.(*ssa.Store)
				if !ok {
					continue
				}
				if fa, ok := st.Addr.(*ssa.FieldAddr); ok && fields[structField(fa.X.Type(), fa.Field)] {
					out = append(out, st)
				}
			}
		}
	}
	return out
}

// Dominates reports whether instruction a dominates instruction b (same
// function): a's block strictly dominates b's, or same block and a earlier.
func Dominates(a, b ssa.Instruction) bool {
	ba, bb := a.Block(), b.Block()
	if ba == nil || bb == nil || ba.Parent() != bb.Parent() {
		return false
	}
	if ba != bb {
		return ba.Dominates(bb)
	}
	for _, in := range ba.Instrs {
		if in == a {
			return true
		}
		if in == b {
			return false
		}
	}
	return false
}

// describe renders an SSA value briefly for diagnostics.
func describe(v ssa.Value) string {
	if v == nil {
		return "<nil>"
	}
	s := v.String()
	if len(s) > 80 {
		s = s[:80] + "…"
	}
	return v.Name() + "=" + s
}
