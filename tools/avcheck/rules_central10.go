package main

import (
	"go/token"
	"go/types"

	"golang.org/x/tools/go/ssa"
)

// R15.4 (after seed C15-1) and R35.5 (after seed C35-1).
func init() {
	extend("C15", Extension{
		Run:         ruleKvNilIsNotEmpty,
		Explanation: "R15.4 (absent is not empty): in package ledger a bytes.Equal over the old/new value of a modified KV entry (modifiedKvValue.oldData / .data, where nil means 'absent' and an empty slice is a legal zero-length box) is evaluated only where both operands were established non-nil — otherwise creating or deleting a zero-length box is taken for 'unchanged' and the box gets no leaf in the balances trie, so states differing only in such a box share a label.",
		Floor:       map[string]int{"R15.4": 1},
	})
	extend("C35", Extension{
		Run:         ruleInnerCallAccountsUnconditional,
		Explanation: "R35.5 (pre-sharing callee check covers every account the callee gains): in EvalContext.allowsApplicationCall the accounts of the inner call's ForeignApps are collected unconditionally — the ForeignApps slice that feeds GetApplicationAddress is read in a block that dominates every requireHolding/requireLocals check — so no branch (e.g. on the callee's version) can drop them from the cross product; likewise tx.Accounts and the sender.",
		Floor:       map[string]int{"R35.5": 2},
	})
}

func ruleKvNilIsNotEmpty(c *Ctx) {
	const rule = "R15.4"
	fOld := c.Field("ledger.modifiedKvValue.oldData")
	fNew := c.Field("ledger.modifiedKvValue.data")
	n := 0
	for _, fn := range c.funcsOf(Mod + "/ledger") {
		for _, b := range fn.Blocks {
			for _, in := range b.Instrs {
				call, ok := in.(*ssa.Call)
				if !ok {
					continue
				}
				cal := calleeOf(call.Common())
				if cal == nil || cal.Pkg() == nil || cal.Pkg().Path() != "bytes" || cal.Name() != "Equal" {
					continue
				}
				args := call.Common().Args
				if len(args) != 2 {
					continue
				}
				var fields []*types.Var
				for _, a := range args {
					switch {
					case Mentions(a, fOld, 5):
						fields = append(fields, fOld)
					case Mentions(a, fNew, 5):
						fields = append(fields, fNew)
					}
				}
				if len(fields) == 0 {
					continue
				}
				n++
				ok2 := true
				for _, f := range fields {
					if !dominatedByNonNil(fn, call, f) {
						ok2 = false
					}
				}
				c.Check(ok2, rule, fnName(fn)+":bytes.Equal(kv old, kv new)<=both non-nil", c.Pos(call.Pos()),
					"bytes.Equal treats nil and the empty slice as equal; for KV values nil means absent, so the comparison is made only where both values are known to be present")
			}
		}
	}
	if n == 0 {
		c.Unk(rule, "bytes.Equal over modifiedKvValue", "-", "no comparison of a modified KV entry's old and new value found in package ledger")
	}
}

// dominatedByNonNil: use is dominated by the edge on which field f (of any
// base) was tested != nil.
func dominatedByNonNil(fn *ssa.Function, use ssa.Instruction, f *types.Var) bool {
	for _, b := range fn.Blocks {
		iff, ok := b.Instrs[len(b.Instrs)-1].(*ssa.If)
		if !ok {
			continue
		}
		cond, neg := condOf(iff.Cond)
		bo, ok := cond.(*ssa.BinOp)
		if !ok || (bo.Op != token.NEQ && bo.Op != token.EQL) {
			continue
		}
		var v ssa.Value
		switch {
		case IsNil(bo.Y):
			v = bo.X
		case IsNil(bo.X):
			v = bo.Y
		default:
			continue
		}
		if !Mentions(v, f, 5) {
			continue
		}
		nonNilOnTrue := (bo.Op == token.NEQ) != neg
		succ := b.Succs[1]
		other := b.Succs[0]
		if nonNilOnTrue {
			succ, other = b.Succs[0], b.Succs[1]
		}
		// the edge b->succ dominates the use: succ is entered only through that edge (inside a loop the
		// other edge may come round again, which is a different iteration)
		if succ.Dominates(use.Block()) && (len(succ.Preds) == 1 || !NewReachFromBlock(other, nil, nil).Reaches(use)) {
			return true
		}
	}
	return false
}

func ruleInnerCallAccountsUnconditional(c *Ctx) {
	const rule = "R35.5"
	fn := c.Fn("data/transactions/logic.EvalContext.allowsApplicationCall")
	name := "data/transactions/logic.EvalContext.allowsApplicationCall"
	getAddr := c.Func("data/transactions/logic.EvalContext.GetApplicationAddress")
	fForeign := c.Field("data/transactions.ApplicationCallTxnFields.ForeignApps")
	fAccounts := c.Field("data/transactions.ApplicationCallTxnFields.Accounts")
	reqH := c.Func("data/transactions/logic.EvalContext.requireHolding")
	reqL := c.Func("data/transactions/logic.EvalContext.requireLocals")
	checks := asInstrs(CallsTo(fn, false, reqH, reqL))
	if len(checks) == 0 {
		c.Unk(rule, name+":checks", c.Pos(fn.Pos()), "no requireHolding/requireLocals call found")
		return
	}
	domAll := func(b *ssa.BasicBlock) bool {
		for _, ch := range checks {
			if !b.Dominates(ch.Block()) {
				return false
			}
		}
		return true
	}
	// ForeignApps addresses: the slice read that feeds GetApplicationAddress(…) → append
	found := false
	ok := true
	for _, ci := range CallsTo(fn, false, getAddr) {
		args := ci.Common().Args
		if len(args) < 2 {
			continue
		}
		var slice ssa.Value
		walkDef(args[1], 5, func(v ssa.Value) bool {
			if ia, isIA := v.(*ssa.IndexAddr); isIA && Mentions(ia.X, fForeign, 3) {
				slice = ia.X
			}
			return slice == nil
		})
		if slice == nil {
			continue
		}
		found = true
		def, isInstr := slice.(ssa.Instruction)
		if !isInstr || !domAll(def.Block()) {
			ok = false
		}
	}
	if !found {
		c.Bad(rule, name+":ForeignApps accounts in the cross product", c.Pos(fn.Pos()), "the accounts of the inner call's ForeignApps are not collected at all")
	} else {
		c.Check(ok, rule, name+":ForeignApps accounts in the cross product", c.Pos(fn.Pos()), "the ForeignApps slice whose application addresses are collected is read on every path to the availability checks (no branch can skip it)")
	}
	// tx.Accounts likewise: an append whose variadic argument is the Accounts field, in a block dominating the checks
	okAcc := false
	for _, b := range fn.Blocks {
		for _, in := range b.Instrs {
			if cc, isApp := isBuiltinCall(in, "append"); isApp && len(cc.Args) == 2 && Mentions(cc.Args[1], fAccounts, 3) && domAll(b) {
				okAcc = true
			}
		}
	}
	c.Check(okAcc, rule, name+":tx.Accounts in the cross product", c.Pos(fn.Pos()), "tx.Accounts are appended on every path to the availability checks")
}
