package main

import (
	"fmt"
	"go/token"
	"go/types"
	"sort"
	"strings"

	"golang.org/x/tools/go/ssa"
)

func init() {
	register(&Prop{
		ID:       "C37",
		Patterns: []string{"./crypto/merklearray"},
		Run:      runC37,
		Explanation: "Thin. Decides the shape of the verifier's success paths in crypto/merklearray (soundness side), by must-pass guards with arguments checked by SSA identity: " +
			"R37.1 VerifyVectorCommitment and Verify reject a nil proof before reading it, and succeed only by returning verifyPath(root, proof, buildFirstPartialLayer(hashLeaves(elems, proof.TreeDepth, proof.HashFactory.NewHash()))) — respectively Verify(root, convertIndexes(elems, proof.TreeDepth), proof) — with hashLeaves/convertIndexes errors returned; the only constant-nil success of Verify is the empty case len(elems)==0 with an empty proof path; " +
			"R37.2 verifyPath succeeds only by returning inspectRoot(root, pl) on the partial layer produced by the pl.up chain from its argument, each up error is returned before the next level, and inspectRoot is reached only once len(pl) <= 1 (it examines pl[0] alone); inspectRoot returns nil only if pl[0].pos == 0 and bytes.Equal(pl[0].hash, root); " +
			"R37.3 leaf positions are range checked: hashLeaves stores a leaf only under pos < 1<<treeDepth, merkleTreeToVectorCommitmentIndex succeeds only under msbIndex < 1<<pathLen, siblings.get fails when the proof has no more hints; Prove rejects positions >= NumOfElements and an empty tree; " +
			"R37.4 tree-depth binding: some test on the success path of Verify/verifyPath (or the helpers they call, depth 3) must depend on proof.TreeDepth in a way other than the `pos < 1<<depth` range tests — otherwise a proof whose TreeDepth field is altered still verifies (the statement's 'a proof presented for a different ... tree depth does not verify'). " +
			"Does NOT decide: the tree arithmetic itself (sibling position, left/right order, pos/2, bit reversal), hash function choice, completeness of Prove/createProof against Verify, nor leftover hints after the root is reached.",
		Assumptions: []string{"bytes.Equal and crypto.GenericHashObj are correct"},
		Floor:       map[string]int{"R37.1": 10, "R37.2": 7, "R37.3": 6, "R37.4": 1},
	})
}

// hRetClass classifies the maybe-nil returns of fn: constant nil, or the
// result of a call to delegate.
func hRetClass(fn *ssa.Function, delegate *types.Func) (nils []*ssa.Return, dels map[*ssa.Return]*ssa.Call, other []*ssa.Return) {
	dels = map[*ssa.Return]*ssa.Call{}
	idx := errResultIndex(fn)
	for _, r := range hSuccessReturns(fn) {
		ret := r.(*ssa.Return)
		v := hResolveLoadsLocal(ret.Results[idx])
		if k, ok := v.(*ssa.Const); ok && k.IsNil() {
			nils = append(nils, ret)
			continue
		}
		if call, ok := v.(*ssa.Call); ok && delegate != nil && sameFunc(calleeOf(call.Common()), delegate) {
			dels[ret] = call
			continue
		}
		other = append(other, ret)
	}
	return
}

func runC37(c *Ctx) {
	pkg := "crypto/merklearray."
	fTreeDepth := c.Field(pkg + "Proof.TreeDepth")
	fPath := c.Field(pkg + "Proof.Path")
	fHashFactory := c.Field(pkg + "Proof.HashFactory")
	verifyFn := c.Func(pkg + "Verify")
	verifyPathFn := c.Func(pkg + "verifyPath")
	inspectFn := c.Func(pkg + "inspectRoot")
	hashLeavesFn := c.Func(pkg + "hashLeaves")
	convertFn := c.Func(pkg + "convertIndexes")
	firstLayerFn := c.Func(pkg + "buildFirstPartialLayer")
	upFn := c.Func(pkg + "partialLayer.up")

	// ---------------- R37.1 ----------------
	{
		fn := c.Fn(pkg + "VerifyVectorCommitment")
		name := pkg + "VerifyVectorCommitment"
		pRoot, pElems, pProof := fn.Params[0], fn.Params[1], fn.Params[2]
		nils, dels, other := hRetClass(fn, verifyFn)
		c.Check(len(nils) == 0 && len(other) == 0 && len(dels) > 0, "R37.1", name+":succeeds only via Verify", c.Pos(fn.Pos()), fmt.Sprintf("every maybe-nil return is `return Verify(...)` (%d such, %d constant nil, %d other)", len(dels), len(nils), len(other)))
		var conv ssa.CallInstruction
		for _, call := range dels {
			a := call.Common().Args
			ok := len(a) == 3 && a[0] == ssa.Value(pRoot) && a[2] == ssa.Value(pProof)
			if ok {
				cc, isRes := asResultOf(a[1], 0, convertFn)
				ok = isRes && cc.Common().Args[0] == ssa.Value(pElems) && hIsPath(cc.Common().Args[1], pProof, fTreeDepth)
				if ok {
					conv = cc
				}
			}
			c.Check(ok, "R37.1", name+":Verify(root,convertIndexes(elems,proof.TreeDepth),proof)", c.Pos(call.Pos()), "the delegate verifies the caller's root and proof over the caller's elements re-indexed with the proof's depth")
		}
		var effects []ssa.Instruction
		for r := range dels {
			effects = append(effects, r)
		}
		// every read of *proof is also an effect of the nil test
		reads := Instrs(fn, func(in ssa.Instruction) bool {
			fa, ok := in.(*ssa.FieldAddr)
			return ok && fa.X == ssa.Value(pProof)
		})
		guards := []Guard{GCmp("proof!=nil", token.NEQ, IsV(pProof), IsNil)}
		c.MustGuard(MustGuardSpec{Rule: "R37.1", Fn: fn, Effects: append(append([]ssa.Instruction{}, effects...), reads...), EffName: "use of proof", Guards: guards})
		if conv != nil {
			c.MustGuard(MustGuardSpec{Rule: "R37.1", Fn: fn, Effects: effects, EffName: "return Verify(...)", Guards: []Guard{GErrNil("convertIndexes(...)==nil", hErrOf(conv))}})
		}
	}
	{
		fn := c.Fn(pkg + "Verify")
		name := pkg + "Verify"
		pRoot, pElems, pProof := fn.Params[0], fn.Params[1], fn.Params[2]
		nils, dels, other := hRetClass(fn, verifyPathFn)
		c.Check(len(other) == 0 && len(dels) > 0, "R37.1", name+":succeeds only via verifyPath or the empty case", c.Pos(fn.Pos()), fmt.Sprintf("maybe-nil returns: %d `return verifyPath(...)`, %d constant nil, %d other", len(dels), len(nils), len(other)))
		isLenElems := func(v ssa.Value) bool { l, ok := lenOf(v); return ok && l == ssa.Value(pElems) }
		isLenPath := func(v ssa.Value) bool { l, ok := lenOf(v); return ok && hIsPath(l, pProof, fPath) }
		var nilI, delI []ssa.Instruction
		for _, r := range nils {
			nilI = append(nilI, r)
		}
		if len(nilI) > 0 {
			c.MustGuard(MustGuardSpec{Rule: "R37.1", Fn: fn, Effects: nilI, EffName: "return nil (no elements)", Guards: []Guard{
				GCmp("len(elems)==0", token.EQL, isLenElems, IsConstInt(0)),
				GCmp("len(proof.Path)==0", token.EQL, isLenPath, IsConstInt(0)),
			}})
		}
		var hl ssa.CallInstruction
		for r, call := range dels {
			delI = append(delI, r)
			a := call.Common().Args
			ok := len(a) == 3 && a[0] == ssa.Value(pRoot) && a[1] == ssa.Value(pProof)
			if ok {
				fl, isRes := asResultOf(a[2], 0, firstLayerFn)
				ok = isRes
				if ok {
					h, isH := asResultOf(fl.Common().Args[0], 0, hashLeavesFn)
					ok = isH && h.Common().Args[0] == ssa.Value(pElems) && hIsPath(h.Common().Args[1], pProof, fTreeDepth)
					if ok {
						hl = h
						// the hash comes from the proof's factory
						nh, isCall := h.Common().Args[2].(*ssa.Call)
						ok = isCall && len(nh.Common().Args) == 1 && hIsPath(nh.Common().Args[0], pProof, fHashFactory)
					}
				}
			}
			c.Check(ok, "R37.1", name+":verifyPath(root,proof,firstLayer(hashLeaves(elems,proof.TreeDepth,proof.HashFactory.NewHash())))", c.Pos(call.Pos()), "the path is verified for the caller's root over exactly the caller's elements, hashed and range checked with the proof's depth")
		}
		reads := Instrs(fn, func(in ssa.Instruction) bool {
			fa, ok := in.(*ssa.FieldAddr)
			return ok && fa.X == ssa.Value(pProof)
		})
		c.MustGuard(MustGuardSpec{Rule: "R37.1", Fn: fn, Effects: append(append(append([]ssa.Instruction{}, delI...), nilI...), reads...), EffName: "use of proof", Guards: []Guard{GCmp("proof!=nil", token.NEQ, IsV(pProof), IsNil)}})
		if hl != nil {
			c.MustGuard(MustGuardSpec{Rule: "R37.1", Fn: fn, Effects: delI, EffName: "return verifyPath(...)", Guards: []Guard{GErrNil("hashLeaves(...)==nil", hErrOf(hl))}})
		}
	}

	// ---------------- R37.2 ----------------
	{
		fn := c.Fn(pkg + "verifyPath")
		name := pkg + "verifyPath"
		pRoot, pPl := fn.Params[0], fn.Params[2]
		nils, dels, other := hRetClass(fn, inspectFn)
		c.Check(len(nils) == 0 && len(other) == 0 && len(dels) > 0, "R37.2", name+":succeeds only via inspectRoot", c.Pos(fn.Pos()), fmt.Sprintf("maybe-nil returns: %d `return inspectRoot(...)`, %d constant nil, %d other", len(dels), len(nils), len(other)))
		ups := CallsTo(fn, false, upFn)
		// the layer value: phi over the parameter and results of up applied to the layer
		var isLayerRec func(v ssa.Value, seen map[ssa.Value]bool) bool
		isLayerRec = func(v ssa.Value, seen map[ssa.Value]bool) bool {
			if seen[v] {
				return true // a cycle through the loop phi
			}
			seen[v] = true
			switch x := v.(type) {
			case *ssa.Parameter:
				return x == pPl
			case *ssa.Phi:
				for _, e := range x.Edges {
					if !isLayerRec(e, seen) {
						return false
					}
				}
				return true
			case *ssa.Extract:
				call, ok := x.Tuple.(*ssa.Call)
				return ok && x.Index == 0 && sameFunc(calleeOf(call.Common()), upFn) && isLayerRec(call.Common().Args[0], seen)
			}
			return false
		}
		isLayer := func(v ssa.Value, _ int) bool { return isLayerRec(v, map[ssa.Value]bool{}) }
		var inspCalls []ssa.Instruction
		for _, call := range dels {
			inspCalls = append(inspCalls, call)
			a := call.Common().Args
			c.Check(len(a) == 2 && a[0] == ssa.Value(pRoot) && isLayer(a[1], 0), "R37.2", name+":inspectRoot(root, layer computed by up)", c.Pos(call.Pos()), "the root test compares the caller's root with the layer obtained by climbing from the caller's leaves")
			if len(a) == 2 {
				layer := a[1]
				c.MustGuard(MustGuardSpec{Rule: "R37.2", Fn: fn, Effects: []ssa.Instruction{call}, EffName: "inspectRoot", Guards: []Guard{
					GCmp("len(pl)<=1", token.LEQ, func(v ssa.Value) bool { l, ok := lenOf(v); return ok && l == layer }, IsConstInt(1)),
				}})
			}
		}
		if len(ups) == 0 {
			c.Bad("R37.2", name+":pl.up", c.Pos(fn.Pos()), "verifyPath no longer climbs with partialLayer.up")
		}
		for _, up := range ups {
			call := up.(*ssa.Call)
			a := call.Common().Args
			okA := len(a) == 5 && isLayer(a[0], 0) && IsConstBool(true)(a[3])
			c.Check(okA, "R37.2", name+":pl.up(s,l,doHash=true,hash)", c.Pos(call.Pos()), "each level is computed from the current layer with hashing enabled (doHash=false fills zero hashes)")
			loops := hCondLoops(fn, func(cond ssa.Value) bool { return true })
			done := false
			for _, l := range loops {
				if !hReachFrom(l.Body, []Edge{{l.Header, 1}})[call.Block()] || !l.Body.Dominates(call.Block()) {
					continue
				}
				// use the outermost header that dominates the call (the for statement's first test)
				if done {
					continue
				}
				done = hIterGuard(c, "R37.2", name+":each level<=up err==nil", fn, l, GErrNil("pl.up(...)==nil", hErrOf(call)))
			}
			if !done && len(loops) == 0 {
				c.MustGuard(MustGuardSpec{Rule: "R37.2", Fn: fn, Effects: inspCalls, EffName: "inspectRoot", Guards: []Guard{GErrNil("pl.up(...)==nil", hErrOf(call))}})
			}
		}
	}
	{
		fn := c.Fn(pkg + "inspectRoot")
		pRoot, pPl := fn.Params[0], fn.Params[1]
		fPos := c.Field(pkg + "layerItem.pos")
		fHash := c.Field(pkg + "layerItem.hash")
		bytesEqual := hExtFunc(c, "bytes", "Equal")
		// pl[0] (possibly copied into a local)
		isItem0 := func(v ssa.Value, f *types.Var) bool {
			v = hStripConv(v)
			root, steps, ok := hAddrPath(v)
			if !ok || len(steps) == 0 || steps[len(steps)-1].F != f {
				return false
			}
			steps = steps[:len(steps)-1]
			if a, isA := root.(*ssa.Alloc); isA && len(steps) == 0 {
				st := localStores(a)
				if len(st) != 1 {
					return false
				}
				root, steps, ok = hAddrPath(st[0])
				if !ok {
					return false
				}
			}
			if root != ssa.Value(pPl) || len(steps) != 1 || steps[0].F != nil {
				return false
			}
			// the index is the constant 0
			var idx ssa.Value
			var find func(x ssa.Value)
			find = func(x ssa.Value) {
				switch y := x.(type) {
				case *ssa.IndexAddr:
					idx = y.Index
				case *ssa.Index:
					idx = y.Index
				case *ssa.UnOp:
					find(y.X)
				case *ssa.FieldAddr:
					find(y.X)
				case *ssa.Field:
					find(y.X)
				case *ssa.Alloc:
					if st := localStores(y); len(st) == 1 {
						find(st[0])
					}
				}
			}
			find(v)
			return idx != nil && IsConstInt(0)(idx)
		}
		c.MustGuard(MustGuardSpec{Rule: "R37.2", Fn: fn, Effects: hSuccessReturns(fn), EffName: "return nil", Guards: []Guard{
			GCmp("pl[0].pos==0", token.EQL, func(v ssa.Value) bool { return isItem0(v, fPos) }, IsConstInt(0)),
			GBool("bytes.Equal(pl[0].hash, root)", func(v ssa.Value) bool {
				call, ok := asResultOf(v, 0, bytesEqual)
				if !ok {
					return false
				}
				a := call.Common().Args
				isRoot := func(x ssa.Value) bool { return hStripConv(x) == ssa.Value(pRoot) }
				return (isItem0(a[0], fHash) && isRoot(a[1])) || (isItem0(a[1], fHash) && isRoot(a[0]))
			}, true),
		}})
	}

	// ---------------- R37.3 ----------------
	isPow := func(depth ssa.Value) VM {
		return func(v ssa.Value) bool {
			bo, ok := hStripConv(v).(*ssa.BinOp)
			return ok && bo.Op == token.SHL && IsConstInt(1)(bo.X) && hStripConv(bo.Y) == depth
		}
	}
	{
		fn := c.Fn(pkg + "hashLeaves")
		pElems, pDepth := fn.Params[0], fn.Params[1]
		var ups []ssa.Instruction
		var key ssa.Value
		for _, l := range hRangeLoops(fn, IsV(pElems)) {
			for _, r := range *l.Next.Referrers() {
				if e, ok := r.(*ssa.Extract); ok && e.Index == 1 {
					key = e
				}
			}
		}
		for _, b := range fn.Blocks {
			for _, in := range b.Instrs {
				if mu, ok := in.(*ssa.MapUpdate); ok {
					ups = append(ups, mu)
				}
			}
		}
		if key == nil || len(ups) == 0 {
			c.Unk("R37.3", pkg+"hashLeaves", c.Pos(fn.Pos()), "range over elems / leaf store not found")
		} else {
			c.MustGuard(MustGuardSpec{Rule: "R37.3", Fn: fn, Effects: ups, EffName: "hashedLeaves[pos]=…", Guards: []Guard{GCmp("pos<1<<treeDepth", token.LSS, IsV(key), isPow(pDepth))}})
			ok := true
			for _, u := range ups {
				mu := u.(*ssa.MapUpdate)
				if mu.Key != key {
					ok = false
				}
			}
			c.Check(ok, "R37.3", pkg+"hashLeaves:leaf keyed by its own position", c.Pos(fn.Pos()), "each hashed leaf is stored under the position it was given for")
		}
	}
	{
		fn := c.Fn(pkg + "merkleTreeToVectorCommitmentIndex")
		c.MustGuard(MustGuardSpec{Rule: "R37.3", Fn: fn, Effects: hSuccessReturns(fn), EffName: "return index", Guards: []Guard{GCmp("msbIndex<1<<pathLen", token.LSS, IsV(fn.Params[0]), isPow(fn.Params[1]))}})
	}
	{
		fn := c.Fn(pkg + "siblings.get")
		fTree := c.Field(pkg + "siblings.tree")
		fHints := c.Field(pkg + "siblings.hints")
		// in proof-consuming mode (tree == nil) a success needs a remaining hint
		var succ []ssa.Instruction
		cutTree, n := PassEdges(fn, GCmp("s.tree!=nil", token.NEQ, M(fTree), IsNil))
		if n == 0 {
			c.Unk("R37.3", pkg+"siblings.get", c.Pos(fn.Pos()), "mode test s.tree == nil not found")
		} else {
			r := NewReach(fn, cutTree, nil)
			for _, s := range hSuccessReturns(fn) {
				if r.Reaches(s) {
					succ = append(succ, s)
				}
			}
			edges, m := PassEdges(fn, GCmp("len(s.hints)>0", token.GTR, func(v ssa.Value) bool { l, ok := lenOf(v); return ok && Mentions(l, fHints, 4) }, IsConstInt(0)))
			ok := m > 0
			if ok {
				r2 := NewReach(fn, append(append([]Edge{}, cutTree...), edges...), nil)
				for _, s := range succ {
					// a success return reachable in verify mode without a remaining hint
					if r2.Reaches(s) && !hDefinitelyNonNil(hResolveNamedResult(fn, s.(*ssa.Return)), s.Block()) {
						ok = false
					}
				}
			}
			c.Check(ok, "R37.3", pkg+"siblings.get:verify mode needs a hint", c.Pos(fn.Pos()), "when consuming a proof (tree == nil), a sibling is returned without error only if a hint remains")
		}
	}
	{
		fn := c.Fn(pkg + "Tree.Prove")
		fNum := c.Field(pkg + "Tree.NumOfElements")
		createProof := c.Func(pkg + "Tree.createProof")
		calls := asInstrs(CallsTo(fn, false, createProof))
		c.MustGuard(MustGuardSpec{Rule: "R37.3", Fn: fn, Effects: calls, EffName: "createProof", Guards: []Guard{
			GCmp("tree.NumOfElements!=0", token.NEQ, M(fNum), IsConstInt(0)),
		}})
		// every requested index is compared with NumOfElements inside a loop over idxs
		loops := hCondLoops(fn, func(cond ssa.Value) bool {
			bo, ok := cond.(*ssa.BinOp)
			if !ok || bo.Op != token.LSS {
				return false
			}
			l, isLen := lenOf(bo.Y)
			return isLen && hFromParam(l, fn.Params[1])
		})
		okL := false
		for _, l := range loops {
			g := GCmp("idxs[i]<tree.NumOfElements", token.LSS, func(v ssa.Value) bool {
				u, ok := v.(*ssa.UnOp)
				if !ok {
					return false
				}
				ia, ok := u.X.(*ssa.IndexAddr)
				return ok && hFromParam(ia.X, fn.Params[1])
			}, M(fNum))
			if _, n := PassEdges(fn, g); n > 0 {
				okL = true
				hIterGuard(c, "R37.3", pkg+"Tree.Prove:each idx<NumOfElements", fn, l, g)
			}
		}
		if !okL {
			c.Bad("R37.3", pkg+"Tree.Prove:each idx<NumOfElements", c.Pos(fn.Pos()), "no loop over idxs tests idxs[i] < tree.NumOfElements for every requested position (a position equal to or beyond the number of elements would be proven)")
		}
	}

	// ---------------- R37.4 tree-depth binding ----------------
	{
		// closure of Verify over static callees inside the package, depth 3
		root := c.Fn(pkg + "Verify")
		type item struct {
			fn *ssa.Function
			d  int
		}
		inClosure := map[*ssa.Function]bool{root: true}
		work := []item{{root, 0}}
		var order []*ssa.Function
		for len(work) > 0 {
			it := work[0]
			work = work[1:]
			order = append(order, it.fn)
			if it.d >= 3 {
				continue
			}
			for _, b := range it.fn.Blocks {
				for _, in := range b.Instrs {
					ci, ok := in.(ssa.CallInstruction)
					if !ok {
						continue
					}
					sf := ci.Common().StaticCallee()
					if sf == nil || sf.Blocks == nil || sf.Pkg != root.Pkg || inClosure[sf] {
						continue
					}
					inClosure[sf] = true
					work = append(work, item{sf, it.d + 1})
				}
			}
		}
		// values that carry proof.TreeDepth: the field itself and parameters bound to it (fixpoint)
		depthParams := map[*ssa.Parameter]bool{}
		carries := func(v ssa.Value) bool {
			found := false
			walkDef(v, 10, func(x ssa.Value) bool {
				if found {
					return false
				}
				if valueIs(x, fTreeDepth) {
					found = true
					return false
				}
				if p, ok := x.(*ssa.Parameter); ok && depthParams[p] {
					found = true
					return false
				}
				if _, isCall := x.(*ssa.Call); isCall {
					return false // results of calls are judged inside the callee
				}
				return true
			})
			return found
		}
		for changed := true; changed; {
			changed = false
			for _, fn := range order {
				for _, b := range fn.Blocks {
					for _, in := range b.Instrs {
						ci, ok := in.(ssa.CallInstruction)
						if !ok {
							continue
						}
						sf := ci.Common().StaticCallee()
						if sf == nil || !inClosure[sf] {
							continue
						}
						for i, a := range ci.Common().Args {
							if i < len(sf.Params) && !depthParams[sf.Params[i]] && carries(a) {
								depthParams[sf.Params[i]] = true
								changed = true
							}
						}
					}
				}
			}
		}
		isRangeTest := func(cond ssa.Value) bool {
			bo, ok := cond.(*ssa.BinOp)
			if !ok {
				return false
			}
			pow := func(v ssa.Value) bool {
				s, ok := hStripConv(v).(*ssa.BinOp)
				return ok && s.Op == token.SHL && IsConstInt(1)(s.X) && carries(s.Y)
			}
			switch bo.Op {
			case token.LSS, token.GEQ, token.GTR, token.LEQ:
				return (pow(bo.X) && !carries(bo.Y)) || (pow(bo.Y) && !carries(bo.X))
			}
			return false
		}
		var binding, ranges []string
		for _, fn := range order {
			for _, b := range fn.Blocks {
				iff, ok := b.Instrs[len(b.Instrs)-1].(*ssa.If)
				if !ok {
					continue
				}
				cond, _ := condOf(iff.Cond)
				if !carries(cond) {
					continue
				}
				at := fnName(fn) + " (" + c.Pos(iff.Cond.Pos()) + ")"
				if isRangeTest(cond) {
					ranges = append(ranges, at)
				} else {
					binding = append(binding, at)
				}
			}
		}
		sort.Strings(binding)
		sort.Strings(ranges)
		var names []string
		for _, fn := range order {
			names = append(names, fn.Name())
		}
		if len(binding) > 0 {
			c.Ok("R37.4", pkg+"Verify:proof.TreeDepth bound to the climb", c.Pos(root.Pos()), "tests depending on proof.TreeDepth beyond the position range: "+strings.Join(binding, ", "))
		} else {
			c.Bad("R37.4", pkg+"Verify:proof.TreeDepth bound to the climb", c.Pos(root.Pos()),
				"no test on the success path of Verify depends on proof.TreeDepth except the position range tests `pos < 1<<depth` ["+strings.Join(ranges, ", ")+"] (functions examined: "+strings.Join(names, ", ")+"). "+
					"verifyPath climbs while hints remain or len(pl)>1 and never compares the number of levels with proof.TreeDepth, so a valid proof whose TreeDepth field is changed still verifies (e.g. position 0, or any position < 1<<newDepth), and with VerifyVectorCommitment a different depth re-maps the claimed index onto another leaf (depth 2, leaf of index 1 accepted as index 2 with TreeDepth=3); ErrUnexpectedTreeDepth is declared but unused")
		}
	}

	hDebugDump(c)
}

// hResolveNamedResult returns the error value a return instruction carries,
// following a named result to the last store before the return.
func hResolveNamedResult(fn *ssa.Function, ret *ssa.Return) ssa.Value {
	idx := errResultIndex(fn)
	if idx < 0 || idx >= len(ret.Results) {
		return nil
	}
	return hResolveLoadsLocal(ret.Results[idx])
}
