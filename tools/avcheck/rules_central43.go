package main

import "strings"

// R16.8: C15's R15.1 on the trie-leaf builders, reported under C16 as well. An
// independent audit of C16 showed three consequences of the ambiguous key‖value
// leaf of KvHashBuilderV6 for catchpoint catchup: a file in which one box
// record "abc"="defgh" is rewritten to "abcd"="efgh" passes VerifyCatchpoint
// under the genuine label and the tampered box is restored; a genuine file of a
// state holding boxes "a"="bc" and "ab"="c" is refused ("same account more than
// once"); and after "a" is deleted the producer's own file fails against the
// producer's own label (findings/C16-kvleaf). Known finding, not repaired, for
// the reason given under C15.
func init() {
	extend("C16", Extension{
		Run: func(c *Ctx) {
			n := borrowRules(c, runC15, func(o Obligation) (string, bool) {
				return "R16.8", o.Rule == "R15.1" && strings.Contains(o.Construct, "HashBuilderV6")
			})
			if n == 0 {
				c.Unk("R16.8", "ledger/store/trackerdb:trie-leaf builders", "-", "the C15 rules produced no obligation on the trie-leaf builders")
			}
		},
		Explanation: "R16.8 (a restored record is bound by its trie leaf): same obligation as C15 R15.1 for AccountHashBuilderV6, ResourcesHashBuilderV6 and KvHashBuilderV6 — the leaf pre-image is a uniquely decodable concatenation, so a catchpoint file whose record boundaries were moved cannot hash to the leaves the label commits to. KNOWN FINDING on the pinned tree for KvHashBuilderV6 (key‖value without a length): a file with box \"abc\"=\"defgh\" rewritten to \"abcd\"=\"efgh\" is accepted under the genuine label (findings/C16-kvleaf).",
		Floor:       map[string]int{"R16.8": 3},
		Patterns:    []string{"./ledger/store/trackerdb"},
	})
}
