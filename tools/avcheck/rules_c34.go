package main

import (
	"fmt"
	"go/token"
	"go/types"
	"sort"
	"strings"

	"golang.org/x/tools/go/ssa"
)

func init() {
	register(&Prop{
		ID:       "C34",
		Patterns: []string{"./data/transactions/logic"},
		Run:      runC34,
		Explanation: "Decides structural necessary conditions of version and mode gating in data/transactions/logic, using the statically evaluated OpSpecs table and field-spec tables (builder DSL interpreted from the typed AST, never executed; an entry that cannot be evaluated is an undecided obligation). " +
			"R34.1 (mode): every opcode evaluation function from which a LedgerForLogic call, a write to the transaction's EvalDelta or a write to cx.subtxns is reachable over the static call graph of the package has Modes==ModeApp in every OpSpecs entry that names it; the only accepted alternative is that every such path passes a call site dominated by a per-field test (cx.runMode & spec.mode) != 0, and then each case of the callee's switch over the field constant that reaches such an effect must have mode ModeApp in the extracted field table (today: global). " +
			"R34.2 (fields): after every xSpecByField lookup reachable from an opcode, a nil-error return is reachable only through the passing edges of `ok` and of `spec.<version field> <= cx.version` (itxn_field: itxVersion and != 0; app_params_set: setVersion and != 0); a lookup without the version test is accepted only when the extracted table proves that every entry's Version() is <= the introduction version of every opcode that reaches the lookup (today ec_*, mimc, poseidon2 — their 'all appeared at once' comments become checked facts). " +
			"R34.3 (tables indexed by the program's own version): EvalContext.version is written only by begin, from result 0 of transactions.ProgramVersion of the program it stores; every first-level index of opsByOpcode outside init is EvalContext.version or result 0 of binary.Uvarint/ProgramVersion of the program; in init every store of an OpSpecs element into opsByOpcode[i]/OpsByName[i] (and every addToSubOps call) is dominated by oi.Version == i (constant 1 for the v0/v1 aliases), version v is copied from v-1, and the SubOps slices of version v are cloned before sub-opcodes are added (otherwise a sub-opcode introduced at v leaks into v-1). " +
			"R34.4 (static check = execution for mode and size): checkStep's success return is reachable only past op != nil, the same (runMode & Modes) != 0 test as step, and the immediate-size test, and both step and checkStep obtain the spec from GetOpSpec. " +
			"R34.5 (branch targets): for every OpSpecs entry whose immediates contain a label kind, the evaluation function and the check function reach the same target decoder (branchTarget / branchTargetVarint / switchTarget) and the evaluation function stores only a decoder result or pc+size into cx.nextpc; in each check function the store into cx.branchTargets is reachable only through `cx.instructionStarts[target]` or the forward-branch bypass, the marked index is the decoder result, checkStep marks instructionStarts[pc] before anything else and rejects (no success return reachable) when a recorded branch target lies strictly inside the instruction. " +
			"Does NOT decide: whether a version constant is the intended one, that op implementations honour a field's semantics, gating of assembler-only constructs (pseudo-ops, macros, OpsByName lookups), the exact forward/backward boundary expression in the check functions (any comparison of the target with a pc-derived value is accepted as the forward-branch bypass), or that GetOpSpec's fallback to the prefix entry is the intended behaviour for unknown sub-opcodes.",
		Assumptions: []string{
			"proto(\"…\") yields one stack type per signature letter with an optional {n} suffix (parseStackTypes), as modelled by the extractor",
			"functions are not replaced through reflection or unsafe; calls through function values other than OpSpec.op / OpDetails.check are not followed",
		},
		Floor: map[string]int{"R34.1": 44, "R34.2": 51, "R34.3": 19, "R34.4": 4, "R34.5": 28},
	})
}

func runC34(c *Ctx) {
	a := gAvmExtract(c)
	if len(a.Ops) < 100 {
		c.Unk("R34.1", "OpSpecs", "-", fmt.Sprintf("only %d OpSpecs entries extracted", len(a.Ops)))
	}
	c34ModeRule(c, a)
	c34FieldRule(c, a)
	c34VersionIndex(c, a)
	c34CheckStep(c, a)
	c34Branches(c, a)
}

// ---------------------------------------------------------------------------
// R34.1 mode effect rule
// ---------------------------------------------------------------------------

type c34Eff struct {
	in   ssa.Instruction
	what string
}

// c34Effects lists the ledger-state effects directly in fn.
func c34Effects(c *Ctx, fn *ssa.Function, ledger *types.Named, fEvalDelta, fSubtxns, fTxn *types.Var) []c34Eff {
	var out []c34Eff
	for _, ci := range gInvokes(fn, ledger) {
		out = append(out, c34Eff{ci, "cx.Ledger." + ci.Common().Method.Name()})
	}
	isDelta := func(v ssa.Value) bool {
		return gDerives(v, 8, func(x ssa.Value) bool { return valueIs(x, fEvalDelta) }) &&
			gDerives(v, 10, func(x ssa.Value) bool { return valueIs(x, fTxn) })
	}
	for _, b := range fn.Blocks {
		for _, in := range b.Instrs {
			switch x := in.(type) {
			case *ssa.Store:
				if fa, ok := x.Addr.(*ssa.FieldAddr); ok && structField(fa.X.Type(), fa.Field) == fSubtxns {
					out = append(out, c34Eff{in, "write to cx.subtxns"})
				} else if isDelta(x.Addr) {
					out = append(out, c34Eff{in, "write to cx.txn.EvalDelta"})
				}
			case *ssa.MapUpdate:
				if isDelta(x.Map) {
					out = append(out, c34Eff{in, "write to cx.txn.EvalDelta"})
				}
			}
		}
	}
	return out
}

type c34Deleg struct {
	callee *ssa.Function
	via    string
}

type c34Search struct {
	c       *Ctx
	a       *GAvm
	direct  map[*ssa.Function][]c34Eff
	reaches map[*ssa.Function]bool
	guard   Guard
	memo    map[*ssa.Function]*c34Res
}

type c34Res struct {
	path  []string // non-nil: an unguarded path to an effect
	what  string
	deleg []c34Deleg
}

func (s *c34Search) find(fn *ssa.Function, onStack map[*ssa.Function]bool) *c34Res {
	if r, ok := s.memo[fn]; ok {
		return r
	}
	res := &c34Res{}
	onStack[fn] = true
	defer delete(onStack, fn)
	edges, matched := PassEdges(fn, s.guard)
	var reach *Reach
	if matched > 0 {
		reach = NewReach(fn, edges, nil)
	}
	unguarded := func(in ssa.Instruction) bool { return reach == nil || reach.Reaches(in) }
	for _, e := range s.direct[fn] {
		if unguarded(e.in) {
			res.path, res.what = []string{fnName(fn)}, e.what
			s.memo[fn] = res
			return res
		}
	}
	for _, b := range fn.Blocks {
		for _, in := range b.Instrs {
			var targets []*ssa.Function
			if ci, ok := in.(ssa.CallInstruction); ok {
				if g := ci.Common().StaticCallee(); g != nil {
					targets = append(targets, g)
				}
			}
			for _, op := range in.Operands(nil) {
				switch x := (*op).(type) {
				case *ssa.Function:
					targets = append(targets, x)
				case *ssa.MakeClosure:
					if g, ok := x.Fn.(*ssa.Function); ok {
						targets = append(targets, g)
					}
				}
			}
			for _, g := range targets {
				if !s.reaches[g] || onStack[g] {
					continue
				}
				if !unguarded(in) {
					res.deleg = append(res.deleg, c34Deleg{g, fnName(fn)})
					continue
				}
				sub := s.find(g, onStack)
				if sub.path != nil {
					res.path, res.what = append([]string{fnName(fn)}, sub.path...), sub.what
					s.memo[fn] = res
					return res
				}
				res.deleg = append(res.deleg, sub.deleg...)
			}
		}
	}
	s.memo[fn] = res
	return res
}

func c34ModeRule(c *Ctx, a *GAvm) {
	const rule = "R34.1"
	ledger := c.Named(gLogic + ".LedgerForLogic")
	fEvalDelta := c.Field("data/transactions.ApplyData.EvalDelta")
	fSubtxns := c.Field(gLogic + ".EvalContext.subtxns")
	fTxn := c.Field(gLogic + ".EvalContext.txn")
	fRunMode := c.Field(gLogic + ".EvalContext.runMode")
	fSpecModes := c.Field(gLogic + ".OpDetails.Modes")
	modeApp, _ := constInt64(c.Const(gLogic + ".ModeApp"))
	mModes := c.Func(gLogic + ".FieldSpec.Modes")

	// the per-field mode fields: accessor fields of T.Modes() for every table spec type
	modeField := map[*types.Named]*types.Var{}
	isModeField := map[*types.Var]bool{}
	for _, t := range a.Tables {
		obj, _, _ := types.LookupFieldOrMethod(t.Spec, false, a.pk.Types, mModes.Name())
		if m, ok := obj.(*types.Func); ok {
			if f := gAccessorField(c.SSAOf(m)); f != nil {
				modeField[t.Spec] = f
				isModeField[f] = true
			}
		}
	}
	// guard: (cx.runMode & spec.<mode field>) != 0
	guard := Guard{Name: "(cx.runMode & fieldSpec.mode) != 0", Match: func(cond ssa.Value) (bool, bool) {
		bo, ok := cond.(*ssa.BinOp)
		if !ok || (bo.Op != token.NEQ && bo.Op != token.EQL) {
			return false, false
		}
		for _, p := range [][2]ssa.Value{{bo.X, bo.Y}, {bo.Y, bo.X}} {
			and, ok := p[0].(*ssa.BinOp)
			if !ok || and.Op != token.AND || !IsConstInt(0)(p[1]) {
				continue
			}
			for _, q := range [][2]ssa.Value{{and.X, and.Y}, {and.Y, and.X}} {
				if !Mentions(q[0], fRunMode, 4) || Mentions(q[1], fSpecModes, 6) {
					continue
				}
				isFM := gDerives(q[1], 4, func(x ssa.Value) bool {
					switch y := x.(type) {
					case *ssa.FieldAddr:
						return isModeField[structField(y.X.Type(), y.Field)]
					case *ssa.Field:
						return isModeField[structField(y.X.Type(), y.Field)]
					}
					return false
				})
				if isFM {
					return true, bo.Op == token.NEQ
				}
			}
		}
		return false, false
	}}

	all := c.funcsOf(Mod + "/" + gLogic)
	s := &c34Search{c: c, a: a, direct: map[*ssa.Function][]c34Eff{}, reaches: map[*ssa.Function]bool{}, guard: guard, memo: map[*ssa.Function]*c34Res{}}
	for _, fn := range all {
		if e := c34Effects(c, fn, ledger, fEvalDelta, fSubtxns, fTxn); len(e) > 0 {
			s.direct[fn] = e
			s.reaches[fn] = true
		}
	}
	for changed := true; changed; {
		changed = false
		for _, fn := range all {
			if s.reaches[fn] {
				continue
			}
			for _, g := range gStaticCallees(fn) {
				if s.reaches[g] {
					s.reaches[fn] = true
					changed = true
					break
				}
			}
		}
	}

	roots, users := a.gOpRoots(c)
	delegated := map[*ssa.Function]map[string]bool{}
	nReach := 0
	for _, root := range roots {
		if !s.reaches[root] {
			continue
		}
		nReach++
		c.NoteFn(fnName(root))
		res := s.find(root, map[*ssa.Function]bool{})
		if res.path == nil {
			var callees []string
			for _, d := range res.deleg {
				if delegated[d.callee] == nil {
					delegated[d.callee] = map[string]bool{}
				}
				delegated[d.callee][fnName(root)] = true
				callees = append(callees, fnName(d.callee)+" (call in "+d.via+")")
			}
			c.Ok(rule, fnName(root)+":ledger effects only behind a per-field mode test", c.Pos(root.Pos()),
				"every path to ledger state passes a call dominated by (cx.runMode & fieldSpec.mode) != 0: "+strings.Join(callees, ", "))
			continue
		}
		construct := fnName(root) + ":Modes==ModeApp<=" + res.what
		ok := true
		var offenders []string
		for _, o := range users[root] {
			if !o.Need(c, rule, "Modes") {
				ok = false
				continue
			}
			if o.Modes != modeApp {
				ok = false
				offenders = append(offenders, fmt.Sprintf("%s (Modes=%d)", o.Key(), o.Modes))
			}
		}
		if len(offenders) > 0 {
			c.Bad(rule, construct, c.Pos(users[root][0].Pos), fmt.Sprintf("%s reaches %s via %s, but is enabled outside application mode by %s: a signature-mode program could use it",
				fnName(root), res.what, strings.Join(res.path, "→"), strings.Join(offenders, ", ")))
		} else if ok {
			c.Ok(rule, construct, c.Pos(root.Pos()), fmt.Sprintf("%d table entr(y/ies) all only(ModeApp); path %s", len(users[root]), strings.Join(res.path, "→")))
		}
	}
	c.NoteSites(nReach)

	// delegated callees: each field case that reaches an effect must be ModeApp in the table
	var dl []*ssa.Function
	for g := range delegated {
		dl = append(dl, g)
	}
	sort.Slice(dl, func(i, j int) bool { return fnName(dl[i]) < fnName(dl[j]) })
	for _, g := range dl {
		c34CaseRule(c, a, s, g, modeField, modeApp)
	}
}

// c34CaseRule: in g (which switches over the field constant of its spec
// parameter) every case whose body reaches a ledger effect has mode ModeApp in
// the extracted table.
func c34CaseRule(c *Ctx, a *GAvm, s *c34Search, g *ssa.Function, modeField map[*types.Named]*types.Var, modeApp int64) {
	const rule = "R34.1"
	name := fnName(g)
	var tab *GFieldTable
	var param *ssa.Parameter
	for _, p := range g.Params {
		t := p.Type()
		if pt, ok := t.(*types.Pointer); ok {
			t = pt.Elem()
		}
		for _, tb := range a.Tables {
			if types.Identical(t, tb.Spec) {
				tab, param = tb, p
			}
		}
	}
	if tab == nil || tab.FieldField == nil || modeField[tab.Spec] == nil || tab.Und != "" {
		c.Unk(rule, name+":per-field mode", c.Pos(g.Pos()), "ledger effects are reached behind a per-field mode test, but the callee has no field-spec parameter with an extracted table: cannot relate cases to table modes")
		return
	}
	mf := modeField[tab.Spec]
	isFieldRead := func(v ssa.Value) bool {
		return gDerives(v, 5, func(x ssa.Value) bool {
			switch y := x.(type) {
			case *ssa.FieldAddr:
				return structField(y.X.Type(), y.Field) == tab.FieldField && gDerives(y.X, 4, func(z ssa.Value) bool { return z == ssa.Value(param) })
			case *ssa.Field:
				return structField(y.X.Type(), y.Field) == tab.FieldField && gDerives(y.X, 4, func(z ssa.Value) bool { return z == ssa.Value(param) })
			}
			return false
		})
	}
	// case constants of a block: all predecessors are `field == K` tests whose true edge enters it
	caseConsts := func(b *ssa.BasicBlock) ([]int64, bool) {
		if len(b.Preds) == 0 {
			return nil, false
		}
		var ks []int64
		for _, p := range b.Preds {
			iff, ok := p.Instrs[len(p.Instrs)-1].(*ssa.If)
			if !ok || p.Succs[0] != b {
				return nil, false
			}
			bo, ok := iff.Cond.(*ssa.BinOp)
			if !ok || bo.Op != token.EQL {
				return nil, false
			}
			var k *ssa.Const
			switch {
			case isFieldRead(bo.X):
				k, _ = bo.Y.(*ssa.Const)
			case isFieldRead(bo.Y):
				k, _ = bo.X.(*ssa.Const)
			}
			if k == nil || k.Value == nil {
				return nil, false
			}
			n, ok := gConstInt(k)
			if !ok {
				return nil, false
			}
			ks = append(ks, n)
		}
		return ks, true
	}
	type hit struct {
		in   ssa.Instruction
		what string
	}
	var hits []hit
	for _, e := range s.direct[g] {
		hits = append(hits, hit{e.in, e.what})
	}
	for _, b := range g.Blocks {
		for _, in := range b.Instrs {
			if ci, ok := in.(ssa.CallInstruction); ok {
				if callee := ci.Common().StaticCallee(); callee != nil && s.reaches[callee] {
					sub := s.find(callee, map[*ssa.Function]bool{g: true})
					what := "ledger state via " + fnName(callee)
					if sub.path != nil {
						what = sub.what + " via " + strings.Join(sub.path, "→")
					}
					hits = append(hits, hit{in, what})
				}
			}
		}
	}
	seen := map[int64]bool{}
	for _, h := range hits {
		var ks []int64
		found := false
		for b := h.in.Block(); b != nil; b = b.Idom() {
			if k, ok := caseConsts(b); ok {
				ks, found = k, true
				break
			}
		}
		if !found {
			c.Bad(rule, name+":"+h.what+" outside any field case", c.Pos(h.in.Pos()), "in "+name+" "+h.what+" is reached outside the cases of the switch over the field constant, so no table mode protects it in signature mode")
			continue
		}
		for _, k := range ks {
			if seen[k] {
				continue
			}
			seen[k] = true
			var ent *GFieldEntry
			for i := range tab.Entries {
				if tab.Entries[i].FieldOK && tab.Entries[i].Field == k {
					ent = &tab.Entries[i]
				}
			}
			if ent == nil {
				c.Unk(rule, fmt.Sprintf("%s:case %d", name, k), c.Pos(h.in.Pos()), "case constant has no entry in "+tab.Table.Name())
				continue
			}
			m, ok := ent.Val.field(mf).int64()
			construct := fmt.Sprintf("%s[%s].%s==ModeApp<=%s", tab.Table.Name(), ent.Name, mf.Name(), h.what)
			if !ok {
				c.Unk(rule, construct, c.Pos(ent.Pos), "mode of the table entry is not a constant")
				continue
			}
			c.Check(m == modeApp, rule, construct, c.Pos(ent.Pos), fmt.Sprintf("case %s of %s reaches %s; its table mode is %d (ModeApp=%d): the per-field test in the caller is what keeps it out of signature mode", ent.Name, name, h.what, m, modeApp))
		}
	}
}

func gConstInt(k *ssa.Const) (int64, bool) {
	if k == nil || k.Value == nil {
		return 0, false
	}
	return gVal{K: gConst, C: k.Value}.int64()
}

// ---------------------------------------------------------------------------
// R34.2 field version rule
// ---------------------------------------------------------------------------

func c34FieldRule(c *Ctx, a *GAvm) {
	const rule = "R34.2"
	fCxVersion := c.Field(gLogic + ".EvalContext.version")
	progVersion := c.Func(gLogic + ".EvalContext.ProgramVersion")
	// lookups whose gate is the "settable since" field (0 = never) instead of the read version
	altFor := map[string]string{
		gLogic + ".opItxnField":    gLogic + ".txnFieldSpec.itxVersion",
		gLogic + ".opAppParamsSet": gLogic + ".appParamsFieldSpec.setVersion",
	}
	for k := range altFor {
		c.Func(k) // a renamed function must make the rule undecided, not silently fall back to the read version
	}
	for _, t := range a.Tables {
		if t.Und != "" {
			c.Unk(rule, "table:"+t.Lookup.Name(), c.Pos(t.Lookup.Pos()), "field table not extracted: "+t.Und)
		}
		for _, e := range t.Entries {
			if !e.VersionOK || !e.FieldOK {
				c.Unk(rule, fmt.Sprintf("table:%s[%d]", t.Table.Name(), e.Idx), c.Pos(e.Pos), "table entry not evaluated: "+e.Why)
			}
		}
	}
	// closures of every op root, to know which opcodes reach a function
	roots, users := a.gOpRoots(c)
	reachedBy := map[*ssa.Function][]*GOp{}
	for _, r := range roots {
		for fn := range gClosure([]*ssa.Function{r}, Mod+"/"+gLogic) {
			reachedBy[fn] = append(reachedBy[fn], users[r]...)
		}
	}
	var lookups []*types.Func
	for _, t := range a.Tables {
		lookups = append(lookups, t.Lookup)
	}
	sites := 0
	for _, fn := range c.funcsOf(Mod + "/" + gLogic) {
		calls := CallsTo(fn, false, lookups...)
		for _, ci := range calls {
			call, ok := ci.(*ssa.Call)
			if !ok {
				continue
			}
			sites++
			t := a.ByLookup[calleeOf(call.Common())]
			site := fnName(fn) + ":" + t.Lookup.Name()
			ops := reachedBy[fn]
			if len(ops) == 0 {
				c.Ok(rule, site+":not on an evaluation path", c.Pos(call.Pos()), "the lookup is not reachable from any opcode evaluation function (no program version is in scope here)")
				continue
			}
			c.NoteFn(fnName(fn))
			minIntro := int64(1 << 30)
			var minOp *GOp
			okAttrs := true
			for _, o := range ops {
				if !o.Need(c, rule, "Version") {
					okAttrs = false
					continue
				}
				if o.Version < minIntro {
					minIntro, minOp = o.Version, o
				}
			}
			if errResultIndex(fn) < 0 {
				c.Unk(rule, site, c.Pos(call.Pos()), "lookup in a function without an error result: version gating by its callers is not modelled")
				continue
			}
			// which version field gates this site
			vf := t.VersionField
			needNZ := false
			if alt, ok := altFor[fnName(topFn(fn))]; ok {
				af := c.Field(alt)
				known := false
				for _, x := range t.AltFields {
					if x == af {
						known = true
					}
				}
				if !known {
					c.Unk(rule, site+":"+af.Name(), c.Pos(call.Pos()), af.Name()+" is not a 'settable since' field of "+t.Spec.Obj().Name()+" (no wrapper type returns it from Version())")
					continue
				}
				vf, needNZ = af, true
			}
			var rets []ssa.Instruction
			from := gReachFrom(call, nil, nil)
			for _, r := range SuccessReturns(fn) {
				if from.Reaches(r) {
					rets = append(rets, r)
				}
			}
			if len(rets) == 0 {
				c.Ok(rule, site+":no success after lookup", c.Pos(call.Pos()), "no nil-error return is reachable after the lookup")
				continue
			}
			bypass := func(g Guard) (missing bool, reached ssa.Instruction) {
				edges, m := PassEdges(fn, g)
				if m == 0 {
					return true, nil
				}
				r := gReachFrom(call, edges, nil)
				for _, x := range rets {
					if r.Reaches(x) {
						return false, x
					}
				}
				return false, nil
			}
			// ok guard
			gOK := GBool("ok", func(v ssa.Value) bool { return gDerives(v, 3, gIsResult(call, 1)) }, true)
			if missing, reached := bypass(gOK); missing {
				c.Bad(rule, site+":ok", c.Pos(call.Pos()), "the boolean result of "+t.Lookup.Name()+" is never tested in "+fnName(fn)+": an out-of-table field byte would be accepted")
			} else if reached != nil {
				c.Bad(rule, site+":ok", c.Pos(reached.Pos()), "a nil-error return is reachable after "+t.Lookup.Name()+" without passing `ok`")
			} else {
				c.Ok(rule, site+":ok", c.Pos(call.Pos()), "success is reachable only when the field byte is in the table")
			}
			// version guard
			if vf == nil {
				// the spec type has no per-entry version: Version() is one constant for the whole table
				c34Exempt(c, rule, site, call, t, nil, minIntro, minOp, okAttrs, "the spec type has no per-entry version field")
				continue
			}
			specField := gFieldLoad(vf, gIsResult(call, 0))
			gVer := GCmp("spec."+vf.Name()+" <= cx.version", token.LEQ, specField, MAny(fCxVersion, progVersion))
			missing, reached := bypass(gVer)
			switch {
			case !missing && reached == nil:
				c.Ok(rule, site+":"+vf.Name()+"<=cx.version", c.Pos(call.Pos()), fmt.Sprintf("%d nil-error return(s) after the lookup are reachable only when spec.%s <= cx.version", len(rets), vf.Name()))
			case needNZ:
				c.Bad(rule, site+":"+vf.Name()+"<=cx.version", c.Pos(call.Pos()), fmt.Sprintf("%s can succeed without testing spec.%s against cx.version: a field that became settable in a later version would be accepted", fnName(fn), vf.Name()))
			default:
				why := "the version test spec." + vf.Name() + " <= cx.version is missing (or inverted)"
				if !missing {
					why = "the version test can be bypassed"
				}
				c34Exempt(c, rule, site, call, t, vf, minIntro, minOp, okAttrs, why)
			}
			if needNZ {
				gNZ := GCmp("spec."+vf.Name()+" != 0", token.NEQ, specField, IsConstInt(0))
				if missing, reached := bypass(gNZ); missing || reached != nil {
					c.Bad(rule, site+":"+vf.Name()+"!=0", c.Pos(call.Pos()), fmt.Sprintf("%s can succeed for a field whose %s is 0 (never settable)", fnName(fn), vf.Name()))
				} else {
					c.Ok(rule, site+":"+vf.Name()+"!=0", c.Pos(call.Pos()), "fields that are never settable are rejected")
				}
			}
		}
	}
	c.NoteSites(sites)
}

// c34Exempt decides a lookup site without a (sound) version test from the
// extracted table: fine iff no entry is newer than the oldest opcode reaching it.
func c34Exempt(c *Ctx, rule, site string, call *ssa.Call, t *GFieldTable, vf *types.Var, minIntro int64, minOp *GOp, okAttrs bool, why string) {
	construct := site + ":every " + t.Table.Name() + " entry <= opcode introduction"
	if !okAttrs || minOp == nil || t.Und != "" {
		c.Unk(rule, construct, c.Pos(call.Pos()), why+" and the tables needed to justify that are not fully extracted")
		return
	}
	var newer []string
	for _, e := range t.Entries {
		if !e.VersionOK {
			c.Unk(rule, construct, c.Pos(e.Pos), why+" and a table entry's version is not evaluable")
			return
		}
		if e.Version > minIntro {
			newer = append(newer, fmt.Sprintf("%s (v%d)", e.Name, e.Version))
		}
	}
	if len(newer) > 0 {
		c.Bad(rule, construct, c.Pos(call.Pos()), fmt.Sprintf("%s in %s: %s became available after %s (v%d), so a v%d program could use them", why, site, strings.Join(newer, ", "), minOp.Key(), minIntro, minIntro))
		return
	}
	c.Ok(rule, construct, c.Pos(call.Pos()), fmt.Sprintf("%s, which is sound today: all %d entries have Version() <= %d = introduction of %s", why, len(t.Entries), minIntro, minOp.Key()))
}

// ---------------------------------------------------------------------------
// R34.3 the opcode tables are built per version and indexed by the program's version
// ---------------------------------------------------------------------------

// c34IndexOfGlobal: v is &G[i] for package variable g; returns i.
func c34IndexOfGlobal(v ssa.Value, g *types.Var) (ssa.Value, bool) {
	ia, ok := v.(*ssa.IndexAddr)
	if !ok {
		return nil, false
	}
	gl, ok := ia.X.(*ssa.Global)
	if !ok || gl.Object() != types.Object(g) {
		return nil, false
	}
	return ia.Index, true
}

func c34VersionIndex(c *Ctx, a *GAvm) {
	const rule = "R34.3"
	pkgPath := Mod + "/" + gLogic
	fVersion := c.Field(gLogic + ".EvalContext.version")
	fProgram := c.Field(gLogic + ".EvalContext.program")
	progVersion := c.Func("data/transactions.ProgramVersion")
	gOps, _ := c.Obj(gLogic + ".opsByOpcode").(*types.Var)
	gByName, _ := c.Obj(gLogic + ".OpsByName").(*types.Var)
	gSpecs, _ := c.Obj(gLogic + ".OpSpecs").(*types.Var)
	addSub := c.Func(gLogic + ".addToSubOps")
	specT := c.Named(gLogic + ".OpSpec")
	fSpecVersion := c.Field(gLogic + ".OpSpec.Version")
	fSubOps := c.Field(gLogic + ".OpDetails.SubOps")
	if gOps == nil || gByName == nil || gSpecs == nil {
		panic(abortRule("opsByOpcode / OpsByName / OpSpecs are not package variables"))
	}

	// (a) EvalContext.version: one writer, from the program's own header
	begin := c.Fn(gLogic + ".EvalContext.begin")
	c.OwnerRule(rule, "write(EvalContext.version)", c.FieldWrites(map[*types.Var]bool{fVersion: true}, ScanOpts{SkipGenerated: true}),
		map[string]string{gLogic + ".EvalContext.begin": "decodes the version from the program header"})
	{
		st := StoresToField(begin, false, map[*types.Var]bool{fVersion: true})
		pst := StoresToField(begin, false, map[*types.Var]bool{fProgram: true})
		ok := len(st) > 0 && len(pst) > 0
		var detail string
		for _, s := range st {
			call, isRes := asResultOf(s.(*ssa.Store).Val, 0, progVersion)
			if !isRes {
				ok, detail = false, "cx.version is assigned "+describe(s.(*ssa.Store).Val)+", not result 0 of transactions.ProgramVersion"
				continue
			}
			for _, p := range pst {
				if len(call.Call.Args) != 1 || call.Call.Args[0] != p.(*ssa.Store).Val {
					ok, detail = false, "the version is decoded from a different byte string than the one stored in cx.program"
				}
			}
		}
		c.Check(ok, rule, gLogic+".EvalContext.begin:version==ProgramVersion(cx.program)", c.Pos(begin.Pos()), "cx.version is result 0 of transactions.ProgramVersion applied to the very slice stored in cx.program"+detail)
	}

	// (b) every read index of opsByOpcode outside init is the program's version
	uvarint := c.TryObj("encoding/binary.Uvarint")
	_ = uvarint
	var initFn *ssa.Function
	for _, fn := range c.funcsOf(pkgPath) {
		for _, b := range fn.Blocks {
			for _, in := range b.Instrs {
				ia, ok := in.(*ssa.IndexAddr)
				if !ok {
					continue
				}
				idx, ok := c34IndexOfGlobal(ia, gOps)
				if !ok {
					continue
				}
				if fn.Parent() == nil && strings.HasPrefix(fn.Name(), "init#") {
					initFn = fn
					continue
				}
				okIdx := gDerives(idx, 6, func(x ssa.Value) bool {
					if valueIs(x, fVersion) {
						return true
					}
					if e, ok := x.(*ssa.Extract); ok && e.Index == 0 {
						if call, ok := e.Tuple.(*ssa.Call); ok {
							if f := calleeOf(call.Common()); f != nil && f.Pkg() != nil {
								q := f.Pkg().Path() + "." + f.Name()
								return q == "encoding/binary.Uvarint" || sameFunc(f, progVersion)
							}
						}
					}
					return false
				})
				c.Check(okIdx, rule, fnName(fn)+":opsByOpcode[program version]", c.Pos(ia.Pos()), "the opcode table is selected by the program's own version (cx.version or the decoded header), found index "+describe(idx))
			}
		}
	}
	if initFn == nil {
		c.Unk(rule, "init:opsByOpcode", "-", "no init function populating opsByOpcode was found")
		return
	}
	c.NoteFn(fnName(initFn))

	// (c) population sites in init
	isSpecElem := func(v ssa.Value) bool { // derives from an element of OpSpecs
		return gDerives(v, 8, func(x ssa.Value) bool {
			g, ok := x.(*ssa.Global)
			return ok && g.Object() == types.Object(gSpecs)
		})
	}
	versionOf := func(v ssa.Value) bool { // a read of oi.Version for an OpSpecs element
		return gDerives(v, 3, func(x ssa.Value) bool {
			fa, ok := x.(*ssa.FieldAddr)
			return ok && structField(fa.X.Type(), fa.Field) == fSpecVersion && isSpecElem(fa.X)
		})
	}
	type site struct {
		in   ssa.Instruction
		idx  ssa.Value
		val  ssa.Value
		kind string
	}
	var sites []site
	var copies []site
	var clones []ssa.Instruction
	for _, b := range initFn.Blocks {
		for _, in := range b.Instrs {
			switch x := in.(type) {
			case *ssa.Store:
				// opsByOpcode[i][op] = V
				if ia, ok := x.Addr.(*ssa.IndexAddr); ok {
					if idx, ok := c34IndexOfGlobal(ia.X, gOps); ok && types.Identical(x.Val.Type(), specT) {
						sites = append(sites, site{in, idx, x.Val, "opsByOpcode[i][opcode]="})
						continue
					}
				}
				// opsByOpcode[i] = whole array ; OpsByName[i] = map
				if idx, ok := c34IndexOfGlobal(x.Addr, gOps); ok {
					copies = append(copies, site{in, idx, x.Val, "opsByOpcode"})
					continue
				}
				if idx, ok := c34IndexOfGlobal(x.Addr, gByName); ok {
					copies = append(copies, site{in, idx, x.Val, "OpsByName"})
					continue
				}
				if fa, ok := x.Addr.(*ssa.FieldAddr); ok && structField(fa.X.Type(), fa.Field) == fSubOps {
					clones = append(clones, in)
				}
			case *ssa.MapUpdate:
				if u, ok := x.Map.(*ssa.UnOp); ok && u.Op == token.MUL {
					if idx, ok := c34IndexOfGlobal(u.X, gByName); ok {
						sites = append(sites, site{in, idx, x.Value, "OpsByName[i][name]="})
					}
				}
			case *ssa.Call:
				if sameFunc(calleeOf(x.Common()), addSub) && len(x.Call.Args) == 2 {
					if idx, ok := c34IndexOfGlobal(x.Call.Args[0], gOps); ok {
						sites = append(sites, site{in, idx, x.Call.Args[1], "addToSubOps(&opsByOpcode[i],"})
					}
				}
			}
		}
	}
	if len(sites) == 0 {
		c.Unk(rule, "init:population", c.Pos(initFn.Pos()), "no store of an OpSpecs element into the version tables found")
	}
	for _, s := range sites {
		idxDesc, gName := "v", "oi.Version == v"
		var want VM
		if k, ok := s.idx.(*ssa.Const); ok {
			n, _ := gConstInt(k)
			idxDesc = fmt.Sprint(n)
			w := n
			if n == 0 {
				w = 1 // version 0 is the documented alias of the v1 table
			}
			want = IsConstInt(w)
			gName = fmt.Sprintf("oi.Version == %d", w)
		} else {
			want = IsV(s.idx)
		}
		construct := strings.Replace(s.kind, "[i]", "["+idxDesc+"]", 1) + "oi"
		if !isSpecElem(s.val) {
			c.Unk(rule, construct, c.Pos(s.in.Pos()), "the stored OpSpec does not derive from an element of OpSpecs: "+describe(s.val))
			continue
		}
		c.MustGuard(MustGuardSpec{Rule: rule, Fn: initFn, Effects: []ssa.Instruction{s.in}, EffName: construct,
			Guards: []Guard{GCmp(gName, token.EQL, versionOf, want)}})
	}
	// (d) copy-forward: table v starts as table v-1
	nCopy := 0
	for _, s := range copies {
		if _, isConst := s.idx.(*ssa.Const); isConst {
			continue // fresh maps for versions 0 and 1
		}
		nCopy++
		ok := gDerives(s.val, 5, func(x ssa.Value) bool {
			ia, isIA := x.(*ssa.IndexAddr)
			if !isIA {
				return false
			}
			var j ssa.Value
			var okJ bool
			if s.kind == "opsByOpcode" {
				j, okJ = c34IndexOfGlobal(ia, gOps)
			} else {
				j, okJ = c34IndexOfGlobal(ia, gByName)
			}
			if !okJ {
				return false
			}
			bo, isBO := j.(*ssa.BinOp)
			return isBO && bo.Op == token.SUB && bo.X == s.idx && IsConstInt(1)(bo.Y)
		})
		c.Check(ok, rule, "init:"+s.kind+"[v]=copy("+s.kind+"[v-1])", c.Pos(s.in.Pos()), "version v starts from the table of version v-1 (an opcode introduced at w is then visible exactly at versions >= w)")
	}
	if nCopy == 0 {
		c.Unk(rule, "init:copy-forward", c.Pos(initFn.Pos()), "no copy of table v-1 into table v found")
	}
	// (e) sub-opcode slices are cloned per version before addToSubOps appends to them
	slicesClone := "slices.Clone"
	for _, s := range sites {
		if _, isConst := s.idx.(*ssa.Const); isConst || !strings.HasPrefix(s.kind, "addToSubOps") {
			continue
		}
		ok := false
		for _, cl := range clones {
			st := cl.(*ssa.Store)
			fromClone := gDerives(st.Val, 2, func(x ssa.Value) bool {
				call, isCall := x.(*ssa.Call)
				if !isCall {
					return false
				}
				f := calleeOf(call.Common())
				return f != nil && f.Pkg() != nil && f.Pkg().Path()+"."+f.Name() == slicesClone
			})
			sameVersion := gDerives(st.Addr, 6, func(x ssa.Value) bool {
				i, isIdx := c34IndexOfGlobal(x, gOps)
				return isIdx && i == s.idx
			})
			if !fromClone || !sameVersion {
				continue
			}
			// the clone loop is finished before the call: some header H has the store in its body and the call after its exit
			for h := cl.Block().Idom(); h != nil; h = h.Idom() {
				if _, isIf := h.Instrs[len(h.Instrs)-1].(*ssa.If); !isIf || len(h.Succs) != 2 {
					continue
				}
				if h.Succs[0].Dominates(cl.Block()) && len(h.Succs[1].Preds) == 1 && h.Succs[1].Dominates(s.in.Block()) {
					ok = true
				}
			}
		}
		c.Check(ok, rule, "init:SubOps of version v cloned before addToSubOps(&opsByOpcode[v],…)", c.Pos(s.in.Pos()), "each version owns its SubOps slices (slices.Clone in a loop completed before sub-opcodes of version v are added); without it a sub-opcode introduced at v is appended into the array shared with v-1")
	}
}

// ---------------------------------------------------------------------------
// R34.4 checkStep applies the same spec, mode and size tests as step
// ---------------------------------------------------------------------------

func c34CheckStep(c *Ctx, a *GAvm) {
	const rule = "R34.4"
	getSpec := c.Func(gLogic + ".EvalContext.GetOpSpec")
	fOp := c.Field(gLogic + ".OpSpec.op")
	fModes := c.Field(gLogic + ".OpDetails.Modes")
	fSize := c.Field(gLogic + ".OpDetails.Size")
	fRunMode := c.Field(gLogic + ".EvalContext.runMode")
	fPc := c.Field(gLogic + ".EvalContext.pc")
	fProgram := c.Field(gLogic + ".EvalContext.program")
	for _, name := range []string{"checkStep", "step"} {
		fn := c.Fn(gLogic + ".EvalContext." + name)
		fromSpec := func(f *types.Var) VM {
			return gFieldOf(f, func(x ssa.Value) bool {
				call, ok := x.(*ssa.Call)
				return ok && sameFunc(calleeOf(call.Common()), getSpec)
			})
		}
		modeVal := func(v ssa.Value) bool {
			bo, ok := v.(*ssa.BinOp)
			if !ok || bo.Op != token.AND {
				return false
			}
			return (Mentions(bo.X, fRunMode, 4) && fromSpec(fModes)(bo.Y)) || (Mentions(bo.Y, fRunMode, 4) && fromSpec(fModes)(bo.X))
		}
		guards := []Guard{
			GCmp("GetOpSpec().op != nil", token.NEQ, gFieldLoad(fOp, func(x ssa.Value) bool {
				call, ok := x.(*ssa.Call)
				return ok && sameFunc(calleeOf(call.Common()), getSpec)
			}), IsNil),
			GCmp("(cx.runMode & GetOpSpec().Modes) != 0", token.NEQ, modeVal, IsConstInt(0)),
		}
		if name == "step" {
			// step's own effect (the call through spec.op) is decided by C31/R31.1; here only the shared mode test
			guards = guards[1:]
		}
		c.MustGuard(MustGuardSpec{Rule: rule, Fn: fn, Effects: gSuccessReturns(fn), EffName: "return nil", Guards: guards})
		if name == "checkStep" {
			c.MustGuard(MustGuardSpec{Rule: rule, Fn: fn, Effects: gSuccessReturns(fn), EffName: "return nil",
				Guards: []Guard{GCmp("cx.pc + Size <= len(cx.program)", token.LEQ, func(v ssa.Value) bool { return Mentions(v, fPc, 5) && fromSpec(fSize)(v) }, M(fProgram))},
				Bypass: []Guard{GCmp("Size == 0", token.EQL, fromSpec(fSize), IsConstInt(0))}})
		}
	}
}

// ---------------------------------------------------------------------------
// R34.5 branch targets: one decoder for check and eval; alignment bookkeeping
// ---------------------------------------------------------------------------

func c34Branches(c *Ctx, a *GAvm) {
	const rule = "R34.5"
	pkgPath := Mod + "/" + gLogic
	labelKinds := map[int64]string{}
	for _, n := range []string{"immLabel", "immLabels", "immVarintLabel"} {
		if v, ok := constInt64(c.Const(gLogic + "." + n)); ok {
			labelKinds[v] = n
		}
	}
	decoders := c.Funcs(gLogic+".branchTarget", gLogic+".branchTargetVarint", gLogic+".switchTarget")
	fNextpc := c.Field(gLogic + ".EvalContext.nextpc")
	fPc := c.Field(gLogic + ".EvalContext.pc")
	fProgram := c.Field(gLogic + ".EvalContext.program")
	fTargets := c.Field(gLogic + ".EvalContext.branchTargets")
	fStarts := c.Field(gLogic + ".EvalContext.instructionStarts")

	decodersIn := func(fn *ssa.Function) (map[*types.Func]bool, map[*ssa.Function]bool) {
		cl := gClosure([]*ssa.Function{fn}, pkgPath)
		out := map[*types.Func]bool{}
		for f := range cl {
			for _, ci := range CallsTo(f, false, decoders...) {
				out[calleeOf(ci.Common()).Origin()] = true
			}
		}
		return out, cl
	}
	names := func(m map[*types.Func]bool) string {
		var s []string
		for f := range m {
			s = append(s, f.Name())
		}
		sort.Strings(s)
		return strings.Join(s, ",")
	}
	type pair struct{ op, check *types.Func }
	seenPair := map[pair]bool{}
	checks := map[*types.Func]bool{}
	for _, o := range a.Ops {
		if !o.Need(c, rule, "Immediates") {
			continue
		}
		isBranch := false
		for _, im := range o.Imms {
			if _, ok := labelKinds[im.Kind]; ok {
				isBranch = true
			}
		}
		if !isBranch || !o.Need(c, rule, "op", "check") {
			continue
		}
		if o.Check == nil || o.Op == nil {
			c.Bad(rule, o.Key()+":check", c.Pos(o.Pos), "an opcode with a branch-label immediate has no static check function: its targets are never validated")
			continue
		}
		p := pair{o.Op, o.Check}
		if seenPair[p] {
			continue
		}
		seenPair[p] = true
		checks[o.Check] = true
		opFn, ckFn := c.SSAOf(o.Op), c.SSAOf(o.Check)
		if opFn == nil || ckFn == nil {
			c.Unk(rule, o.Key()+":decoder", c.Pos(o.Pos), "evaluation or check function has no body")
			continue
		}
		c.NoteFn(fnName(opFn))
		dOp, clOp := decodersIn(opFn)
		dCk, _ := decodersIn(ckFn)
		same := len(dOp) > 0 && len(dOp) == len(dCk)
		for f := range dOp {
			if !dCk[f] {
				same = false
			}
		}
		c.Check(same, rule, fmt.Sprintf("%s~%s:same target decoder", funcObjName(o.Op), funcObjName(o.Check)), c.Pos(opFn.Pos()),
			fmt.Sprintf("evaluation decodes branch targets with {%s}, static check with {%s}; they must be the same function so both agree on every target", names(dOp), names(dCk)))
		// nextpc in the evaluation function: decoder result, or pc + size (not a second decoding of program bytes)
		okNext, n := true, 0
		var bad string
		var fns []*ssa.Function
		for f := range clOp {
			fns = append(fns, f)
		}
		sort.Slice(fns, func(i, j int) bool { return fnName(fns[i]) < fnName(fns[j]) })
		for _, f := range fns {
			if inFuncs(gFuncOf(f), decoders) {
				continue
			}
			for _, st := range StoresToField(f, false, map[*types.Var]bool{fNextpc: true}) {
				n++
				v := st.(*ssa.Store).Val
				if _, ok := asResultOf(v, 0, decoders...); ok {
					continue
				}
				if k, ok := v.(*ssa.Const); ok && k.Value != nil {
					continue
				}
				rawBytes := gDerives(v, 8, func(x ssa.Value) bool {
					ia, ok := x.(*ssa.IndexAddr)
					return ok && Mentions(ia.X, fProgram, 3)
				})
				if Mentions(v, fPc, 6) && !rawBytes {
					continue // fall through: pc + instruction size
				}
				okNext, bad = false, fnName(f)+" sets cx.nextpc to "+describe(v)
			}
		}
		c.Check(okNext && n > 0, rule, funcObjName(o.Op)+":cx.nextpc<=decoder result|pc+size", c.Pos(opFn.Pos()), fmt.Sprintf("%d store(s) to cx.nextpc: each is result 0 of the shared decoder or pc+size %s", n, bad))
	}
	// check functions: alignment bookkeeping
	var cks []*types.Func
	for f := range checks {
		cks = append(cks, f)
	}
	sort.Slice(cks, func(i, j int) bool { return cks[i].Name() < cks[j].Name() })
	for _, f := range cks {
		fn := c.SSAOf(f)
		name := fnName(fn)
		var marks []ssa.Instruction
		for _, b := range fn.Blocks {
			for _, in := range b.Instrs {
				st, ok := in.(*ssa.Store)
				if !ok {
					continue
				}
				if ia, ok := st.Addr.(*ssa.IndexAddr); ok && Mentions(ia.X, fTargets, 3) {
					marks = append(marks, in)
				}
			}
		}
		if len(marks) == 0 {
			c.Bad(rule, name+":records branch targets", c.Pos(fn.Pos()), name+" never records its target in cx.branchTargets, so a forward branch into the middle of an instruction is not rejected")
			continue
		}
		for _, m := range marks {
			idx := m.(*ssa.Store).Addr.(*ssa.IndexAddr).Index
			_, fromDec := asResultOf(idx, 0, decoders...)
			c.Check(fromDec && IsConstBool(true)(m.(*ssa.Store).Val), rule, name+":cx.branchTargets[decoder result]=true", c.Pos(m.Pos()), "the recorded position is result 0 of the shared decoder, found "+describe(idx))
			aligned := GBool("cx.instructionStarts[target]", func(v ssa.Value) bool {
				u, ok := v.(*ssa.UnOp)
				if !ok || u.Op != token.MUL {
					return false
				}
				ia, ok := u.X.(*ssa.IndexAddr)
				return ok && Mentions(ia.X, fStarts, 3) && ia.Index == idx
			}, true)
			forward := GCmp("target >= position after the instruction (forward branch)", token.GEQ, IsV(idx), M(fPc))
			c.MustGuard(MustGuardSpec{Rule: rule, Fn: fn, Effects: []ssa.Instruction{m}, EffName: "accept target", Guards: []Guard{aligned}, Bypass: []Guard{forward}})
		}
	}
	// checkStep: marks instruction starts first, and rejects recorded targets strictly inside the instruction
	cs := c.Fn(gLogic + ".EvalContext.checkStep")
	succ := gSuccessReturns(cs)
	{
		var mark ssa.Instruction
		for _, in := range cs.Blocks[0].Instrs {
			if st, ok := in.(*ssa.Store); ok {
				if ia, ok := st.Addr.(*ssa.IndexAddr); ok && Mentions(ia.X, fStarts, 3) && Mentions(ia.Index, fPc, 3) && IsConstBool(true)(st.Val) {
					mark = in
				}
			}
			if _, ok := in.(*ssa.Call); ok && mark == nil {
				break
			}
		}
		c.Check(mark != nil, rule, gLogic+".EvalContext.checkStep:instructionStarts[cx.pc]=true first", c.Pos(cs.Pos()), "checkStep records the current pc as an instruction start in its entry block before calling anything (back-branch checks rely on it)")
		inside := GBool("cx.branchTargets[pc inside instruction] is false", func(v ssa.Value) bool {
			u, ok := v.(*ssa.UnOp)
			if !ok || u.Op != token.MUL {
				return false
			}
			ia, ok := u.X.(*ssa.IndexAddr)
			return ok && Mentions(ia.X, fTargets, 3)
		}, false)
		blocks, fails := gIfs(cs, inside)
		if len(blocks) == 0 {
			c.Bad(rule, gLogic+".EvalContext.checkStep:rejects targets inside an instruction", c.Pos(cs.Pos()), "checkStep never tests cx.branchTargets for the bytes it just skipped: a forward branch into an immediate would pass the static check")
		}
		for i, b := range blocks {
			reached, header := gForAll(b, fails[i], succ, nil)
			ok := reached == nil && header != nil
			detail := "for every pc strictly inside the instruction, a recorded branch target makes checkStep fail; the loop is on every path to success"
			if reached != nil {
				detail = "success is still reachable when a recorded branch target lies inside the instruction"
			} else if header == nil {
				detail = "the test is not in a loop that dominates the successful return"
			}
			c.Check(ok, rule, gLogic+".EvalContext.checkStep:rejects targets inside an instruction", c.Pos(cs.Pos()), detail)
		}
	}
}

func gFuncOf(fn *ssa.Function) *types.Func {
	if fn == nil {
		return nil
	}
	f, _ := fn.Object().(*types.Func)
	return f
}
