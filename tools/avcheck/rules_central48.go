package main

import (
	"sort"
	"strings"

	"golang.org/x/tools/go/ssa"
)

// R41.7 and R41.8 (after an independent audit of C41 on the pinned tree).
//
// R41.7 — repaired by a "fix:" commit: agreement's crash-state decoder, run by
// Service.mainLoop on the bytes of the crash database with no recover() around
// it, promises "all decoding errors are returned in err" (the caller then
// resets and starts fresh) but ended with `for i := range s.Actions { act :=
// zeroAction(s.ActionTypes[i]) …`: fewer ActionTypes than Actions indexed out of
// range, and zeroAction panics on an action type it has no case for (an
// unknown value, or stageDigest). One flipped byte in the stored blob, or a
// crash state written by a newer binary, made the node panic at every start.
//
// R41.8 — KNOWN FINDING: rpcs.HTTPTxSync.Sync decodes a relay's HTTP answer
// with protocol.DecodeReflect, the reflection decoder, which ignores every
// allocbound, required field and the depth limit: one SignedTxn with a
// 100000-byte note, 2000 app args or 3000 msig subsigs is handed to the
// transaction handler, and 80 KB of empty maps decode into 80000 transactions
// (45 s CPU, 787 MB). Not repaired: decoding with the bounded msgp decoder also
// enforces `required` fields, which three existing rpcs tests' mock
// transactions lack, and the existing tests must pass unedited.
func init() {
	extend("C41", Extension{
		Run: func(c *Ctx) {
			ruleCrashStateDecoderTotal(c)
			ruleReflectDecoderOnlyOnLocalInput(c)
		},
		Explanation: "R41.7 (the crash-state decoder returns errors, it does not panic): in agreement.decode every element access of diskState.ActionTypes is preceded by a comparison involving len(ActionTypes), and no function the decoder calls inside package agreement (two levels) contains a panic() — zeroAction's `panic(\"bad action type\")` was reachable with bytes read from disk. R41.8 (the unbounded reflection decoder never sees peer bytes): protocol.DecodeReflect, which ignores allocbounds, required fields and the nesting limit, is called only from the tabled callers that decode local or own-node data (agreement's crash state, the monotonic clock, API clients decoding their own node's answers, the mock tracer). KNOWN FINDING: rpcs.HTTPTxSync.Sync applies it to a relay's HTTP response.",
		Floor:       map[string]int{"R41.7": 2, "R41.8": 3},
		Patterns:    []string{"./rpcs", "./agreement", "./util/timers"},
	})
}

func ruleCrashStateDecoderTotal(c *Ctx) {
	const rule = "R41.7"
	const spec = "agreement.decode"
	fn := c.Fn(spec)
	fTypes := c.Field("agreement.diskState.ActionTypes")
	// (a) ActionTypes[i] behind a length comparison
	n := 0
	for _, b := range fn.Blocks {
		for _, in := range b.Instrs {
			ia, ok := in.(*ssa.IndexAddr)
			if !ok || !Mentions(ia.X, fTypes, 3) {
				continue
			}
			n++
			guarded := false
			for _, g := range fn.Blocks {
				iff, ok := g.Instrs[len(g.Instrs)-1].(*ssa.If)
				if !ok || !g.Dominates(b) || g == b {
					continue
				}
				if bo, isBo := iff.Cond.(*ssa.BinOp); isBo {
					for _, side := range []ssa.Value{bo.X, bo.Y} {
						if x, isLen := lenOf(strip(side)); isLen && Mentions(x, fTypes, 3) {
							guarded = true
						}
					}
				}
			}
			c.Check(guarded, rule, spec+":ActionTypes[i] behind a length test", c.Pos(ia.Pos()), "the number of action types read from disk is compared before the slice is indexed with the index of another slice")
		}
	}
	if n == 0 {
		c.Ok(rule, spec+":ActionTypes[i] behind a length test", c.Pos(fn.Pos()), "decode does not index ActionTypes directly")
	}
	// (b) no panic() in the package-local callees of decode
	seen := map[*ssa.Function]bool{fn: true}
	level := []*ssa.Function{fn}
	var panics []string
	for depth := 0; depth < 3; depth++ {
		var next []*ssa.Function
		for _, f := range level {
			for _, b := range f.Blocks {
				for _, in := range b.Instrs {
					if p, ok := in.(*ssa.Panic); ok {
						// makeCredentialArrivalHistory panics only for a negative size; decode passes a constant
						if fnName(f) != "agreement.makeCredentialArrivalHistory" {
							panics = append(panics, fnName(f)+" at "+c.Pos(p.Pos()))
						}
					}
					if call, ok := in.(ssa.CallInstruction); ok {
						if sf := call.Common().StaticCallee(); sf != nil && sf.Pkg == fn.Pkg && !seen[sf] && len(sf.Blocks) > 0 {
							seen[sf] = true
							next = append(next, sf)
						}
					}
				}
			}
		}
		level = next
	}
	sort.Strings(panics)
	c.Check(len(panics) == 0, rule, spec+":no panic() reachable inside package agreement", c.Pos(fn.Pos()),
		"decode and the package-local functions it calls report bad input as an error"+func() string {
			if len(panics) > 0 {
				return "; panic() in " + strings.Join(panics, ", ")
			}
			return ""
		}())
}

func ruleReflectDecoderOnlyOnLocalInput(c *Ctx) {
	const rule = "R41.8"
	decR := c.Func("protocol.DecodeReflect")
	allowed := map[string]string{
		"agreement.decode":                                  "crash state written by this node to its own database (R41.7 makes it total)",
		"util/timers.Monotonic.Decode":                      "clock state inside that same crash state",
		"libgoal.":                                          "API client decoding the answer of the user's own node",
		"daemon/algod/api/client.":                          "API client decoding the answer of the user's own node",
		"data/transactions/logic/mocktracer.":               "test support: clones a value it has just encoded",
		"protocol.Decode":                                   "fallback of protocol.Decode for objects without a generated decoder; which objects may take it is R41.4's subject",
		"protocol.EncodingTest":                             "test support (codec_tester.go): re-decodes what it has just encoded",
		"tools/": "developer tools on local files", "cmd/": "command-line tools on local files or their own node's answers", "test/": "test framework",
	}
	n := 0
	for _, fn := range c.AllFuncs() {
		for _, call := range CallsTo(fn, true, decR) {
			name := fnName(fn)
			reason := ""
			for prefix, r := range allowed {
				if name == prefix || (strings.HasSuffix(prefix, ".") || strings.HasSuffix(prefix, "/")) && strings.HasPrefix(name, prefix) {
					reason = r
				}
			}
			// closures and methods of an allowed function
			if reason == "" {
				for prefix, r := range allowed {
					if strings.HasPrefix(name, prefix) {
						reason = r
					}
				}
			}
			n++
			c.Check(reason != "", rule, name+":protocol.DecodeReflect on local data only", c.Pos(call.Pos()),
				"the reflection decoder enforces no allocbound, no required field and no depth limit"+func() string {
					if reason != "" {
						return "; tabled caller: " + reason
					}
					return "; this caller is not in the table of local-input decoders"
				}())
		}
	}
	if n == 0 {
		c.Unk(rule, "protocol.DecodeReflect:callers", "-", "no caller found in the loaded packages")
	}
}
