package main

import (
	"go/constant"
	"go/token"
	"go/types"
	"sort"
	"strings"

	"golang.org/x/tools/go/ssa"
)

// R47.5, R47.6, R47.7: three structural sibling rules for the key-value backend.
//
// An audit agent that ran the same operation sequences against sqlitedriver and
// pebbledbdriver (generickv) confirmed seven places where the key-value backend
// answers differently from SQLite on the pinned tree (findings/C47-b). Three of
// them have a shape a rule can decide, were repaired by "fix:" commits and are
// covered here; the other four (range boundary of OnlineAccountsDelete, the
// ordering of AccountsOnlineTop, forward-only UpdateAccountsRound, the Round
// field of OnlineAccountsAll) compare an SQL text with Go code and are recorded
// in DESIGN §7 as demonstrated but not decided.
func init() {
	extend("C47", Extension{
		Run: func(c *Ctx) {
			ruleSiblingDiscriminatorUse(c)
			ruleNoByteIncrementWithoutCarry(c)
			ruleKvSpaceKeysThroughConstructor(c)
		},
		Explanation: "R47.5 (both backends look at the discriminating arguments): for every method of a trackerdb interface implemented in sqlitedriver and in generickv, a parameter of an enumeration type (a named integer type with declared constants, such as basics.CreatableType) that the SQLite implementation uses is used by the key-value implementation too, unless the latter is one of R47.1's stubs or answers 'not supported' on every path — DeleteCreatable ignoring ctype deleted an asset's creator record when asked to delete the app of the same index. (Other parameters are not compared: SQLite takes several values only to fill index columns the key-value store derives from the record.) R47.6 (range bounds are computed without wrap-around): in generickv no byte of a key is incremented in place (b[i]++) to build a bound unless the same byte is compared with 0xff — onlineAccountLatestRangePrefix did, so for rounds whose low byte is 0xff the upper bound wrapped below the key and LookupOnline found nothing or a stale row. R47.7 (one key space, one key constructor): in generickv every key or range bound handed to KvRead.Get/NewIter and KvWrite.Set/Delete is derived from a call of a key constructor — a function of the package that writes one of the kv* table prefixes — UpsertKvPair and LookupKeyValue go through appKvKey while LookupKeysByPrefix and LookupKeysByPrefixCursor scanned the caller's raw prefix, returning no box keys at all (or internal keys for an empty prefix).",
		Floor:       map[string]int{"R47.5": 4, "R47.6": 1, "R47.7": 50},
	})
}

const (
	r47SQLite = Mod + "/ledger/store/trackerdb/sqlitedriver"
	r47KV     = Mod + "/ledger/store/trackerdb/generickv"
)

// isEnumType: a named integer type whose package declares at least two constants of it.
func isEnumType(t types.Type) bool {
	nt, ok := t.(*types.Named)
	if !ok || nt.Obj().Pkg() == nil {
		return false
	}
	if b, isB := nt.Underlying().(*types.Basic); !isB || b.Info()&types.IsInteger == 0 {
		return false
	}
	n := 0
	sc := nt.Obj().Pkg().Scope()
	for _, name := range sc.Names() {
		if k, isK := sc.Lookup(name).(*types.Const); isK && types.Identical(k.Type(), nt) {
			n++
		}
	}
	return n >= 2
}

// alwaysErrors: every return of fn carries a freshly made (non-nil, non-parameter) error.
func alwaysErrors(fn *ssa.Function) bool {
	idx := errResultIndex(fn)
	if idx < 0 {
		return false
	}
	for _, b := range fn.Blocks {
		if ret, ok := b.Instrs[len(b.Instrs)-1].(*ssa.Return); ok {
			v := strip(resolveLocal(strip(ret.Results[idx]), ret))
			if k, isK := v.(*ssa.Const); isK && k.IsNil() {
				return false
			}
			if _, isCall := v.(*ssa.Call); !isCall {
				if _, isMI := v.(*ssa.MakeInterface); !isMI {
					return false
				}
			}
		}
	}
	return len(fn.Blocks) == 1
}

func ruleSiblingDiscriminatorUse(c *Ctx) {
	const rule = "R47.5"
	tdb := c.Pkg("ledger/store/trackerdb").Types
	names := tdb.Scope().Names()
	sort.Strings(names)
	n := 0
	seen := map[string]bool{}
	for _, nm := range names {
		tn, ok := tdb.Scope().Lookup(nm).(*types.TypeName)
		if !ok || tn.IsAlias() {
			continue
		}
		nt, ok := tn.Type().(*types.Named)
		if !ok || nt.TypeParams().Len() > 0 {
			continue
		}
		it, ok := nt.Underlying().(*types.Interface)
		if !ok {
			continue
		}
		for i := 0; i < it.NumExplicitMethods(); i++ {
			m := it.ExplicitMethod(i)
			var sq, kv []*ssa.Function
			for _, impl := range c.implementations(nt, m) {
				if impl == nil || impl.Pkg == nil || len(impl.Blocks) == 0 {
					continue
				}
				switch impl.Pkg.Pkg.Path() {
				case r47SQLite:
					sq = append(sq, impl)
				case r47KV:
					kv = append(kv, impl)
				}
			}
			for _, s := range sq {
				for _, k := range kv {
					key := fnName(k)
					if seen[key] || len(s.Params) != len(k.Params) {
						continue
					}
					seen[key] = true
					if iStub(k) != "" || alwaysErrors(k) {
						continue // R47.1's subject, or an explicit 'not supported'
					}
					for pi := 1; pi < len(s.Params); pi++ {
						if !isEnumType(s.Params[pi].Type()) || len(*s.Params[pi].Referrers()) == 0 {
							continue
						}
						n++
						c.Check(len(*k.Params[pi].Referrers()) > 0, rule, fnName(k)+":uses parameter #"+itoa(pi)+" ("+s.Params[pi].Name()+") like "+fnName(s), c.Pos(k.Pos()),
							"the SQLite implementation's answer depends on this discriminating argument; the key-value implementation reads it too")
					}
				}
			}
		}
	}
	if n == 0 {
		c.Unk(rule, "trackerdb interfaces:sibling implementations", "-", "no method with an enumeration parameter implemented by both backends was found")
	}
}

func sameIndexAddr(a, b ssa.Value) bool {
	x, ok1 := a.(*ssa.IndexAddr)
	y, ok2 := b.(*ssa.IndexAddr)
	if !ok1 || !ok2 || x.X != y.X {
		return false
	}
	if x.Index == y.Index {
		return true
	}
	kx, ok1 := x.Index.(*ssa.Const)
	ky, ok2 := y.Index.(*ssa.Const)
	return ok1 && ok2 && kx.Value != nil && ky.Value != nil && constant.Compare(kx.Value, token.EQL, ky.Value)
}

func ruleNoByteIncrementWithoutCarry(c *Ctx) {
	const rule = "R47.6"
	n := 0
	for _, fn := range c.funcsOf(r47KV) {
		for _, b := range fn.Blocks {
			for _, in := range b.Instrs {
				st, ok := in.(*ssa.Store)
				if !ok {
					continue
				}
				ia, ok := st.Addr.(*ssa.IndexAddr)
				if !ok {
					continue
				}
				bo, ok := st.Val.(*ssa.BinOp)
				if !ok || bo.Op != token.ADD || !IsConstInt(1)(bo.Y) {
					continue
				}
				ld, ok := bo.X.(*ssa.UnOp)
				if !ok || ld.Op != token.MUL || !sameIndexAddr(ld.X, ia) {
					continue
				}
				if bt, isB := bo.Type().Underlying().(*types.Basic); !isB || bt.Kind() != types.Uint8 {
					continue
				}
				n++
				// is the same byte compared with 0xff somewhere in the function?
				guarded := false
				for _, b2 := range fn.Blocks {
					for _, in2 := range b2.Instrs {
						cmp, ok := in2.(*ssa.BinOp)
						if !ok || !(cmp.Op == token.EQL || cmp.Op == token.NEQ || cmp.Op == token.LSS) {
							continue
						}
						for _, pr := range [][2]ssa.Value{{cmp.X, cmp.Y}, {cmp.Y, cmp.X}} {
							if l2, isL := pr[0].(*ssa.UnOp); isL && l2.Op == token.MUL && sameIndexAddr(l2.X, ia) && IsConstInt(255)(pr[1]) {
								guarded = true
							}
						}
					}
				}
				c.Check(guarded, rule, fnName(fn)+":key byte incremented only below 0xff", c.Pos(st.Pos()), "a byte of a key is incremented in place to form a range bound; at 0xff it wraps to 0x00 and the bound falls below the key")
			}
		}
	}
	c.Ok(rule, "generickv:in-place byte increments examined", "-", itoa(n)+" in-place increment(s) of a key byte found in generickv")
}

func ruleKvSpaceKeysThroughConstructor(c *Ctx) {
	const rule = "R47.7"
	get := c.Func("ledger/store/trackerdb/generickv.KvRead.Get")
	iter := c.Func("ledger/store/trackerdb/generickv.KvRead.NewIter")
	set := c.Func("ledger/store/trackerdb/generickv.KvWrite.Set")
	del := c.Func("ledger/store/trackerdb/generickv.KvWrite.Delete")
	// the table prefixes: string constants kv… of the package
	prefixes := map[string]bool{}
	sc := c.Pkg("ledger/store/trackerdb/generickv").Types.Scope()
	for _, name := range sc.Names() {
		if k, ok := sc.Lookup(name).(*types.Const); ok && strings.HasPrefix(name, "kv") && k.Val().Kind() == constant.String {
			prefixes[constant.StringVal(k.Val())] = true
		}
	}
	if len(prefixes) < 5 {
		c.Unk(rule, "generickv:table prefixes", "-", "fewer than 5 kv… prefix constants found")
		return
	}
	isCtor := map[*ssa.Function]bool{}
	for _, fn := range c.funcsOf(r47KV) {
		if fn.Signature.Recv() != nil {
			continue
		}
		for _, b := range fn.Blocks {
			for _, in := range b.Instrs {
				for _, op := range in.Operands(nil) {
					if k, ok := (*op).(*ssa.Const); ok && k.Value != nil && k.Value.Kind() == constant.String && prefixes[constant.StringVal(k.Value)] {
						isCtor[fn] = true
					}
				}
			}
		}
	}
	// range helpers built on constructors are constructors too
	for changed := true; changed; {
		changed = false
		for _, fn := range c.funcsOf(r47KV) {
			if fn.Signature.Recv() != nil || isCtor[fn] {
				continue
			}
			for _, b := range fn.Blocks {
				for _, in := range b.Instrs {
					if cl, ok := in.(*ssa.Call); ok {
						if sf := cl.Common().StaticCallee(); sf != nil && isCtor[sf] {
							isCtor[fn] = true
							changed = true
						}
					}
				}
			}
		}
	}
	iterKey := c.Func("ledger/store/trackerdb/generickv.KvIter.Key")
	iterKeySlice := c.Func("ledger/store/trackerdb/generickv.KvIter.KeySlice")
	n := 0
	for _, fn := range c.funcsOf(r47KV) {
		if fn.Signature.Recv() == nil {
			continue
		}
		for _, call := range CallsTo(fn, true, get, iter, set, del) {
			callee := calleeOf(call.Common())
			a := callArgs(call.Common())
			nKeys := 1
			if sameFunc(callee, iter) {
				nKeys = 2
			}
			for ki := 1; ki <= nKeys && ki < len(a); ki++ {
				n++
				built := false
				walkDef(a[ki], 10, func(x ssa.Value) bool {
					if cl, ok := x.(*ssa.Call); ok {
						if sf := cl.Common().StaticCallee(); sf != nil && isCtor[sf] {
							built = true
						}
						// a key read back from an iterator of the store is already in its key space
						if cal := calleeOf(cl.Common()); sameFunc(cal, iterKey) || sameFunc(cal, iterKeySlice) {
							built = true
						}
					}
					// … also when it was parked in a local list of keys first
					if ia, ok := x.(*ssa.IndexAddr); ok && ia.X.Type().String() == "[][]byte" && len(CallsTo(fn, true, iterKey)) > 0 {
						built = true
					}
					return !built
				})
				c.Check(built, rule, fnName(fn)+":"+callee.Name()+" key #"+itoa(ki)+" built by a table-prefix key constructor", c.Pos(call.Pos()),
					"the key handed to the store is derived from a key constructor of the package (a function writing one of the kv… prefixes)")
			}
		}
	}
	if n == 0 {
		c.Unk(rule, "generickv:store accesses", "-", "no KvRead/KvWrite access found")
	}
}
