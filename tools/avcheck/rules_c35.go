package main

import (
	"fmt"
	"go/token"
	"go/types"
	"sort"
	"strings"

	"golang.org/x/tools/go/ssa"
)

func init() {
	register(&Prop{
		ID:       "C35",
		Patterns: []string{"./data/transactions/logic"},
		Run:      runC35,
		Explanation: "Decides that resource identifiers reach the ledger only through the availability resolvers, and the shape of the sharing checks. " +
			"R35.1 for every LedgerForLogic call in a function reachable from an opcode evaluation function, every argument of type basics.Address / AppIndex / AssetIndex is (through phis, locals and — up to 3 levels — parameters at all call sites) a result of a resolver (accountReference, mutableAccountReference, localsReference, holdingReference, appReference, resolveApp, assetReference, resolveAsset, assignAccount/App/Asset), or cx.appID, or the application address derived from such an app id; box calls (NewBox/GetBox/SetBox/DelBox) must use exactly the (app, name) pair of a dominating successful availableAppBox call, and inside availableAppBox the ledger read and the success returns are reachable only past the box-reference test and authorizeBoxAccess; the reviewed exceptions are tabled with their reason (inner-call callee lookup, box owner's sharing flags, inner sender authorizer). The simple resolvers are themselves checked: accountReference/assignAccount/assignAsset/assignApp succeed only through availableAccount/Asset/App (or a slot of the transaction's own Accounts array). " +
			"R35.1b in stackIntoTxnField every store into an inner-transaction field that resources.fill* reads as a resource (derived from the fill functions, not listed) and whose type is Address/AppIndex/AssetIndex or a slice of them takes its value from assignAccount/assignApp/assignAsset. " +
			"R35.2 localsReference / holdingReference return success at version >= sharedResourcesVersion only past allowsLocals / allowsHolding applied to the very values they return; opAppLocalPut / opAppLocalDel reach GetLocal/SetLocal/DelLocal only past allowsLocals(addr, cx.appID) (bypass: cx.version < sharedResourcesVersion). " +
			"R35.3 for every transaction type whose case in resources.fill makes a cross-product (holding / local state) available, EvalContext.allows either has a case for that type that reaches requireHolding/requireLocals or has no case (default: error); a type allows() accepts without a check must not share cross-products in fill. " +
			"R35.4 the availability maps of `resources` (created*, shared*, boxes) are written only by the reviewed owners (fill*/share*, computeAvailability, RecordAD, EvalContract, availableAppBox): no opcode can make a resource available to itself. " +
			"Does NOT decide: that availableAccount/availableApp/availableAsset/allowsHolding/allowsLocals implement the sharing rules of each version correctly, resolveApp/resolveAsset slot semantics, box I/O budgets, or UnnamedResources policies used by simulation.",
		Assumptions: []string{"LedgerForLogic implementations perform no availability checks of their own (all gating is in package logic)"},
		Floor:       map[string]int{"R35.1": 55, "R35.1b": 14, "R35.2": 8, "R35.3": 6, "R35.4": 15},
	})
}

type c35Ctx struct {
	c        *Ctx
	tAddr    *types.Named
	tApp     *types.Named
	tAsset   *types.Named
	san      map[*types.Named]map[*types.Func]int // resolver -> result index, per resource type
	fAppID   *types.Var
	getAddr  *types.Func
	appAddr  *types.Func
	callers  map[*ssa.Function][]*ssa.Call
	inScope  map[*ssa.Function]bool
	availBox *types.Func
}

func (x *c35Ctx) kind(t types.Type) *types.Named {
	nt, ok := types.Unalias(t).(*types.Named)
	if !ok {
		return nil
	}
	for _, k := range []*types.Named{x.tAddr, x.tApp, x.tAsset} {
		if nt.Origin() == k.Origin() {
			return k
		}
	}
	return nil
}

// ok reports whether v, used as a resource of kind k, derives from a resolver.
// boxApps are app-id values already vouched for by a dominating availableAppBox.
func (x *c35Ctx) ok(v ssa.Value, k *types.Named, boxApps map[ssa.Value]bool, depth int, seen map[ssa.Value]bool) (bool, string) {
	if depth > 3 {
		return false, "parameter chain deeper than 3 calls"
	}
	if seen[v] {
		return true, ""
	}
	seen[v] = true
	if boxApps[v] {
		return true, ""
	}
	switch y := v.(type) {
	case *ssa.Extract:
		if call, ok := y.Tuple.(*ssa.Call); ok {
			if idx, ok := x.san[k][gCalleeOrigin(call)]; ok && idx == y.Index {
				return true, ""
			}
		}
		return false, "result " + fmt.Sprint(y.Index) + " of " + describe(y.Tuple) + " is not a resolver result"
	case *ssa.Call:
		f := gCalleeOrigin(y)
		if idx, ok := x.san[k][f]; ok && idx == 0 {
			return true, ""
		}
		if k == x.tAddr && f != nil {
			args := y.Call.Args
			if sameFunc(f, x.getAddr) && len(args) == 2 {
				return x.ok(args[1], x.tApp, boxApps, depth, seen)
			}
			if sameFunc(f, x.appAddr) && len(args) == 1 {
				return x.ok(args[0], x.tApp, boxApps, depth, seen)
			}
		}
		return false, "result of " + describe(v) + " is not a resolver result"
	case *ssa.UnOp:
		if y.Op == token.MUL {
			if fa, ok := y.X.(*ssa.FieldAddr); ok && k == x.tApp && structField(fa.X.Type(), fa.Field) == x.fAppID {
				return true, ""
			}
			if a, ok := y.X.(*ssa.Alloc); ok {
				st := localStores(a)
				if len(st) == 0 {
					return false, "local never assigned"
				}
				for _, s := range st {
					if k, isConst := s.(*ssa.Const); isConst && (k.Value == nil || k.IsNil()) {
						continue // zero value of a named result
					}
					if ok, why := x.ok(s, k, boxApps, depth, seen); !ok {
						return false, why
					}
				}
				return true, ""
			}
		}
		return false, "load of " + describe(y.X) + " is not a resolver result"
	case *ssa.Phi:
		for _, e := range y.Edges {
			if ok, why := x.ok(e, k, boxApps, depth, seen); !ok {
				return false, why
			}
		}
		return true, ""
	case *ssa.Parameter:
		fn := y.Parent()
		idx := -1
		for i, p := range fn.Params {
			if p == y {
				idx = i
			}
		}
		sites := x.callers[fn]
		if idx < 0 || len(sites) == 0 {
			return false, "parameter " + y.Name() + " of " + fnName(fn) + " has no call sites in the package"
		}
		for _, call := range sites {
			if !x.inScope[call.Parent()] {
				continue
			}
			args := call.Call.Args
			if idx >= len(args) {
				return false, "call arity"
			}
			if ok, why := x.ok(args[idx], k, nil, depth+1, map[ssa.Value]bool{}); !ok {
				return false, "at the call in " + fnName(call.Parent()) + ": " + why
			}
		}
		return true, ""
	case *ssa.Const:
		return false, "constant"
	}
	return false, describe(v) + " is not a resolver result"
}

func gCalleeOrigin(call *ssa.Call) *types.Func {
	f := calleeOf(call.Common())
	if f == nil {
		return nil
	}
	return f.Origin()
}

func runC35(c *Ctx) {
	a := gAvmExtract(c)
	pkgPath := Mod + "/" + gLogic
	x := &c35Ctx{c: c,
		tAddr: c.Named("data/basics.Address"), tApp: c.Named("data/basics.AppIndex"), tAsset: c.Named("data/basics.AssetIndex"),
		fAppID:   c.Field(gLogic + ".EvalContext.appID"),
		getAddr:  c.Func(gLogic + ".EvalParams.GetApplicationAddress"),
		appAddr:  c.Func("data/basics.AppIndex.Address"),
		availBox: c.Func(gLogic + ".EvalContext.availableAppBox"),
		callers:  map[*ssa.Function][]*ssa.Call{}, inScope: map[*ssa.Function]bool{},
	}
	E := func(n string) *types.Func { return c.Func(gLogic + ".EvalContext." + n) }
	x.san = map[*types.Named]map[*types.Func]int{
		x.tAddr:  {E("accountReference"): 0, E("mutableAccountReference"): 0, E("localsReference"): 0, E("holdingReference"): 0, E("assignAccount"): 0},
		x.tApp:   {E("appReference"): 0, E("resolveApp"): 0, E("localsReference"): 1, E("assignApp"): 0},
		x.tAsset: {E("assetReference"): 0, E("resolveAsset"): 0, E("holdingReference"): 1, E("assignAsset"): 0},
	}
	all := c.funcsOf(pkgPath)
	for _, fn := range all {
		for _, b := range fn.Blocks {
			for _, in := range b.Instrs {
				if call, ok := in.(*ssa.Call); ok {
					if g := call.Common().StaticCallee(); g != nil {
						x.callers[g] = append(x.callers[g], call)
					}
				}
			}
		}
	}
	roots, _ := a.gOpRoots(c)
	x.inScope = gClosure(roots, pkgPath)
	c35Ledger(c, x, all)
	c35InnerFields(c, x)
	c35Sharing(c, x)
	c35FillAllows(c, x)
	c35Owners(c)
}

// ---------------------------------------------------------------------------
// R35.1
// ---------------------------------------------------------------------------

func c35Ledger(c *Ctx, x *c35Ctx, all []*ssa.Function) {
	const rule = "R35.1"
	ledger := c.Named(gLogic + ".LedgerForLogic")
	boxMethods := map[string]bool{"NewBox": true, "GetBox": true, "SetBox": true, "DelBox": true}
	// reviewed exceptions: function -> method -> reason
	tabled := map[string]map[string]string{
		gLogic + ".opItxnSubmit":                   {"AppParams": "callee lookup for an inner application call: the id was accepted by assignApp when itxn_field set it (R35.1b); only the program version is read, and allows() checks the cross-products before Perform"},
		gLogic + ".authorizedSender":               {"Authorizer": "authorizer of an inner transaction's Sender, which is the app account by default (addInnerTxn) or was accepted by assignAccount (R35.1b)"},
		gLogic + ".EvalContext.authorizeBoxAccess": {"AppParams": "sharing flags of the app that owns a box; reached only from availableAppBox after the group's box reference for (app, name) was found"},
	}
	for k := range tabled {
		c.Func(k) // renamed owner of an exception => undecided, never a silent miss
	}
	n := 0
	for _, fn := range all {
		if !x.inScope[fn] {
			continue
		}
		calls := gInvokes(fn, ledger)
		if len(calls) == 0 {
			continue
		}
		c.NoteFn(fnName(fn))
		// successful availableAppBox calls in this function
		var boxCalls []*ssa.Call
		for _, ci := range CallsTo(fn, false, x.availBox) {
			if call, ok := ci.(*ssa.Call); ok {
				boxCalls = append(boxCalls, call)
			}
		}
		for _, ci := range calls {
			call, ok := ci.(*ssa.Call)
			if !ok {
				continue
			}
			m := call.Common().Method
			sig := m.Type().(*types.Signature)
			args := call.Common().Args
			site := fnName(fn) + ":cx.Ledger." + m.Name()
			if reason, ok := tabled[fnName(topFn(fn))][m.Name()]; ok {
				n++
				c.Ok(rule, site+":tabled", c.Pos(call.Pos()), "reviewed exception: "+reason)
				continue
			}
			// vouching box calls: those whose err==nil edge dominates this call
			boxApps := map[ssa.Value]bool{}
			var boxNames []ssa.Value
			for _, bc := range boxCalls {
				if fnName(fn) == funcObjName(x.availBox) {
					continue
				}
				errV := func(v ssa.Value) bool {
					e, ok := v.(*ssa.Extract)
					return ok && e.Tuple == ssa.Value(bc) && e.Index == 2
				}
				edges, mm := PassEdges(fn, GErrNil("availableAppBox err == nil", errV))
				if mm == 0 || NewReach(fn, edges, nil).Reaches(call) || !Dominates(bc, call) {
					continue
				}
				if len(bc.Call.Args) >= 3 {
					boxApps[bc.Call.Args[1]] = true
					boxNames = append(boxNames, bc.Call.Args[2])
				}
			}
			for i := 0; i < sig.Params().Len() && i < len(args); i++ {
				k := x.kind(sig.Params().At(i).Type())
				if k == nil {
					continue
				}
				n++
				construct := fmt.Sprintf("%s(%s %s)", site, sig.Params().At(i).Name(), k.Obj().Name())
				if boxMethods[m.Name()] && fnName(fn) != funcObjName(x.availBox) && k == x.tApp {
					okBox := boxApps[args[i]]
					nameOK := false
					if i+1 < len(args) {
						for _, nm := range boxNames {
							if nm == args[i+1] {
								nameOK = true
							}
						}
					}
					c.Check(okBox && nameOK, rule, construct, c.Pos(call.Pos()), "box calls use exactly the (app, name) pair that a dominating successful availableAppBox call vouched for")
					continue
				}
				if fnName(fn) == funcObjName(x.availBox) {
					continue // decided below with the guard structure of availableAppBox itself
				}
				ok, why := x.ok(args[i], k, boxApps, 0, map[ssa.Value]bool{})
				detail := "the argument derives from an availability resolver (or is the current app / its address)"
				if !ok {
					detail = "the " + k.Obj().Name() + " passed to cx.Ledger." + m.Name() + " does not come from an availability resolver: " + why
				}
				c.Check(ok, rule, construct, c.Pos(call.Pos()), detail)
			}
		}
	}
	c.NoteSites(n)

	// availableAppBox: the box-reference test and the authorization gate the ledger read and every success
	ab := c.SSAOf(x.availBox)
	if ab == nil {
		c.Unk(rule, "availableAppBox", "-", "no body")
		return
	}
	fBoxes := c.Field(gLogic + ".resources.boxes")
	authorize := c.Func(gLogic + ".EvalContext.authorizeBoxAccess")
	var effects []ssa.Instruction
	for _, ci := range gInvokes(ab, ledger) {
		effects = append(effects, ci)
	}
	effects = append(effects, gSuccessReturns(ab)...)
	refOK := GBool("box reference available (cx.available.boxes / new-app allowance / policy)", func(v ssa.Value) bool {
		return gDerives(v, 6, func(y ssa.Value) bool {
			lk, ok := y.(*ssa.Lookup)
			return ok && lk.CommaOk && Mentions(lk.X, fBoxes, 4)
		})
	}, true)
	c.MustGuard(MustGuardSpec{Rule: rule, Fn: ab, Effects: effects, EffName: "read box / succeed", Guards: []Guard{
		refOK,
		GErrNil("authorizeBoxAccess err == nil", ResultOf(0, authorize)),
	}})
	// the tabled owner-params read in authorizeBoxAccess happens only behind the reference test, for the same app
	authCalls := CallsTo(ab, false, authorize)
	c.MustGuard(MustGuardSpec{Rule: rule, Fn: ab, Effects: asInstrs(authCalls), EffName: "authorizeBoxAccess(appID)", Guards: []Guard{refOK}})
	okAuth := len(authCalls) > 0
	for _, ci := range authCalls {
		if len(ab.Params) < 2 || len(ci.Common().Args) < 2 || ci.Common().Args[1] != ssa.Value(ab.Params[1]) {
			okAuth = false
		}
	}
	c.Check(okAuth, rule, fnName(ab)+":authorizeBoxAccess(same appID)", c.Pos(ab.Pos()), "the owner whose sharing flags are read is the app of the box reference that was just found")
	c.OwnerRule(rule, "call(authorizeBoxAccess)", c.Uses([]*types.Func{authorize}, ScanOpts{SkipGenerated: true}), map[string]string{funcObjName(x.availBox): "after the box-reference test"})
	// the looked-up key is built from the function's own (app, name) parameters, which are what it reads from the ledger
	okKey := false
	if len(ab.Params) >= 3 {
		for _, in := range Instrs(ab, func(in ssa.Instruction) bool {
			lk, ok := in.(*ssa.Lookup)
			return ok && lk.CommaOk && Mentions(lk.X, fBoxes, 4)
		}) {
			lk := in.(*ssa.Lookup)
			if ld, ok := lk.Index.(*ssa.UnOp); ok && ld.Op == token.MUL {
				if al, ok := ld.X.(*ssa.Alloc); ok {
					n := 0
					for _, v := range gLitFields(al) {
						if v == ssa.Value(ab.Params[1]) || v == ssa.Value(ab.Params[2]) {
							n++
						}
					}
					okKey = n == 2
				}
			}
		}
		for _, ci := range gInvokes(ab, ledger) {
			ar := ci.Common().Args
			if len(ar) < 2 || ar[0] != ssa.Value(ab.Params[1]) || ar[1] != ssa.Value(ab.Params[2]) {
				okKey = false
			}
		}
	}
	c.Check(okKey, rule, fnName(ab)+":reference key == (appID, name) == ledger read", c.Pos(ab.Pos()), "the availability lookup is keyed by the same (appID, name) parameters that are passed to cx.Ledger.GetBox")

	// simple resolvers succeed only through the availability predicate
	for _, r := range []struct{ fn, pred string }{
		{"assignAccount", "availableAccount"}, {"assignAsset", "availableAsset"}, {"assignApp", "availableApp"}, {"accountReference", "availableAccount"},
	} {
		fn := c.Fn(gLogic + ".EvalContext." + r.fn)
		pred := c.Func(gLogic + ".EvalContext." + r.pred)
		g := GBool(r.pred+"(x)", ResultOf(0, pred), true)
		var bypass []Guard
		if r.fn == "accountReference" {
			resolve := c.Func(gLogic + ".EvalContext.resolveAccount")
			bypass = []Guard{GCmp("slot index >= 0 (address is in the transaction's own Accounts)", token.GEQ, ResultOf(1, resolve), IsConstInt(0))}
		}
		c.MustGuard(MustGuardSpec{Rule: rule, Fn: fn, Effects: gSuccessReturns(fn), EffName: "return value, nil", Guards: []Guard{g}, Bypass: bypass})
	}
}

// ---------------------------------------------------------------------------
// R35.1b inner transaction fields
// ---------------------------------------------------------------------------

func c35InnerFields(c *Ctx, x *c35Ctx) {
	const rule = "R35.1b"
	// resource fields: fields of the transaction structs that resources.fill* read
	resField := map[*types.Var]bool{}
	resT := c.Named(gLogic + ".resources")
	for i := 0; i < resT.NumMethods(); i++ {
		m := resT.Method(i)
		if !strings.HasPrefix(m.Name(), "fill") {
			continue
		}
		fn := c.SSAOf(m)
		if fn == nil {
			continue
		}
		for _, in := range Instrs(fn, func(in ssa.Instruction) bool { _, ok := in.(*ssa.FieldAddr); return ok }) {
			fa := in.(*ssa.FieldAddr)
			f := structField(fa.X.Type(), fa.Field)
			if f == nil || f.Pkg() == nil || f.Pkg().Path() != Mod+"/data/transactions" {
				continue
			}
			t := f.Type()
			if s, ok := t.Underlying().(*types.Slice); ok {
				t = s.Elem()
			}
			if x.kind(t) != nil {
				resField[f] = true
			}
		}
	}
	if len(resField) < 8 {
		c.Unk(rule, "resource fields", "-", fmt.Sprintf("only %d resource-typed transaction fields found in resources.fill*", len(resField)))
	}
	fn := c.Fn(gLogic + ".EvalContext.stackIntoTxnField")
	assign := map[*types.Named]*types.Func{
		x.tAddr: c.Func(gLogic + ".EvalContext.assignAccount"), x.tApp: c.Func(gLogic + ".EvalContext.assignApp"), x.tAsset: c.Func(gLogic + ".EvalContext.assignAsset"),
	}
	seen := map[*types.Var]bool{}
	for _, in := range Instrs(fn, func(in ssa.Instruction) bool { _, ok := in.(*ssa.Store); return ok }) {
		st := in.(*ssa.Store)
		fa, ok := st.Addr.(*ssa.FieldAddr)
		if !ok {
			continue
		}
		f := structField(fa.X.Type(), fa.Field)
		if !resField[f] {
			continue
		}
		seen[f] = true
		t := f.Type()
		isSlice := false
		if s, ok := t.Underlying().(*types.Slice); ok {
			t, isSlice = s.Elem(), true
		}
		k := x.kind(t)
		construct := fnName(fn) + ":txn." + f.Name() + "<=" + assign[k].Name()
		v := st.Val
		if isSlice {
			// txn.F = append(txn.F, new): the appended element(s)
			call, ok := v.(*ssa.Call)
			if cc, isApp := isBuiltinCall(call, "append"); ok && isApp && len(cc.Args) == 2 {
				okAll, n := true, 0
				// the variadic slice is built from stores of the new elements into a fresh array
				if sl, ok := cc.Args[1].(*ssa.Slice); ok {
					if al, ok := sl.X.(*ssa.Alloc); ok {
						for _, r := range *al.Referrers() {
							ia, ok := r.(*ssa.IndexAddr)
							if !ok {
								continue
							}
							for _, r2 := range *ia.Referrers() {
								if s2, ok := r2.(*ssa.Store); ok && s2.Addr == ssa.Value(ia) {
									n++
									if _, isRes := asResultOf(s2.Val, 0, assign[k]); !isRes {
										okAll = false
									}
								}
							}
						}
					}
				}
				c.Check(okAll && n > 0, rule, construct, c.Pos(st.Pos()), "every element appended to the inner transaction's "+f.Name()+" is a result of "+assign[k].Name())
				continue
			}
			c.Unk(rule, construct, c.Pos(st.Pos()), "store into a resource slice field that is not an append of new elements: "+describe(v))
			continue
		}
		_, isRes := asResultOf(v, 0, assign[k])
		c.Check(isRes, rule, construct, c.Pos(st.Pos()), "the inner transaction's "+f.Name()+" (a resource made available by resources.fill*) is set only to a value accepted by "+assign[k].Name()+", found "+describe(v))
	}
	if len(seen) == 0 {
		c.Unk(rule, fnName(fn), c.Pos(fn.Pos()), "no store into a resource field found in stackIntoTxnField")
	}
}

// ---------------------------------------------------------------------------
// R35.2 cross-product checks
// ---------------------------------------------------------------------------

func c35Sharing(c *Ctx, x *c35Ctx) {
	const rule = "R35.2"
	fVersion := c.Field(gLogic + ".EvalContext.version")
	shared, _ := constInt64(c.Const(gLogic + ".sharedResourcesVersion"))
	old := GCmp("cx.version < sharedResourcesVersion", token.LSS, M(fVersion), IsConstInt(shared))
	for _, r := range []struct{ fn, allows string }{{"localsReference", "allowsLocals"}, {"holdingReference", "allowsHolding"}} {
		fn := c.Fn(gLogic + ".EvalContext." + r.fn)
		al := c.Func(gLogic + ".EvalContext." + r.allows)
		succ := gGrantingReturns(fn)
		c.MustGuard(MustGuardSpec{Rule: rule, Fn: fn, Effects: succ, EffName: "return addr, id, nil", Guards: []Guard{GBool(r.allows+"(addr, id)", ResultOf(0, al), true)}, Bypass: []Guard{old}})
		// the values returned past the test are the ones that were tested
		edges, _ := PassEdges(fn, old)
		oldReach := NewReach(fn, edges, nil) // returns reachable here are on the version >= shared side only... (those not reached need the old edge)
		okSame, n := true, 0
		for _, s := range succ {
			if !oldReach.Reaches(s) {
				continue
			}
			ret := s.(*ssa.Return)
			for _, ci := range CallsTo(fn, false, al) {
				if !Dominates(ci, ret) {
					continue
				}
				n++
				ar := ci.Common().Args
				if len(ar) != 3 || len(ret.Results) < 2 || ar[1] != ret.Results[0] || ar[2] != ret.Results[1] {
					okSame = false
				}
			}
		}
		c.Check(okSame && n > 0, rule, fnName(fn)+":returns the (addr, id) it tested", c.Pos(fn.Pos()), "at version >= sharedResourcesVersion the address and id returned on success are exactly the arguments of the dominating "+r.allows+" call")
	}
	allowsLocals := c.Func(gLogic + ".EvalContext.allowsLocals")
	ledger := c.Named(gLogic + ".LedgerForLogic")
	for _, name := range []string{"opAppLocalPut", "opAppLocalDel"} {
		fn := c.Fn(gLogic + "." + name)
		var eff []ssa.Instruction
		for _, ci := range gInvokes(fn, ledger) {
			eff = append(eff, ci)
		}
		g := GBool("allowsLocals(addr, cx.appID)", func(v ssa.Value) bool {
			call, ok := asResultOf(v, 0, allowsLocals)
			if !ok || len(call.Call.Args) != 3 {
				return false
			}
			okApp, _ := x.ok(call.Call.Args[2], x.tApp, nil, 0, map[ssa.Value]bool{})
			return okApp
		}, true)
		c.MustGuard(MustGuardSpec{Rule: rule, Fn: fn, Effects: eff, EffName: "cx.Ledger.{Get,Set,Del}Local", Guards: []Guard{g}, Bypass: []Guard{old}})
		// the address written is the address tested
		okAddr := len(eff) > 0
		for _, e := range eff {
			ar := e.(*ssa.Call).Common().Args
			match := false
			for _, ci := range CallsTo(fn, false, allowsLocals) {
				if len(ar) > 0 && ci.Common().Args[1] == ar[0] {
					match = true
				}
			}
			if !match {
				okAddr = false
			}
		}
		c.Check(okAddr, rule, fnName(fn)+":ledger address == tested address", c.Pos(fn.Pos()), "the account whose local state is read/written is the one passed to allowsLocals")
	}
}

// ---------------------------------------------------------------------------
// R35.3 fill vs allows
// ---------------------------------------------------------------------------

// c35Cases maps each constant the function's switch over tx.Type handles to
// the blocks of its case body.
func c35Cases(fn *ssa.Function, fType *types.Var) map[string][]*ssa.BasicBlock {
	out := map[string][]*ssa.BasicBlock{}
	for _, b := range fn.Blocks {
		var ks []string
		ok := len(b.Preds) > 0
		for _, p := range b.Preds {
			iff, isIf := p.Instrs[len(p.Instrs)-1].(*ssa.If)
			if !isIf || p.Succs[0] != b {
				ok = false
				break
			}
			bo, isBo := iff.Cond.(*ssa.BinOp)
			if !isBo || bo.Op != token.EQL {
				ok = false
				break
			}
			var k *ssa.Const
			switch {
			case Mentions(bo.X, fType, 4):
				k, _ = bo.Y.(*ssa.Const)
			case Mentions(bo.Y, fType, 4):
				k, _ = bo.X.(*ssa.Const)
			}
			if k == nil || k.Value == nil {
				ok = false
				break
			}
			s, isStr := gVal{K: gConst, C: k.Value}.str()
			if !isStr {
				ok = false
				break
			}
			ks = append(ks, s)
		}
		if !ok {
			continue
		}
		var body []*ssa.BasicBlock
		for _, d := range fn.Blocks {
			if b.Dominates(d) {
				body = append(body, d)
			}
		}
		for _, k := range ks {
			out[k] = body
		}
	}
	return out
}

func c35FillAllows(c *Ctx, x *c35Ctx) {
	const rule = "R35.3"
	pkgPath := Mod + "/" + gLogic
	fType := c.Field("data/transactions.Transaction.Type")
	fill := c.Fn(gLogic + ".resources.fill")
	allows := c.Fn(gLogic + ".EvalContext.allows")
	fHold, fLoc := c.Field(gLogic+".resources.sharedHoldings"), c.Field(gLogic+".resources.sharedLocals")
	reqs := c.Funcs(gLogic+".EvalContext.requireHolding", gLogic+".EvalContext.requireLocals", gLogic+".EvalContext.allowsHolding", gLogic+".EvalContext.allowsLocals")
	// does a set of blocks reach (through static calls) a write to a cross-product map / a require call
	reachVia := func(blocks []*ssa.BasicBlock, pred func(fn *ssa.Function) bool) bool {
		var callees []*ssa.Function
		for _, b := range blocks {
			for _, in := range b.Instrs {
				if ci, ok := in.(ssa.CallInstruction); ok {
					if g := ci.Common().StaticCallee(); g != nil {
						callees = append(callees, g)
					}
				}
			}
		}
		for f := range gClosure(callees, pkgPath) {
			if pred(f) {
				return true
			}
		}
		return false
	}
	sharesCross := func(f *ssa.Function) bool {
		for _, in := range Instrs(f, func(in ssa.Instruction) bool { _, ok := in.(*ssa.MapUpdate); return ok }) {
			mu := in.(*ssa.MapUpdate)
			if Mentions(mu.Map, fHold, 4) || Mentions(mu.Map, fLoc, 4) {
				return true
			}
		}
		return false
	}
	checksCross := func(f *ssa.Function) bool { return len(CallsTo(f, false, reqs...)) > 0 }
	fc, ac := c35Cases(fill, fType), c35Cases(allows, fType)
	if len(fc) < 4 || len(ac) < 4 {
		c.Unk(rule, "switch tx.Type", c.Pos(fill.Pos()), fmt.Sprintf("the switches over tx.Type were not recognised (fill: %d cases, allows: %d cases)", len(fc), len(ac)))
		return
	}
	var ks []string
	for k := range fc {
		ks = append(ks, k)
	}
	sort.Strings(ks)
	for _, k := range ks {
		cross := reachVia(fc[k], sharesCross)
		body, handled := ac[k]
		construct := fmt.Sprintf("tx.Type==%q:fill shares cross-products => allows checks them", k)
		switch {
		case !cross:
			c.Ok(rule, construct, c.Pos(fill.Pos()), "fill makes no holding/local-state cross-product available for this type")
		case !handled:
			c.Ok(rule, construct, c.Pos(allows.Pos()), "allows() has no case for this type: inner transactions of this type are rejected")
		default:
			c.Check(reachVia(body, checksCross), rule, construct, c.Pos(allows.Pos()), "a transaction of this type makes holdings/local states available to later transactions (fill), so an inner transaction of this type built by a sharing-version app must have them checked by requireHolding/requireLocals in allows()")
		}
	}
}

// ---------------------------------------------------------------------------
// R35.4 who may extend availability
// ---------------------------------------------------------------------------

func c35Owners(c *Ctx) {
	const rule = "R35.4"
	fields := c.Fields(
		gLogic+".resources.createdAsas", gLogic+".resources.createdApps",
		gLogic+".resources.sharedAccounts", gLogic+".resources.sharedAsas", gLogic+".resources.sharedApps",
		gLogic+".resources.sharedHoldings", gLogic+".resources.sharedLocals", gLogic+".resources.boxes")
	own := map[string]string{
		gLogic + ".resources.shareHolding":               "group sharing",
		gLogic + ".resources.shareAccountAndHolding":     "group sharing",
		gLogic + ".resources.shareLocal":                 "group sharing",
		gLogic + ".resources.shareBox":                   "group sharing",
		gLogic + ".resources.fillKeyRegistration":        "group sharing",
		gLogic + ".resources.fillPayment":                "group sharing",
		gLogic + ".resources.fillAssetConfig":            "group sharing",
		gLogic + ".resources.fillAssetTransfer":          "group sharing",
		gLogic + ".resources.fillAssetFreeze":            "group sharing",
		gLogic + ".resources.fillApplicationCallAccess":  "group sharing",
		gLogic + ".resources.fillApplicationCallForeign": "group sharing",
		gLogic + ".EvalParams.computeAvailability":       "creates the empty maps before filling them from the group",
		gLogic + ".EvalParams.RecordAD":                  "records an asset created by an earlier transaction of the group",
		gLogic + ".EvalContract":                         "records the app being created and resolves its 0-index box references; marks boxes clean after the I/O pre-scan",
		gLogic + ".EvalContext.availableAppBox":          "updates the dirty flag of a box whose availability it has just established",
	}
	only := []string{gLogic}
	if c.Thorough {
		only = nil
	}
	c.OwnerRule(rule, "write(resources availability maps)", c.FieldWrites(fields, ScanOpts{SkipGenerated: true, OnlyPkgs: only}), own)
}
