package main

import (
	"go/types"

	"golang.org/x/tools/go/ssa"
)

// R06.6 (after seed C06-2) and R08.7 (after seed C08-2).
func init() {
	extend("C06", Extension{
		Run:         ruleEquivocationPairAligned,
		Explanation: "R06.6 (an equivocation record is a pair of (value, signature) couples): where voteTracker.handle builds the equivocationVote it stores, Proposals[k] and Sigs[k] are taken from the same vote for k=0,1 (the earlier accepted vote and the new one) — genBundle packs the record as is, and a signature placed next to the other vote's value makes the bundle fail verification.",
		Floor:       map[string]int{"R06.6": 1},
	})
	extend("C08", Extension{
		Run:         ruleLRUInitUnconditional,
		Explanation: "R08.7 (a tracker reload starts from empty caches): in the init method of lruAccounts, lruResources, lruKV (and lruOnlineAccounts under C13) the cache's map, list and pending-write channels are re-created whenever pendingWrites > 0 — no other condition (such as 'already allocated') guards them — so rows queued or cached before a reload cannot resurface, stamped with an old round, in answers given after it.",
		Floor:       map[string]int{"R08.7": 3},
	})
	extend("C13", Extension{
		Run:         func(c *Ctx) { ruleLRUInitUnconditionalFor(c, "R13.7", "ledger.lruOnlineAccounts.init") },
		Explanation: "R13.7: lruOnlineAccounts.init re-creates its buffers whenever pendingWrites > 0 (same obligation as R08.7).",
		Floor:       map[string]int{"R13.7": 1},
	})
}

func ruleEquivocationPairAligned(c *Ctx) {
	const rule = "R06.6"
	fn := c.Fn("agreement.voteTracker.handle")
	name := "agreement.voteTracker.handle"
	fProps := c.Field("agreement.equivocationVote.Proposals")
	fSigs := c.Field("agreement.equivocationVote.Sigs")
	fVoters := c.Field("agreement.voteTracker.Voters")
	fEvVote := c.Field("agreement.voteAcceptedEvent.Vote")
	// element stores of the two arrays: array alloc -> IndexAddr(const k) -> Store
	type elem struct {
		old, new bool
		found    bool
	}
	classify := func(arrField *types.Var) (map[int64]*elem, bool) {
		out := map[int64]*elem{}
		any := false
		for _, b := range fn.Blocks {
			for _, in := range b.Instrs {
				st, ok := in.(*ssa.Store)
				if !ok {
					continue
				}
				ia, ok := st.Addr.(*ssa.IndexAddr)
				if !ok {
					continue
				}
				// the array being indexed is (or is copied into) the field arrField of an equivocationVote
				if !arrayFeedsField(ia.X, arrField) {
					continue
				}
				k, isK := ia.Index.(*ssa.Const)
				if !isK {
					return nil, false
				}
				idx := k.Int64()
				e := out[idx]
				if e == nil {
					e = &elem{}
					out[idx] = e
				}
				e.found = true
				any = true
				// from the earlier vote (looked up in tracker.Voters) or from the event's vote
				if mentionsLookupOf(st.Val, fVoters) {
					e.old = true
				}
				if Mentions(st.Val, fEvVote, 6) {
					e.new = true
				}
			}
		}
		return out, any
	}
	props, ok1 := classify(fProps)
	sigs, ok2 := classify(fSigs)
	if !ok1 || !ok2 {
		c.Unk(rule, name+":equivocationVote{Proposals, Sigs}", c.Pos(fn.Pos()), "the construction of the stored equivocation record was not recognised (no constant-index element stores into Proposals/Sigs)")
		return
	}
	aligned := true
	for k := int64(0); k < 2; k++ {
		p, s := props[k], sigs[k]
		if p == nil || s == nil || !p.found || !s.found {
			aligned = false
			continue
		}
		// each element comes from exactly one of the two votes, the same one for value and signature
		if p.old == p.new || s.old == s.new || p.old != s.old {
			aligned = false
		}
	}
	// and the two couples come from different votes
	if aligned && props[0].old == props[1].old {
		aligned = false
	}
	c.Check(aligned, rule, name+":equivocationVote.Proposals[k] and Sigs[k] from the same vote", c.Pos(fn.Pos()), "Proposals[0]/Sigs[0] come from the earlier accepted vote and Proposals[1]/Sigs[1] from the new one (or the other way round for both)")
}

// arrayFeedsField: arr is a local array (or its address) whose value is stored into field f.
func arrayFeedsField(arr ssa.Value, f *types.Var) bool {
	// direct: IndexAddr on FieldAddr(x, f)
	if fa, ok := arr.(*ssa.FieldAddr); ok && structField(fa.X.Type(), fa.Field) == f {
		return true
	}
	al, ok := arr.(*ssa.Alloc)
	if !ok {
		return false
	}
	for _, r := range *al.Referrers() {
		if ld, ok := r.(*ssa.UnOp); ok && ld.X == ssa.Value(al) {
			for _, r2 := range *ld.Referrers() {
				if st, ok := r2.(*ssa.Store); ok && st.Val == ssa.Value(ld) {
					if fa, ok := st.Addr.(*ssa.FieldAddr); ok && structField(fa.X.Type(), fa.Field) == f {
						return true
					}
				}
			}
		}
	}
	return false
}

// mentionsLookupOf: v derives from a map lookup on field mapField.
func mentionsLookupOf(v ssa.Value, mapField *types.Var) bool {
	found := false
	walkDef(v, 8, func(x ssa.Value) bool {
		if lk, ok := x.(*ssa.Lookup); ok && Mentions(lk.X, mapField, 3) {
			found = true
		}
		return !found
	})
	return found
}

func ruleLRUInitUnconditional(c *Ctx) {
	for _, spec := range []string{"ledger.lruAccounts.init", "ledger.lruResources.init", "ledger.lruKV.init"} {
		ruleLRUInitUnconditionalFor(c, "R08.7", spec)
	}
}

func ruleLRUInitUnconditionalFor(c *Ctx, rule, spec string) {
	fn := c.Fn(spec)
	if len(fn.Params) < 3 {
		c.Unk(rule, spec, c.Pos(fn.Pos()), "unexpected signature")
		return
	}
	recv := fn.Params[0]
	// stores of freshly made maps / lists / channels into receiver fields
	var stores []*ssa.Store
	for _, b := range fn.Blocks {
		for _, in := range b.Instrs {
			st, ok := in.(*ssa.Store)
			if !ok {
				continue
			}
			fa, ok := st.Addr.(*ssa.FieldAddr)
			if !ok || fa.X != ssa.Value(recv) {
				continue
			}
			switch strip(st.Val).(type) {
			case *ssa.MakeMap, *ssa.MakeChan, *ssa.Call:
				stores = append(stores, st)
			}
		}
	}
	if len(stores) == 0 {
		c.Unk(rule, spec+":buffers", c.Pos(fn.Pos()), "no buffer (map/chan/list) creation found in init")
		return
	}
	ok := true
	why := ""
	for _, st := range stores {
		for _, b := range fn.Blocks {
			iff, isIf := b.Instrs[len(b.Instrs)-1].(*ssa.If)
			if !isIf {
				continue
			}
			controls := (b.Succs[0].Dominates(st.Block()) && len(b.Succs[0].Preds) == 1) || (b.Succs[1].Dominates(st.Block()) && len(b.Succs[1].Preds) == 1)
			if !controls {
				continue
			}
			// the only admissible controlling condition: a comparison of an int parameter (pendingWrites) with a constant
			cond, _ := condOf(iff.Cond)
			bo, isBo := cond.(*ssa.BinOp)
			admissible := false
			if isBo {
				_, px := bo.X.(*ssa.Parameter)
				_, ky := bo.Y.(*ssa.Const)
				_, py := bo.Y.(*ssa.Parameter)
				_, kx := bo.X.(*ssa.Const)
				admissible = (px && ky) || (py && kx)
			}
			if !admissible {
				ok = false
				why = "the (re)creation of a cache buffer is conditional on " + describe(iff.Cond)
			}
		}
	}
	// and the other way round: once pendingWrites > 0 holds, no path reaches a return without the stores
	if ok {
		sizeTest := Guard{Name: "pendingWrites>0", Match: func(cond ssa.Value) (bool, bool) {
			bo, isBo := cond.(*ssa.BinOp)
			if !isBo {
				return false, false
			}
			if p, isP := bo.X.(*ssa.Parameter); isP && p == fn.Params[2] && IsConstInt(0)(bo.Y) {
				switch bo.Op.String() {
				case ">", "!=":
					return true, true
				case "<=", "==":
					return true, false
				}
			}
			return false, false
		}}
		edges, m := PassEdges(fn, sizeTest)
		isStore := map[ssa.Instruction]bool{}
		for _, st := range stores {
			isStore[st] = true
		}
		if m > 0 {
			// take the first test from the entry: the one whose block dominates all the others
			for _, e := range edges {
				start := e.From.Succs[e.Idx]
				if !e.From.Dominates(stores[0].Block()) {
					continue
				}
				r := NewReachFromBlock(start, nil, func(in ssa.Instruction) bool { return isStore[in] })
				for _, b := range fn.Blocks {
					if ret, isRet := b.Instrs[len(b.Instrs)-1].(*ssa.Return); isRet && r.Reaches(ret) {
						ok = false
						why = "with pendingWrites > 0 a path returns from init without re-creating the buffers"
					}
				}
			}
		}
	}
	c.Check(ok, rule, spec+":buffers re-created whenever pendingWrites>0", c.Pos(fn.Pos()), "map, list and pending channels are made anew on every init"+func() string {
		if why != "" {
			return "; " + why + " — entries and queued writes from before a tracker reload would survive it"
		}
		return ""
	}())
}
