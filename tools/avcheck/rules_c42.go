package main

import (
	"go/constant"
	"go/token"
	"go/types"
	"sort"
	"strconv"

	"golang.org/x/tools/go/ssa"
)

func init() {
	register(&Prop{
		ID:       "C42",
		Patterns: []string{"./network/vpack"},
		Run:      runC42,
		Explanation: "Thin: decides encoder/decoder agreement tables and the reject-don't-crash shape of the vote compressors, not losslessness itself. " +
			"R42.1 (stateless layer) for each presence bit bitPer…bitStep: StatelessEncoder.updateMask sets it for exactly one vote value, parseMsgpVote writes that value under one msgpack key with one width (varuint/32/64/80), and StatelessDecoder.decompressVote reads, under a test of the same bit of src[0], a value of the same width and re-emits it under a fixstr constant whose text is that key and whose marker byte encodes its length; every required value written by the parser is read unconditionally with the same width and key; totalRequiredFields equals the number of required values; propFieldsMask is the OR of the four proposal bits; StatefulEncoder.Compress and StatefulDecoder.Decompress walk the stateless layout with the same width per presence bit. " +
			"R42.2 (stateful header) each table flag hdr1SndRef/hdr1PkRef/hdr1Pk2Ref is set in Compress on the hit edge of a lookup in the same LRU table that Decompress fetches from when the flag is set, and both sides insert into that table on the literal path; the proposal reference is shifted by the same amount on both sides, its mask is 7<<shift, proposalWindowSize fits it, insertNew runs on the literal path on both sides and byRef on the reference path; each round-delta code is chosen in Compress under rnd == lastRnd+d and decoded in Decompress as lastRnd+d with the same d, and both sides store the new lastRnd. " +
			"R42.3 (bounds) in the decoders of compressed input (StatelessDecoder.bin32/bin64/bin80/varuint/decompressVote, isLikelyUncompressedMsgpack, statefulReader.readFixed/readVaruintBytes/readDynamicRef) every index or re-slice of the input buffer is dominated by the in-bounds edge of a comparison against len(of that buffer); lruTable.fetch indexes buckets only past b < numBuckets and propWindow.byRef indexes entries only past 1 <= idx <= size. " +
			"R42.4 (errors) in decompressVote, Decompress and Compress no success return is reachable after a reader call whose error was non-nil, and Decompress reaches a success return after fetch/byRef only on ok == true. " +
			"Does NOT decide: byte-exact losslessness, that the bounds compared are numerically the ones needed, the emission order of the fields of r and r.prop, LRU/MRU and window state synchrony beyond the insert/lookup pairing, behaviour on non-canonical msgpack input (key order, duplicate keys, non-minimal integers), or the msgpack parser's own bounds (it reads uncompressed votes).",
		Assumptions: []string{
			"votes given to the encoder are canonical msgpack encodings (sorted keys, minimal integers), as produced by protocol.Encode",
		},
		Floor: map[string]int{"R42.1": 28, "R42.2": 11, "R42.3": 19, "R42.4": 40},
	})
}

const c42Pkg = "network/vpack"

// iBranch is one outcome of a conditional branch.
type c42Branch struct {
	iff  *ssa.BasicBlock // block ending in the If
	succ *ssa.BasicBlock // successor taken on the matched outcome
	key  string
	num  uint64
}

func c42Depth(b *ssa.BasicBlock) int {
	n := 0
	for x := b.Idom(); x != nil; x = x.Idom() {
		n++
	}
	return n
}

// c42Nearest returns the deepest branch outcome that dominates block at.
func c42Nearest(cands []c42Branch, at *ssa.BasicBlock) *c42Branch {
	var best *c42Branch
	for i := range cands {
		cd := &cands[i]
		if len(cd.succ.Preds) != 1 || !cd.succ.Dominates(at) {
			continue
		}
		if best == nil || c42Depth(cd.iff) > c42Depth(best.iff) {
			best = cd
		}
	}
	return best
}

// c42EqBranches collects, for every `x == K` / `x != K` branch of fn with x
// satisfying isX and K a constant, the successor on which x == K holds.
func c42EqBranches(fn *ssa.Function, isX VM) []c42Branch {
	var out []c42Branch
	for _, b := range fn.Blocks {
		iff := iBlockIf(b)
		if iff == nil {
			continue
		}
		cond, neg := condOf(iff.Cond)
		bo, ok := cond.(*ssa.BinOp)
		if !ok || (bo.Op != token.EQL && bo.Op != token.NEQ) {
			continue
		}
		for _, p := range [][2]ssa.Value{{bo.X, bo.Y}, {bo.Y, bo.X}} {
			k, isK := p[1].(*ssa.Const)
			if !isK || k.Value == nil || !isX(p[0]) {
				continue
			}
			eqOnTrue := (bo.Op == token.EQL) != neg
			succ := b.Succs[1]
			if eqOnTrue {
				succ = b.Succs[0]
			}
			br := c42Branch{iff: b, succ: succ}
			switch k.Value.Kind() {
			case constant.String:
				br.key = constant.StringVal(k.Value)
			case constant.Int:
				br.num, _ = constant.Uint64Val(k.Value)
			default:
				continue
			}
			out = append(out, br)
			break
		}
	}
	return out
}

// c42BitBranches collects, for every `(x & K) != 0` / `== 0` branch with x
// satisfying isX, the successor on which the bit(s) K are set, and separately
// the successor on which they are clear.
func c42BitBranches(fn *ssa.Function, isX VM) (set, clear []c42Branch) {
	for _, b := range fn.Blocks {
		iff := iBlockIf(b)
		if iff == nil {
			continue
		}
		cond, neg := condOf(iff.Cond)
		bo, ok := cond.(*ssa.BinOp)
		if !ok || (bo.Op != token.EQL && bo.Op != token.NEQ) {
			continue
		}
		lhs, rhs := bo.X, bo.Y
		if _, isK := iConstU64(lhs); isK {
			lhs, rhs = rhs, lhs
		}
		cmp, isK := iConstU64(rhs)
		and, ok := strip(lhs).(*ssa.BinOp)
		if !isK || !ok || and.Op != token.AND {
			continue
		}
		var k uint64
		found := false
		for _, p := range [][2]ssa.Value{{and.X, and.Y}, {and.Y, and.X}} {
			if n, isK := iConstU64(p[1]); isK && isX(p[0]) {
				k, found = n, true
			}
		}
		if !found {
			continue
		}
		// (x&K) != 0, or for a single bit K the equivalent (x&K) == K
		var setOnTrue bool
		switch {
		case cmp == 0:
			setOnTrue = (bo.Op == token.NEQ) != neg
		case cmp == k && k&(k-1) == 0:
			setOnTrue = (bo.Op == token.EQL) != neg
		default:
			continue
		}
		s, cl := b.Succs[1], b.Succs[0]
		if setOnTrue {
			s, cl = b.Succs[0], b.Succs[1]
		}
		set = append(set, c42Branch{iff: b, succ: s, num: k})
		clear = append(clear, c42Branch{iff: b, succ: cl, num: k})
	}
	return
}

type c42Field struct {
	name  string // msgpack key
	width string // varuint | 32 | 64 | 80
	enum  uint64
	bit   uint64 // 0 = required
	pos   token.Pos
	call  *ssa.Call
}

func runC42(c *Ctx) {
	P := c42Pkg
	bitNames := []string{"bitPer", "bitDig", "bitEncDig", "bitOper", "bitOprop", "bitStep"}
	bits := map[uint64]string{}
	for _, n := range bitNames {
		v, _ := constInt64(c.Const(P + "." + n))
		bits[uint64(v)] = n
	}

	// ---------- encoder: enum -> bit (updateMask) ----------
	um := c.Fn(P + ".StatelessEncoder.updateMask")
	fMask := c.Field(P + ".StatelessEncoder.mask")
	enumBit := map[uint64]uint64{}
	bitEnum := map[uint64][]uint64{}
	if len(um.Params) == 2 {
		cases := c42EqBranches(um, IsV(um.Params[1]))
		for _, in := range StoresToField(um, false, map[*types.Var]bool{fMask: true}) {
			st := in.(*ssa.Store)
			bo, ok := st.Val.(*ssa.BinOp)
			if !ok || bo.Op != token.OR {
				c.Unk("R42.1", P+".StatelessEncoder.updateMask:store(mask)", c.Pos(st.Pos()), "mask is assigned something other than mask|bit")
				continue
			}
			b, okB := iConstU64(bo.Y)
			if !okB {
				b, okB = iConstU64(bo.X)
			}
			n := 0
			for _, cs := range cases {
				if cs.succ.Dominates(st.Block()) || cs.succ == st.Block() {
					enumBit[cs.num] = b
					bitEnum[b] = append(bitEnum[b], cs.num)
					n++
				}
			}
			if !okB || n == 0 {
				c.Unk("R42.1", P+".StatelessEncoder.updateMask:store(mask)", c.Pos(st.Pos()), "cannot relate the mask update to a vote-value case")
			}
		}
	}

	// ---------- encoder: enum -> (key, width) (parseMsgpVote) ----------
	parse := c.Fn(P + ".parseMsgpVote")
	widthOf := map[string]string{"writeVaruint": "varuint", "writeBin32": "32", "writeBin64": "64", "writeBin80": "80",
		"varuint": "varuint", "bin32": "32", "bin64": "64", "bin80": "80"}
	isString := func(v ssa.Value) bool {
		bt, ok := v.Type().Underlying().(*types.Basic)
		return ok && bt.Kind() == types.String
	}
	keyGuards := c42EqBranches(parse, isString)
	var written []c42Field
	for _, w := range []string{"writeVaruint", "writeBin32", "writeBin64", "writeBin80"} {
		for _, ci := range CallsTo(parse, false, c.Func(P+".StatelessEncoder."+w)) {
			call, ok := ci.(*ssa.Call)
			if !ok {
				continue
			}
			e, okE := iConstU64(call.Common().Args[1])
			g := c42Nearest(keyGuards, call.Block())
			if !okE || g == nil || g.key == "" {
				c.Unk("R42.1", P+".parseMsgpVote:"+w, c.Pos(call.Pos()), "cannot relate this write to a msgpack key and a vote value")
				continue
			}
			written = append(written, c42Field{name: g.key, width: widthOf[w], enum: e, bit: enumBit[e], pos: call.Pos(), call: call})
		}
	}

	// ---------- decoder: (bit|required) -> (name, width) (decompressVote) ----------
	dv := c.Fn(P + ".StatelessDecoder.decompressVote")
	var srcParam *ssa.Parameter
	if len(dv.Params) == 3 {
		srcParam = dv.Params[2]
	}
	isMask := func(v ssa.Value) bool {
		// uint8(src[0])
		u, ok := strip(v).(*ssa.UnOp)
		if !ok || u.Op != token.MUL {
			return false
		}
		ia, ok := u.X.(*ssa.IndexAddr)
		return ok && srcParam != nil && ia.X == ssa.Value(srcParam) && IsConstInt(0)(ia.Index)
	}
	maskSet, _ := c42BitBranches(dv, isMask)
	var read []c42Field
	for _, r := range []string{"varuint", "bin32", "bin64", "bin80"} {
		for _, ci := range CallsTo(dv, false, c.Func(P+".StatelessDecoder."+r)) {
			call, ok := ci.(*ssa.Call)
			if !ok {
				continue
			}
			k, isK := call.Common().Args[1].(*ssa.Const)
			if !isK || k.Value == nil || k.Value.Kind() != constant.String {
				c.Unk("R42.1", P+".StatelessDecoder.decompressVote:"+r, c.Pos(call.Pos()), "field name is not a constant")
				continue
			}
			s := constant.StringVal(k.Value)
			f := c42Field{width: widthOf[r], pos: call.Pos(), call: call}
			if len(s) >= 2 && s[0] == byte(0xa0|(len(s)-1)) && len(s)-1 <= 31 {
				f.name = s[1:]
			} else {
				c.Bad("R42.1", P+".StatelessDecoder.decompressVote:fixstr("+strconv.Quote(s)+")", c.Pos(call.Pos()), "the field-name constant is not a msgpack fixstr whose marker encodes its length: the re-emitted vote differs from the original bytes")
				continue
			}
			if g := c42Nearest(maskSet, call.Block()); g != nil {
				f.bit = g.num
			}
			read = append(read, f)
		}
	}

	// ---------- compare ----------
	byEnumBit := map[uint64]*c42Field{}
	var required []*c42Field
	for i := range written {
		w := &written[i]
		if w.bit != 0 {
			if byEnumBit[w.bit] != nil {
				c.Bad("R42.1", P+":bit("+bits[w.bit]+")", c.Pos(w.pos), "two different vote values are written under presence bit "+bits[w.bit])
			}
			byEnumBit[w.bit] = w
		} else {
			required = append(required, w)
		}
	}
	usedRead := map[*ssa.Call]bool{}
	var bvals []uint64
	for b := range bits {
		bvals = append(bvals, b)
	}
	sort.Slice(bvals, func(i, j int) bool { return bvals[i] < bvals[j] })
	for _, b := range bvals {
		construct := P + ":bit(" + bits[b] + ")"
		w := byEnumBit[b]
		var rd *c42Field
		for i := range read {
			if read[i].bit == b {
				if rd != nil {
					c.Bad("R42.1", construct, c.Pos(read[i].pos), "the decoder reads two values under presence bit "+bits[b])
				}
				rd = &read[i]
			}
		}
		switch {
		case len(bitEnum[b]) != 1:
			c.Bad("R42.1", construct, c.Pos(um.Pos()), "StatelessEncoder.updateMask sets "+bits[b]+" for "+itoa(len(bitEnum[b]))+" vote values (expected exactly one)")
		case w == nil:
			c.Bad("R42.1", construct, c.Pos(parse.Pos()), "no value written by parseMsgpVote is recorded under "+bits[b])
		case rd == nil:
			c.Bad("R42.1", construct, c.Pos(dv.Pos()), "StatelessDecoder.decompressVote reads nothing under a test of "+bits[b]+" although the encoder writes key \""+w.name+"\" under it")
		case rd.name != w.name || rd.width != w.width:
			c.Bad("R42.1", construct, c.Pos(rd.pos), "encoder writes key \""+w.name+"\" (width "+w.width+") under "+bits[b]+", decoder reads \""+rd.name+"\" (width "+rd.width+") under it")
		default:
			usedRead[rd.call] = true
			c.Ok("R42.1", construct, c.Pos(rd.pos), "key \""+w.name+"\", width "+w.width+": written under "+bits[b]+" by the encoder and read under the same bit of src[0] by the decoder")
		}
	}
	sort.Slice(required, func(i, j int) bool { return required[i].name < required[j].name })
	for _, w := range required {
		construct := P + ":required(" + w.name + ")"
		var rd *c42Field
		for i := range read {
			if read[i].bit == 0 && read[i].name == w.name {
				rd = &read[i]
			}
		}
		switch {
		case rd == nil:
			c.Bad("R42.1", construct, c.Pos(w.pos), "required key \""+w.name+"\" is written by the encoder but never read unconditionally by the decoder")
		case rd.width != w.width:
			c.Bad("R42.1", construct, c.Pos(rd.pos), "required key \""+w.name+"\": encoder width "+w.width+", decoder width "+rd.width)
		default:
			usedRead[rd.call] = true
			c.Ok("R42.1", construct, c.Pos(rd.pos), "required key \""+w.name+"\", width "+w.width+" on both sides")
		}
	}
	for i := range read {
		if !usedRead[read[i].call] {
			c.Bad("R42.1", P+".StatelessDecoder.decompressVote:extra-read("+read[i].name+")", c.Pos(read[i].pos), "the decoder reads a value (key \""+read[i].name+"\") that the encoder never writes in that position class")
		}
	}
	{
		k, _ := constInt64(c.Const(P + ".totalRequiredFields"))
		reqDetail := "totalRequiredFields (" + itoa(int(k)) + ") equals the number of values the parser writes without a presence bit (" + itoa(len(required)) + ")"
		if int(k) != len(required) {
			reqDetail = "totalRequiredFields is " + itoa(int(k)) + " but the parser writes " + itoa(len(required)) + " values without a presence bit: CompressVote's completeness test rejects every vote or accepts incomplete ones"
		}
		c.Check(int(k) == len(required) && len(required) > 0, "R42.1", P+".totalRequiredFields==#required", c.Pos(c.Const(P+".totalRequiredFields").Pos()), reqDetail)
		pm, _ := constInt64(c.Const(P + ".propFieldsMask"))
		want := int64(0)
		for _, n := range []string{"bitDig", "bitEncDig", "bitOper", "bitOprop"} {
			v, _ := constInt64(c.Const(P + "." + n))
			want |= v
		}
		c.Check(pm == want, "R42.1", P+".propFieldsMask==bitDig|bitEncDig|bitOper|bitOprop", c.Pos(c.Const(P+".propFieldsMask").Pos()), "the proposal-map test covers exactly the four proposal bits")
	}

	// the stateful layer walks the stateless layout with the same widths
	widthByBit := map[uint64]string{}
	for b, w := range byEnumBit {
		widthByBit[b] = w.width
	}
	readFixed := c.Func(P + ".statefulReader.readFixed")
	readVarB := c.Func(P + ".statefulReader.readVaruintBytes")
	readVar := c.Func(P + ".statefulReader.readVaruint")
	readRef := c.Func(P + ".statefulReader.readDynamicRef")
	compress := c.Fn(P + ".StatefulEncoder.Compress")
	decompress := c.Fn(P + ".StatefulDecoder.Decompress")
	hdrByte := func(fn *ssa.Function, idx int64) VM {
		// header[idx] where header is the first result of r.readFixed(2, …)
		return func(v ssa.Value) bool {
			u, ok := strip(v).(*ssa.UnOp)
			if !ok || u.Op != token.MUL {
				return false
			}
			ia, ok := u.X.(*ssa.IndexAddr)
			if !ok || !IsConstInt(idx)(ia.Index) {
				return false
			}
			call, ok := asResultOf(ia.X, 0, readFixed)
			return ok && IsConstInt(2)(call.Common().Args[1])
		}
	}
	for _, fn := range []*ssa.Function{compress, decompress} {
		set, _ := c42BitBranches(fn, hdrByte(fn, 0))
		seen := map[uint64]bool{}
		for _, in := range Instrs(fn, func(in ssa.Instruction) bool {
			ci, ok := in.(*ssa.Call)
			return ok && (sameFunc(calleeOf(ci.Common()), readFixed) || sameFunc(calleeOf(ci.Common()), readVarB) || sameFunc(calleeOf(ci.Common()), readVar))
		}) {
			call := in.(*ssa.Call)
			g := c42Nearest(set, call.Block())
			if g == nil {
				continue
			}
			if _, single := bits[g.num]; !single {
				continue // nearest test is a multi-bit mask
			}
			w := "varuint"
			if sameFunc(calleeOf(call.Common()), readFixed) {
				n, _ := iConstU64(call.Common().Args[1])
				w = itoa(int(n))
			}
			seen[g.num] = true
			c.Check(w == widthByBit[g.num], "R42.1", fnName(fn)+":read-under("+bits[g.num]+")", c.Pos(call.Pos()), "the stateful layer reads width "+w+" under "+bits[g.num]+"; the stateless encoder wrote width "+widthByBit[g.num])
		}
		for _, b := range bvals {
			if !seen[b] {
				c.Bad("R42.1", fnName(fn)+":read-under("+bits[b]+")", c.Pos(fn.Pos()), fnName(fn)+" does not read the optional value announced by "+bits[b]+": every later field is misaligned")
			}
		}
	}

	// ================= R42.2 =================
	c42Stateful(c, compress, decompress, hdrByte)

	// ================= R42.3 =================
	c42Bounds(c)

	// ================= R42.4 =================
	readers := []*types.Func{readFixed, readVarB, readVar, readRef}
	for _, r := range []string{"varuint", "bin32", "bin64", "bin80"} {
		readers = append(readers, c.Func(P+".StatelessDecoder."+r))
	}
	for _, fn := range []*ssa.Function{dv, decompress, compress} {
		var succ []ssa.Instruction
		idx := errResultIndex(fn)
		for _, r := range iReturns(fn) {
			if idx >= 0 && IsNil(r.Results[idx]) {
				succ = append(succ, r)
			}
		}
		if len(succ) == 0 {
			c.Unk("R42.4", fnName(fn)+":success-return", c.Pos(fn.Pos()), "no `return …, nil` found")
			continue
		}
		n := 0
		for _, ci := range CallsTo(fn, false, readers...) {
			call, ok := ci.(*ssa.Call)
			if !ok {
				continue
			}
			n++
			g := GErrNil("err==nil", func(v ssa.Value) bool {
				if v == ssa.Value(call) {
					return true
				}
				e, ok := v.(*ssa.Extract)
				return ok && e.Tuple == ssa.Value(call) && isErrorType(e.Type())
			})
			pass, m := PassEdges(fn, g)
			label := fnName(fn) + ":" + calleeOf(call.Common()).Name() + "(" + c42Label(call) + ") error checked"
			if m == 0 {
				c.Bad("R42.4", label, c.Pos(call.Pos()), "the error of this read is never tested: truncated or malformed input would be decoded into a wrong vote instead of being rejected")
				continue
			}
			after := iReachableAfter(call, pass, nil)
			ok = true
			for _, s := range succ {
				if after.Reaches(s) {
					ok = false
				}
			}
			c.Check(ok, "R42.4", label, c.Pos(call.Pos()), "after this read no success return is reachable except through its err == nil edge")
		}
		if n == 0 {
			c.Unk("R42.4", fnName(fn)+":reads", c.Pos(fn.Pos()), "no reader calls found")
		}
	}
	iDumpObs(c)
}

// c42Label renders the constant string argument of a reader call, if any.
func c42Label(call *ssa.Call) string {
	for _, a := range call.Common().Args {
		if k, ok := a.(*ssa.Const); ok && k.Value != nil && k.Value.Kind() == constant.String {
			s := constant.StringVal(k.Value)
			if len(s) > 1 && s[0] >= 0xa0 && s[0] <= 0xbf {
				s = s[1:]
			}
			return s
		}
	}
	return "?"
}

func c42Stateful(c *Ctx, compress, decompress *ssa.Function, hdrByte func(*ssa.Function, int64) VM) {
	P := c42Pkg
	lookup := c.Func(P + ".lruTable.lookup")
	insert := c.Func(P + ".lruTable.insert")
	fetch := c.Func(P + ".lruTable.fetch")
	wLookup := c.Func(P + ".propWindow.lookup")
	wInsert := c.Func(P + ".propWindow.insertNew")
	wByRef := c.Func(P + ".propWindow.byRef")
	fLast := c.Field(P + ".dynamicTableState.lastRnd")
	tables := []*types.Var{c.Field(P + ".dynamicTableState.sndTable"), c.Field(P + ".dynamicTableState.pkTable"), c.Field(P + ".dynamicTableState.pk2Table")}
	tableOf := func(v ssa.Value) *types.Var {
		for _, t := range tables {
			if Mentions(v, t, 4) {
				return t
			}
		}
		return nil
	}
	flagNames := map[uint64]string{}
	for _, n := range []string{"hdr1SndRef", "hdr1PkRef", "hdr1Pk2Ref"} {
		v, _ := constInt64(c.Const(P + "." + n))
		flagNames[uint64(v)] = n
	}

	// ---- table flags ----
	// encoder: `hdr1 |= C` on the hit edge of T.lookup; T.insert on the miss edge
	type encSide struct {
		hit, miss *types.Var
		pos       token.Pos
	}
	enc := map[uint64]*encSide{}
	for _, b := range compress.Blocks {
		iff := iBlockIf(b)
		if iff == nil {
			continue
		}
		cond, neg := condOf(iff.Cond)
		call, ok := asResultOf(cond, 1, lookup)
		if !ok {
			continue
		}
		hit, miss := b.Succs[0], b.Succs[1]
		if neg {
			hit, miss = miss, hit
		}
		t := tableOf(call.Common().Args[0])
		for _, in := range hit.Instrs {
			if bo, ok := in.(*ssa.BinOp); ok && bo.Op == token.OR {
				if k, isK := iConstU64(bo.Y); isK && flagNames[k] != "" {
					es := &encSide{hit: t, pos: bo.Pos()}
					for _, ic := range CallsTo(compress, false, insert) {
						if miss.Dominates(ic.Block()) && len(miss.Preds) == 1 {
							es.miss = tableOf(ic.Common().Args[0])
						}
					}
					enc[k] = es
				}
			}
		}
	}
	set, clear := c42BitBranches(decompress, hdrByte(decompress, 1))
	var flags []uint64
	for k := range flagNames {
		flags = append(flags, k)
	}
	sort.Slice(flags, func(i, j int) bool { return flags[i] < flags[j] })
	for _, k := range flags {
		construct := P + ":flag(" + flagNames[k] + ")"
		es := enc[k]
		var dHit, dMiss *types.Var
		var pos token.Pos
		for _, ic := range CallsTo(decompress, false, fetch) {
			if g := c42Nearest(set, ic.Block()); g != nil && g.num == k {
				dHit, pos = tableOf(ic.Common().Args[0]), ic.Pos()
			}
		}
		for _, ic := range CallsTo(decompress, false, insert) {
			if g := c42Nearest(clear, ic.Block()); g != nil && g.num == k {
				dMiss = tableOf(ic.Common().Args[0])
			}
		}
		switch {
		case es == nil || es.hit == nil:
			c.Bad("R42.2", construct, c.Pos(compress.Pos()), "Compress no longer sets "+flagNames[k]+" on the hit edge of an LRU table lookup")
		case dHit == nil:
			c.Bad("R42.2", construct, c.Pos(decompress.Pos()), "Decompress no longer fetches from an LRU table when "+flagNames[k]+" is set")
		case es.hit != dHit:
			c.Bad("R42.2", construct, c.Pos(pos), "Compress sets "+flagNames[k]+" for a hit in "+es.hit.Name()+" but Decompress resolves it in "+dHit.Name())
		case es.miss != es.hit || dMiss != dHit:
			c.Bad("R42.2", construct, c.Pos(pos), "on the literal path both sides must insert into "+es.hit.Name()+" (encoder inserts into "+c42VarName(es.miss)+", decoder into "+c42VarName(dMiss)+"): the tables drift apart")
		default:
			c.Ok("R42.2", construct, c.Pos(pos), "hit: lookup/fetch in "+dHit.Name()+" on both sides; literal: insert into "+dHit.Name()+" on both sides")
		}
	}

	// ---- proposal window reference ----
	{
		shift, _ := constInt64(c.Const(P + ".hdr1PropShift"))
		mask, _ := constInt64(c.Const(P + ".hdr1PropMask"))
		wsz, _ := constInt64(c.Const(P + ".proposalWindowSize"))
		c.Check(mask == 7<<uint(shift) && wsz <= mask>>uint(shift) && wsz > 0, "R42.2", P+":hdr1PropMask/Shift/proposalWindowSize", c.Pos(c.Const(P+".hdr1PropMask").Pos()), "the 3-bit proposal reference field holds every window index 1…proposalWindowSize")
		// encoder: idx from proposalWindow.lookup, shifted left by `shift`, on idx != 0; insertNew on idx == 0
		okEnc, okDec := false, false
		why := ""
		for _, b := range compress.Blocks {
			iff := iBlockIf(b)
			if iff == nil {
				continue
			}
			cond, neg := condOf(iff.Cond)
			bo, ok := cond.(*ssa.BinOp)
			if !ok || (bo.Op != token.NEQ && bo.Op != token.EQL) || !IsConstInt(0)(bo.Y) {
				continue
			}
			if _, isL := asResultOf(bo.X, 0, wLookup); !isL {
				continue
			}
			found := b.Succs[1]
			if (bo.Op == token.NEQ) != neg {
				found = b.Succs[0]
			}
			notFound := b.Succs[0]
			if found == b.Succs[0] {
				notFound = b.Succs[1]
			}
			shl := false
			for _, in := range found.Instrs {
				if s, ok := in.(*ssa.BinOp); ok && s.Op == token.SHL && IsConstInt(shift)(s.Y) && Mentions(s.X, wLookup, 4) {
					shl = true
				}
			}
			ins := false
			for _, ic := range CallsTo(compress, false, wInsert) {
				if len(notFound.Preds) == 1 && notFound.Dominates(ic.Block()) {
					ins = true
				}
			}
			okEnc = shl && ins
			if !shl {
				why = "Compress does not store the window index shifted by hdr1PropShift"
			} else if !ins {
				why = "Compress does not insertNew on the literal path"
			}
		}
		// decoder: (hdr1 & mask) >> shift; == 0 -> insertNew, else byRef
		isRef := func(v ssa.Value) bool {
			s, ok := strip(v).(*ssa.BinOp)
			if !ok || s.Op != token.SHR || !IsConstInt(shift)(s.Y) {
				return false
			}
			a, ok := strip(s.X).(*ssa.BinOp)
			return ok && a.Op == token.AND && (IsConstInt(mask)(a.Y) && hdrByte(decompress, 1)(a.X) || IsConstInt(mask)(a.X) && hdrByte(decompress, 1)(a.Y))
		}
		var lit, ref *c42Branch
		for _, br := range c42EqBranches(decompress, isRef) {
			if br.num == 0 && br.key == "" {
				b := br
				lit = &b
				other := br.iff.Succs[0]
				if other == br.succ {
					other = br.iff.Succs[1]
				}
				ref = &c42Branch{iff: br.iff, succ: other}
			}
		}
		if lit != nil {
			ins, byref := false, false
			for _, ic := range CallsTo(decompress, false, wInsert) {
				if len(lit.succ.Preds) == 1 && lit.succ.Dominates(ic.Block()) {
					ins = true
				}
			}
			for _, ic := range CallsTo(decompress, false, wByRef) {
				if len(ref.succ.Preds) == 1 && ref.succ.Dominates(ic.Block()) && isRef(strip(ic.Common().Args[1])) {
					byref = true
				}
			}
			okDec = ins && byref
			if !ins {
				why = "Decompress does not insertNew on the literal path"
			} else if !byref {
				why = "Decompress does not resolve the reference with byRef((hdr1&mask)>>shift)"
			}
		} else if why == "" {
			why = "Decompress does not extract the proposal reference as (hdr1 & hdr1PropMask) >> hdr1PropShift"
		}
		if okEnc && okDec {
			why = "the window index is stored <<shift and read back (hdr1&mask)>>shift; insertNew on the literal path on both sides, byRef on the reference path"
		}
		c.Check(okEnc && okDec, "R42.2", P+":proposal-window reference", c.Pos(compress.Pos()), why)
	}

	// ---- round delta codes ----
	{
		delta := func(v ssa.Value) (int, bool) {
			v = strip(v)
			if Mentions(v, fLast, 2) {
				if u, ok := v.(*ssa.UnOp); ok && u.Op == token.MUL {
					return 0, true
				}
			}
			if bo, ok := v.(*ssa.BinOp); ok && IsConstInt(1)(bo.Y) && Mentions(bo.X, fLast, 2) {
				switch bo.Op {
				case token.ADD:
					return 1, true
				case token.SUB:
					return -1, true
				}
			}
			return 0, false
		}
		rmask, _ := constInt64(c.Const(P + ".hdr1RndMask"))
		// encoder: rnd == lastRnd+d  =>  hdr1 |= code
		encCode := map[uint64]int{}
		var eq []c42Branch
		var eqDelta []int
		for _, b := range compress.Blocks {
			iff := iBlockIf(b)
			if iff == nil {
				continue
			}
			cond, neg := condOf(iff.Cond)
			bo, ok := cond.(*ssa.BinOp)
			if !ok || bo.Op != token.EQL || neg {
				continue
			}
			_, isRnd := asResultOf(bo.X, 1, c.Func(P+".statefulReader.readVaruint"))
			d, isD := delta(bo.Y)
			if isRnd && isD {
				eq = append(eq, c42Branch{iff: b, succ: b.Succs[0]})
				eqDelta = append(eqDelta, d)
			}
		}
		for _, in := range Instrs(compress, func(in ssa.Instruction) bool {
			bo, ok := in.(*ssa.BinOp)
			if !ok || bo.Op != token.OR {
				return false
			}
			k, isK := iConstU64(bo.Y)
			return isK && k != 0 && k&^uint64(rmask) == 0
		}) {
			bo := in.(*ssa.BinOp)
			k, _ := iConstU64(bo.Y)
			best := -1
			for i := range eq {
				if len(eq[i].succ.Preds) == 1 && eq[i].succ.Dominates(bo.Block()) && (best < 0 || c42Depth(eq[i].iff) > c42Depth(eq[best].iff)) {
					best = i
				}
			}
			if best >= 0 {
				encCode[k] = eqDelta[best]
			}
		}
		// decoder: (hdr1 & rmask) == code  =>  AppendUint64(out, lastRnd+d)
		decCode := map[uint64]int{}
		isRndBits := func(v ssa.Value) bool {
			a, ok := strip(v).(*ssa.BinOp)
			return ok && a.Op == token.AND && (IsConstInt(rmask)(a.Y) && hdrByte(decompress, 1)(a.X) || IsConstInt(rmask)(a.X) && hdrByte(decompress, 1)(a.Y))
		}
		cases := c42EqBranches(decompress, isRndBits)
		literalReads := false
		for _, in := range Instrs(decompress, func(in ssa.Instruction) bool {
			ci, ok := in.(*ssa.Call)
			return ok && calleeOf(ci.Common()) != nil && calleeOf(ci.Common()).Name() == "AppendUint64" && calleeOf(ci.Common()).Pkg() != nil && calleeOf(ci.Common()).Pkg().Path() == "github.com/algorand/msgp/msgp"
		}) {
			call := in.(*ssa.Call)
			g := c42Nearest(cases, call.Block())
			d, isD := delta(call.Common().Args[1])
			if g != nil && isD {
				decCode[g.num] = d
			}
		}
		for _, ic := range CallsTo(decompress, false, c.Func(P+".statefulReader.readVaruint")) {
			if g := c42Nearest(cases, ic.Block()); g != nil && g.num == 0 {
				literalReads = true
			}
		}
		names := map[uint64]string{}
		for _, n := range []string{"hdr1RndDeltaSame", "hdr1RndDeltaPlus1", "hdr1RndDeltaMinus1"} {
			v, _ := constInt64(c.Const(P + "." + n))
			names[uint64(v)] = n
		}
		var codes []uint64
		for k := range names {
			codes = append(codes, k)
		}
		sort.Slice(codes, func(i, j int) bool { return codes[i] < codes[j] })
		for _, k := range codes {
			e, okE := encCode[k]
			d, okD := decCode[k]
			construct := P + ":rnd-code(" + names[k] + ")"
			switch {
			case !okE:
				c.Bad("R42.2", construct, c.Pos(compress.Pos()), "Compress no longer emits "+names[k]+" under a comparison rnd == lastRnd±d")
			case !okD:
				c.Bad("R42.2", construct, c.Pos(decompress.Pos()), "Decompress no longer decodes "+names[k]+" as lastRnd±d")
			case e != d:
				c.Bad("R42.2", construct, c.Pos(decompress.Pos()), "Compress emits "+names[k]+" when rnd == lastRnd"+c42Signed(e)+" but Decompress reconstructs lastRnd"+c42Signed(d))
			default:
				c.Ok("R42.2", construct, c.Pos(decompress.Pos()), "rnd == lastRnd"+c42Signed(e)+" on both sides")
			}
		}
		c.Check(literalReads, "R42.2", P+":rnd-code(hdr1RndLiteral)", c.Pos(decompress.Pos()), "the literal code makes Decompress read the round bytes from the input")
		// both sides remember the round of this vote
		for _, fn := range []*ssa.Function{compress, decompress} {
			st := StoresToField(fn, false, map[*types.Var]bool{fLast: true})
			ok := len(st) > 0
			for _, s := range st {
				v := s.(*ssa.Store).Val
				if fn == compress {
					_, isRnd := asResultOf(v, 1, c.Func(P+".statefulReader.readVaruint"))
					ok = ok && isRnd
				} else {
					// phi over the four cases: every edge is lastRnd±d or the literal value read
					phi, isPhi := v.(*ssa.Phi)
					if !isPhi {
						ok = false
						continue
					}
					for _, e := range phi.Edges {
						_, isD := delta(e)
						_, isLit := asResultOf(e, 1, c.Func(P+".statefulReader.readVaruint"))
						// the zero edge is the (unreachable) no-case-matched exit of the exhaustive 2-bit switch
						ok = ok && (isD || isLit || IsConstInt(0)(e))
					}
				}
			}
			c.Check(ok, "R42.2", fnName(fn)+":lastRnd=rnd", c.Pos(fn.Pos()), "the round of this vote becomes lastRnd for the next one")
		}
	}
}

func c42Signed(d int) string {
	switch {
	case d > 0:
		return "+" + itoa(d)
	case d < 0:
		return itoa(d)
	}
	return "+0"
}

func c42VarName(v *types.Var) string {
	if v == nil {
		return "<none>"
	}
	return v.Name()
}

// c42Bounds checks the decoder bounds (R42.3).
func c42Bounds(c *Ctx) {
	P := c42Pkg
	bufFields := map[*types.Var]bool{c.Field(P + ".StatelessDecoder.src"): true, c.Field(P + ".statefulReader.src"): true}
	specs := []string{
		P + ".StatelessDecoder.bin32", P + ".StatelessDecoder.bin64", P + ".StatelessDecoder.bin80", P + ".StatelessDecoder.varuint",
		P + ".StatelessDecoder.decompressVote", P + ".isLikelyUncompressedMsgpack",
		P + ".statefulReader.readFixed", P + ".statefulReader.readVaruintBytes", P + ".statefulReader.readDynamicRef",
	}
	for _, spec := range specs {
		fn := c.Fn(spec)
		// identity of a buffer: the field it is loaded from, or the []byte parameter
		bufID := func(v ssa.Value) any {
			v = strip(v)
			if p, ok := v.(*ssa.Parameter); ok {
				if sl, isSl := p.Type().Underlying().(*types.Slice); isSl && types.Identical(sl.Elem(), types.Typ[types.Byte]) {
					return p
				}
				return nil
			}
			if u, ok := v.(*ssa.UnOp); ok && u.Op == token.MUL {
				if fa, ok := u.X.(*ssa.FieldAddr); ok {
					if f := structField(fa.X.Type(), fa.Field); bufFields[f] {
						return f
					}
				}
			}
			return nil
		}
		mentionsLen := func(v ssa.Value, id any) bool {
			found := false
			walkDef(v, 4, func(x ssa.Value) bool {
				if arg, ok := lenOf(x); ok && bufID(arg) == id {
					found = true
				}
				return !found
			})
			return found
		}
		// in-bounds successors of every comparison against len(buffer)
		inBounds := func(id any) []*ssa.BasicBlock {
			var out []*ssa.BasicBlock
			for _, b := range fn.Blocks {
				iff := iBlockIf(b)
				if iff == nil {
					continue
				}
				cond, neg := condOf(iff.Cond)
				bo, ok := cond.(*ssa.BinOp)
				if !ok {
					continue
				}
				op := bo.Op
				lenLeft := mentionsLen(bo.X, id)
				lenRight := mentionsLen(bo.Y, id)
				if lenLeft == lenRight {
					continue
				}
				if lenRight {
					op = mirrorOp(op)
				}
				// normalised: len(buf) op E
				var safeOnTrue bool
				switch op {
				case token.GTR, token.GEQ:
					safeOnTrue = true
				case token.LSS, token.LEQ:
					safeOnTrue = false
				default:
					continue
				}
				if neg {
					safeOnTrue = !safeOnTrue
				}
				s := b.Succs[1]
				if safeOnTrue {
					s = b.Succs[0]
				}
				if len(s.Preds) == 1 {
					out = append(out, s)
				}
			}
			return out
		}
		n := 0
		for _, b := range fn.Blocks {
			for _, in := range b.Instrs {
				var x ssa.Value
				what := ""
				switch a := in.(type) {
				case *ssa.Slice:
					if a.Low == nil && a.High == nil {
						continue
					}
					x, what = a.X, "re-slice"
				case *ssa.IndexAddr:
					x, what = a.X, "index"
				default:
					continue
				}
				id := bufID(x)
				if id == nil {
					continue
				}
				n++
				ok := false
				for _, s := range inBounds(id) {
					if s.Dominates(b) {
						ok = true
					}
				}
				c.Check(ok, "R42.3", spec+":"+what+"(input)<=len test", c.Pos(in.Pos()), "every "+what+" of the input buffer is dominated by the in-bounds edge of a comparison against its len()")
			}
		}
		if n == 0 {
			c.Unk("R42.3", spec+":input accesses", c.Pos(fn.Pos()), "the rule no longer sees any access to the input buffer here")
		}
	}
	// untrusted reference ids
	{
		fetch := c.Fn(P + ".lruTable.fetch")
		fBuckets := c.Field(P + ".lruTable.buckets")
		fNum := c.Field(P + ".lruTable.numBuckets")
		eff := Instrs(fetch, func(in ssa.Instruction) bool {
			ia, ok := in.(*ssa.IndexAddr)
			return ok && iMentionsFieldOrigin(fBuckets)(ia.X)
		})
		c.MustGuard(MustGuardSpec{Rule: "R42.3", Fn: fetch, Effects: eff, EffName: "index(t.buckets)", Guards: []Guard{GCmp("b < numBuckets", token.LSS, AnyV, iMentionsFieldOrigin(fNum))}})
		byRef := c.Fn(P + ".propWindow.byRef")
		fEntries := c.Field(P + ".propWindow.entries")
		fSize := c.Field(P + ".propWindow.size")
		eff = Instrs(byRef, func(in ssa.Instruction) bool {
			ia, ok := in.(*ssa.IndexAddr)
			return ok && Mentions(ia.X, fEntries, 3)
		})
		if len(byRef.Params) == 2 {
			idx := IsV(byRef.Params[1])
			c.MustGuard(MustGuardSpec{Rule: "R42.3", Fn: byRef, Effects: eff, EffName: "index(w.entries)", Guards: []Guard{
				GCmp("idx >= 1", token.GEQ, idx, IsConstInt(1)),
				GCmp("idx <= w.size", token.LEQ, idx, M(fSize)),
			}})
		}
	}
	// a failed fetch/byRef is an error, never a zero value silently used
	{
		decompress := c.Fn(P + ".StatefulDecoder.Decompress")
		var succ []ssa.Instruction
		idx := errResultIndex(decompress)
		for _, r := range iReturns(decompress) {
			if IsNil(r.Results[idx]) {
				succ = append(succ, r)
			}
		}
		for _, f := range []*types.Func{c.Func(P + ".lruTable.fetch"), c.Func(P + ".propWindow.byRef")} {
			for _, ci := range CallsTo(decompress, false, f) {
				call := ci.(*ssa.Call)
				g := GBool("ok", func(v ssa.Value) bool {
					e, ok := v.(*ssa.Extract)
					return ok && e.Tuple == ssa.Value(call) && e.Index == 1
				}, true)
				pass, m := PassEdges(decompress, g)
				label := "network/vpack.StatefulDecoder.Decompress:" + f.Name() + "(" + describeRecv(call) + ") ok checked"
				if m == 0 {
					c.Bad("R42.4", label, c.Pos(call.Pos()), "the ok result of this reference lookup is never tested: a bad reference would silently decode to a zero value")
					continue
				}
				after := iReachableAfter(call, pass, nil)
				ok := true
				for _, s := range succ {
					if after.Reaches(s) {
						ok = false
					}
				}
				c.Check(ok, "R42.4", label, c.Pos(call.Pos()), "after this lookup a success return is reachable only through ok == true")
			}
		}
	}
}

// describeRecv names the table field a lookup is applied to.
func describeRecv(call *ssa.Call) string {
	name := "?"
	walkDef(call.Common().Args[0], 4, func(x ssa.Value) bool {
		if fa, ok := x.(*ssa.FieldAddr); ok {
			if f := structField(fa.X.Type(), fa.Field); f != nil && name == "?" {
				name = f.Name()
			}
		}
		return true
	})
	return name
}
