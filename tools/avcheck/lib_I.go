package main

// Helpers shared by the rule files of contributor I (C42, C43, C46, C47).
// Every name is prefixed with "i" to avoid collisions with other contributors.

import (
	"fmt"
	"go/constant"
	"go/token"
	"go/types"
	"os"
	"sort"

	"golang.org/x/tools/go/ssa"
)

// iRefs returns the referrers of v that are real uses (DebugRefs dropped).
func iRefs(v ssa.Value) []ssa.Instruction {
	rs := v.Referrers()
	if rs == nil {
		return nil
	}
	var out []ssa.Instruction
	for _, r := range *rs {
		if _, ok := r.(*ssa.DebugRef); ok {
			continue
		}
		out = append(out, r)
	}
	return out
}

// iIsZeroValue reports whether v is certainly the zero value of its type: a
// nil / zero constant (including the zero constant of an aggregate type), or
// a load of a local that is never stored to.
func iIsZeroValue(v ssa.Value) bool {
	switch x := v.(type) {
	case *ssa.Const:
		if x.Value == nil {
			return true // nil, or zero value of an aggregate
		}
		switch x.Value.Kind() {
		case constant.Bool:
			return !constant.BoolVal(x.Value)
		case constant.String:
			return constant.StringVal(x.Value) == ""
		case constant.Int, constant.Float, constant.Complex:
			return constant.Sign(constant.Real(x.Value)) == 0 && constant.Sign(constant.Imag(x.Value)) == 0
		}
		return false
	case *ssa.UnOp:
		if x.Op != token.MUL {
			return false
		}
		a, ok := x.X.(*ssa.Alloc)
		if !ok {
			return false
		}
		for _, r := range iRefs(a) {
			if r == ssa.Instruction(x) {
				continue
			}
			if u, ok := r.(*ssa.UnOp); ok && u.Op == token.MUL {
				continue // another load
			}
			return false // stored to, address taken, field written …
		}
		return true
	case *ssa.MakeInterface:
		return false
	}
	return false
}

// iStub classifies the body of fn structurally.
//
//	"panic": the function never returns: every exit is a panic, it performs no
//	         call and uses neither its receiver nor any argument;
//	"zero":  it performs no call, reads no global, uses neither its receiver
//	         nor any argument, and every return yields only zero values / nil;
//	"":      anything else (a real implementation).
func iStub(fn *ssa.Function) string {
	if fn == nil || fn.Blocks == nil {
		return ""
	}
	for _, p := range fn.Params {
		if len(iRefs(p)) > 0 {
			return ""
		}
	}
	if len(fn.FreeVars) > 0 {
		return ""
	}
	nRet, nPanic := 0, 0
	for _, b := range fn.Blocks {
		for _, in := range b.Instrs {
			switch x := in.(type) {
			case ssa.CallInstruction:
				return ""
			case *ssa.MakeClosure, *ssa.Send, *ssa.Select, *ssa.MapUpdate, *ssa.Go, *ssa.Defer, *ssa.RunDefers:
				return ""
			case *ssa.UnOp:
				if x.Op == token.MUL {
					if _, isGlobal := x.X.(*ssa.Global); isGlobal {
						return ""
					}
				}
				if x.Op == token.ARROW {
					return ""
				}
			case *ssa.Store:
				if _, local := x.Addr.(*ssa.Alloc); !local {
					return ""
				}
			case *ssa.Return:
				nRet++
				for _, r := range x.Results {
					if !iIsZeroValue(r) {
						return ""
					}
				}
			case *ssa.Panic:
				nPanic++
			}
		}
	}
	switch {
	case nRet == 0 && nPanic > 0:
		return "panic"
	case nRet > 0 && nPanic == 0:
		return "zero"
	}
	return ""
}

// iNamedTypes returns the non-generic, non-interface named types declared at
// package level in the given type-checked package, in name order.
func iNamedTypes(pkg *types.Package) []*types.Named {
	var out []*types.Named
	names := pkg.Scope().Names()
	sort.Strings(names)
	for _, n := range names {
		tn, ok := pkg.Scope().Lookup(n).(*types.TypeName)
		if !ok || tn.IsAlias() {
			continue
		}
		nt, ok := tn.Type().(*types.Named)
		if !ok || nt.TypeParams().Len() > 0 {
			continue
		}
		out = append(out, nt)
	}
	return out
}

// iConcreteMethod resolves method name on *T to the declared function that
// runs; promoted==true when the method set entry comes from an embedded
// interface-typed field (the code that runs is then chosen at run time).
func iConcreteMethod(nt *types.Named, name string) (f *types.Func, throughInterface bool) {
	obj, _, _ := types.LookupFieldOrMethod(types.NewPointer(nt), true, nt.Obj().Pkg(), name)
	fn, ok := obj.(*types.Func)
	if !ok {
		return nil, false
	}
	sig := fn.Type().(*types.Signature)
	if sig.Recv() != nil {
		if _, isIface := sig.Recv().Type().Underlying().(*types.Interface); isIface {
			return fn, true
		}
	}
	return fn.Origin(), false
}

// iImplements reports whether T or *T implements iface.
func iImplements(nt *types.Named, iface *types.Interface) bool {
	return types.Implements(nt, iface) || types.Implements(types.NewPointer(nt), iface)
}

// iBlockEndsInIf returns the If terminating b, if any.
func iBlockIf(b *ssa.BasicBlock) *ssa.If {
	if len(b.Instrs) == 0 {
		return nil
	}
	iff, _ := b.Instrs[len(b.Instrs)-1].(*ssa.If)
	return iff
}

// iReturns lists the Return instructions of fn.
func iReturns(fn *ssa.Function) []*ssa.Return {
	var out []*ssa.Return
	for _, b := range fn.Blocks {
		if len(b.Instrs) == 0 || b == fn.Recover {
			continue // the recover block only re-returns the named results after a recovered panic
		}
		if r, ok := b.Instrs[len(b.Instrs)-1].(*ssa.Return); ok {
			out = append(out, r)
		}
	}
	return out
}

// iSortedKeys returns the keys of a string-keyed map in order.
func iSortedKeys[V any](m map[string]V) []string {
	out := make([]string, 0, len(m))
	for k := range m {
		out = append(out, k)
	}
	sort.Strings(out)
	return out
}

// iDumpObs prints every obligation recorded so far when AVCHECK_DUMP_OBS is
// set (debug aid for rule authors; the evidence file keeps samples only).
func iDumpObs(c *Ctx) {
	if os.Getenv("AVCHECK_DUMP_OBS") == "" {
		return
	}
	for _, o := range c.obs {
		fmt.Fprintf(os.Stderr, "OBS %s %s@%s | %s\n", o.Verdict, o.Rule, o.Construct, o.Detail)
	}
}

// iAfter answers "is instruction x reachable on some path that starts just
// after instruction start", when the cut edges may not be traversed and
// execution ends at stop instructions (a stop instruction itself counts as
// reached) and at calls that never return.
type iAfter struct {
	start    ssa.Instruction
	full     map[*ssa.BasicBlock]int // block entered from its top -> index of first stop instr (or len)
	tailStop int                     // in start's block: index of first stop instr after start (or len)
	startIdx int
}

func iIndexIn(b *ssa.BasicBlock, in ssa.Instruction) int {
	for i, x := range b.Instrs {
		if x == in {
			return i
		}
	}
	return -1
}

func iReachableAfter(start ssa.Instruction, cut []Edge, stop func(ssa.Instruction) bool) *iAfter {
	r := &iAfter{start: start, full: map[*ssa.BasicBlock]int{}}
	cutSet := map[Edge]bool{}
	for _, e := range cut {
		cutSet[e] = true
	}
	b0 := start.Block()
	r.startIdx = iIndexIn(b0, start)
	scan := func(b *ssa.BasicBlock, from int) (stopAt int, stopped bool) {
		for i := from; i < len(b.Instrs); i++ {
			if noReturnCall(b.Instrs[i]) || (stop != nil && stop(b.Instrs[i])) {
				return i, true
			}
		}
		return len(b.Instrs), false
	}
	var work []*ssa.BasicBlock
	push := func(b *ssa.BasicBlock) {
		for i, s := range b.Succs {
			if cutSet[Edge{b, i}] {
				continue
			}
			if _, seen := r.full[s]; !seen {
				r.full[s] = -1
				work = append(work, s)
			}
		}
	}
	at, stopped := scan(b0, r.startIdx+1)
	r.tailStop = at
	if !stopped {
		push(b0)
	}
	for len(work) > 0 {
		b := work[0]
		work = work[1:]
		at, stopped := scan(b, 0)
		r.full[b] = at
		if !stopped {
			push(b)
		}
	}
	return r
}

// Reaches reports whether x may execute after start.
func (r *iAfter) Reaches(x ssa.Instruction) bool {
	b := x.Block()
	i := iIndexIn(b, x)
	if i < 0 {
		return false
	}
	if at, ok := r.full[b]; ok && i <= at {
		return true
	}
	if b == r.start.Block() && i > r.startIdx && i <= r.tailStop {
		return true
	}
	return false
}

// iCalleeIs reports whether the call resolves to the function pkgPath.name
// (for functions outside the module, e.g. io.ReadFull) — resolution is by the
// callee's types.Func, not by source text.
func iCalleeIs(cc *ssa.CallCommon, pkgPath, name string) bool {
	f := calleeOf(cc)
	return f != nil && f.Pkg() != nil && f.Pkg().Path() == pkgPath && f.Name() == name && f.Type().(*types.Signature).Recv() == nil
}

// iLoadsGlobal matches a load of the package-level variable pkgPath.name.
func iLoadsGlobal(v ssa.Value, pkgPath, name string) bool {
	u, ok := strip(v).(*ssa.UnOp)
	if !ok || u.Op != token.MUL {
		return false
	}
	g, ok := u.X.(*ssa.Global)
	return ok && g.Pkg != nil && g.Pkg.Pkg.Path() == pkgPath && g.Name() == name
}

// iConstU64 returns the value of an integer constant SSA value.
func iConstU64(v ssa.Value) (uint64, bool) {
	k, ok := strip(v).(*ssa.Const)
	if !ok || k.Value == nil || k.Value.Kind() != constant.Int {
		return 0, false
	}
	return constant.Uint64Val(k.Value)
}

// iWalk is walkDef extended over local memory: when the walk reaches a local
// Alloc (directly, through a slice of it, or through a load) it continues
// into every value stored into that local or into one of its elements/fields
// (flow-insensitively). This follows values through `var a [32]byte; a = f();
// use(a[:])` and through the implicit arrays of variadic calls.
func iWalk(v ssa.Value, depth int, visit func(ssa.Value) bool) {
	seen := map[ssa.Value]bool{}
	var rec func(v ssa.Value, d int)
	storesInto := func(addr ssa.Value, d int) {
		for _, r := range iRefs(addr) {
			if st, ok := r.(*ssa.Store); ok && st.Addr == addr {
				rec(st.Val, d-1)
			}
		}
	}
	rec = func(v ssa.Value, d int) {
		if v == nil || seen[v] || d < 0 {
			return
		}
		seen[v] = true
		if !visit(v) {
			return
		}
		switch x := v.(type) {
		case *ssa.Alloc:
			storesInto(x, d)
			for _, r := range iRefs(x) {
				switch a := r.(type) {
				case *ssa.IndexAddr:
					if a.X == ssa.Value(x) {
						storesInto(a, d)
					}
				case *ssa.FieldAddr:
					if a.X == ssa.Value(x) {
						storesInto(a, d)
					}
				}
			}
		case *ssa.Call:
			for _, a := range callArgs(x.Common()) {
				rec(a, d-1)
			}
			if !x.Common().IsInvoke() {
				rec(x.Common().Value, d-1)
			}
		default:
			if in, ok := v.(ssa.Instruction); ok {
				for _, op := range in.Operands(nil) {
					if *op != nil {
						rec(*op, d-1)
					}
				}
			}
		}
	}
	rec(v, depth)
}

// iMentions is Mentions over iWalk.
func iMentions(v ssa.Value, obj types.Object, depth int) bool {
	found := false
	iWalk(v, depth, func(x ssa.Value) bool {
		if found {
			return false
		}
		if valueIs(x, obj) {
			found = true
			return false
		}
		return true
	})
	return found
}

// iMentionsFieldOrigin is Mentions for a field of a generic type: inside a
// method of a generic type the receiver is an instantiation whose fields are
// substituted copies, so fields are compared by Origin().
func iMentionsFieldOrigin(f *types.Var) VM {
	return func(v ssa.Value) bool {
		found := false
		walkDef(v, 6, func(x ssa.Value) bool {
			var g *types.Var
			switch y := x.(type) {
			case *ssa.FieldAddr:
				g = structField(y.X.Type(), y.Field)
			case *ssa.Field:
				g = structField(y.X.Type(), y.Field)
			}
			if g != nil && g.Origin() == f.Origin() {
				found = true
			}
			return !found
		})
		return found
	}
}
