package main

import (
	"go/token"
	"go/types"

	"golang.org/x/tools/go/ssa"
)

// R10.6: the layers of a listing agree on what a zero limit means.
//
// Found by an independent audit of C10 on the pinned tree (a genuine defect,
// repaired by a "fix:" commit, see known_findings.json and DESIGN §7): the REST
// handler and both database drivers treat limit==0 as "no count limit", while
// accountUpdates.LookupKvPairsByPrefix, which sits between them and forwards
// the very same value, answered limit==0 with an empty page and no next token —
// a box listing that returns none of the boxes.
//
// The rule is the contradiction template (Engler et al.): a function that
// forwards a uint64 parameter unchanged to a callee must hold the same belief
// about the value 0 as that callee. Beliefs are read off the code:
//   empty     — the P==0 side of a comparison of P with 0 leads straight to a
//               success return (nil error) without further work;
//   unlimited — the P==0 side of such a comparison continues with the work
//               (the `limit > 0 && n >= limit` idiom);
//   none      — P is never compared with 0 (the belief is then inherited from
//               the callees it is forwarded to).
func init() {
	extend("C10", Extension{
		Run:         ruleZeroLimitAgreement,
		Explanation: "R10.6 (every layer of a listing gives limit==0 the same meaning): for each function of package ledger that forwards one of its uint64 parameters unchanged to a callee (through the trackerdb reader interfaces to every driver implementation), the function's belief about the value 0 — 'empty page' when the P==0 side of a comparison with 0 returns success at once, 'no limit' when that side carries on with the work — equals the callee's (transitively, through callees that only forward). A middle layer that answers 0 with an empty page while the handler above and the drivers below read 0 as 'unlimited' returns a box listing with no boxes and no next token.",
		Floor:       map[string]int{"R10.6": 4},
		Patterns:    []string{"./ledger/store/trackerdb/sqlitedriver", "./ledger/store/trackerdb/generickv"},
	})
}

type zeroBelief int

const (
	beliefNone zeroBelief = iota
	beliefEmpty
	beliefUnlimited
	beliefMixed
)

func (b zeroBelief) String() string {
	return [...]string{"none", "0 = empty page", "0 = no limit", "both"}[b]
}

// ownBelief reads the belief of fn about its parameter p from its comparisons of p with 0.
func ownBelief(fn *ssa.Function, p *ssa.Parameter) zeroBelief {
	res := beliefNone
	same := valuesOfParam(fn, p)
	if same == nil {
		return beliefNone
	}
	var blocks []*ssa.BasicBlock
	for _, f := range withAnon(fn) {
		blocks = append(blocks, f.Blocks...)
	}
	for _, b := range blocks {
		iff, ok := b.Instrs[len(b.Instrs)-1].(*ssa.If)
		if !ok {
			continue
		}
		bo, ok := iff.Cond.(*ssa.BinOp)
		if !ok {
			continue
		}
		op := bo.Op
		var other ssa.Value
		switch {
		case same[strip(bo.X)]:
			other = bo.Y
		case same[strip(bo.Y)]:
			other = bo.X
			op = mirrorOp(op)
		default:
			continue
		}
		if !IsConstInt(0)(other) {
			continue
		}
		zero := -1
		switch op {
		case token.EQL, token.LEQ:
			zero = 0
		case token.NEQ, token.GTR:
			zero = 1
		default:
			continue
		}
		t := b.Succs[zero]
		for len(t.Instrs) == 1 && len(t.Succs) == 1 { // skip empty jump blocks
			t = t.Succs[0]
		}
		this := beliefUnlimited
		if ret, ok := t.Instrs[len(t.Instrs)-1].(*ssa.Return); ok && b.Parent() == fn && len(t.Preds) == 1 && len(ret.Results) > 0 {
			last := ret.Results[len(ret.Results)-1]
			// with a deferred call the results are spilled to locals and re-loaded
			if k, isK := strip(resolveLocal(strip(last), ret)).(*ssa.Const); isK && k.IsNil() && isErrorType(last.Type()) {
				this = beliefEmpty
			}
		}
		switch {
		case res == beliefNone:
			res = this
		case res != this:
			res = beliefMixed
		}
	}
	return res
}

type forwardEdge struct {
	call   ssa.CallInstruction
	callee *ssa.Function
	param  *ssa.Parameter
}

// forwards lists the callees (with bodies, inside the module) that receive p unchanged.
func (c *Ctx) forwards(fn *ssa.Function, p *ssa.Parameter) []forwardEdge {
	var out []forwardEdge
	same := valuesOfParam(fn, p)
	if same == nil {
		return nil
	}
	for _, f := range withAnon(fn) {
		for _, b := range f.Blocks {
			for _, in := range b.Instrs {
				call, ok := in.(ssa.CallInstruction)
				if !ok {
					continue
				}
				cc := call.Common()
				for i, a := range cc.Args {
					if !same[strip(a)] {
						continue
					}
					var targets []*ssa.Function
					if cc.IsInvoke() {
						targets = c.implementations(cc.Value.Type(), cc.Method)
					} else if sc := cc.StaticCallee(); sc != nil {
						targets = []*ssa.Function{sc}
					}
					for _, t := range targets {
						if t == nil || len(t.Blocks) == 0 || t.Pkg == nil || !inModule(t.Pkg.Pkg.Path()) {
							continue
						}
						idx := i
						if cc.IsInvoke() {
							idx = i + 1 // receiver is Params[0] of the implementation
						}
						if idx < len(t.Params) {
							out = append(out, forwardEdge{call, t, t.Params[idx]})
						}
					}
				}
			}
		}
	}
	return out
}

// valuesOfParam: the SSA values that are the parameter p itself — p, the free
// variables it is captured by, and loads of the cell it is spilled to when a
// closure captures it by reference (only if nothing else is ever stored there).
func valuesOfParam(fn *ssa.Function, p *ssa.Parameter) map[ssa.Value]bool {
	same := map[ssa.Value]bool{p: true}
	// a parameter captured by reference is spilled to a cell that only ever holds p
	ptr := map[ssa.Value]bool{}
	for _, r := range *p.Referrers() {
		if st, ok := r.(*ssa.Store); ok && st.Val == ssa.Value(p) {
			if al, ok := st.Addr.(*ssa.Alloc); ok {
				only := true
				for _, r2 := range *al.Referrers() {
					if st2, ok := r2.(*ssa.Store); ok && st2.Addr == ssa.Value(al) && st2.Val != ssa.Value(p) {
						only = false
					}
				}
				if only {
					ptr[al] = true
				}
			}
		}
	}
	for _, f := range withAnon(fn) {
		for _, b := range f.Blocks {
			for _, in := range b.Instrs {
				if mc, ok := in.(*ssa.MakeClosure); ok {
					if cf, ok := mc.Fn.(*ssa.Function); ok {
						for i, bv := range mc.Bindings {
							if i >= len(cf.FreeVars) {
								continue
							}
							if same[strip(bv)] {
								same[cf.FreeVars[i]] = true
							}
							if ptr[bv] {
								ptr[cf.FreeVars[i]] = true
							}
						}
					}
				}
			}
		}
	}
	// the cell is written nowhere else (closures included): its loads are p
	for cell := range ptr {
		for _, f := range withAnon(fn) {
			for _, b := range f.Blocks {
				for _, in := range b.Instrs {
					if st, ok := in.(*ssa.Store); ok && st.Addr == cell && st.Val != ssa.Value(p) {
						return nil
					}
				}
			}
		}
	}
	for _, f := range withAnon(fn) {
		for _, b := range f.Blocks {
			for _, in := range b.Instrs {
				if ld, ok := in.(*ssa.UnOp); ok && ld.Op == token.MUL && ptr[ld.X] {
					same[ld] = true
				}
			}
		}
	}
	return same
}

func inModule(path string) bool {
	return path == Mod || (len(path) > len(Mod) && path[:len(Mod)+1] == Mod+"/")
}

func (c *Ctx) effectiveBelief(fn *ssa.Function, p *ssa.Parameter, depth int) (zeroBelief, string) {
	if b := ownBelief(fn, p); b != beliefNone {
		return b, fnName(fn)
	}
	if depth == 0 {
		return beliefNone, ""
	}
	for _, e := range c.forwards(fn, p) {
		if b, where := c.effectiveBelief(e.callee, e.param, depth-1); b != beliefNone {
			return b, where
		}
	}
	return beliefNone, ""
}

func ruleZeroLimitAgreement(c *Ctx) {
	const rule = "R10.6"
	n := 0
	for _, fn := range c.funcsOf(Mod + "/ledger") {
		for _, p := range fn.Params {
			bt, ok := p.Type().Underlying().(*types.Basic)
			if !ok || bt.Kind() != types.Uint64 {
				continue
			}
			if _, named := p.Type().(*types.Named); named {
				continue // rounds, indexes: 0 is an ordinary value there
			}
			own := ownBelief(fn, p)
			if own == beliefNone {
				continue
			}
			if own == beliefMixed {
				n++
				c.Bad(rule, fnName(fn)+":"+p.Name()+"==0", c.Pos(fn.Pos()), "the function itself treats "+p.Name()+"==0 both as 'empty page' and as 'no limit'")
				continue
			}
			for _, e := range c.forwards(fn, p) {
				cb, where := c.effectiveBelief(e.callee, e.param, 3)
				if cb == beliefNone {
					continue
				}
				n++
				c.Check(cb == own, rule, fnName(fn)+":"+p.Name()+"==0 means the same in "+fnName(e.callee), c.Pos(e.call.Pos()),
					fnName(fn)+" reads "+p.Name()+" as '"+own.String()+"' and forwards it unchanged to "+fnName(e.callee)+", where ("+where+") it is read as '"+cb.String()+"'")
			}
		}
	}
	if n == 0 {
		c.Unk(rule, "ledger:forwarded limits", "-", "no function of package ledger both compares a uint64 parameter with 0 and forwards it to a callee that does: the rule no longer sees the listing chain")
	}
}
