package main

import (
	"go/token"
	"go/types"

	"golang.org/x/tools/go/ssa"
)

func init() {
	register(&Prop{
		ID:       "C04",
		Patterns: []string{"./agreement", "./data/committee"},
		Run:      runC04,
		Explanation: "Decides, as must-pass guards on every accepting path, the rejection checks of the bundle/certificate verifier chain. " +
			"R04.1 Certificate.Authenticate returns a possibly-nil error only past c.Step==cert and claimsToAuthenticate(e)==nil, and that error is the one returned by unauthenticatedBundle(c).verify. " +
			"R04.2 claimsToAuthenticate succeeds only past c.Round==e.Round() and c.Proposal.BlockDigest==e.Digest(). " +
			"R04.3 unauthenticatedBundle.verify returns the result of the future built by verifyAsync on the same bundle. " +
			"R04.4 verifyAsync hands out the accepting future only past b.Step!=propose, ConsensusParams err==nil, len(Votes)<=threshold, len(EquivocationVotes)<=threshold and their sum<=threshold for b.Step; a sender already seen in either list never reaches the accepting future and is recorded in one shared set (both loops); every vote / equivocation pair submitted to the AsyncVoteVerifier takes Round/Period/Step/Proposal from b and Sender/Cred/Sig(s)/Proposals from one and the same list element, and answers arrive on the channel the accepting future reads. " +
			"R04.5 the accepting future adds a response's weight only past res.err==nil of that same response, returns bundle{U:b}, nil only past b.Step.reachesQuorum(proto, weight) where weight is built from 0 by exactly those additions. " +
			"R04.6 unauthenticatedVote.verify accepts only past: membership(sender,round,period,step of the vote) err==nil; Proposal!=bottom whenever Step is propose, soft or cert; ConsensusParams err==nil; Round>=VoteFirstValid; Round<=VoteLastValid unless VoteLastValid==0; VoteID.Verify(id, uv.R, uv.Sig)==true; uv.Cred.Verify(proto, m) err==nil; and returns vote{R:uv.R, Cred:<that verified credential>, Sig:uv.Sig}. " +
			"R04.7 unauthenticatedEquivocationVote.verify accepts only past Proposals[0]!=Proposals[1] and err==nil of two unauthenticatedVote.verify calls on votes built from the pair's Sender/Round/Period/Step/Cred with (Proposals[i],Sigs[i]) for i=0 and i=1, and returns the pair's own fields with the verified credential. " +
			"R04.8 an asyncVerifyVoteResponse carries v (ev) and err of one and the same verify call, and is built only by the two execute functions. " +
			"R04.9 committee.UnauthenticatedCredential.Verify stores a Credential only past the VRF proof check and weight!=0. " +
			"Does NOT decide: threshold arithmetic, cryptographic validity, that the AsyncVoteVerifier delivers every answer, nor the propose-step proposer checks.",
		Assumptions: []string{"closures capture by reference exactly the variables go/ssa reports as bindings", "logging Panicf does not return"},
		Floor:       map[string]int{"R04.1": 3, "R04.2": 2, "R04.3": 1, "R04.4": 13, "R04.5": 5, "R04.6": 10, "R04.7": 7, "R04.8": 4, "R04.9": 2},
	})
}

// aLitFields returns the values stored field-wise into the local base.
func aLitFields(base ssa.Value) map[*types.Var][]ssa.Value {
	out := map[*types.Var][]ssa.Value{}
	refs := base.Referrers()
	if refs == nil {
		return out
	}
	for _, r := range *refs {
		fa, ok := r.(*ssa.FieldAddr)
		if !ok || fa.X != base {
			continue
		}
		f := structField(fa.X.Type(), fa.Field)
		for _, rr := range *fa.Referrers() {
			if st, ok := rr.(*ssa.Store); ok && st.Addr == ssa.Value(fa) {
				out[f] = append(out[f], st.Val)
			}
		}
	}
	return out
}

// aElem recognises a load of base[const]: returns base's access path and index.
func aElem(v ssa.Value) (aPath, int64, bool) {
	u, ok := v.(*ssa.UnOp)
	if !ok || u.Op != token.MUL {
		return aPath{}, 0, false
	}
	ia, ok := u.X.(*ssa.IndexAddr)
	if !ok {
		return aPath{}, 0, false
	}
	k, isK := aConstOf(ia.Index)
	if !isK {
		return aPath{}, 0, false
	}
	return aRootPath(ia.X), k, true
}

// aRangeElem recognises v = (element of slice at path sl).<fields…>; returns
// the IndexAddr identifying the element.
func aRangeElem(v ssa.Value, sl aPath, fields ...*types.Var) (*ssa.IndexAddr, bool) {
	p := aRootPath(v)
	ia, ok := p.Root.(*ssa.IndexAddr)
	if !ok || !aRootPath(ia.X).eq(sl) || len(p.Fields) != len(fields) {
		return nil, false
	}
	for i := range fields {
		if p.Fields[i] != fields[i] {
			return nil, false
		}
	}
	return ia, true
}

func aOne(vs []ssa.Value) ssa.Value {
	if len(vs) == 1 {
		return vs[0]
	}
	return nil
}

func runC04(c *Ctx) {
	defer aDebug(c)
	fB := func(n string) *types.Var { return c.Field("agreement.unauthenticatedBundle." + n) }
	kCert := c.Const("agreement.cert")
	kPropose := c.Const("agreement.propose")
	kSoft := c.Const("agreement.soft")
	verifyBundleF := c.Func("agreement.unauthenticatedBundle.verify")
	verifyAsyncF := c.Func("agreement.unauthenticatedBundle.verifyAsync")
	voteVerifyF := c.Func("agreement.unauthenticatedVote.verify")
	eqVerifyF := c.Func("agreement.unauthenticatedEquivocationVote.verify")

	// ---- R04.1 Certificate.Authenticate ----
	{
		fn := c.Fn("agreement.Certificate.Authenticate")
		recv := aPath{Root: fn.Params[0]}
		succ := aSuccessReturns(fn)
		claims := c.Func("agreement.Certificate.claimsToAuthenticate")
		isClaims := func(v ssa.Value) bool {
			call, ok := v.(*ssa.Call)
			if !ok || !sameFunc(calleeOf(call.Common()), claims) {
				return false
			}
			a := call.Common().Args
			return len(a) == 2 && aRootPath(a[0]).eq(recv) && a[1] == ssa.Value(fn.Params[1])
		}
		c.MustGuard(MustGuardSpec{Rule: "R04.1", Fn: fn, Effects: succ, EffName: "return(err may be nil)", Guards: []Guard{
			GCmp("c.Step==cert", token.EQL, aIsPath(recv.with(fB("Step"))), aConst(kCert)),
			GErrNil("c.claimsToAuthenticate(e)==nil", isClaims),
		}})
		ok := len(succ) > 0
		idx := errResultIndex(fn)
		for _, r := range succ {
			call, isRes := asResultOf(resolveLocal(r.(*ssa.Return).Results[idx], r), 1, verifyBundleF)
			if !isRes || len(call.Common().Args) != 4 || !aRootPath(call.Common().Args[0]).eq(recv) || call.Common().Args[2] != ssa.Value(fn.Params[2]) {
				ok = false
			}
		}
		c.Check(ok, "R04.1", "agreement.Certificate.Authenticate:success=>error of unauthenticatedBundle(c).verify", c.Pos(fn.Pos()), "the only possibly-nil error returned is the verification result of the certificate's own bundle against the caller's ledger")
	}

	// ---- R04.2 claimsToAuthenticate ----
	{
		fn := c.Fn("agreement.Certificate.claimsToAuthenticate")
		recv := aPath{Root: fn.Params[0]}
		e := fn.Params[1]
		succ := aSuccessReturns(fn)
		c.MustGuard(MustGuardSpec{Rule: "R04.2", Fn: fn, Effects: succ, EffName: "return(nil)", Guards: []Guard{
			GCmp("c.Round==e.Round()", token.EQL, aIsPath(recv.with(fB("Round"))), aCallOn(IsV(e), c.Func("data/bookkeeping.Block.Round"))),
			GCmp("c.Proposal.BlockDigest==e.Digest()", token.EQL, aIsPath(recv.with(fB("Proposal"), c.Field("agreement.proposalValue.BlockDigest"))), aCallOn(IsV(e), c.Func("data/bookkeeping.Block.Digest"))),
		}})
	}

	// ---- R04.3 verify = verifyAsync()() ----
	{
		fn := c.Fn("agreement.unauthenticatedBundle.verify")
		ok, n := true, 0
		for _, r := range aReturns(fn) {
			n++
			for i, res := range r.Results {
				ex, isEx := res.(*ssa.Extract)
				if !isEx || ex.Index != i {
					ok = false
					continue
				}
				call, isCall := ex.Tuple.(*ssa.Call)
				if !isCall {
					ok = false
					continue
				}
				inner, isInner := call.Common().Value.(*ssa.Call)
				if !isInner || !sameFunc(calleeOf(inner.Common()), verifyAsyncF) {
					ok = false
					continue
				}
				a := inner.Common().Args
				if len(a) != 4 || a[0] != ssa.Value(fn.Params[0]) || a[2] != ssa.Value(fn.Params[2]) || a[3] != ssa.Value(fn.Params[3]) {
					ok = false
				}
			}
		}
		c.Check(ok && n > 0, "R04.3", "agreement.unauthenticatedBundle.verify:returns(b.verifyAsync(ctx,l,avv)())", c.Pos(fn.Pos()), "the synchronous verifier is the asynchronous one, on the same bundle, ledger and vote verifier")
	}

	// ---- R04.4 / R04.5 verifyAsync ----
	aVerifyAsync(c)

	// ---- R04.6 unauthenticatedVote.verify ----
	{
		fn := c.Fn("agreement.unauthenticatedVote.verify")
		uv := aPath{Root: fn.Params[0]}
		fUR := c.Field("agreement.unauthenticatedVote.R")
		fUCred := c.Field("agreement.unauthenticatedVote.Cred")
		fUSig := c.Field("agreement.unauthenticatedVote.Sig")
		rv := func(n string) aPath { return uv.with(fUR, c.Field("agreement.rawVote."+n)) }
		succ := aSuccessReturns(fn)
		membershipF := c.Func("agreement.membership")
		var memCall *ssa.Call
		for _, ci := range CallsTo(fn, false, membershipF) {
			if call, ok := ci.(*ssa.Call); ok {
				a := call.Common().Args
				if len(a) == 5 && a[0] == ssa.Value(fn.Params[1]) && aRootPath(a[1]).eq(rv("Sender")) && aRootPath(a[2]).eq(rv("Round")) && aRootPath(a[3]).eq(rv("Period")) && aRootPath(a[4]).eq(rv("Step")) {
					memCall = call
				}
			}
		}
		if memCall == nil {
			c.Bad("R04.6", "agreement.unauthenticatedVote.verify:membership(l, rv.Sender, rv.Round, rv.Period, rv.Step)", c.Pos(fn.Pos()), "no membership lookup for the vote's own sender, round, period and step")
			return
		}
		isExtract := func(call *ssa.Call, i int) VM {
			return func(v ssa.Value) bool {
				e, ok := v.(*ssa.Extract)
				return ok && e.Tuple == ssa.Value(call) && e.Index == i
			}
		}
		mPath := func(v ssa.Value) aPath { return aRootPath(v) }
		isM := func(v ssa.Value, fields ...*types.Var) bool {
			p := mPath(v)
			if !isExtract(memCall, 0)(p.Root) || len(p.Fields) < len(fields) {
				return false
			}
			off := len(p.Fields) - len(fields)
			for i, f := range fields {
				if p.Fields[off+i] != f {
					return false
				}
			}
			return true
		}
		fFirst := c.Field("data/basics.VotingData.VoteFirstValid")
		fLast := c.Field("data/basics.VotingData.VoteLastValid")
		fVoteID := c.Field("data/basics.VotingData.VoteID")
		consParams := c.Func("agreement.LedgerReader.ConsensusParams")
		otsVerify := c.Func("crypto.OneTimeSignatureVerifier.Verify")
		credVerify := c.Func("data/committee.UnauthenticatedCredential.Verify")
		var credCall *ssa.Call
		for _, ci := range CallsTo(fn, false, credVerify) {
			if call, ok := ci.(*ssa.Call); ok {
				a := call.Common().Args
				if len(a) == 3 && aRootPath(a[0]).eq(uv.with(fUCred)) && isM(a[2]) && len(mPath(a[2]).Fields) == 0 {
					credCall = call
				}
			}
		}
		if credCall == nil {
			c.Bad("R04.6", "agreement.unauthenticatedVote.verify:uv.Cred.Verify(proto, m)", c.Pos(fn.Pos()), "the vote's credential is not verified against the membership of its own sender/round/period/step")
			return
		}
		isBottom := func(v ssa.Value) bool {
			u, ok := v.(*ssa.UnOp)
			if !ok || u.Op != token.MUL {
				return false
			}
			g, ok := u.X.(*ssa.Global)
			return ok && g.Object() == c.Obj("agreement.bottom")
		}
		sigOK := func(v ssa.Value) bool {
			call, ok := v.(*ssa.Call)
			if !ok || !sameFunc(calleeOf(call.Common()), otsVerify) {
				return false
			}
			a := call.Common().Args
			return len(a) == 4 && isM(a[0], fVoteID) && aRootPath(strip(a[2])).eq(uv.with(fUR)) && aRootPath(a[3]).eq(uv.with(fUSig))
		}
		c.MustGuard(MustGuardSpec{Rule: "R04.6", Fn: fn, Effects: succ, EffName: "return(vote,nil)", Guards: []Guard{
			GErrNil("membership err==nil", isExtract(memCall, 1)),
			GErrNil("ConsensusParams err==nil", ResultOf(1, consParams)),
			GCmp("rv.Round>=VoteFirstValid", token.GEQ, aIsPath(rv("Round")), func(v ssa.Value) bool { return isM(v, fFirst) }),
			GBool("VoteID.Verify(id, uv.R, uv.Sig)", sigOK, true),
			GErrNil("uv.Cred.Verify err==nil", isExtract(credCall, 1)),
		}})
		c.MustGuard(MustGuardSpec{Rule: "R04.6", Fn: fn, Effects: succ, EffName: "return(vote,nil)",
			Guards: []Guard{GCmp("rv.Round<=VoteLastValid (unless 0)", token.LEQ, aIsPath(rv("Round")), func(v ssa.Value) bool { return isM(v, fLast) })},
			Bypass: []Guard{GCmp("VoteLastValid==0", token.EQL, func(v ssa.Value) bool { return isM(v, fLast) }, IsConstInt(0))}})
		for _, k := range []*types.Const{kPropose, kSoft, kCert} {
			c.MustGuard(MustGuardSpec{Rule: "R04.6", Fn: fn, Effects: succ, EffName: "return(vote,nil)[Step==" + k.Name() + "]",
				Guards: []Guard{GCmp("rv.Proposal!=bottom", token.NEQ, aIsPath(rv("Proposal")), isBottom)},
				Bypass: []Guard{GCmp("rv.Step!="+k.Name(), token.NEQ, aIsPath(rv("Step")), aConst(k))}})
		}
		// the returned vote
		okLit, n := true, 0
		for _, r := range succ {
			n++
			p := aRootPath(r.(*ssa.Return).Results[0])
			al, isAlloc := p.Root.(*ssa.Alloc)
			if !isAlloc || len(p.Fields) != 0 {
				okLit = false
				continue
			}
			lf := aLitFields(al)
			r0 := aOne(lf[c.Field("agreement.vote.R")])
			c0 := aOne(lf[c.Field("agreement.vote.Cred")])
			s0 := aOne(lf[c.Field("agreement.vote.Sig")])
			if r0 == nil || c0 == nil || s0 == nil || !aRootPath(r0).eq(uv.with(fUR)) || !isExtract(credCall, 0)(aRootPath(c0).Root) || len(aRootPath(c0).Fields) != 0 || !aRootPath(s0).eq(uv.with(fUSig)) {
				okLit = false
			}
		}
		c.Check(okLit && n > 0, "R04.6", "agreement.unauthenticatedVote.verify:vote{R:uv.R,Cred:verified,Sig:uv.Sig}", c.Pos(fn.Pos()), "the authenticated vote carries the checked raw vote and signature and the credential returned by Cred.Verify")
	}

	// ---- R04.7 unauthenticatedEquivocationVote.verify ----
	{
		fn := c.Fn("agreement.unauthenticatedEquivocationVote.verify")
		pair := aPath{Root: fn.Params[0]}
		fE := func(n string) *types.Var { return c.Field("agreement.unauthenticatedEquivocationVote." + n) }
		succ := aSuccessReturns(fn)
		elemIs := func(f *types.Var, i int64) VM {
			return func(v ssa.Value) bool {
				p, k, ok := aElem(v)
				return ok && k == i && p.eq(pair.with(f))
			}
		}
		guards := []Guard{GCmp("Proposals[0]!=Proposals[1]", token.NEQ, elemIs(fE("Proposals"), 0), elemIs(fE("Proposals"), 1))}
		seen := map[int64]*ssa.Call{}
		for _, ci := range CallsTo(fn, false, voteVerifyF) {
			call, ok := ci.(*ssa.Call)
			if !ok {
				continue
			}
			site := "agreement.unauthenticatedEquivocationVote.verify:uv_i.verify"
			a := call.Common().Args
			lit, isAlloc := aRootPath(a[0]).Root.(*ssa.Alloc)
			if len(a) != 2 || !isAlloc || len(aRootPath(a[0]).Fields) != 0 || a[1] != ssa.Value(fn.Params[1]) {
				c.Unk("R04.7", site, c.Pos(call.Pos()), "the verified vote is not a local literal: "+describe(a[0]))
				continue
			}
			lf := aLitFields(lit)
			r0 := aOne(lf[c.Field("agreement.unauthenticatedVote.R")])
			c0 := aOne(lf[c.Field("agreement.unauthenticatedVote.Cred")])
			s0 := aOne(lf[c.Field("agreement.unauthenticatedVote.Sig")])
			if r0 == nil || c0 == nil || s0 == nil {
				c.Unk("R04.7", site, c.Pos(call.Pos()), "could not resolve the fields of the verified vote")
				continue
			}
			_, sigIdx, okSig := aElem(s0)
			okSig = okSig && elemIs(fE("Sigs"), sigIdx)(s0)
			rl, isRL := aRootPath(r0).Root.(*ssa.Alloc)
			okR := isRL && len(aRootPath(r0).Fields) == 0
			propIdx := int64(-1)
			if okR {
				rf := aLitFields(rl)
				for _, pr := range [][2]string{{"Sender", "Sender"}, {"Round", "Round"}, {"Period", "Period"}, {"Step", "Step"}} {
					v := aOne(rf[c.Field("agreement.rawVote."+pr[0])])
					if v == nil || !aRootPath(v).eq(pair.with(fE(pr[1]))) {
						okR = false
					}
				}
				pv := aOne(rf[c.Field("agreement.rawVote.Proposal")])
				if pv == nil {
					okR = false
				} else if _, k, ok := aElem(pv); ok && elemIs(fE("Proposals"), k)(pv) {
					propIdx = k
				} else {
					okR = false
				}
			}
			okAll := okR && okSig && propIdx == sigIdx && aRootPath(c0).eq(pair.with(fE("Cred")))
			c.Check(okAll, "R04.7", site+"["+itoa(int(propIdx))+"]:built from pair fields with (Proposals[i],Sigs[i])", c.Pos(call.Pos()), "the verified vote takes sender, round, period, step and credential from the pair and proposal and signature of the same index")
			if okAll {
				seen[propIdx] = call
				cc := call
				guards = append(guards, GErrNil("verify(vote "+itoa(int(propIdx))+") err==nil", func(v ssa.Value) bool {
					e, ok := v.(*ssa.Extract)
					return ok && e.Tuple == ssa.Value(cc) && e.Index == 1
				}))
			}
		}
		c.Check(seen[0] != nil && seen[1] != nil, "R04.7", "agreement.unauthenticatedEquivocationVote.verify:both votes verified", c.Pos(fn.Pos()), "vote 0 and vote 1 of the pair are each verified")
		c.MustGuard(MustGuardSpec{Rule: "R04.7", Fn: fn, Effects: succ, EffName: "return(equivocationVote,nil)", Guards: guards})
		// the returned record
		okLit, n := true, 0
		for _, r := range succ {
			n++
			p := aRootPath(r.(*ssa.Return).Results[0])
			al, isAlloc := p.Root.(*ssa.Alloc)
			if !isAlloc || len(p.Fields) != 0 {
				okLit = false
				continue
			}
			lf := aLitFields(al)
			for _, name := range []string{"Sender", "Round", "Period", "Step", "Proposals", "Sigs"} {
				v := aOne(lf[c.Field("agreement.equivocationVote."+name)])
				if v == nil || !aRootPath(v).eq(pair.with(fE(name))) {
					okLit = false
				}
			}
			cv := aOne(lf[c.Field("agreement.equivocationVote.Cred")])
			if cv == nil {
				okLit = false
				continue
			}
			cp := aRootPath(cv)
			ex, isEx := cp.Root.(*ssa.Extract)
			if !isEx || ex.Index != 0 || len(cp.Fields) != 1 || cp.Fields[0] != c.Field("agreement.vote.Cred") || (ex.Tuple != ssa.Value(seen[0]) && ex.Tuple != ssa.Value(seen[1])) {
				okLit = false
			}
		}
		c.Check(okLit && n > 0, "R04.7", "agreement.unauthenticatedEquivocationVote.verify:equivocationVote{pair fields, Cred:verified}", c.Pos(fn.Pos()), "the authenticated pair carries the checked fields and a credential returned by one of the two verifications")
	}

	// ---- R04.8 the asynchronous verifier's response ----
	{
		fV := c.Field("agreement.asyncVerifyVoteResponse.v")
		fEV := c.Field("agreement.asyncVerifyVoteResponse.ev")
		fErr := c.Field("agreement.asyncVerifyVoteResponse.err")
		aOwnerStores(c, "R04.8", "store(asyncVerifyVoteResponse.v/ev)", aStoresIn(c, map[*types.Var]bool{fV: true, fEV: true}, "agreement"), map[string]string{
			"agreement.AsyncVoteVerifier.executeVoteVerification":   "worker: verifies a vote",
			"agreement.AsyncVoteVerifier.executeEqVoteVerification": "worker: verifies an equivocation pair",
		})
		for _, pr := range []struct {
			f      *types.Var
			verify *types.Func
		}{{fV, voteVerifyF}, {fEV, eqVerifyF}} {
			stores := aStoresIn(c, map[*types.Var]bool{pr.f: true}, "agreement")
			ok := len(stores) > 0
			for _, s := range stores {
				ex, isEx := aRootPath(s.Store.Val).Root.(*ssa.Extract)
				if !isEx || ex.Index != 0 || len(aRootPath(s.Store.Val).Fields) != 0 {
					ok = false
					continue
				}
				call, isCall := ex.Tuple.(*ssa.Call)
				if !isCall || !sameFunc(calleeOf(call.Common()), pr.verify) {
					ok = false
					continue
				}
				base := s.Store.Addr.(*ssa.FieldAddr).X
				ev := aOne(aLitFields(base)[fErr])
				if ev == nil {
					ok = false
					continue
				}
				ee, isEE := aRootPath(ev).Root.(*ssa.Extract)
				if !isEE || ee.Tuple != ssa.Value(call) || ee.Index != 1 {
					ok = false
				}
			}
			c.Check(ok, "R04.8", "asyncVerifyVoteResponse."+pr.f.Name()+"+err<=one "+funcObjName(pr.verify)+" call", "-", "the authenticated value and the error in a response come from the same verification call")
		}
	}

	// ---- R04.9 committee credential ----
	{
		fn := c.Fn("data/committee.UnauthenticatedCredential.Verify")
		fW := c.Field("data/committee.Credential.Weight")
		stores := StoresToField(fn, false, map[*types.Var]bool{fW: true})
		vrfVerify := c.Func("crypto.VrfPubkey.Verify")
		c.MustGuard(MustGuardSpec{Rule: "R04.9", Fn: fn, Effects: stores, EffName: "store(Credential.Weight)", Guards: []Guard{
			GBool("selectionKey.Verify(proof, selector) ok", ResultOf(0, vrfVerify), true),
		}})
		// the stored weight is non-zero on that path
		ok := len(stores) > 0
		for _, s := range stores {
			w := s.(*ssa.Store).Val
			g := GCmp("weight!=0", token.NEQ, IsV(w), IsConstInt(0))
			edges, m := PassEdges(fn, g)
			if m == 0 {
				ok = false
				continue
			}
			if NewReach(fn, edges, nil).Reaches(s) {
				ok = false
			}
		}
		c.Check(ok, "R04.9", "data/committee.UnauthenticatedCredential.Verify:store(Credential.Weight)<=weight!=0", c.Pos(fn.Pos()), "a credential is produced only for a non-zero weight")
	}
}

// aVerifyAsync checks unauthenticatedBundle.verifyAsync (R04.4) and the
// accepting future it returns (R04.5).
func aVerifyAsync(c *Ctx) {
	fn := c.Fn("agreement.unauthenticatedBundle.verifyAsync")
	fB := func(n string) *types.Var { return c.Field("agreement.unauthenticatedBundle." + n) }
	b := aPath{Root: fn.Params[0]}
	fU := c.Field("agreement.bundle.U")
	// the accepting future: the closure that builds a bundle{U: …}
	var accept *ssa.MakeClosure
	for _, in := range Instrs(fn, func(in ssa.Instruction) bool { _, ok := in.(*ssa.MakeClosure); return ok }) {
		mc := in.(*ssa.MakeClosure)
		if f, ok := mc.Fn.(*ssa.Function); ok && len(StoresToField(f, false, map[*types.Var]bool{fU: true})) > 0 {
			if accept != nil {
				c.Unk("R04.4", "agreement.unauthenticatedBundle.verifyAsync:accepting future", c.Pos(mc.Pos()), "more than one closure builds a bundle")
				return
			}
			accept = mc
		}
	}
	if accept == nil {
		c.Unk("R04.4", "agreement.unauthenticatedBundle.verifyAsync:accepting future", c.Pos(fn.Pos()), "no closure building bundle{U:…} found")
		return
	}
	var eff []ssa.Instruction
	for _, r := range aReturns(fn) {
		if len(r.Results) == 1 && r.Results[0] == ssa.Value(accept) {
			eff = append(eff, r)
		}
	}
	kPropose := c.Const("agreement.propose")
	threshold := c.Func("agreement.step.threshold")
	consParams := c.Func("agreement.LedgerReader.ConsensusParams")
	isThreshold := func(v ssa.Value) bool {
		call, ok := v.(*ssa.Call)
		if !ok || !sameFunc(calleeOf(call.Common()), threshold) {
			return false
		}
		return len(call.Common().Args) == 2 && aRootPath(call.Common().Args[0]).eq(b.with(fB("Step")))
	}
	lenOfField := func(f *types.Var) VM {
		return func(v ssa.Value) bool {
			x, ok := lenOf(strip(v))
			return ok && aRootPath(x).eq(b.with(f))
		}
	}
	sumLen := func(v ssa.Value) bool {
		bo, ok := v.(*ssa.BinOp)
		if !ok || bo.Op != token.ADD {
			return false
		}
		v1, v2 := lenOfField(fB("Votes")), lenOfField(fB("EquivocationVotes"))
		return v1(bo.X) && v2(bo.Y) || v1(bo.Y) && v2(bo.X)
	}
	c.MustGuard(MustGuardSpec{Rule: "R04.4", Fn: fn, Effects: eff, EffName: "return(accepting future)", Guards: []Guard{
		GCmp("b.Step!=propose", token.NEQ, aIsPath(b.with(fB("Step"))), aConst(kPropose)),
		GErrNil("ConsensusParams err==nil", ResultOf(1, consParams)),
		GCmp("len(b.Votes)<=b.Step.threshold(proto)", token.LEQ, lenOfField(fB("Votes")), isThreshold),
		GCmp("len(b.EquivocationVotes)<=b.Step.threshold(proto)", token.LEQ, lenOfField(fB("EquivocationVotes")), isThreshold),
		GCmp("len(b.Votes)+len(b.EquivocationVotes)<=b.Step.threshold(proto)", token.LEQ, sumLen, isThreshold),
	}})

	// duplicate senders
	maps := map[ssa.Value]bool{}
	for _, pr := range []struct {
		slice  *types.Var
		sender *types.Var
	}{
		{fB("Votes"), c.Field("agreement.voteAuthenticator.Sender")},
		{fB("EquivocationVotes"), c.Field("agreement.equivocationVoteAuthenticator.Sender")},
	} {
		name := "b." + pr.slice.Name()
		var lookups []*ssa.Lookup
		for _, in := range Instrs(fn, func(in ssa.Instruction) bool {
			l, ok := in.(*ssa.Lookup)
			if !ok || l.CommaOk {
				return false
			}
			_, isEl := aRangeElem(l.Index, b.with(pr.slice), pr.sender)
			return isEl
		}) {
			lookups = append(lookups, in.(*ssa.Lookup))
		}
		if len(lookups) == 0 {
			c.Bad("R04.4", "agreement.unauthenticatedBundle.verifyAsync:seen["+name+"[i].Sender] test", c.Pos(fn.Pos()), "no duplicate-sender test over "+name)
			continue
		}
		g := GBool("!seen["+name+"[i].Sender]", func(v ssa.Value) bool {
			for _, l := range lookups {
				if v == ssa.Value(l) {
					return true
				}
			}
			return false
		}, false)
		aFailDead(c, "R04.4", fn, g, eff, "return(accepting future)")
		// the sender is recorded on the passing edge
		okRec := true
		for _, l := range lookups {
			maps[l.X] = true
			pass, m := PassEdges(fn, GBool("x", IsV(l), false))
			rec := false
			if m == 1 && len(pass) == 1 {
				succ := pass[0].From.Succs[pass[0].Idx]
				for _, in := range Instrs(fn, func(in ssa.Instruction) bool { _, ok := in.(*ssa.MapUpdate); return ok }) {
					mu := in.(*ssa.MapUpdate)
					_, isEl := aRangeElem(mu.Key, b.with(pr.slice), pr.sender)
					if mu.Map == l.X && isEl && IsConstBool(true)(mu.Value) && len(succ.Preds) == 1 && (succ == mu.Block() || succ.Dominates(mu.Block())) {
						rec = true
					}
				}
			}
			if !rec {
				okRec = false
			}
		}
		c.Check(okRec, "R04.4", "agreement.unauthenticatedBundle.verifyAsync:seen["+name+"[i].Sender]=true", c.Pos(lookups[0].Pos()), "a sender that passed the duplicate test is recorded in the same set")
	}
	c.Check(len(maps) == 1, "R04.4", "agreement.unauthenticatedBundle.verifyAsync:one sender set for votes and equivocation pairs", c.Pos(fn.Pos()), "both lists are tested against one shared set, so a sender cannot appear once in each")

	// what is submitted for verification
	var resultsChan ssa.Value
	chanOK := true
	noteChan := func(v ssa.Value) {
		r := aRootPath(v).Root
		if resultsChan == nil {
			resultsChan = r
		} else if resultsChan != r {
			chanOK = false
		}
	}
	for _, ci := range CallsTo(fn, false, c.Func("agreement.AsyncVoteVerifier.verifyVote")) {
		a := ci.Common().Args
		site := "agreement.unauthenticatedBundle.verifyAsync:verifyVote(uv)"
		if len(a) != 7 {
			c.Unk("R04.4", site, c.Pos(ci.Pos()), "unexpected arity")
			continue
		}
		noteChan(a[6])
		lit, isAlloc := aRootPath(a[3]).Root.(*ssa.Alloc)
		ok := isAlloc && len(aRootPath(a[3]).Fields) == 0 && a[2] == ssa.Value(fn.Params[2])
		if ok {
			lf := aLitFields(lit)
			r0 := aOne(lf[c.Field("agreement.unauthenticatedVote.R")])
			c0 := aOne(lf[c.Field("agreement.unauthenticatedVote.Cred")])
			s0 := aOne(lf[c.Field("agreement.unauthenticatedVote.Sig")])
			ok = r0 != nil && c0 != nil && s0 != nil
			if ok {
				ia1, ok1 := aRangeElem(c0, b.with(fB("Votes")), c.Field("agreement.voteAuthenticator.Cred"))
				ia2, ok2 := aRangeElem(s0, b.with(fB("Votes")), c.Field("agreement.voteAuthenticator.Sig"))
				rl, isRL := aRootPath(r0).Root.(*ssa.Alloc)
				ok = ok1 && ok2 && ia1 == ia2 && isRL && len(aRootPath(r0).Fields) == 0
				if ok {
					rf := aLitFields(rl)
					for _, n := range []string{"Round", "Period", "Step", "Proposal"} {
						v := aOne(rf[c.Field("agreement.rawVote."+n)])
						if v == nil || !aRootPath(v).eq(b.with(fB(n))) {
							ok = false
						}
					}
					sv := aOne(rf[c.Field("agreement.rawVote.Sender")])
					ia3, ok3 := (*ssa.IndexAddr)(nil), false
					if sv != nil {
						ia3, ok3 = aRangeElem(sv, b.with(fB("Votes")), c.Field("agreement.voteAuthenticator.Sender"))
					}
					ok = ok && ok3 && ia3 == ia1
				}
			}
		}
		c.Check(ok, "R04.4", site+"<=rawVote{b.Round,b.Period,b.Step,b.Proposal}+b.Votes[i]{Sender,Cred,Sig}", c.Pos(ci.Pos()), "each vote is verified for the bundle's claimed round, period, step and proposal with sender, credential and signature of one list element")
	}
	for _, ci := range CallsTo(fn, false, c.Func("agreement.AsyncVoteVerifier.verifyEqVote")) {
		a := ci.Common().Args
		site := "agreement.unauthenticatedBundle.verifyAsync:verifyEqVote(uev)"
		if len(a) != 7 {
			c.Unk("R04.4", site, c.Pos(ci.Pos()), "unexpected arity")
			continue
		}
		noteChan(a[6])
		lit, isAlloc := aRootPath(a[3]).Root.(*ssa.Alloc)
		ok := isAlloc && len(aRootPath(a[3]).Fields) == 0 && a[2] == ssa.Value(fn.Params[2])
		if ok {
			lf := aLitFields(lit)
			for _, n := range []string{"Round", "Period", "Step"} {
				v := aOne(lf[c.Field("agreement.unauthenticatedEquivocationVote."+n)])
				if v == nil || !aRootPath(v).eq(b.with(fB(n))) {
					ok = false
				}
			}
			var ia0 *ssa.IndexAddr
			for _, n := range []string{"Sender", "Cred", "Proposals", "Sigs"} {
				v := aOne(lf[c.Field("agreement.unauthenticatedEquivocationVote."+n)])
				if v == nil {
					ok = false
					continue
				}
				ia, isEl := aRangeElem(v, b.with(fB("EquivocationVotes")), c.Field("agreement.equivocationVoteAuthenticator."+n))
				if !isEl || (ia0 != nil && ia != ia0) {
					ok = false
				}
				ia0 = ia
			}
		}
		c.Check(ok, "R04.4", site+"<={b.Round,b.Period,b.Step}+b.EquivocationVotes[i]{Sender,Cred,Proposals,Sigs}", c.Pos(ci.Pos()), "each pair is verified for the bundle's claimed round, period and step with the fields of one list element")
	}
	// the future reads the channel the answers are sent on
	acceptFn := accept.Fn.(*ssa.Function)
	{
		ok := chanOK && resultsChan != nil
		var fv *ssa.FreeVar
		if ok {
			ok = false
			for i, bind := range accept.Bindings {
				if al, isAlloc := bind.(*ssa.Alloc); isAlloc {
					if st := localStores(al); len(st) == 1 && st[0] == resultsChan {
						fv = acceptFn.FreeVars[i]
						ok = true
					}
				}
			}
		}
		recvOK := false
		if fv != nil {
			for _, in := range Instrs(acceptFn, func(in ssa.Instruction) bool { _, ok := in.(*ssa.Select); return ok }) {
				for _, st := range in.(*ssa.Select).States {
					if st.Dir == types.RecvOnly && aRootPath(st.Chan).Root == ssa.Value(fv) {
						recvOK = true
					}
				}
			}
		}
		c.Check(ok && recvOK, "R04.4", "agreement.unauthenticatedBundle.verifyAsync:results channel shared with the accepting future", c.Pos(accept.Pos()), "verification answers are sent on the channel the accepting future receives from")
	}

	// ---- R04.5 the accepting future ----
	var bFree *ssa.FreeVar
	for i, bind := range accept.Bindings {
		if al, isAlloc := bind.(*ssa.Alloc); isAlloc {
			if st := localStores(al); len(st) == 1 && st[0] == ssa.Value(fn.Params[0]) {
				bFree = acceptFn.FreeVars[i]
			}
		}
	}
	if bFree == nil {
		c.Unk("R04.5", "agreement.unauthenticatedBundle.verifyAsync$accept:b", c.Pos(accept.Pos()), "the accepting future does not capture the bundle being verified")
		return
	}
	bb := aPath{Root: bFree}
	reaches := c.Func("agreement.step.reachesQuorum")
	// accepting returns: those that return the bundle{U:…} literal (ctx.Err() returns carry the zero bundle)
	var succ []ssa.Instruction
	for _, r := range aReturns(acceptFn) {
		if al, isAlloc := aRootPath(r.Results[0]).Root.(*ssa.Alloc); isAlloc && len(aLitFields(al)[fU]) > 0 {
			succ = append(succ, r)
		}
	}
	var qcalls []*ssa.Call
	for _, ci := range CallsTo(acceptFn, false, reaches) {
		if call, ok := ci.(*ssa.Call); ok && len(call.Common().Args) == 3 && aRootPath(call.Common().Args[0]).eq(bb.with(fB("Step"))) {
			qcalls = append(qcalls, call)
		}
	}
	if len(qcalls) != 1 {
		c.Bad("R04.5", "agreement.unauthenticatedBundle.verifyAsync$accept:b.Step.reachesQuorum(proto, weight)", c.Pos(acceptFn.Pos()), "expected exactly one quorum test on the bundle's own step, found "+itoa(len(qcalls)))
		return
	}
	q := qcalls[0]
	c.MustGuard(MustGuardSpec{Rule: "R04.5", Fn: acceptFn, Effects: succ, EffName: "return(bundle{U:b,…})", Guards: []Guard{GBool("b.Step.reachesQuorum(proto, weight)", IsV(q), true)}})
	// weight = 0 + Σ response.{v|ev}.Cred.Weight
	fWeight := c.Field("data/committee.Credential.Weight")
	fErr := c.Field("agreement.asyncVerifyVoteResponse.err")
	var adds []ssa.Instruction
	var respRoot ssa.Value
	okW := true
	seenV := map[ssa.Value]bool{}
	var walk func(v ssa.Value)
	walk = func(v ssa.Value) {
		if seenV[v] {
			return
		}
		seenV[v] = true
		switch x := v.(type) {
		case *ssa.Phi:
			for _, e := range x.Edges {
				walk(e)
			}
		case *ssa.Const:
			if !IsConstInt(0)(x) {
				okW = false
			}
		case *ssa.BinOp:
			if x.Op != token.ADD {
				okW = false
				return
			}
			acc, w := x.X, x.Y
			if aRootPath(acc).last() == fWeight {
				acc, w = w, acc
			}
			wp := aRootPath(w)
			if wp.last() != fWeight || len(wp.Fields) != 3 {
				okW = false
				return
			}
			if respRoot == nil {
				respRoot = wp.Root
			} else if respRoot != wp.Root {
				okW = false
			}
			adds = append(adds, x)
			walk(acc)
		default:
			okW = false
		}
	}
	walk(q.Common().Args[2])
	c.Check(okW && len(adds) > 0, "R04.5", "agreement.unauthenticatedBundle.verifyAsync$accept:weight=0+Σresponse.Cred.Weight", c.Pos(q.Pos()), "the weight tested for quorum is built from zero only by adding the credential weights of received responses ("+itoa(len(adds))+" addition site(s))")
	if respRoot != nil {
		isSel := false
		if ex, isEx := respRoot.(*ssa.Extract); isEx {
			_, isSel = ex.Tuple.(*ssa.Select)
		}
		c.Check(isSel, "R04.5", "agreement.unauthenticatedBundle.verifyAsync$accept:response<=select(results)", c.Pos(acceptFn.Pos()), "the weighed response is the one received from the results channel")
		c.MustGuard(MustGuardSpec{Rule: "R04.5", Fn: acceptFn, Effects: adds, EffName: "weight+=response.Cred.Weight", Guards: []Guard{
			GErrNil("response.err==nil", aIsPath(aPath{Root: respRoot, Fields: []*types.Var{fErr}})),
		}})
	}
	okU := false
	for _, s := range StoresToField(acceptFn, false, map[*types.Var]bool{fU: true}) {
		okU = aRootPath(s.(*ssa.Store).Val).eq(bb)
	}
	c.Check(okU, "R04.5", "agreement.unauthenticatedBundle.verifyAsync$accept:bundle.U<=b", c.Pos(acceptFn.Pos()), "the authenticated bundle wraps the bundle that was verified")
}
