package main

import "go/types"

// Centrally maintained rules attached to properties whose main rule files were
// written separately: lockset tables (T8), determinism closures (T11) and the
// slice-aliasing rule.

func init() {
	extend("C08", Extension{
		Run: func(c *Ctx) {
			lockAccountUpdates(c, "R08.2")
			c.OwnerRule("R08.2", "literal(accountUpdatesLedgerEvaluator)", c.Literals(c.Named("ledger.accountUpdatesLedgerEvaluator"), true, ScanOpts{SkipGenerated: true}),
				map[string]string{"ledger.trackerRegistry.replay": "the lock-free ledger emulator exists only during replay at (re)initialisation"})
		},
		Explanation: "R08.2 (lockset, flow-sensitive must-hold analysis per function and per constant value of the `synchronized` parameter): cachedDBRound, deltas, accounts, resources, kvStore, creatables, versions, roundTotals, deltasAccum of accountUpdates are read only with accountsMu held (shared or exclusive) and written only with it held exclusively; helpers that rely on the caller's lock are checked at every call site; the only exempt accessor is the replay-time accountUpdatesLedgerEvaluator, which is constructed only in trackerRegistry.replay.",
		Floor:       map[string]int{"R08.2": 30},
	})
	extend("C08", Extension{
		Run: func(c *Ctx) {
			ruleLRUFreshness(c, "R08.6", "ledger.lruAccounts.write", "ledger.lruResources.write", "ledger.lruKV.write")
		},
		Explanation: "R08.6 (cache freshness, sibling rule over the LRU caches): in lruAccounts/lruResources/lruKV.write an entry already in the cache is overwritten only on the true edge of cached.Before(new) (so a late, older DB row queued by a reader can never replace the row written by a newer commit), and each Before is `receiver.Round < other.Round`.",
		Floor:       map[string]int{"R08.6": 6},
	})
	extend("C07", Extension{
		Run:         ruleC07Generated,
		Explanation: "R07.2 (generated code agreement, via the msgp extractor shared with C40): for every struct type of package agreement that has generated MarshalMsg/UnmarshalMsgWithState — the persisted player, routers, trackers, stores and actions among them — the keys emitted by the encoder, the case labels accepted by the decoder and go-codec's effective field names of the struct are the same set, so a stale msgp_gen.go cannot silently drop or rename a persisted field.",
		Floor:       map[string]int{"R07.2": 30},
	})
	extend("C13", Extension{
		Run: func(c *Ctx) {
			ruleLRUFreshness(c, "R13.5", "ledger.lruOnlineAccounts.write")
		},
		Explanation: "R13.5: lruOnlineAccounts.write replaces a cached row only when cached.Before(new) (UpdRound order).",
		Floor:       map[string]int{"R13.5": 2},
	})
	extend("C13", Extension{
		Run:         func(c *Ctx) { lockOnlineAccounts(c, "R13.4") },
		Explanation: "R13.4 (lockset): cachedDBRoundOnline, deltas, accounts, onlineRoundParamsData, deltasAccum of onlineAccounts are touched only under accountsMu (writes exclusively).",
		Floor:       map[string]int{"R13.4": 15},
	})
	extend("C11", Extension{
		Run:         func(c *Ctx) { lockTxTail(c, "R11.4") },
		Explanation: "R11.4 (lockset): lastValid, recent, lowWaterMark, roundTailHashes, roundTailSerializedDeltas, blockHeaderData of txTail are touched only under tailMu (writes exclusively), per the struct comment.",
		Floor:       map[string]int{"R11.4": 7},
	})
	extend("C09", Extension{
		Run:         func(c *Ctx) { lockBlockQueue(c, "R09.8") },
		Explanation: "R09.8 (lockset): blockQueue.q, lastCommitted and running are touched only under blockQueue.mu.",
		Floor:       map[string]int{"R09.8": 7},
	})
	extend("C44", Extension{
		Run:         func(c *Ctx) { lockTxPool(c, "R44.4") },
		Explanation: "R44.4 (lockset): pendingBlockEvaluator, rememberedTxGroups, rememberedTxids, numPendingWholeBlocks of TransactionPool are touched only under pool.mu (constructor exempt). The pendingMu table is not armed (TransactionPool.Reset rewrites pendingTx* under mu only; outside what C44 states).",
		Floor:       map[string]int{"R44.4b": 12},
	})
	extend("C20", Extension{
		Run:         func(c *Ctx) { determinismEval(c, "R20.2") },
		Explanation: "R20.2 (determinism over the call closure of StartEvaluator/TransactionGroup/endOfBlock/GenerateBlock/Eval inside the evaluator packages, interface calls resolved to every module implementation): no call to time.Now/Since, math/rand, crypto/rand, os.Getenv, runtime.NumCPU…; every `range` over a map is order-insensitive by construction (keyed writes, commutative accumulation, collect-then-sort, error-only exits) or is in the reviewed table with its reason — a new or unrecognised map iteration fails until reviewed.",
		Floor:       map[string]int{"R20.2m": 20, "R20.2n": 1},
	})
	extend("C19", Extension{
		Run:         func(c *Ctx) { ruleBoxContentsImmutable(c, "R19.6") },
		Explanation: "R19.6 (slice-aliasing taint): the byte slice returned by LedgerForLogic.GetBox aliases the parent copy-on-write state; tracked through extracts, phis, re-slices, locals, parameters and results of package logic, it is never the destination of copy(), an element store or append() — so a failed group cannot leave modified box bytes behind.",
		Floor:       map[string]int{"R19.6": 2},
		Patterns:    []string{"./data/transactions/logic"},
	})
}

// ruleC07Generated: R07.2 — encoder keys == decoder labels == struct tags for
// every generated struct type of package agreement.
func ruleC07Generated(c *Ctx) {
	m := hMsgpExtract(c)
	names := []string{}
	for n := range m.ByName {
		if len(n) > 10 && n[:10] == "agreement." {
			names = append(names, n)
		}
	}
	sortStrings(names)
	for _, n := range names {
		g := m.ByName[n]
		pos := c.Pos(g.Named.Obj().Pos())
		if len(g.Problems) > 0 {
			c.Unk("R07.2", n, pos, "generated code not understood: "+g.Problems[0])
			continue
		}
		if _, isStruct := g.Named.Underlying().(*types.Struct); !isStruct {
			continue
		}
		if g.MarshalForwards || g.UnmarshalForwards {
			c.Ok("R07.2", n, pos, "forwards to another generated type")
			continue
		}
		b, s := g.TopBlock(), g.TopSwitch()
		if b == nil || s == nil {
			c.Unk("R07.2", n, pos, "no top-level map block / field switch found in the generated code")
			continue
		}
		if len(b.Problems) > 0 || len(s.Problems) > 0 {
			p := append(append([]string{}, b.Problems...), s.Problems...)
			c.Unk("R07.2", n, pos, "generated code not understood: "+p[0])
			continue
		}
		want := map[string]bool{}
		for _, f := range b.S.Names() {
			want[f] = true
		}
		enc := map[string]bool{}
		for _, k := range b.Keys {
			enc[k.Name] = true
		}
		dec := map[string]bool{}
		for _, cs := range s.Cases {
			for _, l := range cs.Labels {
				dec[l] = true
			}
		}
		diff := ""
		for f := range want {
			if !enc[f] {
				diff += " encoder misses " + f + ";"
			}
			if !dec[f] {
				diff += " decoder misses " + f + ";"
			}
		}
		for f := range enc {
			if !want[f] {
				diff += " encoder emits unknown key " + f + ";"
			}
		}
		for f := range dec {
			if !want[f] {
				diff += " decoder accepts unknown key " + f + ";"
			}
		}
		c.Check(diff == "", "R07.2", n, pos, "encoder keys, decoder labels and codec field names agree ("+itoa(len(want))+" fields)"+diff)
	}
}

func sortStrings(s []string) {
	for i := 1; i < len(s); i++ {
		for j := i; j > 0 && s[j] < s[j-1]; j-- {
			s[j], s[j-1] = s[j-1], s[j]
		}
	}
}
